import RtVerif.Model.C16
/-
  C16 — helper lemmas: the configuration factgen read, the reader/heap frame lemmas, the loops of
  pipeCSV / bufferedCSV at record level, the container's heap invariant, the reflect calls.
-/
namespace RtVerif.C16
open RtVerif Bytes

/-! ## The configuration of the working tree -/

/-- what `Cfg.repo` must evaluate to for the theorems to hold (the repaired csv.go) -/
def Cfg.fixed : Cfg where
  consCases := [⟨.csvPtr, false, true, false⟩, ⟨.csvIface, false, false, false⟩, ⟨.io, false, true, false⟩,
    ⟨.xfer, false, true, true⟩, ⟨.bin, false, true, true⟩, ⟨.table, false, false, false⟩,
    ⟨.bytes, false, true, true⟩, ⟨.str, false, true, true⟩]
  prodCases := [⟨.csvPtr, true, false, false⟩, ⟨.csvIface, false, false, false⟩, ⟨.io, true, false, false⟩,
    ⟨.xfer, true, false, false⟩, ⟨.bin, true, false, true⟩, ⟨.table, false, false, false⟩,
    ⟨.bytes, true, false, true⟩, ⟨.str, true, false, true⟩]
  consReaderOpts := true
  prodWriterOpts := true
  consNilGuard := true
  prodNilGuard := true
  consExact := true
  prodExact := true
  tableOps := [.setLen0, .growN, .setCapN, .setLenN, .copy]
  clones := true
  wtCloseWithErr := true

/-- The regenerated facts say exactly this. If csv.go changes shape (a clause reordered, an
`applyToReader` dropped, the `SetLen(0)` or the copy in the container removed …) this stops
checking, and every property theorem with it. -/
theorem repo_is_fixed : Cfg.repo = Cfg.fixed := by decide

/-! ## Reader and heap -/

theorem take_append_drop_self (r old : List Field) : (r ++ old.drop r.length).take r.length = r := by
  simp

theorem deref_readRec (reuse : Bool) (rs : RState) (r : Record) :
    (readRec reuse rs r).1.heap.deref (readRec reuse rs r).2 = r := by
  unfold readRec
  split
  · simp [freshRec, Heap.alloc, Heap.deref]
  · split
    · simp [freshRec, Heap.alloc, Heap.deref]
    · simp [Heap.store, Heap.deref]

theorem readRec_len (reuse : Bool) (rs : RState) (r : Record) : (readRec reuse rs r).2.len = r.length := by
  unfold readRec
  split
  · simp [freshRec]
  · split <;> simp [freshRec]

/-- the reader's array, if any, is allocated -/
def RState.ok (rs : RState) : Prop := ∀ l, rs.last = some l → l.arr < rs.heap.next

/-- `a` is not the array the reader may overwrite -/
def RState.avoids (rs : RState) (a : Nat) : Prop := ∀ l, rs.last = some l → a ≠ l.arr

theorem readRec_next (reuse : Bool) (rs : RState) (r : Record) :
    rs.heap.next ≤ (readRec reuse rs r).1.heap.next := by
  unfold readRec
  split
  · simp [freshRec, Heap.alloc]
  · split <;> simp [freshRec, Heap.alloc, Heap.store]

theorem readRec_ok (reuse : Bool) (rs : RState) (r : Record) (h : rs.ok) : (readRec reuse rs r).1.ok := by
  unfold readRec
  split
  · intro l hl
    simp only [freshRec, Heap.alloc] at hl ⊢
    split at hl
    · simp only [Option.some.injEq] at hl; subst hl; simp
    · simp at hl
  · rename_i l0 hl0
    split
    · intro l hl
      simp only [freshRec, Heap.alloc] at hl ⊢
      split at hl
      · simp only [Option.some.injEq] at hl; subst hl; simp
      · simp at hl
    · intro l hl
      simp only [Option.some.injEq] at hl
      subst hl
      simp only [Heap.store]
      have : rs.last = some l0 := by
        split at hl0
        · exact hl0
        · simp at hl0
      exact h l0 this

/-- frame: arrays the reader does not own keep their cells -/
theorem readRec_frame (reuse : Bool) (rs : RState) (r : Record) (a : Nat) (ha : a < rs.heap.next)
    (hav : rs.avoids a) : (readRec reuse rs r).1.heap.cell a = rs.heap.cell a := by
  unfold readRec
  split
  · simp only [freshRec, Heap.alloc]
    have : a ≠ rs.heap.next := by omega
    simp [this]
  · rename_i l0 hl0
    have hl : rs.last = some l0 := by
      split at hl0
      · exact hl0
      · simp at hl0
    split
    · simp only [freshRec, Heap.alloc]
      have : a ≠ rs.heap.next := by omega
      simp [this]
    · simp only [Heap.store]
      have : a ≠ l0.arr := hav l0 hl
      simp [this]

/-- after a read, an allocated array the reader avoided is still avoided -/
theorem readRec_avoids (reuse : Bool) (rs : RState) (r : Record) (a : Nat) (ha : a < rs.heap.next)
    (hav : rs.avoids a) : (readRec reuse rs r).1.avoids a := by
  unfold readRec
  split
  · intro l hl
    simp only [freshRec] at hl
    split at hl
    · simp only [Option.some.injEq] at hl; subst hl; simp; omega
    · simp at hl
  · rename_i l0 hl0
    have hl0' : rs.last = some l0 := by
      split at hl0
      · exact hl0
      · simp at hl0
    split
    · intro l hl
      simp only [freshRec] at hl
      split at hl
      · simp only [Option.some.injEq] at hl; subst hl; simp; omega
      · simp at hl
    · intro l hl
      simp only [Option.some.injEq] at hl
      subst hl
      exact hav l0 hl0'

/-! ## pipeCSV / bufferedCSV at record level -/

/-- a writer whose environment is not scripted to fail -/
def Wr.clean : Wr → Bool
  | .std w fails => validDelim w.comma && !fails
  | .custom failAt flushErr => failAt.isNone && !flushErr
  | .container => true

def termErr : Term → Option Bytes
  | .eof => none
  | .err e => some e

theorem wWrite_clean (c : Bool) (wr : Wr) (h : Heap) (nw : Nat) (s : Slice) (hc : wr.clean = true) :
    ∃ hk, wWrite c wr h nw s = .ok hk := by
  cases wr with
  | std w fails =>
    simp only [Wr.clean, Bool.and_eq_true] at hc
    simp [wWrite, hc.1]
  | custom failAt flushErr =>
    simp only [Wr.clean, Bool.and_eq_true, Option.isNone_iff_eq_none] at hc
    simp [wWrite, hc.1]
  | container =>
    simp only [wWrite]
    split <;> exact ⟨_, rfl⟩

theorem wFinish_clean (wr : Wr) (nw : Nat) (hc : wr.clean = true) : wFinish wr nw = none := by
  cases wr with
  | std w fails =>
    simp only [Wr.clean, Bool.and_eq_true, Bool.not_eq_true'] at hc
    simp [wFinish, hc.2]
  | custom failAt flushErr =>
    simp only [Wr.clean, Bool.and_eq_true, Bool.not_eq_true'] at hc
    simp [wFinish, hc.2]
  | container => rfl

/-- success means: the stream ended in eof, every record was written, and Flush was called -/
theorem pipeLoop_ok (c reuse : Bool) (wr : Wr) (t : Term) (recs : List Record) :
    ∀ rs nw, (pipeLoop c reuse wr t rs nw recs).err = none →
      t = .eof ∧ (pipeLoop c reuse wr t rs nw recs).vals = recs ∧
      (pipeLoop c reuse wr t rs nw recs).flushed = true := by
  induction recs with
  | nil =>
    intro rs nw h
    cases t with
    | eof => simp [pipeLoop]
    | err e => simp [pipeLoop] at h
  | cons r more ih =>
    intro rs nw h
    simp only [pipeLoop] at h ⊢
    cases hw : wWrite c wr (readRec reuse rs r).1.heap nw (readRec reuse rs r).2 with
    | error e => simp [hw] at h
    | ok hk =>
      obtain ⟨hp, kept⟩ := hk
      simp only [hw] at h ⊢
      have := ih _ _ h
      exact ⟨this.1, by rw [this.2.1, deref_readRec], this.2.2⟩

theorem pipeLoop_clean (c reuse : Bool) (wr : Wr) (t : Term) (hc : wr.clean = true) (recs : List Record) :
    ∀ rs nw, (pipeLoop c reuse wr t rs nw recs).err = termErr t ∧
      (pipeLoop c reuse wr t rs nw recs).vals = recs := by
  induction recs with
  | nil =>
    intro rs nw
    cases t with
    | eof => simp [pipeLoop, termErr, wFinish_clean wr nw hc]
    | err e => simp [pipeLoop, termErr]
  | cons r more ih =>
    intro rs nw
    simp only [pipeLoop]
    obtain ⟨hk, hw⟩ := wWrite_clean c wr (readRec reuse rs r).1.heap nw (readRec reuse rs r).2 hc
    obtain ⟨hp, kept⟩ := hk
    simp only [hw]
    have := ih ⟨hp, (readRec reuse rs r).1.last⟩ (nw + 1)
    exact ⟨this.1, by rw [this.2, deref_readRec]⟩

theorem pipeLoop_term_err (c reuse : Bool) (wr : Wr) (e : Bytes) (recs : List Record) :
    ∀ rs nw, ((pipeLoop c reuse wr (.err e) rs nw recs).err).isSome = true := by
  induction recs with
  | nil => intro rs nw; simp [pipeLoop]
  | cons r more ih =>
    intro rs nw
    simp only [pipeLoop]
    cases hw : wWrite c wr (readRec reuse rs r).1.heap nw (readRec reuse rs r).2 with
    | error e' => simp
    | ok hk =>
      obtain ⟨hp, kept⟩ := hk
      simp only
      exact ih _ _

/-- a failing sink goes unnoticed only when nothing was written (bufio has nothing to flush) -/
theorem pipeLoop_failing_sink (c reuse : Bool) (w : WOpts) (t : Term) (recs : List Record) :
    ∀ rs nw, (pipeLoop c reuse (.std w true) t rs nw recs).err = none → nw + recs.length = 0 := by
  induction recs with
  | nil =>
    intro rs nw h
    cases t with
    | eof =>
      simp only [pipeLoop, wFinish, Bool.true_and] at h
      split at h
      · simp at h
      · rename_i hn; simp at hn; simp [hn]
    | err e => simp [pipeLoop] at h
  | cons r more ih =>
    intro rs nw h
    simp only [pipeLoop] at h
    cases hw : wWrite c (.std w true) (readRec reuse rs r).1.heap nw (readRec reuse rs r).2 with
    | error e => simp [hw] at h
    | ok hk =>
      obtain ⟨hp, kept⟩ := hk
      simp only [hw] at h
      have := ih _ _ h
      omega

theorem skipLoop_snd (reuse : Bool) (k : Nat) :
    ∀ rs l, (skipLoop reuse k rs l).2 = if k ≤ l.length then some (l.drop k) else none := by
  induction k with
  | zero => intro rs l; simp [skipLoop]
  | succ k ih =>
    intro rs l
    cases l with
    | nil => simp [skipLoop]
    | cons r l => simp [skipLoop, ih]

theorem skipLoop_ok (reuse : Bool) (k : Nat) :
    ∀ rs l, rs.ok → (skipLoop reuse k rs l).1.ok := by
  induction k with
  | zero => intro rs l h; simpa [skipLoop] using h
  | succ k ih =>
    intro rs l h
    cases l with
    | nil => simpa [skipLoop] using h
    | cons r l =>
      simp only [skipLoop]
      exact ih _ _ (readRec_ok reuse rs r h)

theorem drop_eq_nil_of_lt {α} (l : List α) (k : Nat) (h : ¬ k ≤ l.length) : l.drop k = [] :=
  List.drop_eq_nil_of_le (by omega)

/-- pipeCSV succeeded: the parse ended in eof and exactly `drop skip records` were written -/
theorem pipeCSV_ok (c reuse : Bool) (wr : Wr) (skip : Nat) (ev : Events)
    (h : (pipeCSV c reuse wr skip ev).err = none) :
    ev.term = .eof ∧ (pipeCSV c reuse wr skip ev).vals = expected ev skip ∧
    ((pipeCSV c reuse wr skip ev).flushed = true ∨ expected ev skip = []) := by
  unfold pipeCSV at h ⊢
  have hs := skipLoop_snd reuse skip ⟨Heap.empty, none⟩ ev.recs
  cases hsk : skipLoop reuse skip ⟨Heap.empty, none⟩ ev.recs with
  | mk rs o =>
    rw [hsk] at hs
    simp only at hs
    cases o with
    | none =>
      simp only [hsk] at h ⊢
      have hlt : ¬ skip ≤ ev.recs.length := by
        intro hle; simp [hle] at hs
      cases ht : ev.term with
      | eof => simp [exhausted, expected, drop_eq_nil_of_lt _ _ hlt]
      | err e => simp [exhausted, ht] at h
    | some rest =>
      simp only [hsk] at h ⊢
      have hrest : rest = ev.recs.drop skip := by
        split at hs
        · simpa using hs
        · simp at hs
      have := pipeLoop_ok c reuse wr ev.term rest rs 0 h
      exact ⟨this.1, by rw [this.2.1, hrest]; rfl, Or.inl this.2.2⟩

theorem pipeCSV_clean (c reuse : Bool) (wr : Wr) (skip : Nat) (ev : Events) (hc : wr.clean = true) :
    (pipeCSV c reuse wr skip ev).err = termErr ev.term := by
  unfold pipeCSV
  cases hsk : skipLoop reuse skip ⟨Heap.empty, none⟩ ev.recs with
  | mk rs o =>
    cases o with
    | none => cases ht : ev.term <;> simp [exhausted, termErr]
    | some rest => exact (pipeLoop_clean c reuse wr ev.term hc rest rs 0).1

theorem pipeCSV_term_err (c reuse : Bool) (wr : Wr) (skip : Nat) (ev : Events) (e : Bytes)
    (ht : ev.term = .err e) : ((pipeCSV c reuse wr skip ev).err).isSome = true := by
  unfold pipeCSV
  cases hsk : skipLoop reuse skip ⟨Heap.empty, none⟩ ev.recs with
  | mk rs o =>
    cases o with
    | none => simp [exhausted, ht]
    | some rest => simp only [ht]; exact pipeLoop_term_err c reuse wr e rest rs 0

theorem pipeCSV_failing_sink (c reuse : Bool) (w : WOpts) (skip : Nat) (ev : Events)
    (h : (pipeCSV c reuse (.std w true) skip ev).err = none) : expected ev skip = [] := by
  have hs := skipLoop_snd reuse skip ⟨Heap.empty, none⟩ ev.recs
  unfold pipeCSV at h
  cases hsk : skipLoop reuse skip ⟨Heap.empty, none⟩ ev.recs with
  | mk rs o =>
    rw [hsk] at hs
    simp only at hs
    cases o with
    | none =>
      have hlt : ¬ skip ≤ ev.recs.length := by
        intro hle; simp [hle] at hs
      simp [expected, drop_eq_nil_of_lt _ _ hlt]
    | some rest =>
      simp only [hsk] at h
      have hrest : rest = ev.recs.drop skip := by
        split at hs
        · simpa using hs
        · simp at hs
      have := pipeLoop_failing_sink c reuse w ev.term rest rs 0 h
      have hnil : rest = [] := List.eq_nil_of_length_eq_zero (by omega)
      unfold expected
      rw [← hrest]
      exact hnil

theorem stdEncode_nil (w : WOpts) : stdEncode w [] = [] := rfl

/-- what reached the sink of a `csv.Writer` after a successful pipeCSV -/
theorem pipeCSV_sink (c reuse : Bool) (w : WOpts) (fails : Bool) (skip : Nat) (ev : Events)
    (h : (pipeCSV c reuse (.std w fails) skip ev).err = none) :
    sinkBytes w fails (pipeCSV c reuse (.std w fails) skip ev) = stdEncode w (expected ev skip) := by
  have hk := pipeCSV_ok c reuse (.std w fails) skip ev h
  cases fails with
  | true =>
    have := pipeCSV_failing_sink c reuse w skip ev h
    simp [sinkBytes, this, stdEncode_nil]
  | false =>
    cases hk.2.2 with
    | inl hf => simp [sinkBytes, hf, hk.2.1]
    | inr he =>
      unfold sinkBytes
      split
      · rw [hk.2.1]
      · simp [he, stdEncode_nil]

/-! bufferedCSV -/

theorem bufferedCSV_ok (reuse : Bool) (w : WOpts) (fails : Bool) (skip : Nat) (ev : Events)
    (h : (bufferedCSV reuse w fails skip ev).err = none) :
    ev.term = .eof ∧
    sinkBytes w fails (bufferedCSV reuse w fails skip ev) = stdEncode w (expected ev skip) := by
  have hs := skipLoop_snd reuse skip ⟨Heap.empty, none⟩ ev.recs
  unfold bufferedCSV at h ⊢
  cases hsk : skipLoop reuse skip ⟨Heap.empty, none⟩ ev.recs with
  | mk rs o =>
    rw [hsk] at hs
    simp only at hs
    cases o with
    | none =>
      have hlt : ¬ skip ≤ ev.recs.length := by
        intro hle; simp [hle] at hs
      simp only [hsk] at h ⊢
      cases ht : ev.term with
      | eof => simp [exhausted, sinkBytes, expected, drop_eq_nil_of_lt _ _ hlt, stdEncode_nil]
      | err e => simp [exhausted, ht] at h
    | some rest =>
      have hrest : rest = ev.recs.drop skip := by
        split at hs
        · simpa using hs
        · simp at hs
      simp only [hsk] at h ⊢
      cases ht : ev.term with
      | err e => simp [ht] at h
      | eof =>
        simp only [ht] at h ⊢
        refine ⟨trivial, ?_⟩
        by_cases hre : rest.isEmpty = true
        · have : rest = [] := by simpa using hre
          simp [sinkBytes, expected, ← hrest, this, stdEncode_nil]
        · have hne : rest.isEmpty = false := by simpa using hre
          simp only [hne, Bool.false_eq_true, ↓reduceIte] at h ⊢
          by_cases hv : validDelim w.comma = true
          · simp only [hv, ↓reduceIte] at h ⊢
            cases fails with
            | true =>
              exfalso
              have hl : rest.length ≠ 0 := by
                intro h0; exact hre (by simp [List.eq_nil_of_length_eq_zero h0])
              simp [wFinish, hl] at h
            | false => simp [sinkBytes, expected, hrest]
          · simp [hv] at h

theorem bufferedCSV_clean (reuse : Bool) (w : WOpts) (skip : Nat) (ev : Events)
    (hv : validDelim w.comma = true) :
    (bufferedCSV reuse w false skip ev).err = termErr ev.term := by
  unfold bufferedCSV
  cases hsk : skipLoop reuse skip ⟨Heap.empty, none⟩ ev.recs with
  | mk rs o =>
    cases o with
    | none => cases ht : ev.term <;> simp [exhausted, termErr]
    | some rest =>
      cases ht : ev.term with
      | err e => simp [termErr]
      | eof =>
        simp only [termErr]
        split
        · rfl
        · simp [wFinish]

theorem bufferedCSV_term_err (reuse : Bool) (w : WOpts) (fails : Bool) (skip : Nat) (ev : Events) (e : Bytes)
    (ht : ev.term = .err e) : ((bufferedCSV reuse w fails skip ev).err).isSome = true := by
  unfold bufferedCSV
  cases hsk : skipLoop reuse skip ⟨Heap.empty, none⟩ ev.recs with
  | mk rs o =>
    cases o with
    | none => simp [exhausted, ht]
    | some rest => simp [ht]

/-! the two together: whatever transfer function a clause uses -/

theorem transfer_ok (b c reuse : Bool) (w : WOpts) (fails : Bool) (skip : Nat) (ev : Events)
    (h : (transfer b c reuse w fails skip ev).err = none) :
    ev.term = .eof ∧ sinkBytes w fails (transfer b c reuse w fails skip ev) = stdEncode w (expected ev skip) := by
  unfold transfer at h ⊢
  cases b with
  | true => simpa using bufferedCSV_ok reuse w fails skip ev (by simpa using h)
  | false =>
    simp only [Bool.false_eq_true, ↓reduceIte] at h ⊢
    exact ⟨(pipeCSV_ok c reuse _ skip ev h).1, pipeCSV_sink c reuse w fails skip ev h⟩

theorem transfer_clean (b c reuse : Bool) (w : WOpts) (skip : Nat) (ev : Events)
    (hv : validDelim w.comma = true) :
    (transfer b c reuse w false skip ev).err = termErr ev.term := by
  unfold transfer
  cases b with
  | true => simpa using bufferedCSV_clean reuse w skip ev hv
  | false =>
    simp only [Bool.false_eq_true, ↓reduceIte]
    exact pipeCSV_clean c reuse _ skip ev (by simp [Wr.clean, hv])

theorem transfer_term_err (b c reuse : Bool) (w : WOpts) (fails : Bool) (skip : Nat) (ev : Events) (e : Bytes)
    (ht : ev.term = .err e) : ((transfer b c reuse w fails skip ev).err).isSome = true := by
  unfold transfer
  cases b with
  | true => simpa using bufferedCSV_term_err reuse w fails skip ev e ht
  | false => simpa using pipeCSV_term_err c reuse _ skip ev e ht

/-! ## The records container: a heap invariant

With the copy in `csvRecordsWriter.Write`, every kept slice points to an array allocated for it
alone: later reads overwrite only the reader's own array, later copies allocate new arrays. -/

structure ContainerInv (rs : RState) (recs : List Record) (res : PipeRes) : Prop where
  next_le : rs.heap.next ≤ res.heap.next
  frame : ∀ a, a < rs.heap.next → rs.avoids a → res.heap.cell a = rs.heap.cell a
  fresh : ∀ s ∈ res.tbl, rs.heap.next ≤ s.arr ∧ s.arr < res.heap.next
  sorted : List.Pairwise (· < ·) (res.tbl.map (·.arr))
  content : res.tbl.map res.heap.deref = recs

theorem container_loop (reuse : Bool) (t : Term) (recs : List Record) :
    ∀ rs nw, rs.ok → ContainerInv rs recs (pipeLoop true reuse .container t rs nw recs) := by
  induction recs with
  | nil =>
    intro rs nw _
    cases t <;>
      exact ⟨Nat.le_refl _, fun _ _ _ => rfl, by simp [pipeLoop], by simp [pipeLoop], by simp [pipeLoop]⟩
  | cons r more ih =>
    intro rs nw hok
    -- one step: read, then copy into a new array
    have hrd_ok := readRec_ok reuse rs r hok
    have hrd_next := readRec_next reuse rs r
    have hderef := deref_readRec reuse rs r
    have hlen := readRec_len reuse rs r
    generalize hrd : readRec reuse rs r = rd at hrd_ok hrd_next hderef hlen
    have hframe1 := fun a ha hav => hrd ▸ readRec_frame reuse rs r a ha hav
    have havoid1 := fun a ha hav => hrd ▸ readRec_avoids reuse rs r a ha hav
    let rs2 : RState := ⟨(rd.1.heap.alloc (rd.1.heap.deref rd.2)).1, rd.1.last⟩
    have hok2 : rs2.ok := by
      intro l hl
      have := hrd_ok l hl
      simp only [rs2, Heap.alloc]
      omega
    have IH := ih rs2 (nw + 1) hok2
    have hstep : pipeLoop true reuse .container t rs nw (r :: more) =
        { pipeLoop true reuse .container t rs2 (nw + 1) more with
          vals := rd.1.heap.deref rd.2 :: (pipeLoop true reuse .container t rs2 (nw + 1) more).vals,
          tbl := ⟨rd.1.heap.next, rd.2.len, rd.2.len⟩ :: (pipeLoop true reuse .container t rs2 (nw + 1) more).tbl } := by
      simp only [pipeLoop, wWrite, hrd, ↓reduceIte, rs2]
    rw [hstep]
    have hnext2 : rs2.heap.next = rd.1.heap.next + 1 := by simp [rs2, Heap.alloc]
    -- the new array is outside the reader's reach from now on
    have hkept_avoid : rs2.avoids rd.1.heap.next := by
      intro l hl
      have := hrd_ok l hl
      omega
    have hkept_cell : (pipeLoop true reuse .container t rs2 (nw + 1) more).heap.cell rd.1.heap.next = r := by
      rw [IH.frame _ (by omega) hkept_avoid]
      simp [rs2, Heap.alloc, hderef]
    refine ⟨?_, ?_, ?_, ?_, ?_⟩
    · have := IH.next_le; simp only at this ⊢; omega
    · intro a ha hav
      simp only
      have h1 : rd.1.heap.cell a = rs.heap.cell a := hframe1 a ha hav
      have h2 : rs2.heap.cell a = rd.1.heap.cell a := by
        have : a ≠ rd.1.heap.next := by omega
        simp [rs2, Heap.alloc, this]
      have hav2 : rs2.avoids a := havoid1 a ha hav
      rw [IH.frame a (by omega) hav2, h2, h1]
    · intro s hs
      simp only [List.mem_cons] at hs
      cases hs with
      | inl h =>
        subst h
        have := IH.next_le
        simp only at this ⊢
        omega
      | inr h =>
        have := IH.fresh s h
        simp only at this ⊢
        omega
    · simp only [List.map_cons, List.pairwise_cons]
      refine ⟨?_, IH.sorted⟩
      intro a ha
      obtain ⟨s, hs, rfl⟩ := List.mem_map.mp ha
      have := (IH.fresh s hs).1
      omega
    · simp only [List.map_cons]
      rw [IH.content]
      congr 1
      simp only [Heap.deref, hkept_cell, hlen]
      simp

theorem container_pipe (reuse : Bool) (skip : Nat) (ev : Events) :
    (pipeCSV true reuse .container skip ev).err = termErr ev.term ∧
    (ev.term = .eof →
      (pipeCSV true reuse .container skip ev).tbl.map (pipeCSV true reuse .container skip ev).heap.deref
        = expected ev skip ∧
      List.Pairwise (· < ·) ((pipeCSV true reuse .container skip ev).tbl.map (·.arr))) := by
  refine ⟨pipeCSV_clean true reuse .container skip ev rfl, ?_⟩
  intro ht
  have hs := skipLoop_snd reuse skip ⟨Heap.empty, none⟩ ev.recs
  have hok := skipLoop_ok reuse skip ⟨Heap.empty, none⟩ ev.recs (by intro l hl; simp at hl)
  unfold pipeCSV
  cases hsk : skipLoop reuse skip ⟨Heap.empty, none⟩ ev.recs with
  | mk rs o =>
    rw [hsk] at hs hok
    simp only at hs hok
    cases o with
    | none =>
      have hlt : ¬ skip ≤ ev.recs.length := by
        intro hle; simp [hle] at hs
      simp [exhausted, ht, expected, drop_eq_nil_of_lt _ _ hlt]
    | some rest =>
      have hrest : rest = ev.recs.drop skip := by
        split at hs
        · simpa using hs
        · simp at hs
      have inv := container_loop reuse ev.term rest rs 0 hok
      simp only
      exact ⟨by rw [inv.content, hrest]; rfl, inv.sorted⟩

/-! ## aliasing -/

theorem aliasPairs_sorted (tbl : List Slice) (h : List.Pairwise (· < ·) (tbl.map (·.arr))) :
    aliasPairs (tbl.map Cell.new) = 0 := by
  induction tbl with
  | nil => rfl
  | cons s rest ih =>
    simp only [List.map_cons, List.pairwise_cons] at h
    simp only [List.map_cons, aliasPairs, ih h.2, Nat.add_zero]
    cases hc : cellArr (Cell.new s) with
    | none => rfl
    | some a =>
      simp only
      have ha : a = s.arr := by
        simp only [cellArr] at hc
        split at hc
        · simp at hc
        · simpa using hc.symm
      rw [List.length_eq_zero_iff, List.filter_eq_nil_iff]
      intro d hd
      obtain ⟨s', hs', rfl⟩ := List.mem_map.mp hd
      have := h.1 s'.arr (List.mem_map.mpr ⟨s', hs', rfl⟩)
      simp only [cellArr]
      split
      · simp
      · simp; omega

/-! ## the reflect calls on the destination table -/

theorem tab_pre_length (len cap : Nat) (h : len ≤ cap) : (Tab.pre len cap).arr.length = cap := by
  simp [Tab.pre]; omega

theorem tabGrow_spec (k : Nat) (t : Tab) (hwf : t.len ≤ t.arr.length) :
    ∃ t', tabGrow k t = .ok t' ∧ t'.len = t.len ∧ t.len + k ≤ t'.arr.length := by
  unfold tabGrow
  split
  · exact ⟨t, rfl, rfl, by assumption⟩
  · refine ⟨_, rfl, rfl, ?_⟩
    simp only [List.length_append, List.length_take, List.length_replicate]
    omega

theorem tabSetCap_ok (k : Nat) (t : Tab) (h1 : t.len ≤ k) (h2 : k ≤ t.arr.length) :
    tabSetCap k t = .ok ⟨t.arr.take k, t.len⟩ := by
  unfold tabSetCap
  have : ¬ (k < t.len) := by omega
  have : ¬ (k > t.arr.length) := by omega
  simp [*]

theorem tabSetLen_ok (k : Nat) (t : Tab) (h : k ≤ t.arr.length) : tabSetLen k t = .ok ⟨t.arr, k⟩ := by
  unfold tabSetLen
  have : ¬ (k > t.arr.length) := by omega
  simp [*]

/-- `SetLen(0); Grow(n); SetCap(n); SetLen(n); Copy`: whatever the destination held (any length, any
capacity), no call panics and the table ends up holding exactly the container's records. -/
theorem tabRun_fixed (src : List Slice) (t : Tab) :
    tabRun true src Cfg.fixed.tableOps t = (⟨src.map Cell.new, src.length⟩, none) := by
  have e1 : tabStep true src .setLen0 t = .ok ⟨t.arr, 0⟩ := by
    simp only [tabStep]; exact tabSetLen_ok 0 t (Nat.zero_le _)
  obtain ⟨t2, e2, hl2, hc2⟩ := tabGrow_spec src.length ⟨t.arr, 0⟩ (Nat.zero_le _)
  simp only [Nat.zero_add] at hl2 hc2
  have e2' : tabStep true src .growN ⟨t.arr, 0⟩ = .ok t2 := by simp only [tabStep]; exact e2
  have e3 : tabStep true src .setCapN t2 = .ok ⟨t2.arr.take src.length, t2.len⟩ := by
    simp only [tabStep]; exact tabSetCap_ok _ _ (by omega) hc2
  have hlen3 : (t2.arr.take src.length).length = src.length := by
    simp only [List.length_take]; omega
  have e4 : tabStep true src .setLenN ⟨t2.arr.take src.length, t2.len⟩ = .ok ⟨t2.arr.take src.length, src.length⟩ := by
    simp only [tabStep]; exact tabSetLen_ok _ _ (by simp only [hlen3]; exact Nat.le_refl _)
  have e5 : tabStep true src .copy ⟨t2.arr.take src.length, src.length⟩ = .ok ⟨src.map Cell.new, src.length⟩ := by
    have hd : List.drop src.length (List.take src.length t2.arr) = [] :=
      List.drop_eq_nil_of_le (by omega)
    simp [tabStep, tabCopy, hd]
  simp only [Cfg.fixed, tabRun, e1, e2', e3, e4, e5]

/-! ## dispatch and spec plumbing -/

theorem capCase_cons (caps : List Br) : capCase Cfg.fixed.consCases caps =
    if caps.contains .csvPtr then some ⟨.csvPtr, false, true, false⟩
    else if caps.contains .csvIface then some ⟨.csvIface, false, false, false⟩
    else if caps.contains .io then some ⟨.io, false, true, false⟩
    else if caps.contains .xfer then some ⟨.xfer, false, true, true⟩
    else if caps.contains .bin then some ⟨.bin, false, true, true⟩
    else none := by
  simp only [capCase, Cfg.fixed, List.find?, Br.isCap, Bool.true_and, Bool.false_and]
  cases caps.contains .csvPtr <;> cases caps.contains .csvIface <;> cases caps.contains .io <;>
    cases caps.contains .xfer <;> cases caps.contains .bin <;> rfl

theorem capCase_prod (caps : List Br) : capCase Cfg.fixed.prodCases caps =
    if caps.contains .csvPtr then some ⟨.csvPtr, true, false, false⟩
    else if caps.contains .csvIface then some ⟨.csvIface, false, false, false⟩
    else if caps.contains .io then some ⟨.io, true, false, false⟩
    else if caps.contains .xfer then some ⟨.xfer, true, false, false⟩
    else if caps.contains .bin then some ⟨.bin, true, false, true⟩
    else none := by
  simp only [capCase, Cfg.fixed, List.find?, Br.isCap, Bool.true_and, Bool.false_and]
  cases caps.contains .csvPtr <;> cases caps.contains .csvIface <;> cases caps.contains .io <;>
    cases caps.contains .xfer <;> cases caps.contains .bin <;> rfl

theorem idle_res (d : Dst) (r : Res) : (d.idle r).res = r := by
  unfold Dst.idle
  split
  · rfl
  · split
    · rfl
    · split
      · rfl
      · split
        · rfl
        · cases d.shape <;> rfl

theorem resOf_not_panic (e : Option Bytes) : (resOf e).isPanic = false := by
  cases e <;> rfl

/-- a byte destination fed by a transfer whose error is `perr` meets the Spec -/
theorem spec_bytes (envFails : Bool) (w : WOpts) (ev : Events) (skip : Nat) (o : Out) (perr : Option Bytes)
    (hres : o.res = resOf perr)
    (hok : perr = none → ev.term = .eof ∧ o.sink = some (stdEncode w (expected ev skip)))
    (herr : ∀ e, ev.term = .err e → perr.isSome = true)
    (hclean : envFails = false → perr = termErr ev.term) :
    specCore .bytes envFails w ev skip o = true := by
  unfold specCore
  rw [hres, resOf_not_panic]
  simp only [Bool.not_false, Bool.true_and]
  cases ht : ev.term with
  | err e =>
    simp only
    cases envFails with
    | true =>
      have := herr e ht
      cases perr with
      | none => simp at this
      | some m => simp [resOf, Res.isErr]
    | false =>
      have := hclean rfl
      simp [this, ht, termErr, resOf]
  | eof =>
    simp only [Bool.and_eq_true, Bool.or_eq_true, bne_iff_ne, ne_eq, beq_iff_eq]
    constructor
    · cases perr with
      | none =>
        right
        have := (hok rfl).2
        simp [deliveredOk, this]
      | some m => left; simp [resOf]
    · cases envFails with
      | true => left; rfl
      | false =>
        right
        have := hclean rfl
        simp [this, ht, termErr, resOf]

/-- a record destination -/
theorem spec_records (envFails : Bool) (w : WOpts) (ev : Events) (skip : Nat) (o : Out) (perr : Option Bytes)
    (hres : o.res = resOf perr)
    (hok : perr = none → ev.term = .eof ∧ o.recs = some (expected ev skip) ∧ o.alias = 0)
    (herr : ∀ e, ev.term = .err e → perr.isSome = true)
    (hclean : envFails = false → perr = termErr ev.term) :
    specCore .records envFails w ev skip o = true := by
  unfold specCore
  rw [hres, resOf_not_panic]
  simp only [Bool.not_false, Bool.true_and]
  cases ht : ev.term with
  | err e =>
    simp only
    cases envFails with
    | true =>
      have := herr e ht
      cases perr with
      | none => simp at this
      | some m => simp [resOf, Res.isErr]
    | false =>
      have := hclean rfl
      simp [this, ht, termErr, resOf]
  | eof =>
    simp only [Bool.and_eq_true, Bool.or_eq_true, bne_iff_ne, ne_eq, beq_iff_eq]
    constructor
    · cases perr with
      | none =>
        right
        have := (hok rfl).2
        simp [deliveredOk, this.1, this.2]
      | some m => left; simp [resOf]
    · cases envFails with
      | true => left; rfl
      | false =>
        right
        have := hclean rfl
        simp [this, ht, termErr, resOf]

theorem spec_unsupported (envFails : Bool) (w : WOpts) (ev : Events) (skip : Nat) (o : Out) (m : Bytes)
    (h : o.res = .err m) : specCore .unsupported envFails w ev skip o = true := by
  simp [specCore, h, Res.isPanic, Res.isErr]

/-- the Spec does not look at the close counters -/
theorem specCore_srcClose (k : Kind) (b : Bool) (w : WOpts) (ev : Events) (skip n : Nat) (o : Out) :
    specCore k b w ev skip { o with srcClose := n } = specCore k b w ev skip o := by
  cases k <;> rfl

theorem specCore_closes (k : Kind) (b : Bool) (w : WOpts) (ev : Events) (skip n m : Nat) (o : Out) :
    specCore k b w ev skip { o with srcClose := n, dstClose := m } = specCore k b w ev skip o := by
  cases k <;> rfl

/-! ## the clauses of CSVConsumer, one by one -/

theorem consumeStream_spec (c : Case) (reuse : Bool) (skip : Nat) (ev : Events) (d : Dst) (w : WOpts)
    (envFails : Bool) (henv : envFails = false → d.fails = false ∧ validDelim w.comma = true) :
    specCore .bytes envFails w ev skip (consumeStream w c reuse skip ev d) = true := by
  apply spec_bytes envFails w ev skip _ (transfer c.buffered false reuse w d.fails skip ev).err
  · rfl
  · intro h
    have := transfer_ok c.buffered false reuse w d.fails skip ev h
    exact ⟨this.1, by simp [consumeStream, this.2]⟩
  · intro e ht
    exact transfer_term_err c.buffered false reuse w d.fails skip ev e ht
  · intro h
    obtain ⟨hf, hv⟩ := henv h
    rw [hf]
    exact transfer_clean c.buffered false reuse w skip ev hv

theorem consumeCustom_spec (reuse : Bool) (skip : Nat) (ev : Events) (d : Dst) (w : WOpts)
    (envFails : Bool) (henv : envFails = false → d.failAt = none ∧ d.fails = false) :
    specCore .records envFails w ev skip (consumeCustom reuse skip ev d) = true := by
  apply spec_records envFails w ev skip _ (pipeCSV false reuse (.custom d.failAt d.fails) skip ev).err
  · rfl
  · intro h
    have := pipeCSV_ok false reuse (.custom d.failAt d.fails) skip ev h
    exact ⟨this.1, by simp [consumeCustom, this.2.1], rfl⟩
  · intro e ht
    exact pipeCSV_term_err false reuse _ skip ev e ht
  · intro h
    obtain ⟨h1, h2⟩ := henv h
    exact pipeCSV_clean false reuse _ skip ev (by simp [Wr.clean, h1, h2])

theorem consumeBuffered_spec (c : Case) (reuse : Bool) (skip : Nat) (ev : Events) (d : Dst) (w : WOpts)
    (handErr : Option Bytes) (envFails : Bool)
    (henv : envFails = false → (d.fails = false ∨ handErr = none) ∧ validDelim w.comma = true) :
    specCore .bytes envFails w ev skip (consumeBuffered w c reuse skip ev d handErr) = true := by
  cases hp : (transfer c.buffered false reuse w false skip ev).err with
  | some e =>
    apply spec_bytes envFails w ev skip _ (some e)
    · simp [consumeBuffered, hp, idle_res, resOf]
    · intro h; simp at h
    · intro _ _; rfl
    · intro h
      rw [← hp]
      exact transfer_clean c.buffered false reuse w skip ev (henv h).2
  | none =>
    have hk := transfer_ok c.buffered false reuse w false skip ev hp
    cases hh : (if d.fails then handErr else none) with
    | some e' =>
      apply spec_bytes envFails w ev skip _ (some e')
      · simp [consumeBuffered, hp, hh, idle_res, resOf]
      · intro h; simp at h
      · intro _ _; rfl
      · intro h
        exfalso
        cases (henv h).1 with
        | inl hf => simp [hf] at hh
        | inr hn => simp [hn] at hh
    | none =>
      apply spec_bytes envFails w ev skip _ none
      · simp [consumeBuffered, hp, hh, resOf, Out.fail]
      · intro _
        exact ⟨hk.1, by simp [consumeBuffered, hp, hh, hk.2]⟩
      · intro e ht
        rw [hk.1] at ht
        cases ht
      · intro _
        simp [hk.1, termErr]

theorem visible_new (src : List Slice) : (Tab.mk (src.map Cell.new) src.length).visible = src.map Cell.new := by
  simp only [Tab.visible]
  exact List.take_of_length_le (by simp)

theorem consumeTable_spec (reuse : Bool) (skip : Nat) (ev : Events) (d : Dst) (w : WOpts) (envFails : Bool) :
    specCore .records envFails w ev skip (consumeTable Cfg.fixed reuse skip ev d true) = true := by
  have hc := container_pipe reuse skip ev
  have hcl : Cfg.fixed.clones = true := rfl
  apply spec_records envFails w ev skip _ (pipeCSV true reuse .container skip ev).err
  · simp only [consumeTable, hcl]
    cases hp : (pipeCSV true reuse .container skip ev).err with
    | some e => simp [idle_res, resOf]
    | none => simp [tabRun_fixed, resOf]
  · intro h
    have ht : ev.term = .eof := by
      rw [hc.1] at h
      cases hterm : ev.term with
      | eof => rfl
      | err e => simp [hterm, termErr] at h
    obtain ⟨hcont, hsorted⟩ := hc.2 ht
    refine ⟨ht, ?_, ?_⟩
    · simp only [consumeTable, hcl, h, tabRun_fixed, ↓reduceIte, visible_new, List.map_map]
      rw [← hcont]
      congr 1
    · simp only [consumeTable, hcl, h, tabRun_fixed, ↓reduceIte, visible_new]
      exact aliasPairs_sorted _ hsorted
  · intro e ht
    rw [hc.1, ht]
    rfl
  · intro _
    exact hc.1

theorem caps_nonempty (caps : List Br) (b : Br) (hb : caps.contains b = true) : caps.isEmpty = false := by
  cases caps with
  | nil => simp at hb
  | cons a l => rfl

theorem shapeCase_cons_table : shapeCase Cfg.fixed.consCases .table = some ⟨.table, false, false, false⟩ := by decide
theorem shapeCase_cons_bytes : shapeCase Cfg.fixed.consCases .bytes = some ⟨.bytes, false, true, true⟩ := by decide
theorem shapeCase_cons_str : shapeCase Cfg.fixed.consCases .str = some ⟨.str, false, true, true⟩ := by decide
theorem shapeCase_prod_table : shapeCase Cfg.fixed.prodCases .table = some ⟨.table, false, false, false⟩ := by decide
theorem shapeCase_prod_bytes : shapeCase Cfg.fixed.prodCases .bytes = some ⟨.bytes, true, false, true⟩ := by decide
theorem shapeCase_prod_str : shapeCase Cfg.fixed.prodCases .str = some ⟨.str, true, false, true⟩ := by decide

theorem consumeBody_spec (x : KIn) (hnil : x.dst.isNil = false) :
    specCore (dstKind x.dst) (dstEnvFails x.opts x.dst) (effW x.opts) x.evOpt x.opts.skip
      (consumeBody Cfg.fixed x) = true := by
  have hR : Cfg.fixed.consReaderOpts = true := rfl
  simp only [consumeBody, capCase_cons, hR, ↓reduceIte, Bool.true_and]
  cases h1 : x.dst.caps.contains .csvPtr with
  | true =>
    -- *csv.Writer
    have hk : dstKind x.dst = .bytes := by
      simp only [dstKind, hnil, h1, Bool.false_eq_true, ↓reduceIte]
    simp only [↓reduceIte, hk]
    apply consumeStream_spec
    intro he
    simp only [dstEnvFails, hk, caps_nonempty _ _ h1, Bool.not_false, Bool.and_true, Bool.or_eq_false_iff,
      Bool.not_eq_false'] at he
    exact he
  | false =>
    cases h2 : x.dst.caps.contains .csvIface with
    | true =>
      -- CSVWriter
      have hk : dstKind x.dst = .records := by
        simp only [dstKind, hnil, h1, h2, Bool.false_eq_true, ↓reduceIte]
      simp only [↓reduceIte, hk, Bool.false_eq_true]
      apply consumeCustom_spec
      intro he
      simp only [dstEnvFails, hk, h2, Bool.true_and, Bool.or_eq_false_iff, Option.isSome_eq_false_iff,
        Option.isNone_iff_eq_none] at he
      exact he
    | false =>
      cases h3 : x.dst.caps.contains .io with
      | true =>
        -- io.Writer
        have hk : dstKind x.dst = .bytes := by
          simp only [dstKind, hnil, h1, h2, h3, Bool.false_eq_true, ↓reduceIte, Bool.true_or]
        simp only [↓reduceIte, hk, Bool.false_eq_true]
        apply consumeStream_spec
        intro he
        simp only [dstEnvFails, hk, caps_nonempty _ _ h3, Bool.not_false, Bool.and_true, Bool.or_eq_false_iff,
          Bool.not_eq_false'] at he
        exact he
      | false =>
        cases h4 : x.dst.caps.contains .xfer with
        | true =>
          -- io.ReaderFrom
          have hk : dstKind x.dst = .bytes := by
            simp only [dstKind, hnil, h1, h2, h3, h4, Bool.false_eq_true, ↓reduceIte, Bool.true_or, Bool.or_true]
          simp only [↓reduceIte, hk, Bool.false_eq_true]
          apply consumeBuffered_spec
          intro he
          simp only [dstEnvFails, hk, caps_nonempty _ _ h4, Bool.not_false, Bool.and_true, Bool.or_eq_false_iff,
            Bool.not_eq_false'] at he
          exact ⟨Or.inl he.1, he.2⟩
        | false =>
          cases h5 : x.dst.caps.contains .bin with
          | true =>
            -- encoding.BinaryUnmarshaler
            have hk : dstKind x.dst = .bytes := by
              simp only [dstKind, hnil, h1, h2, h3, h4, h5, Bool.false_eq_true, ↓reduceIte, Bool.or_true]
            simp only [↓reduceIte, hk, Bool.false_eq_true]
            apply consumeBuffered_spec
            intro he
            simp only [dstEnvFails, hk, caps_nonempty _ _ h5, Bool.not_false, Bool.and_true, Bool.or_eq_false_iff,
              Bool.not_eq_false'] at he
            exact ⟨Or.inl he.1, he.2⟩
          | false =>
            -- default clause: by reflect kind
            simp only [↓reduceIte, Bool.false_eq_true]
            have hkind : dstKind x.dst = match x.dst.shape with
                | .tab | .ntab => .records
                | .bytes | .str => .bytes
                | _ => .unsupported := by
              simp only [dstKind, hnil, h1, h2, h3, h4, h5, Bool.false_eq_true, ↓reduceIte, Bool.or_false]
              cases x.dst.shape <;> rfl
            cases hs : x.dst.shape with
            | nonPtr =>
              rw [hkind, hs]
              exact spec_unsupported _ _ _ _ _ _ (idle_res _ _)
            | nilPtr =>
              rw [hkind, hs]
              exact spec_unsupported _ _ _ _ _ msgNilDest (by simp [Cfg.fixed, idle_res])
            | other =>
              rw [hkind, hs]
              exact spec_unsupported _ _ _ _ _ _ (idle_res _ _)
            | nrow =>
              rw [hkind, hs]
              exact spec_unsupported _ _ _ _ _ msgUnsupported (by simp only [shapeCase_cons_table]; simp [Cfg.fixed, idle_res])
            | nstr =>
              rw [hkind, hs]
              exact spec_unsupported _ _ _ _ _ msgUnsupported (by simp only [shapeCase_cons_table]; simp [Cfg.fixed, idle_res])
            | bytes =>
              have hk : dstKind x.dst = .bytes := by rw [hkind, hs]
              rw [hk]
              simp only [shapeCase_cons_bytes]
              apply consumeBuffered_spec
              intro he
              simp only [dstEnvFails, hk, Bool.or_eq_false_iff, Bool.not_eq_false'] at he
              exact ⟨Or.inr rfl, he.2⟩
            | str =>
              have hk : dstKind x.dst = .bytes := by rw [hkind, hs]
              rw [hk]
              simp only [shapeCase_cons_str]
              apply consumeBuffered_spec
              intro he
              simp only [dstEnvFails, hk, Bool.or_eq_false_iff, Bool.not_eq_false'] at he
              exact ⟨Or.inr rfl, he.2⟩
            | tab =>
              have hk : dstKind x.dst = .records := by rw [hkind, hs]
              rw [hk]
              simp only [shapeCase_cons_table]
              exact consumeTable_spec _ _ _ _ _ _
            | ntab =>
              have hk : dstKind x.dst = .records := by rw [hkind, hs]
              rw [hk]
              simp only [shapeCase_cons_table]
              exact consumeTable_spec _ _ _ _ _ _

/-! ## the clauses of CSVProducer -/

theorem produceStream_spec (c : Case) (reuse : Bool) (skip : Nat) (ev : Events) (sinkFails : Bool) (w : WOpts)
    (envFails : Bool) (henv : envFails = false → sinkFails = false ∧ validDelim w.comma = true) :
    specCore .bytes envFails w ev skip (produceStream w c reuse skip ev sinkFails) = true := by
  apply spec_bytes envFails w ev skip _ (transfer c.buffered false reuse w sinkFails skip ev).err
  · rfl
  · intro h
    have := transfer_ok c.buffered false reuse w sinkFails skip ev h
    exact ⟨this.1, by simp [produceStream, this.2]⟩
  · intro e ht
    exact transfer_term_err c.buffered false reuse w sinkFails skip ev e ht
  · intro h
    obtain ⟨hf, hv⟩ := henv h
    rw [hf]
    exact transfer_clean c.buffered false reuse w skip ev hv

/-- an error result is all the Spec asks for when the environment is scripted to fail and the
parse ended well -/
theorem spec_err_env (k : Kind) (w : WOpts) (ev : Events) (skip : Nat) (o : Out) (m : Bytes)
    (h : o.res = .err m) (ht : ev.term = .eof) : specCore k true w ev skip o = true := by
  cases k <;> simp [specCore, h, ht, Res.isPanic, Res.isErr]

theorem spec_err_env' (k : Kind) (w : WOpts) (ev : Events) (skip : Nat) (o : Out) (m : Bytes)
    (h : o.res = .err m) : specCore k true w ev skip o = true := by
  cases ht : ev.term with
  | eof => exact spec_err_env k w ev skip o m h ht
  | err e => cases k <;> simp [specCore, h, ht, Res.isPanic, Res.isErr]

theorem any_isCap (caps : List Br) :
    caps.any Br.isCap = (caps.contains .csvPtr || caps.contains .csvIface || caps.contains .io ||
      caps.contains .xfer || caps.contains .bin) := by
  induction caps with
  | nil => rfl
  | cons a l ih =>
    simp only [List.any_cons, ih, List.contains_cons]
    cases a <;> simp [Br.isCap] <;>
      cases l.contains Br.csvPtr <;> cases l.contains Br.csvIface <;> cases l.contains Br.io <;>
      cases l.contains Br.xfer <;> cases l.contains Br.bin <;> rfl

theorem produceBody_spec (x : PIn) (hnil : x.src.isNil = false) :
    specCore (if srcSupported x.src then .bytes else .unsupported) (srcEnvFails x) (effW x.opts)
      (srcEvents x) x.opts.skip (produceBody Cfg.fixed x) = true := by
  have hW : Cfg.fixed.prodWriterOpts = true := rfl
  simp only [produceBody, capCase_prod, hW, ↓reduceIte]
  have hcapsup (h : x.src.caps.any Br.isCap = true) :
      srcSupported x.src = true ∧ srcEvents x = x.evOpt := by
    simp [srcSupported, srcEvents, srcIsTable, hnil, h]
  have henvS : srcEnvFails x = false → x.sinkFails = false ∧ validDelim (effW x.opts).comma = true := by
    intro he
    simp only [srcEnvFails, Bool.or_eq_false_iff, Bool.not_eq_false'] at he
    exact ⟨he.1.1, he.1.2⟩
  cases h1 : x.src.caps.contains .csvPtr with
  | true =>
    obtain ⟨hs, hev⟩ := hcapsup (by rw [any_isCap, h1]; rfl)
    simp only [↓reduceIte, hs, hev, Bool.true_and]
    exact produceStream_spec _ _ _ _ _ _ _ henvS
  | false =>
    cases h2 : x.src.caps.contains .csvIface with
    | true =>
      obtain ⟨hs, hev⟩ := hcapsup (by rw [any_isCap, h1, h2]; rfl)
      simp only [↓reduceIte, hs, hev, Bool.false_eq_true]
      exact produceStream_spec _ _ _ _ _ _ _ henvS
    | false =>
      cases h3 : x.src.caps.contains .io with
      | true =>
        obtain ⟨hs, hev⟩ := hcapsup (by rw [any_isCap, h1, h2, h3]; rfl)
        simp only [↓reduceIte, hs, hev, Bool.false_eq_true, Bool.true_and]
        exact produceStream_spec _ _ _ _ _ _ _ henvS
      | false =>
        cases h4 : x.src.caps.contains .xfer with
        | true =>
          obtain ⟨hs, hev⟩ := hcapsup (by rw [any_isCap, h1, h2, h3, h4]; rfl)
          simp only [↓reduceIte, hs, hev, Bool.false_eq_true, Bool.true_and]
          have hcw : Cfg.fixed.wtCloseWithErr = true := rfl
          simp only [hcw, Bool.not_true, Bool.false_and, Bool.false_eq_true, ↓reduceIte]
          cases hf : x.src.fails with
          | false =>
            simp only [Bool.false_and, Bool.false_eq_true, ↓reduceIte]
            exact produceStream_spec _ _ _ _ _ _ _ henvS
          | true =>
            have henv : srcEnvFails x = true := by
              unfold srcEnvFails; rw [hf, h1, h2, h3, h4]; simp
            rw [henv]
            cases ht : x.evOpt.term with
            | eof =>
              simp only [Bool.true_and, beq_self_eq_true, ↓reduceIte]
              exact spec_err_env _ _ _ _ _ msgWriteTo rfl ht
            | err e =>
              have hne : (Term.err e == Term.eof) = false := by simp
              simp only [Bool.true_and, hne, Bool.false_eq_true, ↓reduceIte]
              exact produceStream_spec _ _ _ _ _ _ _ (by intro h; cases h)
        | false =>
          cases h5 : x.src.caps.contains .bin with
          | true =>
            obtain ⟨hs, hev⟩ := hcapsup (by rw [any_isCap, h1, h2, h3, h4, h5]; rfl)
            simp only [↓reduceIte, hs, hev, Bool.false_eq_true, Bool.true_and]
            cases hf : x.src.fails with
            | false =>
              simp only [Bool.false_eq_true, ↓reduceIte]
              exact produceStream_spec _ _ _ _ _ _ _ henvS
            | true =>
              have henv : srcEnvFails x = true := by
                unfold srcEnvFails; rw [hf, h1, h2, h3, h4, h5]; simp
              rw [henv]
              simp only [↓reduceIte]
              exact spec_err_env' _ _ _ _ _ msgMarshal rfl
          | false =>
            have hnocap : x.src.caps.any Br.isCap = false := by rw [any_isCap, h1, h2, h3, h4, h5]; rfl
            simp only [↓reduceIte, Bool.false_eq_true]
            cases hsh : x.src.shape with
            | nilPtr =>
              have : srcSupported x.src = false := by simp [srcSupported, hnocap, hsh]
              simp only [this, Bool.false_eq_true, ↓reduceIte]
              exact spec_unsupported _ _ _ _ _ msgNilData (by simp [Cfg.fixed, Out.fail])
            | other =>
              have : srcSupported x.src = false := by simp [srcSupported, hnocap, hsh]
              simp only [this, Bool.false_eq_true, ↓reduceIte]
              exact spec_unsupported _ _ _ _ _ msgUnsupported rfl
            | nonPtr =>
              have : srcSupported x.src = false := by simp [srcSupported, hnocap, hsh]
              simp only [this, Bool.false_eq_true, ↓reduceIte]
              exact spec_unsupported _ _ _ _ _ msgUnsupported rfl
            | nrow =>
              have : srcSupported x.src = false := by simp [srcSupported, hnocap, hsh]
              simp only [this, Bool.false_eq_true, ↓reduceIte, shapeCase_prod_table]
              exact spec_unsupported _ _ _ _ _ msgUnsupported (by simp [Cfg.fixed, Out.fail])
            | nstr =>
              have : srcSupported x.src = false := by simp [srcSupported, hnocap, hsh]
              simp only [this, Bool.false_eq_true, ↓reduceIte, shapeCase_prod_table]
              exact spec_unsupported _ _ _ _ _ msgUnsupported (by simp [Cfg.fixed, Out.fail])
            | bytes =>
              have hs : srcSupported x.src = true := by simp [srcSupported, hnil, hsh]
              have hev : srcEvents x = x.evOpt := by simp [srcEvents, srcIsTable, hsh]
              simp only [hs, hev, ↓reduceIte, shapeCase_prod_bytes, Bool.true_and]
              exact produceStream_spec _ _ _ _ _ _ _ henvS
            | str =>
              have hs : srcSupported x.src = true := by simp [srcSupported, hnil, hsh]
              have hev : srcEvents x = x.evOpt := by simp [srcEvents, srcIsTable, hsh]
              simp only [hs, hev, ↓reduceIte, shapeCase_prod_str, Bool.true_and]
              exact produceStream_spec _ _ _ _ _ _ _ henvS
            | tab =>
              have hs : srcSupported x.src = true := by simp [srcSupported, hnil, hsh]
              have hev : srcEvents x = ⟨x.table, .eof⟩ := by simp [srcEvents, srcIsTable, hsh, hnocap]
              simp only [hs, hev, ↓reduceIte, shapeCase_prod_table]
              exact produceStream_spec _ _ _ _ _ _ _ henvS
            | ntab =>
              have hs : srcSupported x.src = true := by simp [srcSupported, hnil, hsh]
              have hev : srcEvents x = ⟨x.table, .eof⟩ := by simp [srcEvents, srcIsTable, hsh, hnocap]
              simp only [hs, hev, ↓reduceIte, shapeCase_prod_table]
              exact produceStream_spec _ _ _ _ _ _ _ henvS

/-! ## errors leave buffered destinations as they were -/

theorem consumeBuffered_error_idle (c : Case) (reuse : Bool) (skip : Nat) (ev : Events) (d : Dst) (w : WOpts)
    (hand : Option Bytes) (e : Bytes) (h : (consumeBuffered w c reuse skip ev d hand).res = .err e) :
    consumeBuffered w c reuse skip ev d hand = d.idle (.err e) := by
  simp only [consumeBuffered] at h ⊢
  cases hp : (transfer c.buffered false reuse w false skip ev).err with
  | some e' =>
    simp only [hp, idle_res, Res.err.injEq] at h ⊢
    rw [h]
  | none =>
    simp only [hp] at h ⊢
    cases hh : (if d.fails then hand else none) with
    | some e' =>
      simp only [hh, idle_res, Res.err.injEq] at h ⊢
      rw [h]
    | none =>
      simp [hh, Out.fail] at h

theorem consumeTable_error_idle (reuse : Bool) (skip : Nat) (ev : Events) (d : Dst) (e : Bytes)
    (h : (consumeTable Cfg.fixed reuse skip ev d true).res = .err e) :
    consumeTable Cfg.fixed reuse skip ev d true = d.idle (.err e) := by
  have hcl : Cfg.fixed.clones = true := rfl
  simp only [consumeTable, hcl] at h ⊢
  cases hp : (pipeCSV true reuse .container skip ev).err with
  | some e' =>
    simp only [hp, idle_res, Res.err.injEq] at h ⊢
    rw [h]
  | none =>
    simp [hp, tabRun_fixed] at h

theorem idle_err_eq (d : Dst) (m e : Bytes) (h : (d.idle (.err m)).res = .err e) : d.idle (.err m) = d.idle (.err e) := by
  rw [idle_res] at h
  cases h
  rfl

theorem consumeBody_error_idle (x : KIn) (e : Bytes)
    (h1 : x.dst.caps.contains .csvPtr = false) (h2 : x.dst.caps.contains .csvIface = false)
    (h3 : x.dst.caps.contains .io = false) (herr : (consumeBody Cfg.fixed x).res = .err e) :
    consumeBody Cfg.fixed x = x.dst.idle (.err e) := by
  have hR : Cfg.fixed.consReaderOpts = true := rfl
  simp only [consumeBody, capCase_cons, hR, ↓reduceIte, Bool.true_and, h1, h2, h3, Bool.false_eq_true] at herr ⊢
  cases h4 : x.dst.caps.contains .xfer with
  | true =>
    simp only [h4, ↓reduceIte] at herr ⊢
    exact consumeBuffered_error_idle _ _ _ _ _ _ _ _ herr
  | false =>
    cases h5 : x.dst.caps.contains .bin with
    | true =>
      simp only [h4, h5, ↓reduceIte, Bool.false_eq_true] at herr ⊢
      exact consumeBuffered_error_idle _ _ _ _ _ _ _ _ herr
    | false =>
      simp only [h4, h5, ↓reduceIte, Bool.false_eq_true] at herr ⊢
      cases hs : x.dst.shape with
      | nonPtr => simp only [hs] at herr ⊢; exact idle_err_eq _ _ _ herr
      | other => simp only [hs] at herr ⊢; exact idle_err_eq _ _ _ herr
      | nilPtr =>
        have hg : Cfg.fixed.consNilGuard = true := rfl
        simp only [hs, hg, ↓reduceIte] at herr ⊢
        exact idle_err_eq _ _ _ herr
      | nrow =>
        have hx : Cfg.fixed.consExact = true := rfl
        simp only [hs, shapeCase_cons_table, hx] at herr ⊢
        exact idle_err_eq _ _ _ herr
      | nstr =>
        have hx : Cfg.fixed.consExact = true := rfl
        simp only [hs, shapeCase_cons_table, hx] at herr ⊢
        exact idle_err_eq _ _ _ herr
      | bytes =>
        simp only [hs, shapeCase_cons_bytes] at herr ⊢
        exact consumeBuffered_error_idle _ _ _ _ _ _ _ _ herr
      | str =>
        simp only [hs, shapeCase_cons_str] at herr ⊢
        exact consumeBuffered_error_idle _ _ _ _ _ _ _ _ herr
      | tab =>
        have hx : Cfg.fixed.consExact = true := rfl
        simp only [hs, shapeCase_cons_table, hx] at herr ⊢
        exact consumeTable_error_idle _ _ _ _ _ herr
      | ntab =>
        have hx : Cfg.fixed.consExact = true := rfl
        simp only [hs, shapeCase_cons_table, hx] at herr ⊢
        exact consumeTable_error_idle _ _ _ _ _ herr

end RtVerif.C16
