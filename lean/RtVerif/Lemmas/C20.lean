import RtVerif.Model.C20
import RtVerif.Lemmas.GoPath
/-
  Helper lemmas for C20 (the property theorems are in Props/C20.lean).
-/
namespace RtVerif.C20
open RtVerif Bytes GoPath

/-! ### regenerated constants the proofs rely on (each is a proof obligation over `Facts`) -/

theorem ctHTML_eq : ctHTML = htmlCT := by decide
theorem ctJSON_eq : ctJSON = jsonCT := by decide
theorem specPath_default_nil : Facts.c20SpecPath = [] := by decide

/-! ### spec options: the fold equals "last option wins" -/

theorem specOpts_path (opts : List SpecOption) (o : SpecOpts) :
    (opts.foldl SpecOption.apply o).path = (lastPathOpt opts).getD o.path := by
  induction opts generalizing o with
  | nil => rfl
  | cons a t ih =>
    simp only [List.foldl_cons]
    rw [ih]
    cases a with
    | path p =>
      simp only [SpecOption.apply, lastPathOpt]
      cases lastPathOpt t <;> rfl
    | document d =>
      simp only [SpecOption.apply, lastPathOpt]
      split <;> rfl

theorem specOpts_doc (opts : List SpecOption) (o : SpecOpts) :
    (opts.foldl SpecOption.apply o).document = (lastDocOpt opts).getD o.document := by
  induction opts generalizing o with
  | nil => rfl
  | cons a t ih =>
    simp only [List.foldl_cons]
    rw [ih]
    cases a with
    | path p =>
      simp only [SpecOption.apply, lastDocOpt]
    | document d =>
      simp only [SpecOption.apply, lastDocOpt]
      by_cases hd : d = []
      · simp only [hd, if_true]
        cases lastDocOpt t <;> rfl
      · simp only [hd, if_false]
        cases lastDocOpt t <;> rfl

/-- The configured spec document path (Spec side) is the `pth` the middleware computes. -/
theorem cfgSpecPath_eq (bp : Bytes) (opts : List SpecOption) :
    cfgSpecPath bp opts = specDocPath bp opts := by
  simp only [cfgSpecPath, specDocPath, specOptionsWithDefaults, specOpts_path, specOpts_doc,
    defaultSpecOpts, join3, orDefault]

/-- The configured UI document path (Spec side) is the `pth` the constructors compute. -/
theorem cfgUIPath_eq (k : Kind) (o : Opts) : cfgUIPath k o = uiDocPath k (ensureDefaults k o) := by
  cases k <;> simp [cfgUIPath, uiDocPath, ensureDefaults, commonDefaults, join, join3]

/-! ### UI options: fields are set independently -/

/-- two option records that agree on base path, path and spec URL -/
def SameLoc (a b : Opts) : Prop :=
  a.basePath = b.basePath ∧ a.path = b.path ∧ a.specURL = b.specURL

theorem sameLoc_apply {a b : Opts} (h : SameLoc a b) (o : UIOption) :
    SameLoc (UIOption.apply a o) (UIOption.apply b o) := by
  obtain ⟨h1, h2, h3⟩ := h
  cases o <;> simp [UIOption.apply, SameLoc, h1, h2, h3]

theorem sameLoc_foldl (l : List UIOption) {a b : Opts} (h : SameLoc a b) :
    SameLoc (l.foldl UIOption.apply a) (l.foldl UIOption.apply b) := by
  induction l generalizing a b with
  | nil => exact h
  | cons o t ih => exact ih (sameLoc_apply h o)

/-- The title option does not influence where anything is served. -/
theorem sameLoc_ctx (cb ti : Bytes) (opts : List UIOption) :
    SameLoc (uiOptionsWithDefaults ([.basePath cb, .title ti] ++ opts))
      (uiOptionsWithDefaults (.basePath cb :: opts)) := by
  unfold uiOptionsWithDefaults
  simp only [List.cons_append, List.nil_append, List.foldl_cons]
  apply sameLoc_foldl
  simp [SameLoc, UIOption.apply]

theorem specURL_apply_congr {a b : Opts} (h : a.specURL = b.specURL) (o : UIOption) :
    (UIOption.apply a o).specURL = (UIOption.apply b o).specURL := by
  cases o <;> simp [UIOption.apply, h]

theorem specURL_foldl_congr (l : List UIOption) {a b : Opts} (h : a.specURL = b.specURL) :
    (l.foldl UIOption.apply a).specURL = (l.foldl UIOption.apply b).specURL := by
  induction l generalizing a b with
  | nil => exact h
  | cons o t ih => exact ih (specURL_apply_congr h o)

/-- The spec URL the handler works with is the one configured by the caller's options. -/
theorem specURL_ctx (cb ti : Bytes) (opts : List UIOption) :
    (uiOptionsWithDefaults ([.basePath cb, .title ti] ++ opts)).specURL
      = (uiOptionsWithDefaults opts).specURL := by
  unfold uiOptionsWithDefaults
  simp only [List.cons_append, List.nil_append, List.foldl_cons]
  apply specURL_foldl_congr
  simp [UIOption.apply]

/-- The page of a composed handler refers to the effective spec location. -/
theorem handlerUIOpts_specURL (k : Kind) (cb ti : Bytes) (opts : List UIOption) :
    (handlerUIOpts k cb ti opts).specURL = effectiveLoc opts := by
  have h := specURL_ctx cb ti opts
  simp only [List.cons_append, List.nil_append] at h
  cases k <;> simp [handlerUIOpts, ensureDefaults, commonDefaults, toFlavour, effectiveLoc, h]

/-- The UI path of a composed handler is the one the property speaks about. -/
theorem handlerUIPath_eq (k : Kind) (hk : k ≠ .oauth2) (cb ti : Bytes) (opts : List UIOption) :
    handlerUIPath k cb ti opts = wantedUIPath cb opts := by
  obtain ⟨h1, h2, _⟩ := sameLoc_ctx cb ti opts
  simp only [List.cons_append, List.nil_append] at h1 h2
  cases k <;>
    first
    | exact absurd rfl hk
    | simp [handlerUIPath, handlerUIOpts, uiDocPath, ensureDefaults, commonDefaults, toFlavour,
        wantedUIPath, join, h1, h2]

/-! ### where the composed handler serves the document -/

theorem split_of_rooted {p : Bytes} (hr : isRooted p = true) :
    ∃ d, (split p).1 = d ++ [slash] := by
  obtain ⟨h1, h2, h3⟩ := split_spec p
  rcases h3 with h3 | h3
  · exfalso
    rw [h3] at h1
    cases p with
    | nil => simp [isRooted] at hr
    | cons b r =>
      simp only [isRooted, decide_eq_true_eq] at hr
      subst hr
      apply h2
      rw [← (by simpa using h1 : slash :: r = (split (slash :: r)).2)]
      simp
  · exact h3

theorem snoc_slash_ne_dot (d : Bytes) : d ++ [slash] ≠ dot := by
  intro h
  have := congrArg List.getLast? h
  simp [dot, slash] at this

theorem snoc_ne_nil (d : Bytes) : d ++ [slash] ≠ [] := by simp

/-- default location: `/swagger.json` is served by the default spec options at `/` -/
theorem default_loc_agrees :
    (locPath Facts.c20DocsURL).map clean = some (specDocPath [] [.document []]) := by decide

theorem urlPath_nil : urlPath [] = .ok [] := by decide

/-! ### url.Parse model: byte classes and scanning -/

theorem takeWhile_all {α} (p : α → Bool) (l : List α) (h : ∀ x ∈ l, p x = true) :
    l.takeWhile p = l := by
  induction l with
  | nil => rfl
  | cons a t ih =>
    simp only [List.takeWhile_cons, h a (by simp), if_true]
    rw [ih (fun x hx => h x (List.mem_cons_of_mem _ hx))]

theorem dropWhile_all {α} (p : α → Bool) (l : List α) (h : ∀ x ∈ l, p x = true) :
    l.dropWhile p = [] := by
  induction l with
  | nil => rfl
  | cons a t ih =>
    simp only [List.dropWhile_cons, h a (by simp), if_true]
    exact ih (fun x hx => h x (List.mem_cons_of_mem _ hx))

theorem unescapePath_plain (l : Bytes) (h : ∀ x ∈ l, x ≠ 37) : unescapePath l = some l := by
  induction l with
  | nil => rfl
  | cons a t ih =>
    have ha : a ≠ 37 := h a (by simp)
    unfold unescapePath
    simp only [ha, if_false, ih (fun x hx => h x (List.mem_cons_of_mem _ hx)), Option.map_some]

theorem alpha_plain (x : UInt8) (h : isAlpha x = true) :
    x ≠ 35 ∧ x ≠ 63 ∧ isCTL x = false ∧ x ≠ slash := by
  refine ⟨?_, ?_, ?_, ?_⟩
  · intro e; subst e; revert h; decide
  · intro e; subst e; revert h; decide
  · simp only [isAlpha, isCTL, Bool.or_eq_true, Bool.and_eq_true, decide_eq_true_eq,
      UInt8.le_iff_toNat_le, Bool.or_eq_false_iff, decide_eq_false_iff_not,
      UInt8.lt_iff_toNat_lt] at h ⊢
    have h1 : (97 : UInt8).toNat = 97 := rfl
    have h2 : (122 : UInt8).toNat = 122 := rfl
    have h3 : (65 : UInt8).toNat = 65 := rfl
    have h4 : (90 : UInt8).toNat = 90 := rfl
    have h5 : (32 : UInt8).toNat = 32 := rfl
    rw [h1, h2, h3, h4] at h
    rw [h5]
    refine ⟨by omega, ?_⟩
    intro e; subst e; simp at h
  · intro e; subst e; revert h; decide

theorem host_plain (x : UInt8) (h : isHostByte x = true) :
    x ≠ 35 ∧ x ≠ 63 ∧ isCTL x = false ∧ x ≠ slash := by
  refine ⟨?_, ?_, ?_, ?_⟩
  · intro e; subst e; revert h; decide
  · intro e; subst e; revert h; decide
  · simp only [isHostByte, Bool.or_eq_true, decide_eq_true_eq] at h
    rcases h with ((h | h) | h) | h
    · exact (alpha_plain x h).2.2.1
    · simp only [isDigit, isCTL, Bool.and_eq_true, decide_eq_true_eq,
        UInt8.le_iff_toNat_le, Bool.or_eq_false_iff, decide_eq_false_iff_not,
        UInt8.lt_iff_toNat_lt] at h ⊢
      have h1 : (48 : UInt8).toNat = 48 := rfl
      have h2 : (57 : UInt8).toNat = 57 := rfl
      have h5 : (32 : UInt8).toNat = 32 := rfl
      rw [h1, h2] at h
      rw [h5]
      refine ⟨by omega, ?_⟩
      intro e; subst e; simp at h
    · subst h; decide
    · subst h; decide
  · intro e; subst e; revert h; decide

theorem schemeScan_alpha (s r : Bytes) (hs : ∀ x ∈ s, isAlpha x = true) (i : Nat)
    (hi : 0 < i + s.length) : schemeScan i (s ++ 58 :: r) = .at (i + s.length) := by
  induction s generalizing i with
  | nil =>
    have : i ≠ 0 := by simp at hi; omega
    simp [schemeScan, isAlpha, isDigit, this]
  | cons a t ih =>
    have ha : isAlpha a = true := hs a (by simp)
    simp only [List.cons_append, schemeScan, ha, if_true]
    rw [ih (fun x hx => hs x (List.mem_cons_of_mem _ hx)) (i + 1) (by omega)]
    simp only [List.length_cons]
    congr 1
    omega

theorem takeWhile_append_stop {α} (p : α → Bool) (h : List α) (c : α) (q : List α)
    (hh : ∀ x ∈ h, p x = true) (hc : p c = false) : (h ++ c :: q).takeWhile p = h := by
  induction h with
  | nil => simp [hc]
  | cons a t ih =>
    simp only [List.cons_append, List.takeWhile_cons, hh a (by simp), if_true]
    rw [ih (fun x hx => hh x (List.mem_cons_of_mem _ hx))]

end RtVerif.C20
