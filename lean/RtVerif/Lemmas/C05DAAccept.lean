import RtVerif.Lemmas.C05DATotal
/-  C05DA, part 10: when the array `build` succeeds, `C05.build`'s duplicate-name scan is clean. -/
namespace RtVerif.C05DA
open RtVerif Bytes
open RtVerif.C05 (Rec cParam cWild cTerm cSep sortRecs leafOf weight look NulFree advLit advSingle advWild)

theorem childOf_ne_nil_of_head {c : UInt8} {rs : List Rec} {r : Rec} {k : Bytes} (hr : r ∈ rs)
    (hk : r.key = c :: k) : childOf c rs ≠ [] := by
  intro hnil
  by_cases h1 : c = cParam
  · subst h1
    rw [childOf_param] at hnil
    have : C05.hasSingle rs = true := by
      unfold C05.hasSingle
      rw [List.any_eq_true]
      exact ⟨r, hr, by simp [C05.isSingleHead, hk]⟩
    exact hasSingle_advSingle_ne_nil this hnil
  · by_cases h2 : c = cWild
    · subst h2
      rw [childOf_wild] at hnil
      have : (⟨[], r.names ++ [k.dropLast], r.val⟩ : Rec) ∈ advWild rs :=
        C05.mem_advWild.mpr ⟨r, hr, C05.stepWild_eq.mpr ⟨k, hk, rfl, rfl, rfl⟩⟩
      rw [hnil] at this; cases this
    · rw [childOf_lit rs h1 h2] at hnil
      have : (⟨k, r.names, r.val⟩ : Rec) ∈ advLit c rs := C05.mem_advLit.mpr ⟨r, hr, hk, rfl, rfl⟩
      rw [hnil] at this; cases this

theorem nulFree_childOf {c : UInt8} {rs : List Rec} (hN : NulFree rs) : NulFree (childOf c rs) := by
  unfold childOf
  split
  · exact C05.nulFree_advSingle hN
  · split
    · intro r hr; rw [advWild_keys rs r hr]; simp
    · exact C05.nulFree_advLit hN

theorem flatMap_nil_of {α β} (l : List α) (f : α → List β) (h : ∀ x ∈ l, f x = []) : l.flatMap f = [] := by
  induction l with
  | nil => rfl
  | cons x xs ih =>
    rw [List.flatMap_cons, h x List.mem_cons_self, ih (fun y hy => h y (List.mem_cons_of_mem _ hy))]
    rfl

/-- every record `C05.build` scans for duplicated names is a leaf `makeNode` has accepted -/
theorem ReprOn.leaves_clean {S : Nat → Prop} {st : St} {idx : Nat} {rs : List Rec}
    (h : ReprOn S st idx rs) : NulFree rs → ∀ (f : Nat), ∀ r ∈ C05.leaves f rs, C05.hasDup r.names = false := by
  induction h with
  | leaf idx rs r0 _ _ _ hk hl hd _ =>
    intro _ f r hr
    cases f with
    | zero => simp [C05.leaves] at hr
    | succ f =>
      rw [C05.leaves] at hr
      have hflat : ((List.range 256).flatMap fun n =>
          let c := UInt8.ofNat n
          if rs.any (fun r => r.key.head? == some c) then
            if c == cParam then C05.leaves f (advSingle rs)
            else if c == cWild then C05.leaves f (advWild rs)
            else C05.leaves f (advLit c rs)
          else []) = [] := by
        apply flatMap_nil_of
        intro n _
        have : rs.any (fun r => r.key.head? == some (UInt8.ofNat n)) = false := by
          rw [Bool.eq_false_iff]
          intro h
          rw [List.any_eq_true] at h
          obtain ⟨x, hx, he⟩ := h
          rw [hk x hx] at he
          simp at he
        simp only [this, Bool.false_eq_true, ↓reduceIte]
      rw [hflat, List.append_nil, hl] at hr
      simp only [Option.toList_some, List.mem_singleton] at hr
      rw [hr]; exact hd
  | inner idx rs _ _ _ hne hk _ _ _ _ _ _ ih =>
    intro hN f r hr
    cases f with
    | zero => simp [C05.leaves] at hr
    | succ f =>
      rw [C05.leaves, leafOf_none_of_keys hk] at hr
      simp only [Option.toList_none, List.nil_append, List.mem_flatMap, List.mem_range] at hr
      obtain ⟨n, _, hr⟩ := hr
      split at hr
      · rename_i hany
        rw [List.any_eq_true] at hany
        obtain ⟨x, hx, hh⟩ := hany
        cases hkx : x.key with
        | nil => exact absurd hkx (hk x hx)
        | cons b k =>
          rw [hkx] at hh
          simp only [List.head?_cons, beq_iff_eq, Option.some.injEq] at hh
          have hc0 : UInt8.ofNat n ≠ 0 := by
            intro h0
            have := hN x hx
            rw [hkx, hh, h0] at this
            exact this List.mem_cons_self
          have hnn : childOf (UInt8.ofNat n) rs ≠ [] := childOf_ne_nil_of_head hx (by rw [hkx, hh])
          have hr' : r ∈ C05.leaves f (childOf (UInt8.ofNat n) rs) := by
            unfold childOf
            rw [apply_ite (C05.leaves f), apply_ite (C05.leaves f)]
            exact hr
          exact ih _ hc0 hnn (nulFree_childOf hN) f r hr'
      · cases hr

theorem leaves_nil : ∀ f, C05.leaves f [] = [] := by
  intro f
  cases f with
  | zero => rfl
  | succ f =>
    rw [C05.leaves]
    have : ((List.range 256).flatMap fun n =>
        let c := UInt8.ofNat n
        if ([] : List Rec).any (fun r => r.key.head? == some c) then
          if c == cParam then C05.leaves f (advSingle [])
          else if c == cWild then C05.leaves f (advWild [])
          else C05.leaves f (advLit c [])
        else []) = [] := by
      apply flatMap_nil_of
      intro n _
      rfl
    rw [this]; rfl

end RtVerif.C05DA
