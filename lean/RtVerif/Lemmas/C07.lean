import RtVerif.Model.C07
/-  Helper lemmas for C07 (the property theorems are in Props/C07.lean). -/
namespace RtVerif.C07
open RtVerif Bytes

theorem better_iff (a b : Cand) :
    a.better b = true ↔ b.q.units < a.q.units ∨ (a.q.units = b.q.units ∧ a.wild < b.wild) := by
  simp only [Cand.better, Q.lt, Bool.or_eq_true, decide_eq_true_eq, Bool.and_eq_true, beq_iff_eq]

/-- left-to-right scan keeping the incumbent unless the newcomer is strictly better -/
def pick (best : Option Cand) (c : Cand) : Option Cand :=
  match best with
  | none => some c
  | some b => if c.better b then some c else some b

theorem foldl_pick_some (b : Cand) (l : List Cand) :
    l.foldl pick (some b) =
      match firstMax l with
      | none => some b
      | some m => if m.better b then some m else some b := by
  induction l generalizing b with
  | nil => simp [firstMax]
  | cons c cs ih =>
    simp only [List.foldl_cons, pick, firstMax]
    by_cases hcb : c.better b = true
    · simp only [hcb, ↓reduceIte]
      rw [ih c]
      cases hm : firstMax cs with
      | none => simp [hcb]
      | some m =>
        simp only
        by_cases hmc : m.better c = true
        · have : m.better b = true := by
            rw [better_iff] at *; omega
          simp [hmc, this]
        · simp [hmc, hcb]
    · simp only [hcb, Bool.false_eq_true, ↓reduceIte]
      rw [ih b]
      cases hm : firstMax cs with
      | none => simp [hcb]
      | some m =>
        simp only
        by_cases hmc : m.better c = true
        · simp [hmc]
        · have : ¬ m.better b = true := by
            rw [better_iff] at *; omega
          simp [hmc, hcb, this]

theorem foldl_pick_none (l : List Cand) : l.foldl pick none = firstMax l := by
  cases l with
  | nil => simp [firstMax]
  | cons c cs =>
    simp only [List.foldl_cons, pick, firstMax]
    rw [foldl_pick_some]
    cases firstMax cs <;> simp

theorem foldl_pick (acc : Option Cand) (l : List Cand) :
    l.foldl pick acc =
      match acc with
      | none => firstMax l
      | some b => match firstMax l with
        | none => some b
        | some m => if m.better b then some m else some b := by
  cases acc with
  | none => exact foldl_pick_none l
  | some b => exact foldl_pick_some b l

/-! ### the Go loop state as an optional candidate -/

def absBest (st : Best) : Option Cand :=
  match st.q with
  | none => none
  | some q => some ⟨st.offer, q, st.wild⟩

/-- the candidate (if any) that an (offer, spec) pair contributes -/
def candOf (raw : Bytes) (sp : Spec) : Option Cand :=
  if sp.q.isZero then none
  else (matchWild sp.value (normalizeOffer raw)).map fun w => ⟨raw, sp.q, w⟩

theorem candsFor_eq (specs : List Spec) (raw : Bytes) :
    candsFor specs raw = specs.filterMap (candOf raw) := rfl

theorem absBest_stepSpec (raw : Bytes) (st : Best) (sp : Spec) :
    absBest (stepSpec raw (normalizeOffer raw) st sp) =
      match candOf raw sp with
      | none => absBest st
      | some c => pick (absBest st) c := by
  unfold stepSpec candOf
  by_cases hz : sp.q.isZero = true
  · simp [hz]
  · simp only [hz, Bool.false_eq_true, ↓reduceIte]
    cases hw : matchWild sp.value (normalizeOffer raw) with
    | none => simp
    | some w =>
      simp only [Option.map_some]
      cases hq : st.q with
      | none =>
        simp [qLtBest, qGtBest, absBest, hq, pick]
      | some bq =>
        simp only [qLtBest, qGtBest, absBest, hq, pick, Cand.better, Q.lt]
        by_cases h1 : sp.q.units < bq.units
        · have : ¬ bq.units < sp.q.units := by omega
          have h2 : ¬ sp.q.units = bq.units := by omega
          simp [h1, this, h2, hq]
        · by_cases h2 : bq.units < sp.q.units
          · simp [h1, h2]
          · have : sp.q.units = bq.units := by omega
            by_cases h3 : w < st.wild
            · simp [this, h3]
            · simp [this, h3, hq]

theorem absBest_stepOffer (specs : List Spec) (st : Best) (raw : Bytes) :
    absBest (stepOffer specs st raw) = (candsFor specs raw).foldl pick (absBest st) := by
  unfold stepOffer
  rw [candsFor_eq]
  induction specs generalizing st with
  | nil => simp
  | cons sp sps ih =>
    simp only [List.foldl_cons, List.filterMap_cons]
    rw [ih, absBest_stepSpec]
    cases candOf raw sp <;> simp

theorem absBest_fold (specs : List Spec) (offers : List Bytes) (st : Best) :
    absBest (offers.foldl (stepOffer specs) st) =
      (candidates specs offers).foldl pick (absBest st) := by
  induction offers generalizing st with
  | nil => simp [candidates]
  | cons o os ih =>
    simp only [List.foldl_cons, candidates, List.flatMap_cons, List.foldl_append]
    rw [ih, absBest_stepOffer]
    rfl

/-- while no candidate has been picked, the incumbent is the default offer -/
theorem offer_of_none_stepSpec (raw offer : Bytes) (st : Best) (sp : Spec) (d : Bytes)
    (h : st.q = none → st.offer = d) :
    (stepSpec raw offer st sp).q = none → (stepSpec raw offer st sp).offer = d := by
  unfold stepSpec
  split
  · exact h
  · split
    · exact h
    · split
      · exact h
      · split
        · intro hq; cases hq
        · exact h

theorem offer_of_none_foldSpecs (raw offer : Bytes) (specs : List Spec) (st : Best) (d : Bytes)
    (h : st.q = none → st.offer = d) :
    (specs.foldl (stepSpec raw offer) st).q = none → (specs.foldl (stepSpec raw offer) st).offer = d := by
  induction specs generalizing st with
  | nil => exact h
  | cons sp sps ih =>
    simp only [List.foldl_cons]
    exact ih (stepSpec raw offer st sp) (offer_of_none_stepSpec raw offer st sp d h)

theorem offer_of_none_fold (specs : List Spec) (offers : List Bytes) (st : Best) (d : Bytes)
    (h : st.q = none → st.offer = d) :
    (offers.foldl (stepOffer specs) st).q = none → (offers.foldl (stepOffer specs) st).offer = d := by
  induction offers generalizing st with
  | nil => exact h
  | cons o os ih =>
    simp only [List.foldl_cons]
    exact ih _ (offer_of_none_foldSpecs o (normalizeOffer o) specs st d h)

theorem offer_eq_of_abs (st : Best) (d : Bytes) (h : st.q = none → st.offer = d) :
    st.offer = match absBest st with | none => d | some c => c.raw := by
  unfold absBest
  cases hq : st.q with
  | none => simp [h hq]
  | some q => simp

end RtVerif.C07
