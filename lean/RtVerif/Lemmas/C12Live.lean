import RtVerif.Lemmas.C12Term
/-
  C12, part F: no deadlock — a reachable state without successor is a finished call whose goroutine
  is gone, or a call blocked on a silent peer under a context that never ends; `predict` is a maximal
  execution of the LTS.
-/
namespace RtVerif.C12
open RtVerif
set_option linter.unusedSimpArgs false
set_option linter.unusedVariables false

/-- blocked on a peer that never answers, with a context that never ends (no deadline, no cancel):
the property allows this wait — the effective deadline is infinite -/
def Stalled (p : Plan) (s : St) : Prop :=
  p.ctxEnds = false ∧ s.ctxDone = false ∧
  ((s.ph = .sendBody ∧ ∃ m, p.tr = .stallAfter m ∧ m ≤ s.consumed) ∨ (s.ph = .await ∧ p.resp = .stall)
   ∨ ((s.ph = .reading ∨ s.ph = .draining) ∧ p.rterm = .stall ∧ s.bodyLeft = 0))

theorem pipe_cases (x : Pipe) : x = .none ∨ x = .open ∨ x = .closed := by cases x <;> simp

theorem wait_has_gstep {p : Plan} {s : St} (hI : Inv p s) (hw : readBody p s = .wait) : gSteps s ≠ [] := by
  obtain ⟨hk, hg⟩ := readBody_wait hw
  rcases bodyKind_cases p s with ⟨hk', _⟩ | ⟨_, _, hpr⟩ | ⟨hk', _⟩
  · simp [hk] at hk'
  · rcases hg with hg | hg | ⟨r, hg⟩
    · exact absurd (hI.pipe_g.mpr hg) hpr
    · simp [gSteps, hg]
    · simp [gSteps, hg]
  · simp [hk] at hk'

theorem ctx_quiet {p : Plan} {s : St} (hc : cSteps p s = []) (hd : s.ctxDone = false) (hr : s.ph ≠ .returned) :
    p.ctxEnds = false := by
  simp only [cSteps] at hc
  split at hc
  · simp at hc
  · rename_i hn
    cases he : p.ctxEnds with
    | false => rfl
    | true => simp [he, hd, hr] at hn

theorem sendRead_quiet {p : Plan} {s : St} (hI : Inv p s) (hg : gSteps s = []) : sendRead p s ≠ [] := by
  simp only [sendRead]
  cases hrb : readBody p s with
  | wait => exact absurd hg (wait_has_gstep hI hrb)
  | data s1 => simp
  | eof s1 => simp
  | err s1 => simp

theorem quiescent_final {p : Plan} {s : St} (hI : Inv p s) (hq : succs p s = []) :
    (s.ph = .returned ∧ s.g.alive = false) ∨ Stalled p s := by
  simp only [succs, List.append_eq_nil_iff] at hq
  obtain ⟨⟨hm, hg⟩, hc⟩ := hq
  unfold mainSteps at hm
  split at hm
  · simp only [mStart] at hm; split at hm <;> simp at hm
  · simp only [mChoose] at hm; (repeat' split at hm) <;> simp at hm
  · simp only [mAuth, afterAuth] at hm; (repeat' split at hm) <;> simp at hm
  · exfalso
    simp only [mAuthCopy] at hm
    cases hrb : readBody p s with
    | wait => exact absurd hg (wait_has_gstep hI hrb)
    | data s1 => simp [hrb] at hm
    | eof s1 => simp only [hrb, afterAuth] at hm; (repeat' split at hm) <;> simp at hm
    | err s1 => simp [hrb] at hm
  · simp only [mUrl] at hm; split at hm <;> simp at hm
  · simp only [mSend, List.append_eq_nil_iff] at hm; obtain ⟨_, hm⟩ := hm; split at hm <;> simp at hm
  · rename_i hph
    simp only [mSendBody, List.append_eq_nil_iff] at hm
    obtain ⟨hd, hm⟩ := hm
    have hd' : s.ctxDone = false := by
      cases h : s.ctxDone with
      | false => rfl
      | true => simp [h] at hd
    have hce := ctx_quiet hc hd' (by simp [hph])
    split at hm
    · split at hm
      · simp at hm
      · exact absurd hm (sendRead_quiet hI hg)
    · rename_i m htr
      split at hm
      · rename_i hle
        exact Or.inr ⟨hce, hd', Or.inl ⟨hph, m, htr, hle⟩⟩
      · exact absurd hm (sendRead_quiet hI hg)
    · exact absurd hm (sendRead_quiet hI hg)
  · rename_i hph
    simp only [mAwait, List.append_eq_nil_iff] at hm
    obtain ⟨hd, hm⟩ := hm
    have hd' : s.ctxDone = false := by
      cases h : s.ctxDone with
      | false => rfl
      | true => simp [h] at hd
    have hce := ctx_quiet hc hd' (by simp [hph])
    split at hm
    · rename_i hr; exact Or.inr ⟨hce, hd', Or.inr (Or.inl ⟨hph, hr⟩)⟩
    · simp at hm
  · rename_i hph
    simp only [mReading] at hm
    split at hm
    · simp at hm
    · cases hrb : bodyRead p s with
      | wait =>
        obtain ⟨hb, ht, hd'⟩ := bodyRead_wait hrb
        exact Or.inr ⟨ctx_quiet hc hd' (by simp [hph]), hd', Or.inr (Or.inr ⟨Or.inl hph, ht, hb⟩)⟩
      | data s1 => simp [hrb] at hm
      | eof s1 => simp [hrb] at hm
      | err s1 => simp [hrb] at hm
  · rename_i hph
    simp only [mDraining] at hm
    split at hm
    · cases hrb : bodyRead p s with
      | wait =>
        obtain ⟨hb, ht, hd'⟩ := bodyRead_wait hrb
        exact Or.inr ⟨ctx_quiet hc hd' (by simp [hph]), hd', Or.inr (Or.inr ⟨Or.inr hph, ht, hb⟩)⟩
      | data s1 => simp [hrb] at hm
      | eof s1 => simp [hrb] at hm
      | err s1 => simp [hrb] at hm
    · simp at hm
  · simp [mClosing] at hm
  · rename_i hph
    refine Or.inl ⟨hph, ?_⟩
    have hno := hI.retPipe (Or.inr hph)
    have hpg := hI.pipe_g
    cases hgs : s.g with
    | idle => rfl
    | done => rfl
    | trailer =>
      exfalso
      rcases pipe_cases s.pr with h | h | h
      · simp [hgs] at hpg; exact hpg h
      · exact hno h
      · simp [gSteps, hgs, h] at hg
    | run t =>
      exfalso
      have hcl : s.pr = .closed := by
        rcases pipe_cases s.pr with h | h | h
        · simp [hgs] at hpg; exact absurd h hpg
        · exact absurd h hno
        · exact h
      cases t with
      | nil => simp [gSteps, hgs] at hg
      | cons a r => cases a <;> simp [gSteps, hgs, hcl] at hg

/-! ### `predict` is a maximal execution -/

theorem cancelNow_enabled {p : Plan} {s : St} (h : cancelNow p s = true) : cSteps p s ≠ [] := by
  simp only [cancelNow, Bool.and_eq_true, Bool.not_eq_true'] at h
  obtain ⟨hd, hm⟩ := h
  have hce : p.ctxEnds = true ∧ s.ph ≠ .returned := by
    cases hca : p.cancelAt <;> simp [hca] at hm <;> simp [Plan.ctxEnds, hca]
    · simp [hm]
    · simp [hm.1]
    · simp [hm]
    · rcases hm.1 with h | h <;> simp [h]
  simp [cSteps, hce.1, hd, hce.2]

theorem pick_mem {p : Plan} {s s' : St} (h : pick p s = some s') : s' ∈ succs p s := by
  simp only [pick] at h
  split at h
  · have := List.mem_of_mem_head? h
    simp only [succs, List.mem_append]; exact Or.inr this
  · exact List.mem_of_mem_head? h

theorem pick_none {p : Plan} {s : St} (h : pick p s = none) : succs p s = [] := by
  simp only [pick] at h
  split at h
  · rename_i hc
    have := cancelNow_enabled hc
    simp [List.head?_eq_none_iff] at h
    exact absurd h this
  · simpa [List.head?_eq_none_iff] using h

theorem runFuel_reach {p : Plan} : ∀ (f : Nat) (s : St), Reach p s → Reach p (runFuel f p s) := by
  intro f
  induction f with
  | zero => intro s h; exact h
  | succ f ih =>
    intro s h
    simp only [runFuel]
    split
    · rename_i s' hp; exact ih s' (Reach.step h (pick_mem hp))
    · exact h

theorem runFuel_quiescent {p : Plan} (hwf : p.WF) : ∀ (f : Nat) (s : St), Reach p s → measure p s < f →
    succs p (runFuel f p s) = [] := by
  intro f
  induction f with
  | zero => intro s _ h; omega
  | succ f ih =>
    intro s hr hm
    simp only [runFuel]
    split
    · rename_i s' hp
      have hmem := pick_mem hp
      have := measure_decreases (inv_reach hwf hr) hmem
      exact ih s' (Reach.step hr hmem) (by omega)
    · rename_i hp; exact pick_none hp

theorem predict_maximal {p : Plan} (hwf : p.WF) : Reach p (predictSt p) ∧ succs p (predictSt p) = [] :=
  ⟨runFuel_reach _ _ Reach.init, runFuel_quiescent hwf _ _ Reach.init (by omega)⟩

end RtVerif.C12
