import RtVerif.Model.C02
/-
  C02 — helper lemmas (the property theorems are in Props/C02.lean).
-/
namespace RtVerif.C02
open RtVerif Bytes

/-! ### RouteAuthenticator.Authenticate -/

@[simp] theorem logged_applies (c : Call) (r : AltRes) : (r.logged c).applies = r.applies := rfl
@[simp] theorem logged_princ (c : Call) (r : AltRes) : (r.logged c).princ = r.princ := rfl
@[simp] theorem logged_err (c : Call) (r : AltRes) : (r.logged c).err = r.err := rfl
@[simp] theorem logged_setAuth (c : Call) (r : AltRes) : (r.logged c).setAuth = r.setAuth := rfl
@[simp] theorem logged_log (c : Call) (r : AltRes) : (r.logged c).log = c :: r.log := rfl

/-- An alternative that applies without error consulted every one of its schemes, each has a
registered authenticator and accepted; the principal is the running `lastResult` or was yielded by
one of the schemes; and `route.Authenticator` was set. -/
theorem authSchemes_ok (env : Env) : ∀ (a : List Req) (last : Option Principal),
    (authSchemes env last a).applies = true → (authSchemes env last a).err = none →
    (∀ s ∈ a, s.registered = true ∧ s.call ∈ (authSchemes env last a).log ∧
        (env s.name s.scopes).isAccepted = true) ∧
    (authSchemes env last a).setAuth = true ∧
    (∀ x, (authSchemes env last a).princ = some x →
        last = some x ∨ ∃ s ∈ a, env s.name s.scopes = .accepted (some x)) := by
  intro a
  induction a with
  | nil => intro last _ _; simp [authSchemes]
  | cons s rest ih =>
    intro last happ herr
    unfold authSchemes at happ herr ⊢
    cases hreg : s.registered with
    | false => simp [hreg] at happ
    | true =>
      simp only [hreg, ↓reduceIte] at happ herr ⊢
      cases hout : env s.name s.scopes with
      | notApplicable => simp [hout] at happ
      | rejected e => simp [hout] at herr
      | accepted p =>
        simp only [hout, logged_applies, logged_err, logged_log, logged_setAuth, logged_princ] at happ herr ⊢
        obtain ⟨h1, h2, h3⟩ := ih p happ herr
        refine ⟨?_, h2, ?_⟩
        · intro t ht
          rcases List.mem_cons.mp ht with rfl | ht'
          · exact ⟨hreg, by simp, by simp [hout, Outcome.isAccepted]⟩
          · obtain ⟨a1, a2, a3⟩ := h1 t ht'
            exact ⟨a1, List.mem_cons_of_mem _ a2, a3⟩
        · intro x hx
          rcases h3 x hx with hp | ⟨t, ht, hy⟩
          · right; exact ⟨s, by simp, by rw [hout, hp]⟩
          · right; exact ⟨t, List.mem_cons_of_mem _ ht, hy⟩

theorem rejections_cons (env : Env) (c : Call) (l : List Call) :
    rejections env (c :: l) =
      (match env c.name c.scopes with | .rejected e => [e] | _ => []) ++ rejections env l := by
  unfold rejections
  rw [List.filterMap_cons]
  cases env c.name c.scopes <;> simp

theorem rejections_append (env : Env) (l₁ l₂ : List Call) :
    rejections env (l₁ ++ l₂) = rejections env l₁ ++ rejections env l₂ := by
  unfold rejections; exact List.filterMap_append

/-- The rejections among the schemes an alternative consulted are exactly its error. -/
theorem authSchemes_rejections (env : Env) : ∀ (a : List Req) (last : Option Principal),
    rejections env (authSchemes env last a).log = (authSchemes env last a).err.toList := by
  intro a
  induction a with
  | nil => intro last; simp [authSchemes, rejections]
  | cons s rest ih =>
    intro last
    unfold authSchemes
    cases hreg : s.registered with
    | false => simp [rejections]
    | true =>
      simp only [↓reduceIte]
      cases hout : env s.name s.scopes with
      | notApplicable => simp [Req.call, hout, rejections]
      | rejected e => simp [Req.call, hout, rejections]
      | accepted p =>
        simp only [logged_log, logged_err, rejections_cons, Req.call, hout, List.nil_append]
        exact ih p

/-- (F02a, repaired) an alternative naming a scheme without a registered authenticator never
applies-without-error, whatever the order and whatever the other schemes answer. -/
theorem authSchemes_unregistered (env : Env) (a : List Req) (last : Option Principal)
    (h : ∃ s ∈ a, s.registered = false) :
    ¬ ((authSchemes env last a).applies = true ∧ (authSchemes env last a).err = none) := by
  intro ⟨h1, h2⟩
  obtain ⟨s, hs, hr⟩ := h
  have := (authSchemes_ok env a last h1 h2).1 s hs
  rw [hr] at this
  exact absurd this.1 (by simp)

/-! ### RouteAuthenticators.Authenticate -/

@[simp] theorem prepend_applies (l : List Call) (r : AllRes) : (r.prepend l).applies = r.applies := rfl
@[simp] theorem prepend_princ (l : List Call) (r : AllRes) : (r.prepend l).princ = r.princ := rfl
@[simp] theorem prepend_err (l : List Call) (r : AllRes) : (r.prepend l).err = r.err := rfl
@[simp] theorem prepend_admitted (l : List Call) (r : AllRes) : (r.prepend l).admitted = r.admitted := rfl
@[simp] theorem prepend_log (l : List Call) (r : AllRes) : (r.prepend l).log = l ++ r.log := rfl

/-- How the OR loop can end: either with the first satisfied non-empty alternative, or at the end of
the list with no principal. -/
def EndsWith (env : Env) (alts : List Alt) (le : Option Err) (an : Bool) (r : AllRes) : Prop :=
  (∃ a ∈ alts, a.isEmpty = false ∧ (authSchemes env none a).satisfied = true ∧ r.applies = true ∧
      r.princ = (authSchemes env none a).princ ∧ r.err = none ∧ r.admitted = some a ∧
      (∀ c ∈ (authSchemes env none a).log, c ∈ r.log))
  ∨ (r.princ = none ∧
      (∀ e, r.err = some e →
        (le = some e ∨ e ∈ rejections env r.log) ∧ r.applies = true ∧ r.admitted = none) ∧
      (r.err = none → le = none ∧ rejections env r.log = [] ∧
        r.applies = (an || alts.any (·.isEmpty)) ∧
        r.admitted = if (an || alts.any (·.isEmpty)) then some [] else none))

theorem authAll_char (env : Env) : ∀ (alts : List Alt) (le : Option Err) (an : Bool),
    EndsWith env alts le an (authAll env le an alts) := by
  intro alts
  induction alts with
  | nil =>
    intro le an
    right
    unfold authAll
    cases le with
    | none => cases an <;> simp [rejections]
    | some e => cases an <;> simp [rejections]
  | cons a rest ih =>
    intro le an
    unfold authAll
    by_cases hemp : a.isEmpty = true
    · simp only [hemp, ↓reduceIte]
      rcases ih le true with ⟨b, hb, h⟩ | ⟨h1, h2, h3⟩
      · left; exact ⟨b, List.mem_cons_of_mem _ hb, h⟩
      · right
        refine ⟨h1, h2, ?_⟩
        intro hn
        obtain ⟨a1, a2, a3, a4⟩ := h3 hn
        refine ⟨a1, a2, ?_, ?_⟩
        · rw [a3]; simp [hemp]
        · rw [a4]; simp [hemp]
    · have hemp' : a.isEmpty = false := by simpa using hemp
      simp only [hemp', Bool.false_eq_true, ↓reduceIte]
      by_cases hsat : (authSchemes env none a).satisfied = true
      · simp only [hsat, ↓reduceIte]
        left
        exact ⟨a, by simp, hemp', hsat, rfl, rfl, rfl, rfl, fun c hc => hc⟩
      · simp only [hsat, Bool.false_eq_true, ↓reduceIte]
        have hrej := authSchemes_rejections env a none
        rcases ih (nextErr (authSchemes env none a) le) an with ⟨b, hb, g1, g2, g3, g4, g5, g6, g7⟩ | ⟨h1, h2, h3⟩
        · left
          refine ⟨b, List.mem_cons_of_mem _ hb, g1, g2, ?_, ?_, ?_, ?_, ?_⟩
          · simpa using g3
          · simpa using g4
          · simpa using g5
          · simpa using g6
          · intro c hc; simp only [prepend_log, List.mem_append]; right; exact g7 c hc
        · right
          simp only [prepend_princ, prepend_err, prepend_applies, prepend_admitted, prepend_log,
            rejections_append, hrej]
          refine ⟨h1, ?_, ?_⟩
          · intro e he
            obtain ⟨b1, b2, b3⟩ := h2 e he
            refine ⟨?_, b2, b3⟩
            rcases b1 with b1 | b1
            · unfold nextErr at b1
              cases herr : (authSchemes env none a).err with
              | none => rw [herr] at b1; left; exact b1
              | some e' =>
                rw [herr] at b1
                simp only [Option.some.injEq] at b1
                right; simp [b1]
            · right; simp [b1]
          · intro hn
            obtain ⟨b1, b2, b3, b4⟩ := h3 hn
            unfold nextErr at b1
            cases herr : (authSchemes env none a).err with
            | some e' => rw [herr] at b1; simp at b1
            | none =>
              rw [herr] at b1
              refine ⟨b1, by simp [b2], ?_, ?_⟩
              · rw [b3]; simp [hemp']
              · rw [b4]; simp [hemp']

/-! ### from the model's facts to the Spec's vocabulary -/

/-- the declared shape of what the router built -/
def keys (built : List Alt) : List DocAlt := built.map (·.map Req.key)

theorem noRejection_of_rejections_nil {env : Env} {log : List Call} (h : rejections env log = []) :
    noRejection env log = true := by
  unfold noRejection
  rw [List.all_eq_true]
  intro c hc
  cases hout : env c.name c.scopes with
  | rejected e =>
    have : e ∈ rejections env log := by
      unfold rejections
      rw [List.mem_filterMap]
      exact ⟨c, hc, by rw [hout]⟩
    rw [h] at this; simp at this
  | notApplicable => simp [Outcome.isRejected]
  | accepted p => simp [Outcome.isRejected]

theorem mem_dedup (x : Scope) : ∀ (l seen : List Scope), x ∈ dedup seen l ↔ (x ∈ l ∧ x ∉ seen) := by
  intro l
  induction l with
  | nil => intro seen; simp [dedup]
  | cons y r ih =>
    intro seen
    unfold dedup
    by_cases hy : seen.contains y = true
    · simp only [hy, ↓reduceIte, ih, List.mem_cons]
      have hy' : y ∈ seen := List.contains_iff_mem.mp hy
      constructor
      · intro ⟨a, b⟩; exact ⟨Or.inr a, b⟩
      · intro ⟨a, b⟩
        rcases a with rfl | a
        · exact absurd hy' b
        · exact ⟨a, b⟩
    · have hy' : y ∉ seen := fun h => hy (List.contains_iff_mem.mpr h)
      simp only [hy, Bool.false_eq_true, ↓reduceIte, List.mem_cons, ih]
      constructor
      · intro h
        rcases h with rfl | ⟨a, b⟩
        · exact ⟨Or.inl rfl, hy'⟩
        · exact ⟨Or.inr a, fun h => b (Or.inr h)⟩
      · intro ⟨a, b⟩
        by_cases hxy : x = y
        · exact Or.inl hxy
        · right
          rcases a with a | a
          · exact absurd a hxy
          · exact ⟨a, fun h => by rcases h with h | h; exact hxy h; exact b h⟩

theorem sameSet_allScopes (a : Alt) : sameSet (allScopes a) (docScopes (a.map Req.key)) = true := by
  have hd : docScopes (a.map Req.key) = a.flatMap (·.scopes) := by
    unfold docScopes
    rw [List.flatMap_map]
    rfl
  rw [hd]
  unfold sameSet allScopes
  simp only [Bool.and_eq_true, List.all_eq_true, List.contains_iff_mem]
  constructor
  · intro x hx; exact ((mem_dedup x _ _).mp hx).1
  · intro x hx; exact (mem_dedup x _ _).mpr ⟨hx, by simp⟩

/-- A satisfied built alternative, seen with the Spec's eyes. -/
theorem sat_keys (env : Env) (log : List Call) (a : Alt) (x : Principal)
    (hsat : (authSchemes env none a).satisfied = true)
    (hp : (authSchemes env none a).princ = some x)
    (hlog : ∀ c ∈ (authSchemes env none a).log, c ∈ log) :
    (a.map Req.key).all (consultedAccepted env log) = true ∧
    ∃ s ∈ a.map Req.key, env s.1 s.2 = .accepted (some x) := by
  unfold AltRes.satisfied at hsat
  simp only [Bool.and_eq_true, Option.isNone_iff_eq_none] at hsat
  obtain ⟨⟨happ, herr⟩, _⟩ := hsat
  obtain ⟨h1, _, h3⟩ := authSchemes_ok env a none happ herr
  constructor
  · rw [List.all_eq_true]
    intro s hs
    obtain ⟨t, ht, rfl⟩ := List.mem_map.mp hs
    obtain ⟨_, b, c⟩ := h1 t ht
    unfold consultedAccepted
    simp only [Req.key, Bool.and_eq_true, List.contains_iff_mem]
    exact ⟨hlog _ b, c⟩
  · rcases h3 x hp with h | ⟨t, ht, hy⟩
    · cases h
    · exact ⟨t.key, List.mem_map.mpr ⟨t, ht, rfl⟩, hy⟩

theorem satisfiedSome_of (env : Env) (log : List Call) (a : DocAlt) (q : Option Principal → Bool)
    (x : Principal) (hne : a.isEmpty = false)
    (hall : a.all (consultedAccepted env log) = true)
    (hy : ∃ s ∈ a, env s.1 s.2 = .accepted (some x)) (hq : q (some x) = true) :
    satisfiedSome env log a q = true := by
  unfold satisfiedSome
  simp only [hne, Bool.false_eq_true, ↓reduceIte, hall, Bool.true_and]
  rw [List.any_eq_true]
  obtain ⟨s, hs, he⟩ := hy
  exact ⟨s, hs, by rw [he]; exact hq⟩

theorem satisfiedBy_of (env : Env) (log : List Call) (a : DocAlt)
    (x : Principal) (hne : a.isEmpty = false)
    (hall : a.all (consultedAccepted env log) = true)
    (hy : ∃ s ∈ a, env s.1 s.2 = .accepted (some x)) :
    satisfiedBy env log a (some x) = true := by
  unfold satisfiedBy
  simp only [hne, Bool.false_eq_true, ↓reduceIte, hall, Bool.true_and]
  rw [List.any_eq_true]
  obtain ⟨s, hs, he⟩ := hy
  exact ⟨s, hs, by unfold yields; rw [he]; simp⟩

/-- the code's 403 default is the property's -/
theorem authorizerErr_eq : ∀ e, authorizerErr e = specAuthzErr e := by
  intro e; cases e <;> rfl

theorem keys_isEmpty (built : List Alt) : (keys built).isEmpty = built.isEmpty := by
  unfold keys; exact List.isEmpty_map

theorem keys_any_isEmpty (built : List Alt) :
    built.any (·.isEmpty) = true → ([] : DocAlt) ∈ keys built := by
  intro h
  rw [List.any_eq_true] at h
  obtain ⟨a, ha, he⟩ := h
  have : a = [] := List.isEmpty_iff.mp he
  subst this
  unfold keys
  exact List.mem_map.mpr ⟨[], ha, rfl⟩

/-! ### Context.Authorize meets the Spec on the built structure -/

theorem specDirect_keys (built : List Alt) (env : Env) (authz : Option Authorizer) :
    specDirect (keys built) env authz (authorizeFresh built env authz).1
      (authorizeFresh built env authz).2 = true := by
  unfold authorizeFresh
  by_cases hemp : built.isEmpty = true
  · simp [hemp, specDirect, keys_isEmpty]
  · simp only [hemp, Bool.false_eq_true, ↓reduceIte]
    have hc := authAll_char env built none false
    generalize authAll env none false built = r at hc
    unfold finish
    rcases hc with ⟨a, ha, hne, hsat, happ, hpr, herr, hadm, hlog⟩ | ⟨hpr, herrs, hnone⟩
    · -- a non-empty alternative was satisfied
      have hsome : ((authSchemes env none a).princ).isSome = true := by
        unfold AltRes.satisfied at hsat
        simp only [Bool.and_eq_true] at hsat
        exact hsat.2
      obtain ⟨x, hx⟩ := Option.isSome_iff_exists.mp hsome
      have hrx : r.princ = some x := by rw [hpr, hx]
      obtain ⟨hall, hy⟩ := sat_keys env r.log a x hsat hx hlog
      have hmem : a.map Req.key ∈ keys built := List.mem_map.mpr ⟨a, ha, rfl⟩
      have hne' : (a.map Req.key).isEmpty = false := by rw [List.isEmpty_map]; exact hne
      simp only [happ, herr, hrx, Bool.not_true, Option.isSome_none, Bool.or_self, Option.isNone_some,
        Bool.and_false, Bool.false_eq_true, ↓reduceIte]
      cases authz with
      | none =>
        simp only [runAuthorizer, hadm]
        unfold specDirect
        simp only
        rw [List.any_eq_true]
        refine ⟨a.map Req.key, hmem, ?_⟩
        simp only [Bool.and_eq_true]
        exact ⟨⟨satisfiedBy_of env r.log _ x hne' hall hy, rfl⟩, sameSet_allScopes a⟩
      | some f =>
        simp only [runAuthorizer]
        cases hf : f (some x) with
        | none =>
          simp only [Option.map_none, hadm]
          unfold specDirect
          simp only
          rw [List.any_eq_true]
          refine ⟨a.map Req.key, hmem, ?_⟩
          simp only [Bool.and_eq_true]
          refine ⟨⟨satisfiedBy_of env r.log _ x hne' hall hy, ?_⟩, sameSet_allScopes a⟩
          simp [authzAccepts, hf]
        | some e0 =>
          simp only [Option.map_some]
          unfold specDirect refusalAllowed
          simp only [Bool.or_eq_true]
          right
          rw [List.any_eq_true]
          refine ⟨a.map Req.key, hmem, ?_⟩
          apply satisfiedSome_of env r.log _ _ x hne' hall hy
          simp [authzDenies, hf, authorizerErr_eq]
    · -- the loop ran to its end
      cases herr : r.err with
      | some e =>
        obtain ⟨hin, happ, _⟩ := herrs e herr
        simp only [Option.isSome_some, Bool.or_true, Bool.true_or, ↓reduceIte]
        unfold specDirect refusalAllowed
        simp only [Bool.or_eq_true]
        left
        rcases hin with hin | hin
        · cases hin
        · have hne : (rejections env r.log).isEmpty = false := by
            cases hrl : rejections env r.log with
            | nil => rw [hrl] at hin; simp at hin
            | cons _ _ => rfl
          simp only [hne, Bool.false_eq_true, ↓reduceIte]
          rw [List.any_eq_true]
          exact ⟨e, hin, by simp⟩
      | none =>
        obtain ⟨_, hrej, happ, hadm⟩ := hnone herr
        simp only [Bool.false_or] at happ hadm
        by_cases hanon : built.any (·.isEmpty) = true
        · have hallow : allowsAnonymous built = true := hanon
          rw [hanon] at happ hadm
          simp only [↓reduceIte] at hadm
          simp only [happ, hpr, hallow, Bool.not_true, Option.isSome_none, Bool.or_self,
            Bool.false_and, Bool.false_eq_true, ↓reduceIte]
          have hmem := keys_any_isEmpty built hanon
          have hnr := noRejection_of_rejections_nil hrej
          cases authz with
          | none =>
            simp only [runAuthorizer, hadm]
            unfold specDirect
            simp only
            rw [List.any_eq_true]
            refine ⟨[], hmem, ?_⟩
            simp [satisfiedBy, hnr, authzAccepts, sameSet, allScopes, docScopes, dedup]
          | some f =>
            simp only [runAuthorizer]
            cases hf : f none with
            | none =>
              simp only [Option.map_none, hadm]
              unfold specDirect
              simp only
              rw [List.any_eq_true]
              refine ⟨[], hmem, ?_⟩
              simp [satisfiedBy, hnr, authzAccepts, hf, sameSet, allScopes, docScopes, dedup]
            | some e0 =>
              simp only [Option.map_some]
              unfold specDirect refusalAllowed
              simp only [Bool.or_eq_true]
              right
              rw [List.any_eq_true]
              refine ⟨[], hmem, ?_⟩
              simp [satisfiedSome, hnr, authzDenies, hf, authorizerErr_eq]
        · have hanon' : built.any (·.isEmpty) = false := by
            cases h : built.any (·.isEmpty) with
            | false => rfl
            | true => exact absurd h hanon
          rw [hanon'] at happ
          simp only [happ, Bool.not_false, Bool.true_or, ↓reduceIte]
          unfold specDirect refusalAllowed
          simp [hrej]

/-! ### the Spec does not depend on the order inside an alternative -/

theorem any_reordered {ds : List DocAlt} {bs : List Alt} (h : Reordered ds bs) (f : DocAlt → Bool)
    (hf : ∀ d d' : DocAlt, d'.Perm d → f d' = f d) : ds.any f = (keys bs).any f := by
  induction h with
  | nil => rfl
  | cons hp _ ih =>
    simp only [keys, List.map_cons, List.any_cons] at ih ⊢
    rw [ih, hf _ _ hp]

theorem isEmpty_reordered {ds : List DocAlt} {bs : List Alt} (h : Reordered ds bs) :
    ds.isEmpty = bs.isEmpty := by
  cases h <;> rfl

theorem satisfiedBy_perm (env : Env) (log : List Call) (p : Option Principal) (d d' : DocAlt)
    (h : d'.Perm d) : satisfiedBy env log d' p = satisfiedBy env log d p := by
  unfold satisfiedBy
  rw [h.isEmpty_eq, h.all_eq]
  cases p with
  | none => rfl
  | some x => simp only [h.any_eq]

theorem satisfiedSome_perm (env : Env) (log : List Call) (q : Option Principal → Bool) (d d' : DocAlt)
    (h : d'.Perm d) : satisfiedSome env log d' q = satisfiedSome env log d q := by
  unfold satisfiedSome
  rw [h.isEmpty_eq, h.all_eq, h.any_eq]

theorem sameSet_perm (sc : List Scope) (d d' : DocAlt) (h : d'.Perm d) :
    sameSet sc (docScopes d') = sameSet sc (docScopes d) := by
  have hp : (docScopes d').Perm (docScopes d) := List.Perm.flatMap_right _ h
  unfold sameSet
  rw [hp.all_eq]
  congr 1
  apply List.all_congr rfl
  intro x
  exact hp.contains_eq

theorem specDirect_reordered {ds : List DocAlt} {bs : List Alt} (h : Reordered ds bs) (env : Env)
    (authz : Option Authorizer) (res : AuthzRes) (log : List Call) :
    specDirect ds env authz res log = specDirect (keys bs) env authz res log := by
  cases res with
  | ok p sc =>
    unfold specDirect
    apply any_reordered h
    intro d d' hp
    rw [satisfiedBy_perm env log p d d' hp, sameSet_perm sc d d' hp]
  | err e =>
    unfold specDirect refusalAllowed
    simp only
    congr 1
    apply any_reordered h
    intro d d' hp
    exact satisfiedSome_perm env log _ d d' hp
  | noauth =>
    unfold specDirect
    simp only
    rw [isEmpty_reordered h, keys_isEmpty]
  | panic => rfl

/-! ### from one `Context.Authorize` to the served request -/

theorem admissible_of_ok {alts : List DocAlt} {env : Env} {authz : Option Authorizer} {log : List Call}
    {p : Option Principal} {sc : List Scope} (h : specDirect alts env authz (.ok p sc) log = true) :
    admissible alts env authz log = true := by
  unfold specDirect at h
  simp only [List.any_eq_true, Bool.and_eq_true] at h
  obtain ⟨a, ha, ⟨hs, hz⟩, _⟩ := h
  unfold admissible
  rw [List.any_eq_true]
  refine ⟨a, ha, ?_⟩
  unfold satisfiedBy at hs
  unfold satisfiedSome
  by_cases he : a.isEmpty = true
  · simp only [he, ↓reduceIte, Bool.and_eq_true, Option.isNone_iff_eq_none] at hs ⊢
    obtain ⟨rfl, hn⟩ := hs
    exact ⟨hn, hz⟩
  · simp only [he, Bool.false_eq_true, ↓reduceIte, Bool.and_eq_true] at hs ⊢
    refine ⟨hs.1, ?_⟩
    cases p with
    | none => simp at hs
    | some x =>
      have h2 := hs.2
      simp only [List.any_eq_true] at h2 ⊢
      obtain ⟨s, hsm, hy⟩ := h2
      refine ⟨s, hsm, ?_⟩
      unfold yields at hy
      have : env s.1 s.2 = .accepted (some x) := by simpa using hy
      rw [this]; exact hz

theorem satisfiedSome_mono (env : Env) (log : List Call) (a : DocAlt) (q q' : Option Principal → Bool)
    (hq : ∀ p, q p = true → q' p = true) (h : satisfiedSome env log a q = true) :
    satisfiedSome env log a q' = true := by
  unfold satisfiedSome at h ⊢
  by_cases he : a.isEmpty = true
  · simp only [he, ↓reduceIte, Bool.and_eq_true] at h ⊢
    exact ⟨h.1, hq _ h.2⟩
  · simp only [he, Bool.false_eq_true, ↓reduceIte, Bool.and_eq_true, List.any_eq_true] at h ⊢
    refine ⟨h.1, ?_⟩
    obtain ⟨s, hs, hm⟩ := h.2
    refine ⟨s, hs, ?_⟩
    cases ho : env s.1 s.2 with
    | notApplicable => rw [ho] at hm; simp at hm
    | rejected e => rw [ho] at hm; simp at hm
    | accepted p =>
      rw [ho] at hm
      cases p with
      | none => simp at hm
      | some x => exact hq _ hm

theorem authzDenies_mono (authz : Option Authorizer) (is is' : Err → Bool)
    (hi : ∀ e, is e = true → is' e = true) (p : Option Principal)
    (h : authzDenies authz is p = true) : authzDenies authz is' p = true := by
  unfold authzDenies at h ⊢
  cases authz with
  | none => simp at h
  | some f =>
    simp only at h ⊢
    cases hf : f p with
    | none => rw [hf] at h; simp at h
    | some e => rw [hf] at h; exact hi _ h

theorem refusalAllowed_mono (alts : List DocAlt) (env : Env) (authz : Option Authorizer)
    (log : List Call) (is is' : Err → Bool) (hi : ∀ e, is e = true → is' e = true)
    (h : refusalAllowed alts env authz log is = true) :
    refusalAllowed alts env authz log is' = true := by
  unfold refusalAllowed at h ⊢
  simp only [Bool.or_eq_true] at h ⊢
  rcases h with h | h
  · left
    by_cases he : (rejections env log).isEmpty = true
    · simp only [he, ↓reduceIte] at h ⊢; exact hi _ h
    · simp only [he, Bool.false_eq_true, ↓reduceIte, List.any_eq_true] at h ⊢
      obtain ⟨e, hm, hp⟩ := h
      exact ⟨e, hm, hi _ hp⟩
  · right
    rw [List.any_eq_true] at h ⊢
    obtain ⟨a, ha, hs⟩ := h
    exact ⟨a, ha, satisfiedSome_mono env log a _ _ (authzDenies_mono authz is is' hi) hs⟩

/-! ### the Boolean Spec functions decide the propositions -/

theorem noRejection_iff (env : Env) (log : List Call) :
    noRejection env log = true ↔ NoRejection env log := by
  unfold noRejection NoRejection
  rw [List.all_eq_true]
  constructor
  · intro h c hc e he
    have := h c hc
    rw [he] at this
    simp [Outcome.isRejected] at this
  · intro h c hc
    cases ho : env c.name c.scopes with
    | rejected e => exact absurd ho (h c hc e)
    | notApplicable => rfl
    | accepted p => rfl

theorem consultedAccepted_iff (env : Env) (log : List Call) (s : DocReq) :
    consultedAccepted env log s = true ↔ ((⟨s.1, s.2⟩ : Call) ∈ log ∧ ∃ q, env s.1 s.2 = .accepted q) := by
  unfold consultedAccepted
  simp only [Bool.and_eq_true, List.contains_iff_mem]
  constructor
  · intro ⟨a, b⟩
    refine ⟨a, ?_⟩
    cases ho : env s.1 s.2 with
    | accepted q => exact ⟨q, rfl⟩
    | notApplicable => rw [ho] at b; simp [Outcome.isAccepted] at b
    | rejected e => rw [ho] at b; simp [Outcome.isAccepted] at b
  · intro ⟨a, q, hq⟩
    exact ⟨a, by rw [hq]; rfl⟩

theorem satisfiedSome_iff (env : Env) (log : List Call) (a : DocAlt) (q : Option Principal → Bool) :
    satisfiedSome env log a q = true ↔ ∃ p, Satisfied env log a p ∧ q p = true := by
  unfold satisfiedSome Satisfied
  by_cases he : a.isEmpty = true
  · have ha : a = [] := List.isEmpty_iff.mp he
    subst ha
    simp only [List.isEmpty_nil, ↓reduceIte, Bool.and_eq_true, noRejection_iff]
    constructor
    · intro ⟨h1, h2⟩; exact ⟨none, Or.inl ⟨by trivial, by trivial, h1⟩, h2⟩
    · intro ⟨p, hs, hq⟩
      rcases hs with ⟨_, rfl, h⟩ | ⟨h, _⟩
      · exact ⟨h, hq⟩
      · first | exact absurd rfl h | exact h.elim
  · have ha : a ≠ [] := fun h => he (List.isEmpty_iff.mpr h)
    simp only [he, Bool.false_eq_true, ↓reduceIte, Bool.and_eq_true, List.all_eq_true,
      List.any_eq_true, consultedAccepted_iff]
    constructor
    · intro ⟨h1, s, hs, hm⟩
      cases ho : env s.1 s.2 with
      | notApplicable => rw [ho] at hm; simp at hm
      | rejected e => rw [ho] at hm; simp at hm
      | accepted p =>
        rw [ho] at hm
        cases p with
        | none => simp at hm
        | some x => exact ⟨some x, Or.inr ⟨ha, h1, x, rfl, s, hs, ho⟩, hm⟩
    · intro ⟨p, hs, hq⟩
      rcases hs with ⟨h, _⟩ | ⟨_, h1, x, rfl, s, hs, ho⟩
      · exact absurd h ha
      · exact ⟨h1, s, hs, by rw [ho]; exact hq⟩

theorem satisfiedBy_iff (env : Env) (log : List Call) (a : DocAlt) (p : Option Principal) :
    satisfiedBy env log a p = true ↔ Satisfied env log a p := by
  unfold satisfiedBy Satisfied
  by_cases he : a.isEmpty = true
  · have ha : a = [] := List.isEmpty_iff.mp he
    subst ha
    simp only [List.isEmpty_nil, ↓reduceIte, Bool.and_eq_true, noRejection_iff,
      Option.isNone_iff_eq_none]
    constructor
    · intro ⟨h1, h2⟩; exact Or.inl ⟨by trivial, h1, h2⟩
    · intro h
      rcases h with ⟨_, h1, h2⟩ | ⟨h, _⟩
      · exact ⟨h1, h2⟩
      · first | exact absurd rfl h | exact h.elim
  · have ha : a ≠ [] := fun h => he (List.isEmpty_iff.mpr h)
    simp only [he, Bool.false_eq_true, ↓reduceIte, Bool.and_eq_true, List.all_eq_true,
      consultedAccepted_iff]
    constructor
    · intro ⟨h1, h2⟩
      cases p with
      | none => simp at h2
      | some x =>
        simp only [List.any_eq_true] at h2
        obtain ⟨s, hs, hy⟩ := h2
        unfold yields at hy
        exact Or.inr ⟨ha, h1, x, rfl, s, hs, by simpa using hy⟩
    · intro h
      rcases h with ⟨h, _⟩ | ⟨_, h1, x, rfl, s, hs, ho⟩
      · exact absurd h ha
      · refine ⟨h1, ?_⟩
        simp only [List.any_eq_true]
        exact ⟨s, hs, by unfold yields; rw [ho]; simp⟩

theorem admissible_iff (alts : List DocAlt) (env : Env) (authz : Option Authorizer) (log : List Call) :
    admissible alts env authz log = true ↔
      ∃ a ∈ alts, ∃ p, Satisfied env log a p ∧ authzAccepts authz p = true := by
  unfold admissible
  simp only [List.any_eq_true, satisfiedSome_iff]

theorem refusalAllowed_eq_iff (alts : List DocAlt) (env : Env) (authz : Option Authorizer)
    (log : List Call) (e : Err) :
    refusalAllowed alts env authz log (· == e) = true ↔ Refusal alts env authz log e := by
  unfold refusalAllowed Refusal
  simp only [Bool.or_eq_true, List.any_eq_true, satisfiedSome_iff]
  constructor
  · intro h
    rcases h with h | ⟨a, ha, p, hs, hd⟩
    · by_cases hr : (rejections env log).isEmpty = true
      · simp only [hr, ↓reduceIte, beq_iff_eq] at h
        exact Or.inr (Or.inl ⟨List.isEmpty_iff.mp hr, h.symm⟩)
      · simp only [hr, Bool.false_eq_true, ↓reduceIte, List.any_eq_true, beq_iff_eq] at h
        obtain ⟨x, hx, rfl⟩ := h
        exact Or.inl hx
    · right; right
      unfold authzDenies at hd
      cases authz with
      | none => simp at hd
      | some f =>
        simp only at hd
        cases hf : f p with
        | none => rw [hf] at hd; simp at hd
        | some e0 =>
          rw [hf] at hd
          simp only [beq_iff_eq] at hd
          exact ⟨f, a, p, e0, rfl, ha, hs, hf, hd.symm⟩
  · intro h
    rcases h with h | ⟨hr, rfl⟩ | ⟨f, a, p, e0, rfl, ha, hs, hf, rfl⟩
    · left
      have hr : (rejections env log).isEmpty = false := by
        cases hl : rejections env log with
        | nil => rw [hl] at h; simp at h
        | cons _ _ => rfl
      simp only [hr, Bool.false_eq_true, ↓reduceIte, List.any_eq_true, beq_iff_eq]
      exact ⟨e, h, rfl⟩
    · left; simp [hr]
    · right
      exact ⟨a, ha, p, hs, by simp [authzDenies, hf]⟩

theorem sameSet_iff (a b : List Scope) : sameSet a b = true ↔ ∀ x, x ∈ a ↔ x ∈ b := by
  unfold sameSet
  simp only [Bool.and_eq_true, List.all_eq_true, List.contains_iff_mem]
  constructor
  · intro ⟨h1, h2⟩ x; exact ⟨h1 x, h2 x⟩
  · intro h; exact ⟨fun x => (h x).mp, fun x => (h x).mpr⟩

/-! ### completeness (the model does not refuse everything) and the *last* rejection -/

/-- all schemes registered and accepting, the last one with a non-nil principal: satisfied -/
theorem authSchemes_all_accept (env : Env) : ∀ (a : List Req) (last : Option Principal),
    (∀ s ∈ a, s.registered = true ∧ ∃ x, env s.name s.scopes = .accepted (some x)) →
    (a = [] → last.isSome = true) →
    (authSchemes env last a).satisfied = true := by
  intro a
  induction a with
  | nil => intro last _ h; simp [authSchemes, AltRes.satisfied, h rfl]
  | cons s rest ih =>
    intro last h _
    obtain ⟨hr, x, hx⟩ := h s (by simp)
    unfold authSchemes
    simp only [hr, ↓reduceIte, hx]
    have := ih (some x) (fun t ht => h t (List.mem_cons_of_mem _ ht)) (fun _ => rfl)
    unfold AltRes.satisfied at this ⊢
    simpa using this

/-- if some non-empty alternative is satisfied, the OR loop returns a principal without error -/
theorem authAll_complete (env : Env) : ∀ (alts : List Alt) (le : Option Err) (an : Bool),
    (∃ a ∈ alts, a.isEmpty = false ∧ (authSchemes env none a).satisfied = true) →
    (authAll env le an alts).applies = true ∧ (authAll env le an alts).princ.isSome = true ∧
    (authAll env le an alts).err = none ∧ (authAll env le an alts).admitted.isSome = true := by
  intro alts
  induction alts with
  | nil => intro le an ⟨a, ha, _⟩; simp at ha
  | cons b rest ih =>
    intro le an ⟨a, ha, hne, hsat⟩
    unfold authAll
    by_cases hb : b.isEmpty = true
    · simp only [hb, ↓reduceIte]
      rcases List.mem_cons.mp ha with rfl | ha'
      · rw [hb] at hne; cases hne
      · exact ih le true ⟨a, ha', hne, hsat⟩
    · simp only [hb, Bool.false_eq_true, ↓reduceIte]
      by_cases hs : (authSchemes env none b).satisfied = true
      · simp only [hs, ↓reduceIte, Option.isSome_some, and_true, true_and]
        unfold AltRes.satisfied at hs
        simp only [Bool.and_eq_true] at hs
        exact hs.2
      · simp only [hs, Bool.false_eq_true, ↓reduceIte, prepend_applies, prepend_princ, prepend_err,
          prepend_admitted]
        rcases List.mem_cons.mp ha with rfl | ha'
        · exact absurd hsat hs
        · exact ih _ an ⟨a, ha', hne, hsat⟩

theorem getLast?_toList_append {α} (o : Option α) (l r : List α) (h : o = l.getLast?) :
    (o.toList ++ r).getLast? = (l ++ r).getLast? := by
  subst h
  rw [List.getLast?_append, List.getLast?_append]
  cases l.getLast? <;> simp

/-- When the OR loop ends without a principal, its error is the LAST rejection among everything it
consulted (after the carried-in `lastError`). -/
theorem authAll_last_rejection (env : Env) : ∀ (alts : List Alt) (le : Option Err) (an : Bool),
    (authAll env le an alts).princ = none →
    (authAll env le an alts).err = (le.toList ++ rejections env (authAll env le an alts).log).getLast? := by
  intro alts
  induction alts with
  | nil =>
    intro le an _
    unfold authAll
    cases le <;> cases an <;> simp [rejections]
  | cons a rest ih =>
    intro le an hp
    unfold authAll at hp ⊢
    by_cases hemp : a.isEmpty = true
    · simp only [hemp, ↓reduceIte] at hp ⊢
      exact ih le true hp
    · simp only [hemp, Bool.false_eq_true, ↓reduceIte] at hp ⊢
      by_cases hsat : (authSchemes env none a).satisfied = true
      · simp only [hsat, ↓reduceIte] at hp
        unfold AltRes.satisfied at hsat
        simp only [Bool.and_eq_true] at hsat
        rw [hp] at hsat
        simp at hsat
      · simp only [hsat, Bool.false_eq_true, ↓reduceIte, prepend_princ, prepend_err, prepend_log] at hp ⊢
        rw [ih _ an hp, rejections_append, authSchemes_rejections, ← List.append_assoc]
        apply getLast?_toList_append
        unfold nextErr
        cases (authSchemes env none a).err with
        | none => cases le <;> simp
        | some e => cases le <;> simp

/-! ### the driver's structure check -/

theorem reorder_reordered (defs reg : List Name) : ∀ (ds : List DocAlt) (os : List (List Name)) (bs : List Alt),
    reorder (build defs reg ds) os = some bs → Reordered ds bs := by
  intro ds
  induction ds with
  | nil =>
    intro os bs h
    cases os with
    | nil => simp [build, reorder] at h; subst h; exact .nil
    | cons _ _ => simp [build, reorder] at h
  | cons d ds ih =>
    intro os bs h
    cases os with
    | nil => simp [build, reorder] at h
    | cons o os =>
      simp only [build, List.map_cons, reorder] at h
      cases h1 : reorderAlt (buildAlt defs reg d) o with
      | none => rw [h1] at h; simp at h
      | some x =>
        cases h2 : reorder (List.map (buildAlt defs reg) ds) os with
        | none => rw [h1, h2] at h; simp at h
        | some xs =>
          rw [h1, h2] at h
          simp only [Option.some.injEq] at h
          subst h
          refine .cons ?_ (ih os xs h2)
          unfold reorderAlt at h1
          split at h1
          · rename_i hp
            simp only [Option.some.injEq] at h1
            subst h1
            have hk : (buildAlt defs reg d).map Req.key = d := by
              unfold buildAlt
              rw [List.map_map]
              have : (Req.key ∘ mkReq defs reg) = id := by funext x; rfl
              rw [this, List.map_id]
            rw [hk] at hp
            exact List.isPerm_iff.mp hp
          · cases h1

end RtVerif.C02
