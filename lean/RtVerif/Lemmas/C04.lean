import RtVerif.Model.C04
import RtVerif.Lemmas.GoPath
import RtVerif.Lemmas.C10
import RtVerif.Props.C10
/-
  Helper lemmas for C04, part 1: the client side of the path round trip —
  the substitution on simple templates, the wire, and `path.Clean` on the built path.
-/
namespace RtVerif.C04
open RtVerif Bytes

/-! ### bytes -/

theorem byte_cases (P : UInt8 → Prop) (h : ∀ n, n < 256 → P (UInt8.ofNat n)) (c : UInt8) : P c := by
  have := h c.toNat c.toNat_lt
  rwa [UInt8.ofNat_toNat] at this

set_option maxRecDepth 16384 in
/-- static text the theorems cover contains none of the bytes with a meaning for the template, the
router or the wire -/
theorem litByteSafe_spec (c : UInt8) : litByteSafe c = true →
    c ≠ 47 ∧ c ≠ 123 ∧ c ≠ 125 ∧ c ≠ 58 ∧ c ≠ 42 ∧ c ≠ 35 ∧ c ≠ 0 ∧ c ≠ 37 ∧ validEncodedByte c = true := by
  revert c; apply byte_cases; decide

set_option maxRecDepth 16384 in
/-- every byte `url.PathEscape` can produce is accepted as it stands by `validEncoded(·, encodePath)` -/
theorem isSafe_valid (c : UInt8) : GoURL.isSafe false c = true → validEncodedByte c = true := by
  revert c; apply byte_cases; decide

/-! ### flat form of a rendered segment list -/

/-- `/s1/s2/…` -/
def flat (f : Seg → Bytes) (segs : List Seg) : Bytes := segs.flatMap fun s => (47 : UInt8) :: f s

theorem flat_nil (f : Seg → Bytes) : flat f [] = [] := rfl

theorem flat_cons (f : Seg → Bytes) (s : Seg) (r : List Seg) : flat f (s :: r) = 47 :: (f s ++ flat f r) := by
  simp [flat]

theorem flat_append (f : Seg → Bytes) (a b : List Seg) : flat f (a ++ b) = flat f a ++ flat f b := by
  simp [flat]

theorem joinSegs_flat (l : List Bytes) (hne : l ≠ []) :
    (47 : UInt8) :: GoPath.joinSegs l = l.flatMap fun s => (47 : UInt8) :: s := by
  induction l with
  | nil => exact absurd rfl hne
  | cons s t ih =>
    cases t with
    | nil => simp [GoPath.joinSegs]
    | cons t l =>
      rw [GoPath.joinSegs_cons_cons, List.flatMap_cons]
      have := ih (by simp)
      simp only [GoPath.slash, List.cons_append] at this ⊢
      rw [← this]

theorem renderSegs_eq (f : Seg → Bytes) (segs : List Seg) :
    renderSegs f segs = if segs = [] then [47] else flat f segs := by
  unfold renderSegs GoPath.render
  simp only [↓reduceIte]
  cases segs with
  | nil => rfl
  | cons s r =>
    simp only [reduceCtorEq, ↓reduceIte]
    have := joinSegs_flat ((s :: r).map f) (by simp)
    simp only [GoPath.slash] at this ⊢
    rw [this]
    simp [flat, List.flatMap_map]

theorem flat_head (f : Seg → Bytes) (segs : List Seg) : flat f segs = [] ∨ ∃ r, flat f segs = 47 :: r := by
  cases segs with
  | nil => left; rfl
  | cons s r => right; exact ⟨_, flat_cons f s r⟩

/-! ### step A: the substitution loop on a simple template -/

def tokOf : Seg → C10.Tok
  | .lit b => .lit b
  | .ph n => .ph n

def toks (segs : List Seg) : List C10.Tok := segs.flatMap fun s => [C10.Tok.lit [47], tokOf s]

theorem render_toks (segs : List Seg) : C10.render (toks segs) = flat Seg.text segs := by
  induction segs with
  | nil => rfl
  | cons s r ih =>
    have : toks (s :: r) = C10.Tok.lit [47] :: tokOf s :: toks r := by simp [toks]
    rw [this, flat_cons]
    cases s with
    | lit b => simp [C10.render, tokOf, Seg.text, ih]
    | ph n => simp [C10.render, tokOf, Seg.text, ih]

theorem substAll_toks (params : List (Bytes × Bytes)) (segs : List Seg) :
    C10.substAll params (toks segs) = flat (Seg.sub params) segs := by
  induction segs with
  | nil => rfl
  | cons s r ih =>
    have : toks (s :: r) = C10.Tok.lit [47] :: tokOf s :: toks r := by simp [toks]
    rw [this, flat_cons]
    unfold C10.substAll at ih ⊢
    cases s with
    | lit b => simp [C10.render, C10.substTok, tokOf, Seg.sub, ih]
    | ph n =>
      simp only [List.map_cons, C10.substTok, tokOf, Seg.sub, C10.render, List.cons_append, List.nil_append]
      cases C10.lookupParam params n with
      | none => simp [C10.render, ih]
      | some v => simp [C10.render, ih]

theorem litOk_all {b : Bytes} (h : litOk b = true) : ∀ c ∈ b, litByteSafe c = true := by
  simp only [litOk, Bool.and_eq_true, List.all_eq_true] at h
  exact h.2

theorem nameOk_all {n : Bytes} (h : nameOk n = true) :
    n ≠ [] ∧ ∀ c ∈ n, c ≠ 47 ∧ c ≠ 123 ∧ c ≠ 125 ∧ c ≠ 35 ∧ c ≠ 10 ∧ c ≠ 0 := by
  simp only [nameOk, Bool.and_eq_true, Bool.not_eq_eq_eq_not, Bool.not_true, List.isEmpty_eq_false_iff,
    List.all_eq_true, bne_iff_ne, ne_eq] at h
  refine ⟨h.1, fun c hc => ?_⟩
  have := h.2 c hc
  exact ⟨this.1.1.1.1.1, this.1.1.1.1.2, this.1.1.1.2, this.1.1.2, this.1.2, this.2⟩

theorem braceFree_lit {b : Bytes} (h : litOk b = true) : C10.braceFree b = true := by
  simp only [C10.braceFree, List.all_eq_true, Bool.and_eq_true, bne_iff_ne, ne_eq]
  intro c hc
  have := litByteSafe_spec c (litOk_all h c hc)
  exact ⟨this.2.1, this.2.2.1⟩

theorem braceFree_name {n : Bytes} (h : nameOk n = true) : C10.braceFree n = true := by
  simp only [C10.braceFree, List.all_eq_true, Bool.and_eq_true, bne_iff_ne, ne_eq]
  intro c hc
  have := (nameOk_all h).2 c hc
  exact ⟨this.2.1, this.2.2.1⟩

/-- all segments well-formed (strictly) -/
def SegsWF (segs : List Seg) : Prop := ∀ s ∈ segs, segOk true s = true

theorem wf_toks (segs : List Seg) (h : SegsWF segs) : C10.WFToks (toks segs) := by
  intro t ht
  simp only [toks, List.mem_flatMap, List.mem_cons, List.not_mem_nil, or_false] at ht
  obtain ⟨s, hs, rfl | rfl⟩ := ht
  · decide
  · have := h s hs
    cases s with
    | lit b => exact braceFree_lit (by simpa [segOk] using this)
    | ph n => exact braceFree_name (by simpa [segOk] using this)

/-- **step A**: on a simple template the sequential `ReplaceAll` loop replaces every placeholder
segment by its escaped value — whatever the order of the parameters -/
theorem substSeq_flat (params : List (Bytes × Bytes)) (segs : List Seg) (hn : C10.NamesOk params)
    (hw : SegsWF segs) :
    C10.substSeq params (renderSegs Seg.text segs) = renderSegs (Seg.sub params) segs := by
  rw [renderSegs_eq, renderSegs_eq]
  by_cases hs : segs = []
  · subst hs
    simp only [↓reduceIte]
    have h := C10.substSeq_eq_substAll params [C10.Tok.lit [47]] hn (by intro t ht; simp at ht; subst ht; decide)
    simpa [C10.render, C10.substAll, C10.substTok] using h
  · simp only [hs, ↓reduceIte]
    rw [← render_toks, C10.substSeq_eq_substAll params (toks segs) hn (wf_toks segs hw), substAll_toks]

/-! ### values -/

theorem pathEscape_ne_of_unescape {v w : Bytes} (hw : GoURL.pathUnescape w = some w) (hne : v ≠ w) :
    GoURL.pathEscape v ≠ w := by
  intro h
  have := GoURL.unescape_escape false v
  unfold GoURL.pathEscape at h
  rw [h] at this
  unfold GoURL.pathUnescape at hw
  rw [hw] at this
  exact hne (Option.some.inj this).symm

/-- the escaped form of an admissible value is a normal path segment: non-empty, not a dot segment,
and without `/` -/
theorem normal_escaped {v : Bytes} (h : pathValueOk v = true) : GoPath.Normal (GoURL.pathEscape v) := by
  simp only [pathValueOk, Bool.and_eq_true, Bool.not_eq_eq_eq_not, Bool.not_true,
    List.isEmpty_eq_false_iff, bne_iff_ne, ne_eq] at h
  refine ⟨?_, ?_, ?_, ?_⟩
  · exact pathEscape_ne_of_unescape (w := []) rfl h.1.1
  · exact pathEscape_ne_of_unescape (w := GoPath.dot) (by decide) h.1.2
  · exact pathEscape_ne_of_unescape (w := GoPath.dotdot) (by decide) h.2
  · intro hm; exact (GoURL.pathEscape_no_special v _ hm).1 rfl

theorem normal_lit {b : Bytes} (h : litOk b = true) : GoPath.Normal b := by
  have hall := litOk_all h
  simp only [litOk, Bool.and_eq_true, Bool.not_eq_eq_eq_not, Bool.not_true, List.isEmpty_eq_false_iff,
    bne_iff_ne, ne_eq] at h
  refine ⟨h.1.1.1, h.1.1.2, h.1.2, ?_⟩
  intro hm
  exact (litByteSafe_spec _ (hall _ hm)).1 rfl

/-- every placeholder of the template has an admissible value -/
def ValuesOk (segs : List Seg) (params : List (Bytes × Bytes)) : Prop :=
  ∀ n ∈ phNames segs, ∃ v, C10.lookupParam params n = some v ∧ pathValueOk v = true

theorem mem_phNames {segs : List Seg} {n : Bytes} : n ∈ phNames segs ↔ Seg.ph n ∈ segs := by
  induction segs with
  | nil => simp [phNames]
  | cons s r ih =>
    cases s with
    | lit b => simp [phNames, ih]
    | ph m => simp [phNames, ih]

theorem valuesOk_of_bool {segs : List Seg} {params : List (Bytes × Bytes)} (h : valuesOk segs params = true) :
    ValuesOk segs params := by
  intro n hn
  simp only [valuesOk, List.all_eq_true] at h
  have := h n hn
  cases hv : C10.lookupParam params n with
  | none => rw [hv] at this; cases this
  | some v => rw [hv] at this; exact ⟨v, rfl, this⟩

theorem sub_ph {segs : List Seg} {params : List (Bytes × Bytes)} (hv : ValuesOk segs params) {n : Bytes}
    (hn : Seg.ph n ∈ segs) : ∃ v, C10.lookupParam params n = some v ∧ pathValueOk v = true ∧
      Seg.sub params (.ph n) = GoURL.pathEscape v := by
  obtain ⟨v, h1, h2⟩ := hv n (mem_phNames.mpr hn)
  exact ⟨v, h1, h2, by simp [Seg.sub, h1]⟩

theorem normal_sub {segs : List Seg} {params : List (Bytes × Bytes)} (hw : SegsWF segs)
    (hv : ValuesOk segs params) : ∀ s ∈ segs, GoPath.Normal (Seg.sub params s) := by
  intro s hs
  cases s with
  | lit b =>
    have hb : litOk b = true := by simpa [segOk] using hw _ hs
    exact normal_lit hb
  | ph n =>
    obtain ⟨v, _, h2, h3⟩ := sub_ph hv hs
    rw [h3]; exact normal_escaped h2

/-! ### step A2: the wire leaves the built path alone -/

theorem valid_sub {segs : List Seg} {params : List (Bytes × Bytes)} (hw : SegsWF segs)
    (hv : ValuesOk segs params) : ∀ s ∈ segs, ∀ c ∈ Seg.sub params s, validEncodedByte c = true := by
  intro s hs c hc
  cases s with
  | lit b =>
    have hb : litOk b = true := by simpa [segOk] using hw _ hs
    exact (litByteSafe_spec c (litOk_all hb c hc)).2.2.2.2.2.2.2.2
  | ph n =>
    obtain ⟨v, _, _, h3⟩ := sub_ph hv hs
    rw [h3] at hc
    exact isSafe_valid c (GoURL.escape_safe false v c hc)

theorem valid_render {segs : List Seg} {params : List (Bytes × Bytes)} (hw : SegsWF segs)
    (hv : ValuesOk segs params) : ∀ c ∈ renderSegs (Seg.sub params) segs, validEncodedByte c = true := by
  intro c hc
  rw [renderSegs_eq] at hc
  by_cases hs : segs = []
  · simp only [hs, ↓reduceIte, List.mem_cons, List.not_mem_nil, or_false] at hc
    subst hc; decide
  · simp only [hs, ↓reduceIte, flat, List.mem_flatMap, List.mem_cons] at hc
    obtain ⟨s, hs', rfl | hc⟩ := hc
    · decide
    · exact valid_sub hw hv s hs' c hc

theorem wirePath_id {p : Bytes} (h : ∀ c ∈ p, validEncodedByte c = true) : wirePath p = p := by
  unfold wirePath
  have : p.all validEncodedByte = true := by simpa [List.all_eq_true] using h
  simp [this]

/-! ### step B: `path.Clean` leaves the built path alone (and removes a reinstated trailing slash) -/

theorem good_sub {segs : List Seg} {params : List (Bytes × Bytes)} (hw : SegsWF segs)
    (hv : ValuesOk segs params) : GoPath.Good true (segs.map (Seg.sub params)) := by
  refine ⟨0, segs.map (Seg.sub params), by simp, ?_, fun _ => rfl⟩
  intro s hs
  simp only [List.mem_map] at hs
  obtain ⟨s0, hs0, rfl⟩ := hs
  exact normal_sub hw hv s0 hs0

theorem clean_render {l : List Bytes} (h : GoPath.Good true l) :
    GoPath.clean (GoPath.render true l) = GoPath.render true l := by
  show GoPath.render (GoPath.isRooted (GoPath.render true l)) (GoPath.kept (GoPath.render true l)) = _
  rw [GoPath.isRooted_render true l h, GoPath.kept_render true l h]

theorem clean_trailing_slash (p : Bytes) (hr : GoPath.isRooted p = true) :
    GoPath.clean (p ++ [47]) = GoPath.clean p := by
  have hne : p ≠ [] := by intro h; subst h; simp [GoPath.isRooted] at hr
  have hroot : GoPath.isRooted (p ++ [47]) = GoPath.isRooted p := GoPath.isRooted_append _ hne
  have hsegs : GoPath.segs (p ++ [47]) = GoPath.segs p ++ [[]] := by
    have := GoPath.segs_append_slash p []
    simpa [GoPath.slash, GoPath.segs_nil] using this
  unfold GoPath.clean GoPath.kept
  rw [hroot, hsegs, List.foldl_append]
  simp [GoPath.step_skip_nil]

theorem clean_built {segs : List Seg} {params : List (Bytes × Bytes)} (hw : SegsWF segs)
    (hv : ValuesOk segs params) (trailing : Bool) :
    GoPath.clean (renderSegs (Seg.sub params) segs ++ (if trailing then [47] else [])) =
      renderSegs (Seg.sub params) segs := by
  have hc := clean_render (good_sub hw hv)
  cases trailing with
  | false => simpa [renderSegs] using hc
  | true =>
    simp only [↓reduceIte]
    rw [clean_trailing_slash _ (by simp [renderSegs, GoPath.render, GoPath.isRooted])]
    exact hc

end RtVerif.C04
