import RtVerif.Lemmas.C12Main
/-
  C12, part F: the writer goroutine and the context preserve the invariant; every reachable state
  satisfies it; every step lowers the termination measure; no deadlock; `predict` is an execution.
-/
namespace RtVerif.C12
open RtVerif
set_option linter.unusedSimpArgs false
set_option linter.unusedVariables false

set_option maxHeartbeats 8000000 in
theorem inv_gSteps {p : Plan} {s s' : St} (hwf : p.WF) (hI : Inv p s) (h : s' ∈ gSteps s) : Inv p s' := by
  obtain ⟨h1, h2, h3, h4, h5, h6, h7, h8, h9, h10, h11, h12, h13, h14, h15, h16, h17, h18, h19, h20, h21, h22, h23, h24, h25, h26, h27, h28⟩ := hI
  have hws := @wf_stream p hwf
  simp only [gSteps] at h
  split at h
  · rename_i r hg; simp only [List.mem_singleton] at h; subst h; inv_close2 p, s
  · rename_i r hg; split at h
    · simp only [List.mem_singleton] at h; subst h; inv_close2 p, s
    · simp at h
  · rename_i r hg; split at h
    · simp only [List.mem_singleton] at h; subst h; inv_close2 p, s
    · simp at h
  · rename_i hg; simp only [List.mem_singleton] at h; subst h; inv_close2 p, s
  · rename_i hg; split at h
    · simp only [List.mem_singleton] at h; subst h; inv_close2 p, s
    · simp at h
  · simp at h

set_option maxHeartbeats 8000000 in
theorem inv_cSteps {p : Plan} {s s' : St} (hI : Inv p s) (h : s' ∈ cSteps p s) : Inv p s' := by
  obtain ⟨h1, h2, h3, h4, h5, h6, h7, h8, h9, h10, h11, h12, h13, h14, h15, h16, h17, h18, h19, h20, h21, h22, h23, h24, h25, h26, h27, h28⟩ := hI
  simp only [cSteps] at h
  split at h
  · simp only [List.mem_singleton] at h; subst h
    constructor <;> simp_all [complete]
  · simp at h

theorem inv_mainSteps {p : Plan} {s s' : St} (hwf : p.WF) (hI : Inv p s) (h : s' ∈ mainSteps p s) : Inv p s' := by
  unfold mainSteps at h
  split at h
  · exact inv_mStart hI (by assumption) h
  · exact inv_mChoose hwf hI (by assumption) h
  · exact inv_mAuth hwf hI (by assumption) h
  · exact inv_mAuthCopy hwf hI (by assumption) h
  · exact inv_mUrl hwf hI (by assumption) h
  · exact inv_mSend hwf hI (by assumption) h
  · exact inv_mSendBody hwf hI (by assumption) h
  · exact inv_mAwait hwf hI (by assumption) h
  · exact inv_mReading hwf hI (by assumption) h
  · exact inv_mDraining hwf hI (by assumption) h
  · exact inv_mClosing hwf hI (by assumption) h
  · simp at h

theorem inv_succs {p : Plan} {s s' : St} (hwf : p.WF) (hI : Inv p s) (h : s' ∈ succs p s) : Inv p s' := by
  simp only [succs, List.mem_append] at h
  rcases h with (h | h) | h
  · exact inv_mainSteps hwf hI h
  · exact inv_gSteps hwf hI h
  · exact inv_cSteps hI h

theorem inv_reach {p : Plan} {s : St} (hwf : p.WF) (h : Reach p s) : Inv p s := by
  induction h with
  | init => exact inv_init p
  | step _ hs ih => exact inv_succs hwf ih hs

end RtVerif.C12
