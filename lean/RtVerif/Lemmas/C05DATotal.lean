import RtVerif.Lemmas.C05DATop
/-  C05DA, part 9: totality — the fuel of the model is never exhausted and no Go panic is reachable:
    `findBase` terminates (every candidate index beyond all elements in use and all BASEs handed
    out succeeds), `build` terminates within `weight + 1` levels. -/
namespace RtVerif.C05DA
open RtVerif Bytes
open RtVerif.C05 (Rec cParam cWild cTerm cSep sortRecs leafOf weight look NulFree advLit advSingle advWild notKeySep)

/-! ### `findBase` terminates -/

theorem nextIndex_div (idx : Nat) (c : UInt8) : nextIndex idx c / 256 = idx / 256 := by
  unfold nextIndex
  have h := @Nat.shiftRight_xor_distrib 8 idx c.toNat
  rw [Nat.shiftRight_eq_div_pow, Nat.shiftRight_eq_div_pow, Nat.shiftRight_eq_div_pow] at h
  have hc : c.toNat / 2 ^ 8 = 0 := Nat.div_eq_of_lt (by have := UInt8.toNat_lt c; omega)
  rw [hc, Nat.xor_zero] at h
  simpa using h

theorem nextIndex_ge (idx : Nat) (c : UInt8) : 256 * (idx / 256) ≤ nextIndex idx c := by
  have := Nat.mul_div_le (nextIndex idx c) 256
  rw [nextIndex_div] at this
  exact this

theorem findEmptyFrom_ge (bc : BC) : ∀ n i, i ≤ findEmptyFrom bc n i := by
  intro n
  induction n with
  | zero => intro i; simp [findEmptyFrom]
  | succ n ih =>
    intro i
    rw [findEmptyFrom]
    split
    · split
      · exact Nat.le_refl _
      · exact Nat.le_trans (Nat.le_succ i) (ih (i + 1))
    · exact Nat.le_refl _

theorem findEmptyIndex_ge (bc : BC) (start : Nat) : start ≤ findEmptyIndex bc start :=
  findEmptyFrom_ge bc _ _

theorem tryBase_true (base : Nat) : ∀ (cs : List UInt8) (bc : BC),
    (∀ c ∈ cs, isFree bc (nextIndex base c) = true) → (tryBase base cs bc).2 = true := by
  intro cs
  induction cs with
  | nil => intro bc _; rfl
  | cons c cs ih =>
    intro bc h
    rw [tryBase]
    have hc : isFree (grow bc (nextIndex base c)) (nextIndex base c) = true := by
      rw [isFree_congr (el_grow bc (nextIndex base c))]; exact h c List.mem_cons_self
    rw [if_pos hc]
    apply ih
    intro c' hc'
    rw [isFree_congr (el_grow bc (nextIndex base c))]
    exact h c' (List.mem_cons_of_mem _ hc')

theorem le_listMax {l : List Nat} {x : Nat} (h : x ∈ l) : x ≤ listMax l := by
  induction l with
  | nil => cases h
  | cons y ys ih =>
    simp only [listMax]
    rcases List.mem_cons.mp h with rfl | h
    · exact Nat.le_max_left _ _
    · exact Nat.le_trans (ih h) (Nat.le_max_right _ _)

/-- Every candidate index in a 256-block beyond `H` succeeds, so the loop returns after at most
`256 * (H / 256 + 1) - idx + 1` iterations. -/
theorem findBaseLoop_total (used : List Nat) (first : UInt8) (cs : List UInt8) (H : Nat)
    (hused : ∀ u ∈ used, u < H) :
    ∀ (fuel idx : Nat) (bc : BC), (∀ s, H ≤ s → el bc s = {}) → 1 ≤ fuel →
      256 * (H / 256 + 1) + 1 ≤ idx + fuel →
      ∃ r, findBaseLoop used first cs fuel idx bc = some r := by
  intro fuel
  induction fuel with
  | zero => intro idx bc _ h1 _; omega
  | succ f ih =>
    intro idx bc hhigh _ hfuel
    rw [findBaseLoop]
    simp only
    by_cases hbig : 256 * (H / 256 + 1) ≤ idx
    · -- this candidate succeeds
      have hblock : H / 256 + 1 ≤ idx / 256 := by
        rw [Nat.le_div_iff_mul_le (by omega)]; omega
      have hHlt : H < 256 * (H / 256 + 1) := by
        have := Nat.div_add_mod H 256
        have := Nat.mod_lt H (show 256 > 0 by omega)
        omega
      have hbase : H < nextIndex idx first := by
        have := nextIndex_ge idx first
        have : 256 * (H / 256 + 1) ≤ 256 * (idx / 256) := Nat.mul_le_mul_left _ hblock
        omega
      have hnu : used.contains (nextIndex idx first) = false := by
        rw [List.contains_eq_mem]
        simp only [decide_eq_false_iff_not]
        intro hm
        have := hused _ hm
        omega
      rw [hnu]
      simp only [Bool.false_eq_true, ↓reduceIte]
      have hfree : ∀ c ∈ cs, isFree bc (nextIndex (nextIndex idx first) c) = true := by
        intro c _
        have h1 := nextIndex_ge (nextIndex idx first) c
        rw [nextIndex_div] at h1
        have h2 : 256 * (H / 256 + 1) ≤ 256 * (idx / 256) := Nat.mul_le_mul_left _ hblock
        have hge : H ≤ nextIndex (nextIndex idx first) c := by omega
        unfold isFree
        rw [hhigh _ hge]
        have : nextIndex (nextIndex idx first) c ≠ rootIndex := by unfold rootIndex; omega
        simp [this, Elem.isEmpty]
      rw [tryBase_true _ _ _ hfree]
      exact ⟨_, rfl⟩
    · have hf1 : 1 ≤ f := by omega
      split
      · exact ih _ _ hhigh hf1 (by have := findEmptyIndex_ge bc (idx + 1); omega)
      · split
        · exact ⟨_, rfl⟩
        · obtain ⟨t1, _, _⟩ := tryBase_spec (nextIndex idx first) cs bc
          exact ih _ _ (fun s hs => by rw [t1]; exact hhigh s hs) hf1
            (by have := findEmptyIndex_ge (tryBase (nextIndex idx first) cs bc).1 (idx + 1); omega)

/-- **`findBase` never runs out of fuel.** -/
theorem findBase_total (bc : BC) (used : List Nat) (cs : List UInt8) (start : Nat) (hne : cs ≠ []) :
    ∃ r, findBase bc used cs start = some r := by
  unfold findBase
  cases cs with
  | nil => exact absurd rfl hne
  | cons first rest =>
    simp only
    apply findBaseLoop_total used first (first :: rest) (max bc.size (listMax used + 1))
    · intro u hu
      have := le_listMax hu
      omega
    · intro s hs
      exact el_of_ge (by omega)
    · unfold findBaseFuel; omega
    · unfold findBaseFuel
      have := Nat.mul_div_le (max bc.size (listMax used + 1)) 256
      omega

/-- the BASE returned comes from a candidate index beyond `start` -/
theorem findBaseLoop_cand (used : List Nat) (first : UInt8) (cs : List UInt8) :
    ∀ (fuel idx : Nat) (bc bc' : BC) (base : Nat),
      findBaseLoop used first cs fuel idx bc = some (bc', base) →
      ∃ cand, idx ≤ cand ∧ base = nextIndex cand first := by
  intro fuel
  induction fuel with
  | zero => intro idx bc bc' base h; simp [findBaseLoop] at h
  | succ f ih =>
    intro idx bc bc' base h
    rw [findBaseLoop] at h
    simp only at h
    split at h
    · obtain ⟨cand, h1, h2⟩ := ih _ _ _ _ h
      exact ⟨cand, by have := findEmptyIndex_ge bc (idx + 1); omega, h2⟩
    · split at h
      · simp only [Option.some.injEq, Prod.mk.injEq] at h
        exact ⟨idx, Nat.le_refl _, h.2.symm⟩
      · obtain ⟨cand, h1, h2⟩ := ih _ _ _ _ h
        exact ⟨cand, by
          have := findEmptyIndex_ge (tryBase (nextIndex idx first) cs bc).1 (idx + 1); omega, h2⟩

/-- after `findBase` the element `start` is inside the array (`setBase(idx, base)` cannot panic) -/
theorem findBase_start_lt {bc bc' : BC} {used : List Nat} {cs : List UInt8} {start base : Nat}
    (h : findBase bc used cs start = some (bc', base)) : start < bc'.size := by
  have hspec := findBase_spec h
  unfold findBase at h
  split at h
  · cases h
  · rename_i first rest
    obtain ⟨cand, h1, h2⟩ := findBaseLoop_cand _ _ _ _ _ _ _ _ h
    have := (hspec.2.2.2 first List.mem_cons_self).2
    rw [h2, nextIndex_cancel] at this
    omega

/-! ### `build` terminates and does not panic -/

theorem setChecks_total (base : Nat) : ∀ (sibs : List Sib) (bc : BC),
    (∀ s ∈ sibs, nextIndex base s.c < bc.size) →
    ∃ bc', setChecks base sibs bc = .ok bc' ∧ bc'.size = bc.size := by
  intro sibs
  induction sibs with
  | nil => intro bc _; exact ⟨bc, rfl, rfl⟩
  | cons s t ih =>
    intro bc h
    rw [setChecks, if_pos (h s List.mem_cons_self)]
    obtain ⟨bc', h1, h2⟩ := ih (upd bc (nextIndex base s.c) (·.setCheck s.c))
      (fun s' hs' => by rw [size_upd]; exact h s' (List.mem_cons_of_mem _ hs'))
    exact ⟨bc', h1, by rw [h2, size_upd]⟩

/-- with the two slice-bounds panics out of the way, one round of the loop over the siblings -/
theorem buildSibs_cons_eq (rec : List Rec → Nat → St → Except Err St) (srcs : List Rec) (base idx : Nat)
    (s : Sib) (rest : List Sib) (st : St)
    (h1 : s.c = cParam → (slice srcs s).any (fun r => r.key.isEmpty) = false)
    (h2 : s.c = cWild → (slice srcs s).any (fun r => r.key.length < 2) = false) :
    buildSibs rec srcs base idx (s :: rest) st =
      match rec (childSrcs s.c (slice srcs s)) (nextIndex base s.c) (flagSt s.c idx st) with
      | .error e => .error e
      | .ok st' => buildSibs rec srcs base idx rest st' := by
  rw [buildSibs]
  unfold childSrcs flagSt
  by_cases hp : (s.c == cParam) = true
  · simp only [hp, ↓reduceIte, h1 (by simpa using hp), Bool.false_eq_true]
    rfl
  · by_cases hw : (s.c == cWild) = true
    · simp only [hp, hw, ↓reduceIte, h2 (by simpa using hw), Bool.false_eq_true]
      rfl
    · simp only [hp, hw, Bool.false_eq_true, ↓reduceIte]
      rfl

theorem weight_map_lt (f : Rec → Rec) : ∀ g : List Rec,
    (∀ r ∈ g, (f r).key.length + 1 ≤ r.key.length) → weight (g.map f) + g.length ≤ weight g := by
  intro g
  induction g with
  | nil => intro _; simp [weight]
  | cons x xs ih =>
    intro h
    have h1 := h x List.mem_cons_self
    have h2 := ih (fun r hr => h r (List.mem_cons_of_mem _ hr))
    simp only [weight, List.map_cons, List.sum_cons, List.length_cons] at h2 ⊢
    omega

theorem weight_filter_le (p : Rec → Bool) (rs : List Rec) : weight (rs.filter p) ≤ weight rs := by
  induction rs with
  | nil => simp [weight]
  | cons x xs ih =>
    simp only [List.filter_cons]
    split
    · simp only [weight, List.map_cons, List.sum_cons] at ih ⊢; omega
    · simp only [weight, List.map_cons, List.sum_cons] at ih ⊢; omega

theorem weight_childSrcs_lt {c : UInt8} (hc : c ≠ 0) {rs : List Rec} (hex : ∃ r ∈ rs, headOf r = c) :
    weight (childSrcs c (rs.filter (headIs c))) < weight rs := by
  have hkey : ∀ r ∈ rs.filter (headIs c), 1 ≤ r.key.length := by
    intro r hr
    have := (List.mem_filter.mp hr).2
    simp only [headIs, headOf, beq_iff_eq] at this
    cases hk : r.key with
    | nil => rw [hk] at this; exact absurd this.symm hc
    | cons _ _ => simp
  have hlen : 1 ≤ (rs.filter (headIs c)).length := by
    obtain ⟨r, hr, hh⟩ := hex
    have : r ∈ rs.filter (headIs c) := List.mem_filter.mpr ⟨hr, by simp [headIs, hh]⟩
    exact List.length_pos_iff.mpr (List.ne_nil_of_mem this)
  have hle := weight_filter_le (headIs c) rs
  have : weight (childSrcs c (rs.filter (headIs c))) + (rs.filter (headIs c)).length ≤
      weight (rs.filter (headIs c)) := by
    unfold childSrcs
    split
    · apply weight_map_lt
      intro r hr
      have := hkey r hr
      have hd := C05.length_dropWhile_le notKeySep (r.key.drop 1)
      simp only [stripSingle, List.length_drop] at hd ⊢
      omega
    · split
      · apply weight_map_lt
        intro r hr
        have := hkey r hr
        simp only [stripWild, List.length_nil]
        omega
      · apply weight_map_lt
        intro r hr
        have := hkey r hr
        simp only [dropHead, List.length_drop]
        omega
  omega

/-- the leaves `C05.build` scans for duplicate names include those below every child -/
theorem leaves_child {c : UInt8} (hc : c ≠ 0) {rs : List Rec} (hex : ∃ r ∈ rs, headOf r = c)
    (f : Nat) {x : Rec} (hx : x ∈ C05.leaves f (childOf c rs)) : x ∈ C05.leaves (f + 1) rs := by
  rw [C05.leaves]
  apply List.mem_append_right
  rw [List.mem_flatMap]
  refine ⟨c.toNat, by rw [List.mem_range]; exact UInt8.toNat_lt c, ?_⟩
  simp only [UInt8.ofNat_toNat]
  have hany : rs.any (fun r => r.key.head? == some c) = true := by
    rw [List.any_eq_true]
    obtain ⟨r, hr, hh⟩ := hex
    refine ⟨r, hr, ?_⟩
    cases hk : r.key with
    | nil => simp only [headOf, hk, List.headD_nil] at hh; exact absurd hh.symm hc
    | cons b k => simp only [headOf, hk, List.headD_cons] at hh; simp [hh]
  rw [if_pos hany]
  unfold childOf at hx
  rw [apply_ite (C05.leaves f), apply_ite (C05.leaves f)] at hx
  exact hx

theorem leaves_leaf {rs : List Rec} {r : Rec} (h : leafOf rs = some r) (f : Nat) :
    r ∈ C05.leaves (f + 1) rs := by
  rw [C05.leaves]
  apply List.mem_append_left
  rw [h]; simp

/-- what `build` may return: a state, or one of its two legitimate refusals (a BASE beyond
`MaxSize`; a duplicated parameter name — only when `D`, "the duplicate-name scan of `C05.build` is
clean", does not hold) -/
def Fine (D : Prop) (st : St) (r : Except Err St) : Prop :=
  (∃ st', r = .ok st' ∧ st.bc.size ≤ st'.bc.size) ∨ r = .error .tooManyElems ∨
    (¬D ∧ r = .error .dupName)

/-- the totality contract of one `build` call at fuel `f` -/
def TotalAt (D : Prop) (rec : List Rec → Nat → St → Except Err St) (f : Nat) : Prop :=
  ∀ srcs idx st, Good srcs → weight srcs < f → ((∀ r ∈ srcs, r.key = []) → idx < st.bc.size) →
    (D → ∀ r ∈ C05.leaves f (sortRecs srcs), C05.hasDup r.names = false) → Fine D st (rec srcs idx st)

theorem buildSibs_total {D : Prop} {rec : List Rec → Nat → St → Except Err St} {f : Nat}
    (hrec : TotalAt D rec f)
    {rs : List Rec} {base idx : Nat} (hs : rs.Pairwise C05.KeyLe) (hT : TermAll rs) (hN : NulFree rs)
    (hw : weight rs ≤ f) (hdup : D → ∀ r ∈ C05.leaves (f + 1) rs, C05.hasDup r.names = false) :
    ∀ (sibs : List Sib) (st : St),
      (∀ s ∈ sibs, slice rs s = rs.filter (headIs s.c) ∧ s.c ≠ 0 ∧ ∃ r ∈ rs, headOf r = s.c) →
      (∀ s ∈ sibs, nextIndex base s.c < st.bc.size) →
      Fine D st (buildSibs rec rs base idx sibs st) := by
  intro sibs
  induction sibs with
  | nil => intro st _ _; exact Or.inl ⟨st, rfl, Nat.le_refl _⟩
  | cons s rest ih =>
    intro st hsl hlt
    obtain ⟨hslice, hc0, hex⟩ := hsl s List.mem_cons_self
    have hgroup : ∀ r ∈ rs.filter (headIs s.c), TermOK r.key := fun r hr => hT r (List.mem_filter.mp hr).1
    have h1 : s.c = cParam → (slice rs s).any (fun r => r.key.isEmpty) = false := by
      intro _
      rw [hslice, Bool.eq_false_iff]
      intro h
      rw [List.any_eq_true] at h
      obtain ⟨r, hr, he⟩ := h
      exact (hgroup r hr).ne_nil (by simpa using he)
    have h2 : s.c = cWild → (slice rs s).any (fun r => r.key.length < 2) = false := by
      intro hw
      rw [hslice, Bool.eq_false_iff]
      intro h
      rw [List.any_eq_true] at h
      obtain ⟨r, hr, he⟩ := h
      simp only [decide_eq_true_eq] at he
      obtain ⟨body, hk, hb⟩ := hgroup r hr
      have hhead := (List.mem_filter.mp hr).2
      simp only [headIs, headOf, beq_iff_eq] at hhead
      cases body with
      | nil =>
        rw [hk, hw] at hhead
        simp only [List.nil_append, List.headD_cons] at hhead
        exact absurd hhead (by decide)
      | cons b body' =>
        rw [hk] at he
        simp only [List.cons_append, List.length_cons, List.length_append, List.length_nil] at he
        omega
    rw [buildSibs_cons_eq rec rs base idx s rest st h1 h2, hslice]
    have hchild : childOf s.c rs = sortRecs (childSrcs s.c (rs.filter (headIs s.c))) := child_eq' hc0 hs
    have hfine := hrec (childSrcs s.c (rs.filter (headIs s.c))) (nextIndex base s.c) (flagSt s.c idx st)
      (good_child hc0 hs hT hN hex)
      (Nat.lt_of_lt_of_le (weight_childSrcs_lt hc0 hex) hw)
      (fun _ => by rw [flagSt_size]; exact hlt s List.mem_cons_self)
      (by
        intro d r hr
        rw [← hchild] at hr
        exact hdup d r (leaves_child hc0 hex f hr))
    rcases hfine with ⟨stb, hb, hsz⟩ | hb | ⟨hd, hb⟩
    · rw [hb]
      simp only
      rw [flagSt_size] at hsz
      have := ih stb (fun s' hs' => hsl s' (List.mem_cons_of_mem _ hs'))
        (fun s' hs' => Nat.lt_of_lt_of_le (hlt s' (List.mem_cons_of_mem _ hs')) hsz)
      rcases this with ⟨st', h', hsz'⟩ | h'
      · exact Or.inl ⟨st', h', Nat.le_trans hsz hsz'⟩
      · exact Or.inr h'
    · rw [hb]; exact Or.inr (Or.inl rfl)
    · rw [hb]; exact Or.inr (Or.inr ⟨hd, rfl⟩)

/-- **`build` never runs out of fuel, never panics, never reports an unsorted table or a duplicated
name** when it is called as `Router.Build` calls it and `C05.build`'s duplicate-name scan is clean:
it returns a state, or refuses a BASE beyond `MaxSize`. -/
theorem build_total (D : Prop) : ∀ f : Nat, TotalAt D (build f) f := by
  intro f
  induction f with
  | zero => intro srcs idx st _ hw; omega
  | succ f ih =>
    intro srcs idx st hgood hw hidx hdup
    have hgood' : Good (sortRecs srcs) := hgood.congr (fun r => C05.mem_sortRecs)
    have hsorted := C05.sorted_sortRecs srcs
    have hw' : weight (sortRecs srcs) ≤ f := by rw [C05.weight_sortRecs]; omega
    have hidx' : (∀ r ∈ sortRecs srcs, r.key = []) → idx < st.bc.size :=
      fun h => hidx (fun r hr => h r (C05.mem_sortRecs.mpr hr))
    rw [build]
    generalize sortRecs srcs = rs at hgood' hsorted hw' hidx' hdup ⊢
    obtain ⟨hne, hN, hkeys⟩ := hgood'
    rcases hkeys with hk | hT
    · -- leaf
      rw [mkSiblings_leaf hk]
      obtain ⟨r, hleaf⟩ : ∃ r, leafOf rs = some r := by
        unfold leafOf
        have : rs.filter (fun r => r.key.isEmpty) = rs := by
          rw [List.filter_eq_self]; intro r hr; simp [hk r hr]
        rw [this]
        cases rs with
        | nil => exact absurd rfl hne
        | cons x xs => exact ⟨_, List.getLast?_cons⟩
      have harr : arrange [] idx st = .ok (st, 0) := rfl
      by_cases hnd : C05.hasDup r.names = true
      · simp only [harr, hleaf, leafStep, hnd, ↓reduceIte]
        refine Or.inr (Or.inr ⟨fun d => ?_, rfl⟩)
        have := hdup d r (leaves_leaf hleaf f)
        rw [hnd] at this; cases this
      · simp only [harr, hleaf, leafStep, hnd, Bool.false_eq_true, ↓reduceIte, hidx' hk, setChecks, buildSibs]
        exact Or.inl ⟨_, rfl, by simp only; rw [size_upd]; exact Nat.le_refl _⟩
    · -- inner node
      have hkne : ∀ r ∈ rs, r.key ≠ [] := fun r hr => (hT r hr).ne_nil
      have hh0 : ∀ r ∈ rs, headOf r ≠ 0 := by
        intro r hr h0
        have hn := hN r hr
        cases hkr : r.key with
        | nil => exact hkne r hr hkr
        | cons b k =>
          simp only [headOf, hkr, List.headD_cons] at h0
          rw [hkr, h0] at hn
          exact hn List.mem_cons_self
      obtain ⟨sibs, hmk, hok⟩ := mkSiblings_inner hne hsorted hkne hh0
      rw [hmk]
      simp only
      have hsne : sibs ≠ [] := by
        intro hnil
        cases rs with
        | nil => exact hne rfl
        | cons x xs =>
          have := (hok.chars (headOf x)).mpr ⟨x, List.mem_cons_self, rfl⟩
          rw [hnil] at this; cases this
      have hc0 : ∀ s ∈ sibs, s.c ≠ 0 := by
        intro s hs h0
        obtain ⟨r, hr, hh⟩ := (hok.chars s.c).mp (List.mem_map.mpr ⟨s, hs, rfl⟩)
        exact hh0 r hr (hh.trans h0)
      have hemp : sibs.isEmpty = false := by cases sibs with
        | nil => exact absurd rfl hsne
        | cons _ _ => rfl
      have hcsne : sibs.map (·.c) ≠ [] := by
        intro h; exact hsne (List.map_eq_nil_iff.mp h)
      obtain ⟨⟨bcg, base⟩, hfb⟩ := findBase_total st.bc st.used (sibs.map (·.c)) idx hcsne
      have hstart := findBase_start_lt hfb
      obtain ⟨_, hgsize, _, hgslots⟩ := findBase_spec hfb
      unfold arrange
      simp only [hemp, Bool.false_eq_true, ↓reduceIte, hfb]
      by_cases hmax : base > maxSize
      · simp only [hmax, ↓reduceIte]
        exact Or.inr (Or.inl rfl)
      · simp only [hmax, ↓reduceIte, hstart, leafStep]
        obtain ⟨bc3, hset, hsize3⟩ := setChecks_total base sibs (upd bcg idx (·.setBase base))
          (fun s hs => by rw [size_upd]; exact (hgslots s.c (List.mem_map.mpr ⟨s, hs, rfl⟩)).2)
        rw [hset]
        simp only
        have hsl : ∀ s ∈ sibs, slice rs s = rs.filter (headIs s.c) ∧ s.c ≠ 0 ∧ ∃ r ∈ rs, headOf r = s.c := by
          intro s hs
          exact ⟨hok.slices s hs, hc0 s hs, (hok.chars s.c).mp (List.mem_map.mpr ⟨s, hs, rfl⟩)⟩
        have := buildSibs_total (idx := idx) ih hsorted hT hN hw' hdup sibs
          { bc := bc3, node := st.node, used := base :: st.used } hsl
          (fun s hs => by
            simp only; rw [hsize3, size_upd]
            exact (hgslots s.c (List.mem_map.mpr ⟨s, hs, rfl⟩)).2)
        rcases this with ⟨st', h', hsz'⟩ | h'
        · refine Or.inl ⟨st', h', ?_⟩
          simp only [hsize3, size_upd] at hsz'
          omega
        · exact Or.inr h'

/-- what `C05.build` has checked when it accepts a table -/
theorem c05_build_ok' {recs : List (Bytes × Nat)} {t : C05.Table} (h : C05.build recs = .ok t) :
    ((recs.filter fun kv => C05.isParamKey kv.1).any (fun kv => C05.isBadKey kv.1)) = false ∧
    ((C05.leaves (weight (sortRecs (C05.paramRecs recs)) + 1) (sortRecs (C05.paramRecs recs))).any
      (fun r => C05.hasDup r.names)) = false := by
  unfold C05.build at h
  split at h
  · cases h
  · rename_i h1
    simp only at h
    split at h
    · cases h
    · rename_i h2
      exact ⟨by simpa using h1, by simpa using h2⟩

end RtVerif.C05DA
