import RtVerif.Base.Bytes
/-
  encoding/base64 with padding: `base64.StdEncoding` (`url = false`) and `base64.URLEncoding`
  (`url = true`), `EncodeToString` / `DecodeString`.

  Hand-copied from Go's encoding/base64 (stdlib is modelled, not verified); checked against the real
  functions by correspondence stream "B" of C14 (all lengths 0..64, random bytes, mutated and noisy
  encodings, both alphabets).

  Decoding mirrors the NON-strict decoder that `StdEncoding`/`URLEncoding` are: the unused low bits of
  the last quantum are ignored (`QR==` decodes like `QQ==`), padding is mandatory, anything after the
  padding is an error, and — like Go — the bytes '\r' and '\n' are skipped wherever they occur
  (`decode` = drop CR/LF, then `decodeStrict`).  Arithmetic is on `Nat` with `/` and `%` instead of
  shifts and masks.
-/
namespace RtVerif.Base64
open RtVerif

/-- the 64 characters of the alphabet; positions 62 and 63 differ between std and URL -/
def alphabet (url : Bool) : List UInt8 :=
  [65,66,67,68,69,70,71,72,73,74,75,76,77,78,79,80,81,82,83,84,85,86,87,88,89,90,
   97,98,99,100,101,102,103,104,105,106,107,108,109,110,111,112,113,114,115,116,117,118,119,120,121,122,
   48,49,50,51,52,53,54,55,56,57] ++ (if url then [45, 95] else [43, 47])

/-- `enc.encode[n]` for `n < 64` -/
def enc6 (url : Bool) (n : Nat) : UInt8 := (alphabet url).getD n 0

/-- `enc.decodeMap[c]`; `none` is the 0xff entry -/
def dec6 (url : Bool) (c : UInt8) : Option Nat :=
  if 65 ≤ c && c ≤ 90 then some (c.toNat - 65)
  else if 97 ≤ c && c ≤ 122 then some (c.toNat - 71)
  else if 48 ≤ c && c ≤ 57 then some (c.toNat + 4)
  else if c == (if url then 45 else 43) then some 62
  else if c == (if url then 95 else 47) then some 63
  else none

def pad : UInt8 := 61

/-- the four characters of one full 3-byte group -/
def enc3 (url : Bool) (x y z : UInt8) : Bytes :=
  [enc6 url (x.toNat / 4), enc6 url (x.toNat % 4 * 16 + y.toNat / 16),
   enc6 url (y.toNat % 16 * 4 + z.toNat / 64), enc6 url (z.toNat % 64)]

/-- `EncodeToString` -/
def encode (url : Bool) : Bytes → Bytes
  | [] => []
  | [x] => [enc6 url (x.toNat / 4), enc6 url (x.toNat % 4 * 16), pad, pad]
  | [x, y] => [enc6 url (x.toNat / 4), enc6 url (x.toNat % 4 * 16 + y.toNat / 16),
               enc6 url (y.toNat % 16 * 4), pad]
  | x :: y :: z :: r => enc3 url x y z ++ encode url r

/-- last quantum `ab==`: one byte -/
def dec2 (url : Bool) (a b : UInt8) : Option Bytes :=
  match dec6 url a, dec6 url b with
  | some i0, some i1 => some [UInt8.ofNat (i0 * 4 + i1 / 16)]
  | _, _ => none

/-- last quantum `abc=`: two bytes -/
def dec3 (url : Bool) (a b c : UInt8) : Option Bytes :=
  match dec6 url a, dec6 url b, dec6 url c with
  | some i0, some i1, some i2 => some [UInt8.ofNat (i0 * 4 + i1 / 16), UInt8.ofNat (i1 % 16 * 16 + i2 / 4)]
  | _, _, _ => none

/-- a full quantum `abcd`: three bytes -/
def dec4 (url : Bool) (a b c d : UInt8) : Option Bytes :=
  match dec6 url a, dec6 url b, dec6 url c, dec6 url d with
  | some i0, some i1, some i2, some i3 =>
    some [UInt8.ofNat (i0 * 4 + i1 / 16), UInt8.ofNat (i1 % 16 * 16 + i2 / 4), UInt8.ofNat (i2 % 4 * 64 + i3)]
  | _, _, _, _ => none

/-- decoding of input without CR/LF; `none` is `CorruptInputError` -/
def decodeStrict (url : Bool) : Bytes → Option Bytes
  | [] => some []
  | a :: b :: c :: d :: r =>
    if r.isEmpty && d == pad then
      (if c == pad then dec2 url a b else dec3 url a b c)
    else
      match dec4 url a b c d, decodeStrict url r with
      | some x, some t => some (x ++ t)
      | _, _ => none
  | _ => none

def notNL (c : UInt8) : Bool := !(c == 10 || c == 13)

/-- `DecodeString`: CR and LF are ignored wherever they stand -/
def decode (url : Bool) (s : Bytes) : Option Bytes := decodeStrict url (s.filter notNL)

/-! ### round trip -/

theorem dec6_enc6 (url : Bool) : ∀ n, n < 64 → dec6 url (enc6 url n) = some n := by
  cases url <;> decide

theorem enc6_ne_pad (url : Bool) : ∀ n, n < 64 → (enc6 url n == pad) = false := by
  cases url <;> decide

theorem enc6_notNL (url : Bool) : ∀ n, n < 64 → notNL (enc6 url n) = true := by
  cases url <;> decide

theorem ofNat_toNat' (x : UInt8) (n : Nat) (h : n = x.toNat) : UInt8.ofNat n = x := by
  subst h; exact UInt8.ofNat_toNat

theorem dec4_enc3 (url : Bool) (x y z : UInt8) :
    dec4 url (enc6 url (x.toNat / 4)) (enc6 url (x.toNat % 4 * 16 + y.toNat / 16))
      (enc6 url (y.toNat % 16 * 4 + z.toNat / 64)) (enc6 url (z.toNat % 64)) = some [x, y, z] := by
  have hx := x.toNat_lt; have hy := y.toNat_lt; have hz := z.toNat_lt
  simp only [dec4, dec6_enc6 url _ (show x.toNat / 4 < 64 by omega),
    dec6_enc6 url _ (show x.toNat % 4 * 16 + y.toNat / 16 < 64 by omega),
    dec6_enc6 url _ (show y.toNat % 16 * 4 + z.toNat / 64 < 64 by omega),
    dec6_enc6 url _ (show z.toNat % 64 < 64 by omega)]
  rw [ofNat_toNat' x _ (by omega), ofNat_toNat' y _ (by omega), ofNat_toNat' z _ (by omega)]

theorem dec3_enc (url : Bool) (x y : UInt8) :
    dec3 url (enc6 url (x.toNat / 4)) (enc6 url (x.toNat % 4 * 16 + y.toNat / 16))
      (enc6 url (y.toNat % 16 * 4)) = some [x, y] := by
  have hx := x.toNat_lt; have hy := y.toNat_lt
  simp only [dec3, dec6_enc6 url _ (show x.toNat / 4 < 64 by omega),
    dec6_enc6 url _ (show x.toNat % 4 * 16 + y.toNat / 16 < 64 by omega),
    dec6_enc6 url _ (show y.toNat % 16 * 4 < 64 by omega)]
  rw [ofNat_toNat' x _ (by omega), ofNat_toNat' y _ (by omega)]

theorem dec2_enc (url : Bool) (x : UInt8) :
    dec2 url (enc6 url (x.toNat / 4)) (enc6 url (x.toNat % 4 * 16)) = some [x] := by
  have hx := x.toNat_lt
  simp only [dec2, dec6_enc6 url _ (show x.toNat / 4 < 64 by omega),
    dec6_enc6 url _ (show x.toNat % 4 * 16 < 64 by omega)]
  rw [ofNat_toNat' x _ (by omega)]

/-- `decodeStrict (encode b) = b`, for every byte string (induction on 3-byte groups). -/
theorem decodeStrict_encode (url : Bool) (b : Bytes) : decodeStrict url (encode url b) = some b := by
  induction b using encode.induct with
  | case1 => rfl
  | case2 x =>
    have hx := x.toNat_lt
    simp only [encode, decodeStrict, List.isEmpty_nil, beq_self_eq_true, Bool.and_self, ↓reduceIte]
    exact dec2_enc url x
  | case3 x y =>
    have hy := y.toNat_lt
    simp only [encode, decodeStrict, List.isEmpty_nil, beq_self_eq_true, Bool.and_self, ↓reduceIte,
      enc6_ne_pad url _ (show y.toNat % 16 * 4 < 64 by omega), Bool.false_eq_true]
    exact dec3_enc url x y
  | case4 x y z r ih =>
    have hz := z.toNat_lt
    simp only [encode, enc3, List.cons_append, List.nil_append, decodeStrict,
      enc6_ne_pad url _ (show z.toNat % 64 < 64 by omega), Bool.and_false, Bool.false_eq_true,
      ↓reduceIte, dec4_enc3, ih]

theorem encode_filter (url : Bool) (b : Bytes) : (encode url b).filter notNL = encode url b := by
  induction b using encode.induct with
  | case1 => rfl
  | case2 x =>
    have hx := x.toNat_lt
    simp only [encode, List.filter, enc6_notNL url _ (show x.toNat / 4 < 64 by omega),
      enc6_notNL url _ (show x.toNat % 4 * 16 < 64 by omega), show notNL pad = true by decide]
  | case3 x y =>
    have hx := x.toNat_lt; have hy := y.toNat_lt
    simp only [encode, List.filter, enc6_notNL url _ (show x.toNat / 4 < 64 by omega),
      enc6_notNL url _ (show x.toNat % 4 * 16 + y.toNat / 16 < 64 by omega),
      enc6_notNL url _ (show y.toNat % 16 * 4 < 64 by omega), show notNL pad = true by decide]
  | case4 x y z r ih =>
    have hx := x.toNat_lt; have hy := y.toNat_lt; have hz := z.toNat_lt
    simp only [encode, enc3, List.cons_append, List.nil_append, List.filter,
      enc6_notNL url _ (show x.toNat / 4 < 64 by omega),
      enc6_notNL url _ (show x.toNat % 4 * 16 + y.toNat / 16 < 64 by omega),
      enc6_notNL url _ (show y.toNat % 16 * 4 + z.toNat / 64 < 64 by omega),
      enc6_notNL url _ (show z.toNat % 64 < 64 by omega), ih]

/-- `DecodeString (EncodeToString b) = b`, for every byte string and both alphabets. -/
theorem decode_encode (url : Bool) (b : Bytes) : decode url (encode url b) = some b := by
  unfold decode; rw [encode_filter, decodeStrict_encode]

end RtVerif.Base64
