import RtVerif.Base.Bytes
/-
  GoPath — Go's `path.Clean / Join / Split / Base` on byte strings (core Lean only).

  `path.Clean` is written in Go with a `lazybuf` (an in-place output buffer with a write index `w`
  and a `dotdot` watermark).  The formulation here is the equivalent *segment stack*: the path is
  split at every `/`; the segments are consumed left to right

      ""  and "."   are dropped
      ".."          pops the top segment if there is one that is not itself a kept ".." ;
                    otherwise it is kept (pushed) when the path is unrooted and dropped when rooted
      anything else is pushed

  and the stack is rendered with `/` between the segments, a leading `/` for rooted paths and `.`
  for an empty unrooted result.  (`out.w > dotdot` in Go says exactly "the top of the stack is a
  segment that is not part of the kept `../../` prefix".)  The equivalence with the real functions
  is checked on every run by correspondence stream `G` (≥ 10^5 random byte paths over the alphabet
  `/ . a b % : * # 0x00 0xff`); the theorems are in `RtVerif/Lemmas/GoPath.lean`.
-/
namespace RtVerif.GoPath
open RtVerif

def slash : UInt8 := 47
def dot : Bytes := [46]
def dotdot : Bytes := [46, 46]

/-- First segment and remaining segments of a path split at every `/`. -/
def segsAux : Bytes → Bytes × List Bytes
  | [] => ([], [])
  | b :: r =>
    if b = slash then ([], (segsAux r).1 :: (segsAux r).2)
    else (b :: (segsAux r).1, (segsAux r).2)

/-- `strings.Split(p, "/")`: always at least one segment. -/
def segs (p : Bytes) : List Bytes := (segsAux p).1 :: (segsAux p).2

/-- Segments joined with single slashes. -/
def joinSegs : List Bytes → Bytes
  | [] => []
  | [s] => s
  | s :: t => s ++ slash :: joinSegs t

def isRooted (p : Bytes) : Bool :=
  match p with
  | b :: _ => b = slash
  | [] => false

/-- One step of `Clean`'s main loop on the stack of kept segments (top first). -/
def step (rooted : Bool) (st : List Bytes) (seg : Bytes) : List Bytes :=
  if seg = [] ∨ seg = dot then st
  else if seg = dotdot then
    match st with
    | [] => if rooted then [] else [dotdot]
    | top :: rest => if top = dotdot then dotdot :: st else rest
  else seg :: st

/-- The kept segments, bottom first. -/
def kept (p : Bytes) : List Bytes := ((segs p).foldl (step (isRooted p)) []).reverse

def render (rooted : Bool) (l : List Bytes) : Bytes :=
  if rooted then slash :: joinSegs l
  else if l = [] then dot else joinSegs l

/-- `path.Clean`. -/
def clean (p : Bytes) : Bytes := render (isRooted p) (kept p)

/-- The non-empty elements joined with `/` (the buffer `path.Join` builds before cleaning). -/
def joinRaw : List Bytes → Bytes
  | [] => []
  | e :: t =>
    if e = [] then joinRaw t
    else if joinRaw t = [] then e else e ++ slash :: joinRaw t

/-- `path.Join(elem...)`: empty elements are ignored; all empty gives `""`. -/
def joinList (elems : List Bytes) : Bytes :=
  if joinRaw elems = [] then [] else clean (joinRaw elems)

def join (a b : Bytes) : Bytes := joinList [a, b]
def join3 (a b c : Bytes) : Bytes := joinList [a, b, c]

/-- `path.Split`: `(dir, file)` split after the final slash; `dir` is empty when there is none. -/
def split : Bytes → Bytes × Bytes
  | [] => ([], [])
  | b :: r =>
    if (split r).1 = [] then
      (if b = slash then ([slash], (split r).2) else ([], b :: (split r).2))
    else (b :: (split r).1, (split r).2)

def dropTrailingSlashes (p : Bytes) : Bytes := (p.reverse.dropWhile (· = slash)).reverse

/-- `path.Base`. -/
def base (p : Bytes) : Bytes :=
  if p = [] then dot
  else
    let q := (split (dropTrailingSlashes p)).2
    if q = [] then [slash] else q

end RtVerif.GoPath
