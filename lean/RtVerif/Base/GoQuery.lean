import RtVerif.Base.Bytes
import RtVerif.Base.GoURL
/-
  GoQuery — net/url's `Values.Encode` and `ParseQuery` on byte strings (core Lean only).

  Hand-copied from Go's net/url (stdlib is modelled, not verified); validated against the real
  functions by the correspondence streams `V E` / `V P` of C04 on every run.

      func (v Values) Encode() string          keys sorted; per key, per value  `&`? QueryEscape(k) `=` QueryEscape(v)
      func parseQuery(m Values, query string)  pieces between `&`; a piece containing `;` is an error (skipped);
                                               empty pieces are skipped; cut at the first `=`; both halves
                                               QueryUnescape'd (an escape error skips the piece and is reported);
                                               `m[key] = append(m[key], value)`

  A `url.Values` is an association list with one entry per key.  The round trip
  `parseQuery (encode m) = m` (as key → value-list maps, keys with no value dropped) is proved here
  for every such list with pairwise distinct keys: any bytes as keys and values.
-/
namespace RtVerif.GoQuery
open RtVerif

abbrev Values := List (Bytes × List Bytes)

def amp : UInt8 := 38
def eq : UInt8 := 61
def semi : UInt8 := 59

def Values.get (vs : Values) (k : Bytes) : Option (List Bytes) := (vs.find? fun kv => kv.1 == k).map (·.2)

/-! ## Encode -/

/-- Go's `<` on strings, as `≤` -/
def bytesLe : Bytes → Bytes → Bool
  | [], _ => true
  | _ :: _, [] => false
  | a :: as, b :: bs => if a < b then true else if b < a then false else bytesLe as bs

def insertKey (kv : Bytes × List Bytes) : Values → Values
  | [] => [kv]
  | x :: xs => if bytesLe kv.1 x.1 then kv :: x :: xs else x :: insertKey kv xs

/-- `slices.Sort(keys)` -/
def sortKeys (vs : Values) : Values := vs.foldr insertKey []

/-- the `k=v` pieces in the order `Encode` writes them -/
def pieces (vs : Values) : List Bytes :=
  vs.flatMap fun kv => kv.2.map fun v => GoURL.queryEscape kv.1 ++ eq :: GoURL.queryEscape v

def joinAmp : List Bytes → Bytes
  | [] => []
  | [p] => p
  | p :: r => p ++ amp :: joinAmp r

/-- `Encode` of values already in key order -/
def encodeSorted (vs : Values) : Bytes := joinAmp (pieces vs)

/-- `url.Values.Encode` -/
def encode (vs : Values) : Bytes := encodeSorted (sortKeys vs)

/-! ## ParseQuery -/

/-- `strings.Cut(s, sep)` for a one-byte separator: text before the first `sep`, text after it -/
def cut (c : UInt8) (s : Bytes) : Bytes × Bytes := (s.takeWhile (· != c), (s.dropWhile (· != c)).drop 1)

/-- the pieces between `&` (`strings.Cut(query, "&")` repeated while `query != ""`) -/
def splitAmp : Bytes → List Bytes
  | [] => []
  | b :: r =>
    if b == amp then [] :: splitAmp r
    else match splitAmp r with
      | [] => [[b]]
      | h :: t => (b :: h) :: t

/-- `m[key] = append(m[key], value)`; a new key goes to the end of the association list -/
def add (m : Values) (k v : Bytes) : Values :=
  match m with
  | [] => [(k, [v])]
  | x :: xs => if x.1 == k then (x.1, x.2 ++ [v]) :: xs else x :: add xs k v

inductive Piece where
  | skip                    -- empty piece
  | bad                     -- `;` inside, or an invalid escape
  | pair (k v : Bytes)
deriving Repr, DecidableEq

def parsePiece (p : Bytes) : Piece :=
  if p.contains semi then .bad
  else if p.isEmpty then .skip
  else
    let kv := cut eq p
    match GoURL.queryUnescape kv.1, GoURL.queryUnescape kv.2 with
    | some k, some v => .pair k v
    | _, _ => .bad

structure Parsed where
  ok : Bool          -- `err == nil`
  values : Values
deriving Repr, DecidableEq

def step (acc : Parsed) (p : Bytes) : Parsed :=
  match parsePiece p with
  | .skip => acc
  | .bad => { acc with ok := false }
  | .pair k v => { acc with values := add acc.values k v }

/-- `url.ParseQuery`: the values collected (also when an error is reported) and whether `err == nil` -/
def parseQuery (q : Bytes) : Parsed := (splitAmp q).foldl step ⟨true, []⟩

/-! ## lemmas -/

theorem escape_nil (q : Bool) : GoURL.escape q [] = [] := rfl

/-- an escaped text contains none of `& = ;` -/
theorem queryEscape_clean (s : Bytes) : ∀ c ∈ GoURL.queryEscape s, c ≠ amp ∧ c ≠ eq ∧ c ≠ semi := by
  intro c hc
  have h := GoURL.escape_safe true s c hc
  have key : ∀ c : UInt8, (c = amp ∨ c = eq ∨ c = semi) → GoURL.isSafe true c = false := by
    intro c h; rcases h with rfl | rfl | rfl <;> decide
  refine ⟨?_, ?_, ?_⟩ <;> (intro heq; have := key c (by simp [heq]); rw [this] at h; cases h)

theorem splitAmp_noamp_append (a r : Bytes) (ha : amp ∉ a) (hne : a ≠ []) :
    splitAmp (a ++ amp :: r) = a :: splitAmp r := by
  induction a with
  | nil => exact absurd rfl hne
  | cons c a' ih =>
    have hc : (c == amp) = false := by
      simp only [beq_eq_false_iff_ne, ne_eq]; intro h; exact ha (by simp [h])
    have ha' : amp ∉ a' := fun h => ha (List.mem_cons_of_mem _ h)
    simp only [List.cons_append, splitAmp, hc, Bool.false_eq_true, ↓reduceIte]
    cases a' with
    | nil => simp [splitAmp]
    | cons d a'' => rw [ih ha' (by simp)]

theorem splitAmp_noamp (a : Bytes) (ha : amp ∉ a) (hne : a ≠ []) : splitAmp a = [a] := by
  induction a with
  | nil => exact absurd rfl hne
  | cons c a' ih =>
    have hc : (c == amp) = false := by
      simp only [beq_eq_false_iff_ne, ne_eq]; intro h; exact ha (by simp [h])
    have ha' : amp ∉ a' := fun h => ha (List.mem_cons_of_mem _ h)
    simp only [splitAmp, hc, Bool.false_eq_true, ↓reduceIte]
    cases a' with
    | nil => simp [splitAmp]
    | cons d a'' => rw [ih ha' (by simp)]

/-- splitting what `joinAmp` wrote gives the pieces back (they are non-empty and `&`-free) -/
theorem splitAmp_joinAmp (ps : List Bytes) (h : ∀ p ∈ ps, amp ∉ p ∧ p ≠ []) : splitAmp (joinAmp ps) = ps := by
  induction ps with
  | nil => rfl
  | cons p r ih =>
    have hp := h p List.mem_cons_self
    have hr : ∀ p ∈ r, amp ∉ p ∧ p ≠ [] := fun x hx => h x (List.mem_cons_of_mem _ hx)
    cases r with
    | nil => simpa [joinAmp] using splitAmp_noamp p hp.1 hp.2
    | cons p2 r2 =>
      have : joinAmp (p :: p2 :: r2) = p ++ amp :: joinAmp (p2 :: r2) := rfl
      rw [this, splitAmp_noamp_append p _ hp.1 hp.2, ih hr]

theorem cut_append (c : UInt8) (a b : Bytes) (ha : c ∉ a) : cut c (a ++ c :: b) = (a, b) := by
  induction a with
  | nil => simp [cut]
  | cons x a' ih =>
    have hx : (x != c) = true := by
      simp only [bne_iff_ne, ne_eq]; intro h; exact ha (by simp [h])
    have ha' : c ∉ a' := fun h => ha (List.mem_cons_of_mem _ h)
    have := ih ha'
    simp only [cut, Prod.mk.injEq] at this
    simp only [cut, List.cons_append, List.takeWhile, hx, List.dropWhile, Prod.mk.injEq, List.cons.injEq, true_and]
    exact this

theorem contains_false_of_forall {p : Bytes} {c : UInt8} (h : ∀ x ∈ p, x ≠ c) : p.contains c = false := by
  induction p with
  | nil => rfl
  | cons x r ih =>
    simp only [Bytes.contains, List.any_cons, Bool.or_eq_false_iff, beq_eq_false_iff_ne, ne_eq]
    exact ⟨h x List.mem_cons_self, ih fun y hy => h y (List.mem_cons_of_mem _ hy)⟩

/-- one encoded piece is read back as the pair it was written from -/
theorem parsePiece_encoded (k v : Bytes) :
    parsePiece (GoURL.queryEscape k ++ eq :: GoURL.queryEscape v) = .pair k v := by
  have hk := queryEscape_clean k
  have hv := queryEscape_clean v
  have hsemi : (GoURL.queryEscape k ++ eq :: GoURL.queryEscape v).contains semi = false := by
    apply contains_false_of_forall
    intro x hx
    simp only [List.mem_append, List.mem_cons] at hx
    rcases hx with hx | rfl | hx
    · exact (hk x hx).2.2
    · decide
    · exact (hv x hx).2.2
  have hcut := cut_append eq (GoURL.queryEscape k) (GoURL.queryEscape v) (fun h => (hk _ h).2.1 rfl)
  unfold parsePiece
  simp only [hsemi, Bool.false_eq_true, ↓reduceIte, List.isEmpty_iff, List.append_eq_nil_iff,
    reduceCtorEq, and_false, hcut]
  have h1 : GoURL.queryUnescape (GoURL.queryEscape k) = some k := GoURL.unescape_escape true k
  have h2 : GoURL.queryUnescape (GoURL.queryEscape v) = some v := GoURL.unescape_escape true v
  rw [h1, h2]

theorem piece_shape (k v : Bytes) :
    amp ∉ (GoURL.queryEscape k ++ eq :: GoURL.queryEscape v) ∧
      (GoURL.queryEscape k ++ eq :: GoURL.queryEscape v) ≠ [] := by
  refine ⟨?_, by simp⟩
  intro h
  simp only [List.mem_append, List.mem_cons] at h
  rcases h with h | h | h
  · exact (queryEscape_clean k _ h).1 rfl
  · exact absurd h (by decide)
  · exact (queryEscape_clean v _ h).1 rfl

/-- the pairs `(k, v)` in the order `Encode` writes them -/
def flatPairs (vs : Values) : List (Bytes × Bytes) := vs.flatMap fun kv => kv.2.map fun v => (kv.1, v)

theorem pieces_eq_map (vs : Values) :
    pieces vs = (flatPairs vs).map fun kv => GoURL.queryEscape kv.1 ++ eq :: GoURL.queryEscape kv.2 := by
  induction vs with
  | nil => rfl
  | cons x xs ih =>
    simp only [pieces, List.flatMap_cons, flatPairs, List.map_append, List.map_map] at ih ⊢
    rw [ih]; rfl

theorem foldl_step_encoded (ps : List (Bytes × Bytes)) (acc : Parsed) :
    (ps.map fun kv => GoURL.queryEscape kv.1 ++ eq :: GoURL.queryEscape kv.2).foldl step acc =
      { acc with values := ps.foldl (fun m kv => add m kv.1 kv.2) acc.values } := by
  induction ps generalizing acc with
  | nil => rfl
  | cons p r ih =>
    simp only [List.map_cons, List.foldl_cons, step, parsePiece_encoded]
    rw [ih]

/-- **What `ParseQuery` makes of `Encode`'s output**: no error, and the pairs are added one by one in
the order they were written. -/
theorem parseQuery_encodeSorted (vs : Values) :
    parseQuery (encodeSorted vs) = ⟨true, (flatPairs vs).foldl (fun m kv => add m kv.1 kv.2) []⟩ := by
  unfold parseQuery encodeSorted
  rw [splitAmp_joinAmp, pieces_eq_map, foldl_step_encoded]
  intro p hp
  rw [pieces_eq_map, List.mem_map] at hp
  obtain ⟨kv, _, rfl⟩ := hp
  exact piece_shape kv.1 kv.2

/-! ### adding the pairs of distinct keys one by one rebuilds the association list -/

theorem add_append_new (m : Values) (k v : Bytes) (h : ∀ x ∈ m, x.1 ≠ k) : add m k v = m ++ [(k, [v])] := by
  induction m with
  | nil => rfl
  | cons x xs ih =>
    have hx : (x.1 == k) = false := by simpa using h x List.mem_cons_self
    simp only [add, hx, Bool.false_eq_true, ↓reduceIte, List.cons_append, List.cons.injEq, true_and]
    exact ih fun y hy => h y (List.mem_cons_of_mem _ hy)

theorem add_append_last (m : Values) (k : Bytes) (l : List Bytes) (v : Bytes) (h : ∀ x ∈ m, x.1 ≠ k) :
    add (m ++ [(k, l)]) k v = m ++ [(k, l ++ [v])] := by
  induction m with
  | nil => simp [add]
  | cons x xs ih =>
    have hx : (x.1 == k) = false := by simpa using h x List.mem_cons_self
    simp only [List.cons_append, add, hx, Bool.false_eq_true, ↓reduceIte, List.cons.injEq, true_and]
    exact ih fun y hy => h y (List.mem_cons_of_mem _ hy)

theorem foldl_add_same (m : Values) (k : Bytes) (l vs : List Bytes) (h : ∀ x ∈ m, x.1 ≠ k) :
    (vs.map fun v => (k, v)).foldl (fun m kv => add m kv.1 kv.2) (m ++ [(k, l)]) = m ++ [(k, l ++ vs)] := by
  induction vs generalizing l with
  | nil => simp
  | cons v r ih =>
    simp only [List.map_cons, List.foldl_cons]
    rw [add_append_last m k l v h, ih]
    simp

def nonEmpty (vs : Values) : Values := vs.filter fun kv => !kv.2.isEmpty

theorem foldl_add_values (vs : Values) (hd : (vs.map (·.1)).Nodup) (m : Values)
    (hm : ∀ x ∈ m, ∀ y ∈ vs, x.1 ≠ y.1) :
    (flatPairs vs).foldl (fun m kv => add m kv.1 kv.2) m = m ++ nonEmpty vs := by
  induction vs generalizing m with
  | nil => simp [flatPairs, nonEmpty]
  | cons x xs ih =>
    simp only [List.map_cons, List.nodup_cons, List.mem_map, not_exists, not_and] at hd
    have hfp : flatPairs (x :: xs) = (x.2.map fun v => (x.1, v)) ++ flatPairs xs := by
      simp [flatPairs]
    rw [hfp, List.foldl_append]
    have hmx : ∀ y ∈ m, y.1 ≠ x.1 := fun y hy => hm y hy x List.mem_cons_self
    cases hx2 : x.2 with
    | nil =>
      simp only [List.map_nil, List.foldl_nil]
      rw [ih hd.2 m (fun a ha y hy => hm a ha y (List.mem_cons_of_mem _ hy))]
      simp [nonEmpty, hx2]
    | cons v r =>
      simp only [List.map_cons, List.foldl_cons]
      rw [add_append_new m x.1 v hmx, foldl_add_same m x.1 [v] r hmx]
      have hm' : ∀ a ∈ m ++ [(x.1, [v] ++ r)], ∀ y ∈ xs, a.1 ≠ y.1 := by
        intro a ha y hy
        rcases List.mem_append.mp ha with ha | ha
        · exact hm a ha y (List.mem_cons_of_mem _ hy)
        · simp only [List.mem_cons, List.not_mem_nil, or_false] at ha
          subst ha
          exact fun e => hd.1 y hy e.symm
      rw [ih hd.2 _ hm']
      have : nonEmpty (x :: xs) = x :: nonEmpty xs := by simp [nonEmpty, hx2]
      rw [this, List.append_assoc]
      have hx : x = (x.1, v :: r) := by rw [← hx2]
      simp only [List.cons_append, List.nil_append]
      rw [← hx]

/-- **Round trip on a list in key order**: `ParseQuery (Encode vs)` reports no error and returns the
entries of `vs` that have at least one value, in the same order, with their values in order. -/
theorem parse_encodeSorted (vs : Values) (hd : (vs.map (·.1)).Nodup) :
    parseQuery (encodeSorted vs) = ⟨true, nonEmpty vs⟩ := by
  rw [parseQuery_encodeSorted, foldl_add_values vs hd [] (fun _ h => by cases h)]
  rfl

/-! ### sorting the keys does not change the map -/

theorem mem_insertKey {kv x : Bytes × List Bytes} {l : Values} : x ∈ insertKey kv l ↔ x = kv ∨ x ∈ l := by
  induction l with
  | nil => simp [insertKey]
  | cons y ys ih =>
    simp only [insertKey]
    split
    · simp
    · simp only [List.mem_cons, ih]
      constructor
      · rintro (h | h | h) <;> simp [h]
      · rintro (h | h | h) <;> simp [h]

theorem insertKey_perm (kv : Bytes × List Bytes) (l : Values) : (insertKey kv l).Perm (kv :: l) := by
  induction l with
  | nil => exact List.Perm.refl _
  | cons y ys ih =>
    simp only [insertKey]
    split
    · exact List.Perm.refl _
    · exact (List.Perm.cons y ih).trans (List.Perm.swap kv y ys)

theorem sortKeys_perm (vs : Values) : (sortKeys vs).Perm vs := by
  induction vs with
  | nil => exact List.Perm.refl _
  | cons x xs ih =>
    have : sortKeys (x :: xs) = insertKey x (sortKeys xs) := rfl
    rw [this]
    exact (insertKey_perm x _).trans (List.Perm.cons x ih)

theorem get_perm {vs vs' : Values} (hp : vs.Perm vs') (hd : (vs.map (·.1)).Nodup) (k : Bytes) :
    Values.get vs k = Values.get vs' k := by
  induction hp with
  | nil => rfl
  | cons x _ ih =>
    simp only [List.map_cons, List.nodup_cons] at hd
    simp only [Values.get, List.find?_cons]
    split
    · rfl
    · exact ih hd.2
  | swap x y l =>
    simp only [List.map_cons, List.nodup_cons, List.mem_cons, not_or] at hd
    simp only [Values.get, List.find?_cons]
    by_cases hx : (x.1 == k) = true
    · by_cases hy : (y.1 == k) = true
      · simp only [beq_iff_eq] at hx hy
        exact absurd (hy.trans hx.symm) hd.1.1
      · simp [hx, hy]
    · by_cases hy : (y.1 == k) = true <;> simp [hx, hy]
  | trans h1 _ ih1 ih2 =>
    rw [ih1 hd]
    apply ih2
    exact (h1.map (·.1)).nodup_iff.mp hd

theorem get_nonEmpty (vs : Values) (k : Bytes) (hd : (vs.map (·.1)).Nodup) :
    Values.get (nonEmpty vs) k =
      match Values.get vs k with
      | some (v :: r) => some (v :: r)
      | _ => none := by
  induction vs with
  | nil => rfl
  | cons x xs ih =>
    simp only [List.map_cons, List.nodup_cons, List.mem_map, not_exists, not_and] at hd
    by_cases hk : (x.1 == k) = true
    · have hxs : Values.get xs k = none := by
        simp only [Values.get, Option.map_eq_none_iff, List.find?_eq_none, beq_iff_eq]
        intro y hy e
        simp only [beq_iff_eq] at hk
        exact hd.1 y hy (e.trans hk.symm)
      have hget : Values.get (x :: xs) k = some x.2 := by simp [Values.get, hk]
      rw [hget]
      cases hx2 : x.2 with
      | nil =>
        have : nonEmpty (x :: xs) = nonEmpty xs := by simp [nonEmpty, hx2]
        rw [this, ih hd.2, hxs]
      | cons v r =>
        have : nonEmpty (x :: xs) = x :: nonEmpty xs := by simp [nonEmpty, hx2]
        rw [this]
        simp [Values.get, hk, hx2]
    · have hk' : (x.1 == k) = false := by simpa using hk
      have hget : Values.get (x :: xs) k = Values.get xs k := by simp [Values.get, hk']
      rw [hget, ← ih hd.2]
      by_cases hx2 : x.2.isEmpty = true
      · have : nonEmpty (x :: xs) = nonEmpty xs := by simp [nonEmpty, hx2]
        rw [this]
      · have : nonEmpty (x :: xs) = x :: nonEmpty xs := by simp [nonEmpty, hx2]
        rw [this]
        simp [Values.get, hk']

/-- **Round trip, as maps**: for values with pairwise distinct keys, `ParseQuery (v.Encode())`
reports no error and maps every key to exactly the list of values it had — keys without a value are
not transmitted. Any byte strings as keys and values. -/
theorem parse_encode (vs : Values) (hd : (vs.map (·.1)).Nodup) :
    (parseQuery (encode vs)).ok = true ∧
    ∀ k, Values.get (parseQuery (encode vs)).values k =
      match Values.get vs k with
      | some (v :: r) => some (v :: r)
      | _ => none := by
  have hp := sortKeys_perm vs
  have hd' : ((sortKeys vs).map (·.1)).Nodup := (hp.map (·.1)).nodup_iff.mpr hd
  unfold encode
  rw [parse_encodeSorted _ hd']
  refine ⟨rfl, fun k => ?_⟩
  simp only
  rw [get_nonEmpty _ k hd', get_perm hp hd' k]

end RtVerif.GoQuery
