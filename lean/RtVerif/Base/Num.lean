import RtVerif.Base.Bytes
/-
  Num — Go `strconv` number syntax on byte strings. Core Lean only.

  * `parseInt10 w s` mirrors `strconv.ParseInt(s, 10, w)` (sign, decimal digits only — in base 10 an
    underscore is a syntax error —, empty string error, range error per bit size), with the
    characterisation `parseInt10 w s = ok v ↔ IntLit s v ∧ -2^(w-1) ≤ v < 2^(w-1)` where `IntLit` is
    the grammar `[+-]?[0-9]+` with its denotation.
  * `floatLex s` mirrors the ACCEPT SET of `strconv.ParseFloat(s, 64)` before rounding: `special`
    (inf / infinity / nan, case-insensitive), `readFloat` (decimal and hex-float mantissa, exponent,
    underscores as `underscoreOK` allows them) and the "whole string consumed" rule. It returns the
    exact rational the text denotes (`sign · mant · base^…`) — float *rounding* is not modelled here.
-/
namespace RtVerif.Num
open RtVerif

inductive ParseErr where
  | syntax
  | range
deriving Repr, DecidableEq, BEq

instance instDecEqExcept {ε α : Type} [DecidableEq ε] [DecidableEq α] : DecidableEq (Except ε α) := fun a b =>
  match a, b with
  | .ok x, .ok y => if h : x = y then isTrue (by rw [h]) else isFalse (fun e => by cases e; exact h rfl)
  | .error x, .error y => if h : x = y then isTrue (by rw [h]) else isFalse (fun e => by cases e; exact h rfl)
  | .ok _, .error _ => isFalse (fun e => by cases e)
  | .error _, .ok _ => isFalse (fun e => by cases e)

def isDigit (b : UInt8) : Bool := 48 ≤ b && b ≤ 57

def digitVal (b : UInt8) : Nat := b.toNat - 48

/-- the value of a digit string read after a prefix of value `acc` -/
def valFrom : Bytes → Nat → Nat
  | [], acc => acc
  | b :: r, acc => valFrom r (10 * acc + digitVal b)

def natOfDigits (ds : Bytes) : Nat := valFrom ds 0

/-- The digit loop of `strconv.ParseUint(s, 10, w)` with `maxVal = 2^w - 1`.
Go tests `n >= cutoff` (`10*n` would leave 64 bits), then `n1 < n || n1 > maxVal` after adding the
digit; over unbounded naturals the two tests together are `10*n + d > maxVal`. A non-digit met
before any overflow is a syntax error; an overflow met first is a range error (Go returns at once). -/
def uintLoop (maxVal : Nat) : Bytes → Nat → Except ParseErr Nat
  | [], acc => .ok acc
  | b :: r, acc =>
    if isDigit b then
      if 10 * acc + digitVal b > maxVal then .error .range
      else uintLoop maxVal r (10 * acc + digitVal b)
    else .error .syntax

/-- `strconv.ParseUint(s, 10, w)` -/
def parseUint10 (w : Nat) (s : Bytes) : Except ParseErr Nat :=
  match s with
  | [] => .error .syntax
  | _ => uintLoop (2 ^ w - 1) s 0

/-- the part of `ParseInt` after the sign has been removed -/
def parseIntBody (w : Nat) (neg : Bool) (ds : Bytes) : Except ParseErr Int :=
  match parseUint10 w ds with
  | .error .syntax => .error .syntax
  | .error .range => .error .range      -- un = maxVal ≥ cutoff: both cutoff tests fail
  | .ok un =>
    if !neg && un ≥ 2 ^ (w - 1) then .error .range
    else if neg && un > 2 ^ (w - 1) then .error .range
    else .ok (if neg then -(un : Int) else (un : Int))

/-- `strconv.ParseInt(s, 10, w)` for `w ∈ {8,16,32,64}` -/
def parseInt10 (w : Nat) (s : Bytes) : Except ParseErr Int :=
  match s with
  | [] => .error .syntax
  | 43 :: r => parseIntBody w false r
  | 45 :: r => parseIntBody w true r
  | _ => parseIntBody w false s

/-- The grammar `[+-]?[0-9]+` with its denotation. -/
inductive IntLit : Bytes → Int → Prop where
  | plain (ds : Bytes) : ds ≠ [] → (∀ b ∈ ds, isDigit b = true) → IntLit ds (natOfDigits ds)
  | plus (ds : Bytes) : ds ≠ [] → (∀ b ∈ ds, isDigit b = true) → IntLit (43 :: ds) (natOfDigits ds)
  | minus (ds : Bytes) : ds ≠ [] → (∀ b ∈ ds, isDigit b = true) → IntLit (45 :: ds) (-(natOfDigits ds : Int))

/-- `v` fits a signed `w`-bit integer -/
def fitsInt (w : Nat) (v : Int) : Prop :=
  -((2 ^ (w - 1) : Nat) : Int) ≤ v ∧ v < ((2 ^ (w - 1) : Nat) : Int)

instance (w : Nat) (v : Int) : Decidable (fitsInt w v) := by unfold fitsInt; exact inferInstance

/-- decimal rendering (`strconv.FormatInt(v, 10)`) -/
def natDigits (fuel n : Nat) (acc : Bytes) : Bytes :=
  match fuel with
  | 0 => acc
  | fuel + 1 =>
    if n < 10 then UInt8.ofNat (48 + n) :: acc
    else natDigits fuel (n / 10) (UInt8.ofNat (48 + n % 10) :: acc)

def formatNat (n : Nat) : Bytes := natDigits (n + 1) n []

def formatInt (v : Int) : Bytes :=
  match v with
  | .ofNat n => formatNat n
  | .negSucc n => 45 :: formatNat (n + 1)


/-! ### `parseInt10` is exactly the grammar plus the range -/

theorem valFrom_ge (acc : Nat) (s : Bytes) : acc ≤ valFrom s acc := by
  induction s generalizing acc with
  | nil => simp [valFrom]
  | cons b r ih =>
    simp only [valFrom]
    have := ih (10 * acc + digitVal b)
    omega

theorem uintLoop_ok_iff (M : Nat) (s : Bytes) (acc n : Nat) (h : acc ≤ M) :
    uintLoop M s acc = .ok n ↔
      (∀ b ∈ s, isDigit b = true) ∧ n = valFrom s acc ∧ valFrom s acc ≤ M := by
  induction s generalizing acc with
  | nil =>
    simp only [uintLoop, valFrom, List.not_mem_nil, false_imp_iff, implies_true, true_and,
      Except.ok.injEq]
    constructor
    · intro e; subst e; exact ⟨rfl, h⟩
    · intro ⟨e, _⟩; exact e.symm
  | cons b r ih =>
    simp only [uintLoop, valFrom, List.mem_cons, forall_eq_or_imp]
    by_cases hd : isDigit b = true
    · simp only [hd, if_true, true_and]
      by_cases hov : 10 * acc + digitVal b > M
      · simp only [hov, if_true]
        have := valFrom_ge (10 * acc + digitVal b) r
        constructor
        · intro e; cases e
        · intro ⟨_, _, hle⟩; omega
      · simp only [hov, if_false]
        exact ih (10 * acc + digitVal b) (by omega)
    · simp only [hd, if_false, false_and, Bool.false_eq_true]
      constructor
      · intro e; cases e
      · intro e; exact e.elim

theorem parseUint10_ok_iff (w : Nat) (s : Bytes) (n : Nat) :
    parseUint10 w s = .ok n ↔
      s ≠ [] ∧ (∀ b ∈ s, isDigit b = true) ∧ n = natOfDigits s ∧ natOfDigits s ≤ 2 ^ w - 1 := by
  cases s with
  | nil => simp [parseUint10]
  | cons b r =>
    simp only [parseUint10, natOfDigits, ne_eq, reduceCtorEq, not_false_eq_true, true_and]
    exact uintLoop_ok_iff (2 ^ w - 1) (b :: r) 0 n (Nat.zero_le _)

theorem two_pow_pred (w : Nat) (hw : 1 ≤ w) : 2 ^ w = 2 * 2 ^ (w - 1) := by
  obtain ⟨k, rfl⟩ : ∃ k, w = k + 1 := ⟨w - 1, by omega⟩
  simp [Nat.pow_succ, Nat.mul_comm]

theorem parseIntBody_ok_iff (w : Nat) (hw : 1 ≤ w) (neg : Bool) (ds : Bytes) (v : Int) :
    parseIntBody w neg ds = .ok v ↔
      ds ≠ [] ∧ (∀ b ∈ ds, isDigit b = true) ∧
        v = (if neg then -(natOfDigits ds : Int) else (natOfDigits ds : Int)) ∧ fitsInt w v := by
  have hP := two_pow_pred w hw
  have hpos : 0 < 2 ^ (w - 1) := Nat.pow_pos (by decide)
  unfold parseIntBody
  cases hpu : parseUint10 w ds with
  | error e =>
    have hne : ∀ n, parseUint10 w ds ≠ .ok n := by intro n h; rw [hpu] at h; cases h
    have key : ¬ (ds ≠ [] ∧ (∀ b ∈ ds, isDigit b = true) ∧ natOfDigits ds ≤ 2 ^ w - 1) := by
      intro ⟨h1, h2, h3⟩
      exact hne (natOfDigits ds) ((parseUint10_ok_iff w ds _).2 ⟨h1, h2, rfl, h3⟩)
    have mpr : ds ≠ [] ∧ (∀ b ∈ ds, isDigit b = true) ∧
        v = (if neg then -(natOfDigits ds : Int) else (natOfDigits ds : Int)) ∧ fitsInt w v → False := by
      intro ⟨h1, h2, h3, h4⟩
      apply key; refine ⟨h1, h2, ?_⟩
      unfold fitsInt at h4
      cases neg <;> simp only [Bool.false_eq_true, if_false, if_true] at h3 <;> omega
    cases e <;> simp only [] <;> constructor
    · intro h; cases h
    · intro h; exact (mpr h).elim
    · intro h; cases h
    · intro h; exact (mpr h).elim
  | ok un =>
    obtain ⟨h1, h2, h3, h4⟩ := (parseUint10_ok_iff w ds un).1 hpu
    subst h3
    simp only []
    unfold fitsInt
    cases neg
    · simp only [Bool.not_false, Bool.true_and, decide_eq_true_eq, Bool.false_and,
        Bool.false_eq_true, if_false]
      by_cases hge : natOfDigits ds ≥ 2 ^ (w - 1)
      · simp only [hge, if_true]
        constructor
        · intro h; cases h
        · intro ⟨_, _, h5, h6⟩; omega
      · simp only [hge, if_false, Except.ok.injEq]
        constructor
        · intro h; subst h; exact ⟨h1, h2, rfl, by omega⟩
        · intro ⟨_, _, h5, _⟩; exact h5.symm
    · simp only [Bool.not_true, Bool.false_and, Bool.false_eq_true, if_false, Bool.true_and,
        decide_eq_true_eq, if_true]
      by_cases hgt : natOfDigits ds > 2 ^ (w - 1)
      · simp only [hgt, if_true]
        constructor
        · intro h; cases h
        · intro ⟨_, _, h5, h6⟩; omega
      · simp only [hgt, if_false, Except.ok.injEq]
        constructor
        · intro h; subst h; exact ⟨h1, h2, rfl, by omega⟩
        · intro ⟨_, _, h5, _⟩; exact h5.symm

theorem isDigit_ne_sign {b : UInt8} (h : isDigit b = true) : b ≠ 43 ∧ b ≠ 45 := by
  constructor <;> (intro e; subst e; revert h; decide)

/-- **Characterisation.** `strconv.ParseInt(s, 10, w)` succeeds with `v` exactly when `s` is a
literal of the grammar `[+-]?[0-9]+` denoting `v` and `v` fits `w` bits. -/
theorem parseInt10_ok_iff (w : Nat) (hw : 1 ≤ w) (s : Bytes) (v : Int) :
    parseInt10 w s = .ok v ↔ IntLit s v ∧ fitsInt w v := by
  constructor
  · intro h
    unfold parseInt10 at h
    split at h
    · cases h
    · obtain ⟨h1, h2, h3, h4⟩ := (parseIntBody_ok_iff w hw false _ v).1 h
      simp only [Bool.false_eq_true, if_false] at h3
      subst h3; exact ⟨.plus _ h1 h2, h4⟩
    · obtain ⟨h1, h2, h3, h4⟩ := (parseIntBody_ok_iff w hw true _ v).1 h
      simp only [if_true] at h3
      subst h3; exact ⟨.minus _ h1 h2, h4⟩
    · obtain ⟨h1, h2, h3, h4⟩ := (parseIntBody_ok_iff w hw false _ v).1 h
      simp only [Bool.false_eq_true, if_false] at h3
      subst h3; exact ⟨.plain _ h1 h2, h4⟩
  · intro ⟨hl, hf⟩
    cases hl with
    | plain _ h1 h2 =>
      cases s with
      | nil => exact (h1 rfl).elim
      | cons b r =>
        have hb := isDigit_ne_sign (h2 b (List.mem_cons_self ..))
        unfold parseInt10
        split
        · rename_i e; cases e
        · rename_i e; cases e; exact (hb.1 rfl).elim
        · rename_i e; cases e; exact (hb.2 rfl).elim
        · exact (parseIntBody_ok_iff w hw false _ _).2 ⟨h1, h2, by simp, hf⟩
    | plus ds h1 h2 =>
      exact (parseIntBody_ok_iff w hw false ds _).2 ⟨h1, h2, by simp, hf⟩
    | minus ds h1 h2 =>
      exact (parseIntBody_ok_iff w hw true ds _).2 ⟨h1, h2, by simp, hf⟩

/-- A text is rejected exactly when it is not an in-range literal. -/
theorem parseInt10_error_iff (w : Nat) (hw : 1 ≤ w) (s : Bytes) :
    (∃ e, parseInt10 w s = .error e) ↔ ¬ ∃ v, IntLit s v ∧ fitsInt w v := by
  constructor
  · intro ⟨e, he⟩ ⟨v, hv⟩
    rw [(parseInt10_ok_iff w hw s v).2 hv] at he; cases he
  · intro h
    cases hp : parseInt10 w s with
    | error e => exact ⟨e, rfl⟩
    | ok v => exact (h ⟨v, (parseInt10_ok_iff w hw s v).1 hp⟩).elim

/-- a literal denotes one value -/
theorem IntLit.unique {s : Bytes} {v v' : Int} (h : IntLit s v) (h' : IntLit s v') : v = v' := by
  have a := (parseInt10_ok_iff (v.natAbs + v'.natAbs + 2) (by omega) s v).2 ⟨h, by
    unfold fitsInt
    have : v.natAbs < 2 ^ (v.natAbs + v'.natAbs + 2 - 1) := by
      have := @Nat.lt_two_pow_self (v.natAbs + v'.natAbs + 1)
      have e : v.natAbs + v'.natAbs + 2 - 1 = v.natAbs + v'.natAbs + 1 := by omega
      rw [e]; omega
    omega⟩
  have b := (parseInt10_ok_iff (v.natAbs + v'.natAbs + 2) (by omega) s v').2 ⟨h', by
    unfold fitsInt
    have : v'.natAbs < 2 ^ (v.natAbs + v'.natAbs + 2 - 1) := by
      have := @Nat.lt_two_pow_self (v.natAbs + v'.natAbs + 1)
      have e : v.natAbs + v'.natAbs + 2 - 1 = v.natAbs + v'.natAbs + 1 := by omega
      rw [e]; omega
    omega⟩
  rw [a] at b; cases b; rfl

/-! ### `formatInt` renders a literal of its argument -/

theorem digit_byte : ∀ n, n < 10 → isDigit (UInt8.ofNat (48 + n)) = true ∧ digitVal (UInt8.ofNat (48 + n)) = n := by
  decide

/-- `a` with the decimal digits of `n` appended -/
def appendDec : Nat → Nat → Nat → Nat
  | 0, _, a => a
  | f + 1, n, a => if n < 10 then 10 * a + n else 10 * appendDec f (n / 10) a + n % 10

theorem valFrom_natDigits (fuel n : Nat) (acc : Bytes) (a : Nat) :
    valFrom (natDigits fuel n acc) a = valFrom acc (appendDec fuel n a) := by
  induction fuel generalizing n acc with
  | zero => simp [natDigits, appendDec]
  | succ f ih =>
    simp only [natDigits, appendDec]
    by_cases h : n < 10
    · simp only [h, if_true, valFrom, (digit_byte n h).2]
    · simp only [h, if_false]
      rw [ih]
      simp only [valFrom, (digit_byte (n % 10) (Nat.mod_lt _ (by decide))).2]

theorem appendDec_zero (fuel n : Nat) (h : n < fuel) : appendDec fuel n 0 = n := by
  induction fuel generalizing n with
  | zero => omega
  | succ f ih =>
    simp only [appendDec]
    by_cases h10 : n < 10
    · simp [h10]
    · simp only [h10, if_false]
      rw [ih (n / 10) (by omega)]
      omega

theorem natDigits_digits (fuel n : Nat) (acc : Bytes) (hacc : ∀ b ∈ acc, isDigit b = true) :
    ∀ b ∈ natDigits fuel n acc, isDigit b = true := by
  induction fuel generalizing n acc with
  | zero => simpa [natDigits] using hacc
  | succ f ih =>
    simp only [natDigits]
    by_cases h : n < 10
    · simp only [h, if_true, List.mem_cons, forall_eq_or_imp]
      exact ⟨(digit_byte n h).1, hacc⟩
    · simp only [h, if_false]
      apply ih
      intro b hb
      simp only [List.mem_cons] at hb
      rcases hb with rfl | hb
      · exact (digit_byte (n % 10) (Nat.mod_lt _ (by decide))).1
      · exact hacc b hb

theorem natDigits_ne_nil (fuel n : Nat) (acc : Bytes) (h : 0 < fuel ∨ acc ≠ []) : natDigits fuel n acc ≠ [] := by
  induction fuel generalizing n acc with
  | zero =>
    rcases h with h | h
    · omega
    · simpa [natDigits] using h
  | succ f ih =>
    simp only [natDigits]
    by_cases h10 : n < 10
    · simp [h10]
    · simp only [h10, if_false]
      exact ih _ _ (.inr (by simp))

theorem formatNat_lit (n : Nat) : IntLit (formatNat n) (n : Int) := by
  have hv : natOfDigits (formatNat n) = n := by
    unfold natOfDigits formatNat
    rw [valFrom_natDigits, appendDec_zero _ _ (Nat.lt_succ_self n)]
    rfl
  have := IntLit.plain (formatNat n) (natDigits_ne_nil _ _ _ (.inl (Nat.succ_pos n)))
    (natDigits_digits _ _ _ (by simp))
  rwa [hv] at this

theorem formatInt_lit (v : Int) : IntLit (formatInt v) v := by
  cases v with
  | ofNat n => exact formatNat_lit n
  | negSucc n =>
    have hv : natOfDigits (formatNat (n + 1)) = n + 1 := by
      unfold natOfDigits formatNat
      rw [valFrom_natDigits, appendDec_zero _ _ (Nat.lt_succ_self _)]
      rfl
    have := IntLit.minus (formatNat (n + 1)) (natDigits_ne_nil _ _ _ (.inl (Nat.succ_pos _)))
      (natDigits_digits _ _ _ (by simp))
    rw [hv] at this
    simpa [formatInt, Int.negSucc_eq] using this

/-- **Round trip.** `ParseInt(FormatInt(v, 10), 10, w) = v` for every `v` that fits `w` bits. -/
theorem parseInt10_formatInt (w : Nat) (hw : 1 ≤ w) (v : Int) (hf : fitsInt w v) :
    parseInt10 w (formatInt v) = .ok v :=
  (parseInt10_ok_iff w hw _ v).2 ⟨formatInt_lit v, hf⟩

/-- **Boundaries.** For every width: the greatest literal `2^(w-1)-1` and the least `-2^(w-1)` parse to
themselves, their outer neighbours are range errors (the texts are the decimal renderings). -/
theorem parseInt10_boundaries (w : Nat) (hw : w = 8 ∨ w = 16 ∨ w = 32 ∨ w = 64) :
    parseInt10 w (formatInt (2 ^ (w - 1) - 1)) = .ok (2 ^ (w - 1) - 1) ∧
    parseInt10 w (formatInt (2 ^ (w - 1))) = .error .range ∧
    parseInt10 w (formatInt (-(2 ^ (w - 1)))) = .ok (-(2 ^ (w - 1))) ∧
    parseInt10 w (formatInt (-(2 ^ (w - 1)) - 1)) = .error .range := by
  rcases hw with rfl | rfl | rfl | rfl <;> decide

/-- shapes that are NOT literals: empty, bare signs, double signs, underscores, hex, blanks, exponents -/
example : parseInt10 64 [] = .error .syntax ∧ parseInt10 64 [43] = .error .syntax ∧
    parseInt10 64 [45, 45, 49] = .error .syntax ∧ parseInt10 64 [49, 95, 48] = .error .syntax ∧
    parseInt10 64 [48, 120, 49] = .error .syntax ∧ parseInt10 64 [32, 49] = .error .syntax ∧
    parseInt10 64 [49, 101, 51] = .error .syntax ∧ parseInt10 8 [43, 48, 48, 55] = .ok 7 ∧
    parseInt10 8 [45, 48] = .ok 0 := by decide

/-! ## Float lexing (`strconv.ParseFloat` accept set) -/

def lowerB (b : UInt8) : UInt8 := if 65 ≤ b && b ≤ 90 then b + 32 else b

def isHexLetter (b : UInt8) : Bool := 97 ≤ lowerB b && lowerB b ≤ 102

/-- `commonPrefixLenIgnoreCase(s, prefix)` (prefix lower-case) -/
def commonPrefixLenCI : Bytes → Bytes → Nat
  | c :: s, p :: ps => if lowerB c == p then commonPrefixLenCI s ps + 1 else 0
  | _, _ => 0

def infinityB : Bytes := [105, 110, 102, 105, 110, 105, 116, 121]
def nanB : Bytes := [110, 97, 110]

inductive Special where
  | inf (neg : Bool)
  | nan
deriving Repr, DecidableEq, BEq

/-- the `inf` arm of `special`: how many bytes of `s` (after the sign) are consumed, if any -/
def infLen (s : Bytes) : Option Nat :=
  let n := commonPrefixLenCI s infinityB
  let n := if 3 < n && n < 8 then 3 else n
  if n == 3 || n == 8 then some n else none

/-- `special(s)`: the special value and the number of bytes consumed -/
def special (s : Bytes) : Option (Special × Nat) :=
  match s with
  | [] => none
  | c :: r =>
    if c == 43 || c == 45 then (infLen r).map fun n => (.inf (c == 45), n + 1)
    else if c == 105 || c == 73 then (infLen s).map fun n => (.inf false, n)
    else if c == 110 || c == 78 then
      if commonPrefixLenCI s nanB == 3 then some (.nan, 3) else none
    else none

/-- State of the mantissa loop of `readFloat`: digits seen, leading-zero/dot bookkeeping reduced to
what decides acceptance and the exact value: `mant` all significant digits (no 19-digit cap: the
model is exact), `nd` their count, `dp` the position of the point. -/
structure MantState where
  mant : Nat := 0
  nd : Nat := 0
  dp : Int := 0
  sawdot : Bool := false
  sawdigits : Bool := false
  underscores : Bool := false
deriving Repr, DecidableEq

/-- the `loop:` of `readFloat`; returns the state and the unread rest -/
def mantLoop (hex : Bool) : Bytes → MantState → MantState × Bytes
  | [], st => (st, [])
  | c :: r, st =>
    if c == 95 then mantLoop hex r { st with underscores := true }
    else if c == 46 then
      if st.sawdot then (st, c :: r)
      else mantLoop hex r { st with sawdot := true, dp := st.nd }
    else if isDigit c then
      if c == 48 && st.nd == 0 then mantLoop hex r { st with sawdigits := true, dp := st.dp - 1 }
      else mantLoop hex r { st with sawdigits := true, nd := st.nd + 1,
                                    mant := (if hex then 16 else 10) * st.mant + digitVal c }
    else if hex && isHexLetter c then
      mantLoop hex r { st with sawdigits := true, nd := st.nd + 1,
                               mant := 16 * st.mant + ((lowerB c).toNat - 87) }
    else (st, c :: r)

/-- exponent digits (underscores skipped and remembered); Go saturates `e` at ≥ 10000 -/
def expLoop : Bytes → Nat → Bool → (Nat × Bool) × Bytes
  | [], e, u => ((e, u), [])
  | c :: r, e, u =>
    if c == 95 then expLoop r e true
    else if isDigit c then expLoop r (if e < 10000 then 10 * e + digitVal c else e) u
    else ((e, u), c :: r)

/-- `underscoreOK` after the optional sign and base prefix: `saw` ∈ {0 = '^', 1 = '0', 2 = '_', 3 = '!'} -/
def uscoreLoop (hex : Bool) : Bytes → Nat → Bool
  | [], saw => saw != 2
  | c :: r, saw =>
    if isDigit c || (hex && isHexLetter c) then uscoreLoop hex r 1
    else if c == 95 then (if saw != 1 then false else uscoreLoop hex r 2)
    else if saw == 2 then false
    else uscoreLoop hex r 3

def underscoreOK (s : Bytes) : Bool :=
  let s := match s with
    | c :: r => if c == 45 || c == 43 then r else s
    | [] => s
  match s with
  | 48 :: x :: r =>
    if lowerB x == 98 || lowerB x == 111 || lowerB x == 120 then uscoreLoop (lowerB x == 120) r 1
    else uscoreLoop false s 0
  | _ => uscoreLoop false s 0

/-- What a syntactically valid finite float text denotes, exactly:
`(-1)^neg · mant · base^(…)` given as `mant · 10^e10` (decimal) or `mant · 2^e2` (hex). -/
structure Exact where
  neg : Bool
  hex : Bool
  mant : Nat
  exp : Int      -- power of 10 (decimal) or of 2 (hex); meaningless when `mant = 0`
deriving Repr, DecidableEq

inductive FloatLex where
  | special (s : Special)
  | finite (x : Exact)
  | bad
deriving Repr, DecidableEq

/-- the optional exponent part of `readFloat`; `none` = syntax error. Result: exponent value,
underscore flag, rest. -/
def readExp (hex : Bool) (s : Bytes) : Option ((Int × Bool) × Bytes) :=
  match s with
  | c :: r =>
    if lowerB c == (if hex then 112 else 101) then
      match r with
      | [] => none
      | d :: r' =>
        let (esign, ds) : Int × Bytes := if d == 43 then (1, r') else if d == 45 then (-1, r') else (1, d :: r')
        match ds with
        | [] => none
        | e0 :: _ =>
          if !isDigit e0 then none
          else
            let res := expLoop ds 0 false
            some ((esign * (res.1.1 : Int), res.1.2), res.2)
    else if hex then none else some ((0, false), s)
  | [] => if hex then none else some ((0, false), [])

/-- `readFloat` + "whole string consumed" -/
def readFloat (s : Bytes) : FloatLex :=
  let neg := match s with | 45 :: _ => true | _ => false
  let body := match s with
    | c :: r => if c == 43 || c == 45 then r else s
    | [] => s
  match body with
  | [] => .bad
  | _ =>
    -- `i+2 < len(s)`: a base prefix needs at least one more byte after `0x`
    let hex := match body with
      | 48 :: x :: _ :: _ => lowerB x == 120
      | _ => false
    let digits := if hex then body.drop 2 else body
    let (st, rest) := mantLoop hex digits {}
    if !st.sawdigits then .bad
    else
      let dp : Int := if st.sawdot then st.dp else st.nd
      match readExp hex rest with
      | none => .bad
      | some ((e, u2), rest2) =>
        if !rest2.isEmpty then .bad
        else if (st.underscores || u2) && !underscoreOK s then .bad
        else
          -- value = mant · base^(dp - nd) · (10^e | 2^e); for hex, dp and nd count 4 bits each
          .finite ⟨neg, hex, st.mant, if hex then 4 * (dp - st.nd) + e else (dp - st.nd) + e⟩

/-- `strconv.ParseFloat`'s accept set: `special` first (must consume everything), else `readFloat`. -/
def floatLex (s : Bytes) : FloatLex :=
  match special s with
  | some (sp, n) => if n == s.length then .special sp else .bad
  | none => readFloat s

/-! ### the accept set on the shapes the property names (checked against Go by the C03 stream) -/

/-- `1_0`, `0x1p-2`, `.5`, `5.`, `1e3`, `inf`, `-Infinity`, `NaN` are accepted … -/
example :
    floatLex [49, 95, 48] = .finite ⟨false, false, 10, 0⟩ ∧
    floatLex [48, 120, 49, 112, 45, 50] = .finite ⟨false, true, 1, -2⟩ ∧
    floatLex [46, 53] = .finite ⟨false, false, 5, -1⟩ ∧
    floatLex [53, 46] = .finite ⟨false, false, 5, 0⟩ ∧
    floatLex [49, 101, 51] = .finite ⟨false, false, 1, 3⟩ ∧
    floatLex [105, 110, 102] = .special (.inf false) ∧
    floatLex [45, 73, 110, 102, 105, 110, 105, 116, 121] = .special (.inf true) ∧
    floatLex [78, 97, 78] = .special .nan := by decide

/-- … while ``, `.`, `1e`, `0x1` (hex needs an exponent), `1__0`, `_1`, `1_`, `+nan`, `infinit`,
` 1` are not. -/
example :
    floatLex [] = .bad ∧ floatLex [46] = .bad ∧ floatLex [49, 101] = .bad ∧ floatLex [48, 120, 49] = .bad ∧
    floatLex [49, 95, 95, 48] = .bad ∧ floatLex [95, 49] = .bad ∧ floatLex [49, 95] = .bad ∧
    floatLex [43, 110, 97, 110] = .bad ∧ floatLex [105, 110, 102, 105, 110, 105, 116] = .bad ∧
    floatLex [32, 49] = .bad := by decide

end RtVerif.Num
