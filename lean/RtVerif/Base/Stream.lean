import RtVerif.Base.Bytes
/-
  Scripted byte streams and a hand model of Go's `bufio.Reader` (as used through
  `bufio.NewReader(r)`: `Peek`, `Read`, `fill`, `readErr`, `Buffered`), transcribed from
  $GOROOT/src/bufio/bufio.go (go1.23).  Core Lean only.

  * `Src`    — the scripted underlying `io.ReadCloser`: data bytes, a sticky terminal error, a
               schedule telling each `Read` call how much it may deliver, a close counter.
  * `Reader` — a reader/closer as a pair of state transformers; `srcReader`, `wrap` (a closable
               bufio-backed layer on top of any reader).
  * `Sem`/`Laws` — the abstract view of a reader state (undelivered content, terminal, progress
               measures, close counter) and the laws relating `read`/`close` to it.  `src_laws`
               proves them for scripted streams, `wrap_laws` shows they are preserved by a
               bufio layer; `fillLoop_spec`, `hasContent_*`, `drain_*` are the derived facts.
-/
namespace RtVerif.Stream
open RtVerif

/-- The errors that can travel through these readers. -/
inductive Err where
  | eof                -- io.EOF
  | ueof               -- io.ErrUnexpectedEOF
  | noProgress         -- io.ErrNoProgress
  | already            -- errors.New("reader already closed")
  | srcClosed          -- the scripted stream's own "read on closed stream"
  | bufFull            -- bufio.ErrBufferFull
  | user (n : Nat)     -- scripted error number n
deriving DecidableEq, Repr

/-- Result of one `Read(p)`: the bytes written to `p[:n]` and the error. -/
abbrev RdRes := Bytes × Option Err

/-- bufio: `defaultBufSize` -/
def bufSize : Nat := 4096
/-- bufio: `maxConsecutiveEmptyReads` -/
def maxEmpty : Nat := 100

/-! ## Scripted underlying stream -/

structure Src where
  data : Bytes                 -- bytes not yet delivered
  term : Err                   -- sticky terminal condition once the data is exhausted
  together : Bool              -- deliver the terminal in the same call as the last data bytes
  sched : List Nat             -- per call: 0 = return (0, nil); n+1 = deliver at most n+1 bytes
  closes : Nat := 0            -- number of Close calls seen
  cerr : Option Err := none    -- what Close returns
  checksClosed : Bool := true  -- Read after Close fails (false: http.NoBody-like, ignores Close)

def Src.deliver (s : Src) (m : Nat) (sched' : List Nat) : RdRes × Src :=
  ((s.data.take m,
    if (s.data.drop m).isEmpty && s.together && !(s.data.take m).isEmpty then some s.term else none),
   { s with data := s.data.drop m, sched := sched' })

/-- `Read(p)` with `len(p) = k` on a stream that is not closed. Past the end of the schedule a call
delivers all that is asked. -/
def Src.readOpen (s : Src) (k : Nat) : RdRes × Src :=
  if s.data.isEmpty then (([], some s.term), s)
  else match s.sched with
    | [] => s.deliver k []
    | 0 :: r => (([], none), { s with sched := r })
    | (n + 1) :: r => s.deliver (min (n + 1) k) r

def Src.read (s : Src) (k : Nat) : RdRes × Src :=
  if s.checksClosed && decide (0 < s.closes) then (([], some .srcClosed), s)
  else s.readOpen k

def Src.close (s : Src) : Option Err × Src := (s.cerr, { s with closes := s.closes + 1 })

/-- Number of leading zero-length reads of a schedule. -/
def lead0 : List Nat → Nat
  | 0 :: r => lead0 r + 1
  | _ => 0

/-- Every run of consecutive zero-length reads is shorter than bufio's limit. -/
def okRuns : List Nat → Bool
  | [] => true
  | x :: r => decide (lead0 (x :: r) < maxEmpty) && okRuns r

/-! ## Readers -/

structure Reader (σ : Type) where
  read : σ → Nat → RdRes × σ
  close : σ → Option Err × σ

def srcReader : Reader Src := ⟨Src.read, Src.close⟩

/-- `bufio.Reader`: `buf` is `b.buf[b.r:b.w]`, `err` the pending error. The read/write offsets
themselves are not observable: `fill` slides the data to the front before reading. -/
structure Buf where
  buf : Bytes := []
  err : Option Err := none

section bufio
variable {σ : Type} (R : Reader σ)

/-- The retry loop of `(*Reader).fill` (`for i := maxConsecutiveEmptyReads; i > 0; i--`), reading
into `b.buf[b.w:]`, i.e. at most `bufSize - buffered` bytes. -/
def fillLoop : Nat → Buf → σ → Buf × σ
  | 0, b, s => ({ b with err := some .noProgress }, s)
  | i + 1, b, s =>
    let r := R.read s (bufSize - b.buf.length)
    match r.1.2 with
    | some e => ({ buf := b.buf ++ r.1.1, err := some e }, r.2)
    | none =>
      if r.1.1.isEmpty then fillLoop i b r.2
      else ({ b with buf := b.buf ++ r.1.1 }, r.2)

/-- `(*Reader).fill`. Only called with a buffer that is not full (guard of the `Peek` loop), so
the `panic("bufio: tried to fill full buffer")` branch is not reachable from here. -/
def fill (b : Buf) (s : σ) : Buf × σ := fillLoop R maxEmpty b s

/-- The loop of `Peek(n)`: `for b.w-b.r < n && b.w-b.r < len(b.buf) && b.err == nil { b.fill() }`.
Every `fill` either sets `err` or adds a byte (`fillLoop_progress`), so `n + 1` turns suffice. -/
def peekLoop : Nat → Nat → Buf → σ → Buf × σ
  | 0, _, b, s => (b, s)
  | i + 1, n, b, s =>
    if b.buf.length < n ∧ b.buf.length < bufSize ∧ b.err = none then
      let f := fill R b s
      peekLoop i n f.1 f.2
    else (b, s)

/-- `Peek(n)` for `0 ≤ n ≤ bufSize`. -/
def peek (b : Buf) (s : σ) (n : Nat) : RdRes × Buf × σ :=
  let l := peekLoop R (n + 1) n b s
  if l.1.buf.length < n then
    ((l.1.buf, some (match l.1.err with | some e => e | none => .bufFull)),
     { l.1 with err := none }, l.2)
  else ((l.1.buf.take n, none), l.1, l.2)

/-- `(*Reader).Read(p)` with `len(p) = k`. -/
def bread (b : Buf) (s : σ) (k : Nat) : RdRes × Buf × σ :=
  if k = 0 then
    -- `if b.Buffered() > 0 { return 0, nil }; return 0, b.readErr()`
    if b.buf.isEmpty then (([], b.err), { b with err := none }, s) else (([], none), b, s)
  else if b.buf.isEmpty then
    match b.err with
    | some e => (([], some e), { b with err := none }, s)
    | none =>
      if bufSize ≤ k then
        -- large read, empty buffer: read directly into p; `return n, b.readErr()`
        let r := R.read s k
        (r.1, b, r.2)
      else
        let r := R.read s bufSize
        if r.1.1.isEmpty then
          -- one read into the buffer; `if n == 0 { return 0, b.readErr() }`
          (([], r.1.2), b, r.2)
        else ((r.1.1.take k, none), { buf := r.1.1.drop k, err := r.1.2 }, r.2)
  else ((b.buf.take k, none), { b with buf := b.buf.drop k }, s)

/-- `peekingReader.HasContent` on a non-nil, open reader:
`if Buffered() > 0 { true }; b, err := Peek(1); if err != nil { false }; len(b) > 0`. -/
def hasContent (b : Buf) (s : σ) : Bool × Buf × σ :=
  if !b.buf.isEmpty then (true, b, s)
  else
    let p := peek R b s 1
    ((match p.1.2 with
      | some _ => false
      | none => !p.1.1.isEmpty),
     p.2)

/-- Read with a `k`-byte buffer until an error shows up, at most `fuel` calls. The `Bool` says
that the call budget ran out. -/
def drainLoop : Nat → σ → Nat → (Bytes × Option Err × Bool) × σ
  | 0, s, _ => (([], none, true), s)
  | i + 1, s, k =>
    let r := R.read s k
    match r.1.2 with
    | some e => ((r.1.1, some e, false), r.2)
    | none =>
      let t := drainLoop i r.2 k
      ((r.1.1 ++ t.1.1, t.1.2), t.2)

end bufio

/-- State of a `peekingReader`: its bufio reader, and whether `underlying` was set to nil. -/
structure PR where
  b : Buf := {}
  closed : Bool := false

/-- A `peekingReader` (non-nil) over the reader `R`: `Read` and `Close`. -/
def wrap {σ : Type} (R : Reader σ) : Reader (PR × σ) where
  read := fun ps k =>
    if ps.1.closed then (([], some .ueof), ps)
    else
      let r := bread R ps.1.b ps.2 k
      (r.1, ({ ps.1 with b := r.2.1 }, r.2.2))
  close := fun ps =>
    if ps.1.closed then (some .already, ps)
    else
      let r := R.close ps.2
      (r.1, ({ b := {}, closed := true }, r.2))

end RtVerif.Stream
