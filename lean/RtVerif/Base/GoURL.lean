import RtVerif.Base.Bytes
/-
  net/url's escaping, as far as go-openapi/runtime uses it: `url.PathEscape` / `url.PathUnescape`
  (mode encodePathSegment) and `url.QueryEscape` / `url.QueryUnescape` (mode encodeQueryComponent).
  Hand-copied from Go's net/url (stdlib is modelled, not verified); checked against the real
  functions over all 256 bytes × both modes by the correspondence stream of C10.
-/
namespace RtVerif.GoURL
open RtVerif

def isAlnum (c : UInt8) : Bool := (97 ≤ c && c ≤ 122) || (65 ≤ c && c ≤ 90) || (48 ≤ c && c ≤ 57)

/-- `- _ . ~` -/
def isMark (c : UInt8) : Bool := c == 45 || c == 95 || c == 46 || c == 126

/-- `$ & + , / : ; = ? @` -/
def isReservedCh (c : UInt8) : Bool :=
  c == 36 || c == 38 || c == 43 || c == 44 || c == 47 || c == 58 || c == 59 || c == 61 || c == 63 || c == 64

/-- `shouldEscape(c, encodeQueryComponent)` when `query`, else `shouldEscape(c, encodePathSegment)` -/
def shouldEscape (query : Bool) (c : UInt8) : Bool :=
  if isAlnum c then false
  else if isMark c then false
  else if isReservedCh c then
    (if query then true else c == 47 || c == 59 || c == 44 || c == 63)
  else true

def upperhex (n : Nat) : UInt8 := if n < 10 then UInt8.ofNat (48 + n) else UInt8.ofNat (55 + n)

def ishex (c : UInt8) : Bool := (48 ≤ c && c ≤ 57) || (97 ≤ c && c ≤ 102) || (65 ≤ c && c ≤ 70)

def unhex (c : UInt8) : Nat :=
  if 48 ≤ c && c ≤ 57 then c.toNat - 48
  else if 97 ≤ c && c ≤ 102 then c.toNat - 87
  else if 65 ≤ c && c ≤ 70 then c.toNat - 55
  else 0

def escapeByte (query : Bool) (c : UInt8) : Bytes :=
  if shouldEscape query c then
    if c == 32 && query then [43]
    else [37, upperhex (c.toNat / 16), upperhex (c.toNat % 16)]
  else [c]

/-- `url.PathEscape` (`query = false`) / `url.QueryEscape` (`query = true`) -/
def escape (query : Bool) (s : Bytes) : Bytes := s.flatMap (escapeByte query)

/-- `url.PathUnescape` / `url.QueryUnescape`; `none` is the `EscapeError` -/
def unescape (query : Bool) : Bytes → Option Bytes
  | [] => some []
  | 37 :: a :: b :: r =>
    if ishex a && ishex b then (unescape query r).map (UInt8.ofNat (unhex a * 16 + unhex b) :: ·) else none
  | 37 :: _ => none
  | c :: r => (unescape query r).map ((if c == 43 && query then 32 else c) :: ·)

def pathEscape := escape false
def pathUnescape := unescape false
def queryEscape := escape true
def queryUnescape := unescape true

/-! ### round trip -/

theorem hex_roundtrip : ∀ n, n < 16 → ishex (upperhex n) = true ∧ unhex (upperhex n) = n := by decide

theorem byte_split (c : UInt8) : UInt8.ofNat (c.toNat / 16 * 16 + c.toNat % 16) = c := by
  have : c.toNat / 16 * 16 + c.toNat % 16 = c.toNat := by omega
  rw [this]; exact UInt8.ofNat_toNat

theorem unescape_append_escapeByte (query : Bool) (c : UInt8) (r : Bytes) :
    unescape query (escapeByte query c ++ r) = (unescape query r).map (c :: ·) := by
  unfold escapeByte
  by_cases hs : shouldEscape query c = true
  · simp only [hs, ↓reduceIte]
    by_cases hsp : (c == 32 && query) = true
    · simp only [hsp, ↓reduceIte, List.cons_append, List.nil_append]
      simp only [Bool.and_eq_true, beq_iff_eq] at hsp
      obtain ⟨rfl, rfl⟩ := hsp
      rw [unescape]
      · simp
      · intro a b r' h; cases h
      · intro h; cases h
    · simp only [hsp, Bool.false_eq_true, ↓reduceIte, List.cons_append, List.nil_append]
      have hlt1 : c.toNat / 16 < 16 := by have := c.toNat_lt; omega
      have hlt2 : c.toNat % 16 < 16 := by omega
      obtain ⟨h1, h1'⟩ := hex_roundtrip _ hlt1
      obtain ⟨h2, h2'⟩ := hex_roundtrip _ hlt2
      rw [unescape]
      simp only [h1, h2, Bool.and_self, ↓reduceIte, h1', h2', byte_split]
  · simp only [hs, Bool.false_eq_true, ↓reduceIte, List.cons_append, List.nil_append]
    -- an unescaped byte is neither '%' nor (in query mode) '+'
    have hc37 : c ≠ 37 := by
      intro h; subst h; revert hs; cases query <;> decide
    have hc43 : ¬ ((c == 43 && query) = true) := by
      intro h
      simp only [Bool.and_eq_true, beq_iff_eq] at h
      obtain ⟨rfl, rfl⟩ := h
      revert hs; decide
    rw [unescape]
    · simp [hc43]
    · intro a b r' h _; exact hc37 h
    · exact hc37

/-- `PathUnescape (PathEscape s) = s` and `QueryUnescape (QueryEscape s) = s`, for every byte string. -/
theorem unescape_escape (query : Bool) (s : Bytes) : unescape query (escape query s) = some s := by
  induction s with
  | nil => rfl
  | cons c r ih =>
    have : escape query (c :: r) = escapeByte query c ++ escape query r := by
      simp [escape]
    rw [this, unescape_append_escapeByte, ih]; rfl

/-- bytes that an escaped string can contain -/
def isSafe (query : Bool) (c : UInt8) : Bool :=
  c == 37 || ishex c || !shouldEscape query c || (query && c == 43)

theorem upperhex_ishex : ∀ n, n < 16 → ishex (upperhex n) = true := fun n h => (hex_roundtrip n h).1

theorem escape_safe (query : Bool) (s : Bytes) : ∀ c ∈ escape query s, isSafe query c = true := by
  induction s with
  | nil => intro c h; cases h
  | cons x r ih =>
    intro c hc
    have : escape query (x :: r) = escapeByte query x ++ escape query r := by simp [escape]
    rw [this, List.mem_append] at hc
    rcases hc with hc | hc
    · unfold escapeByte at hc
      split at hc
      · split at hc
        · rename_i h2
          simp only [List.mem_cons, List.not_mem_nil, or_false] at hc
          subst hc
          simp only [Bool.and_eq_true] at h2
          simp [isSafe, h2.2]
        · simp only [List.mem_cons, List.not_mem_nil, or_false] at hc
          have hlt1 : x.toNat / 16 < 16 := by have := x.toNat_lt; omega
          have hlt2 : x.toNat % 16 < 16 := by omega
          rcases hc with rfl | rfl | rfl
          · simp [isSafe]
          · simp [isSafe, upperhex_ishex _ hlt1]
          · simp [isSafe, upperhex_ishex _ hlt2]
      · rename_i hs
        simp only [List.mem_cons, List.not_mem_nil, or_false] at hc
        subst hc
        simp only [Bool.not_eq_true] at hs
        simp [isSafe, hs]
    · exact ih c hc

/-- A path-escaped value never contains `/ ? # { } SP %`-less specials: in particular it cannot add a
separator, a query, a fragment, or a `{`/`}` placeholder delimiter. -/
theorem pathEscape_no_special (s : Bytes) :
    ∀ c ∈ pathEscape s, c ≠ 47 ∧ c ≠ 63 ∧ c ≠ 35 ∧ c ≠ 123 ∧ c ≠ 125 ∧ c ≠ 32 := by
  intro c hc
  have h := escape_safe false s c hc
  revert h
  -- finite check over the byte: every unsafe byte is excluded
  have : ∀ c : UInt8, (c = 47 ∨ c = 63 ∨ c = 35 ∨ c = 123 ∨ c = 125 ∨ c = 32) → isSafe false c = false := by
    intro c h; rcases h with rfl | rfl | rfl | rfl | rfl | rfl <;> decide
  intro h
  refine ⟨?_, ?_, ?_, ?_, ?_, ?_⟩ <;> (intro heq; have := this c (by simp [heq]); rw [this] at h; cases h)

end RtVerif.GoURL
