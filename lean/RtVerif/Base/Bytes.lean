/-
  Byte strings (Go `string`/`[]byte` are byte sequences; Lean `String` is not), hex transport
  encoding used by the line protocol, and a handful of ASCII helpers mirroring Go's `strings`.
  Core Lean only.
-/
namespace RtVerif

abbrev Bytes := List UInt8

namespace Bytes

def ofStr (s : String) : Bytes := s.toUTF8.toList

/-- Render bytes for humans (evidence samples): printable ASCII kept, the rest as \xHH. -/
def hexDigit (n : Nat) : Char :=
  if n < 10 then Char.ofNat (48 + n) else Char.ofNat (87 + n)

def toHex (b : Bytes) : String :=
  String.ofList (b.flatMap fun x => [hexDigit (x.toNat / 16), hexDigit (x.toNat % 16)])

def hexVal (c : Char) : Option Nat :=
  if '0' ≤ c ∧ c ≤ '9' then some (c.toNat - 48)
  else if 'a' ≤ c ∧ c ≤ 'f' then some (c.toNat - 87) else none

def hexDecodeChars : List Char → Option Bytes
  | [] => some []
  | a :: b :: r => do
    let x ← hexVal a
    let y ← hexVal b
    let t ← hexDecodeChars r
    pure (UInt8.ofNat (x * 16 + y) :: t)
  | _ => none

/-- A bytes field on the wire: `-` is the empty string, otherwise lower-case hex. -/
def decField (s : String) : Option Bytes :=
  if s == "-" then some [] else hexDecodeChars s.toList

def encField (b : Bytes) : String := if b.isEmpty then "-" else toHex b

/-- A list-of-bytes field: items separated by `,`; the empty list is `.`. -/
def decList (s : String) : Option (List Bytes) :=
  if s == "." then some [] else (s.splitOn ",").mapM decField

def encList (l : List Bytes) : String :=
  if l.isEmpty then "." else ",".intercalate (l.map encField)

/-! ### Go `strings` helpers on bytes -/

def hasPrefix (s p : Bytes) : Bool := p.isPrefixOf s

def hasSuffix (s p : Bytes) : Bool := p.isSuffixOf s

def toLowerB (b : UInt8) : UInt8 := if 65 ≤ b ∧ b ≤ 90 then b + 32 else b
def toUpperB (b : UInt8) : UInt8 := if 97 ≤ b ∧ b ≤ 122 then b - 32 else b

/-- ASCII-only lower-casing (Go's `strings.ToLower` differs only on non-ASCII input). -/
def toLower (s : Bytes) : Bytes := s.map toLowerB
def toUpper (s : Bytes) : Bytes := s.map toUpperB

def equalFold (a b : Bytes) : Bool := toLower a == toLower b

/-- Position of the first occurrence of byte `c`. -/
def indexByte (s : Bytes) (c : UInt8) : Option Nat :=
  match s.findIdx? (· == c) with
  | some i => some i
  | none => none

/-- `strings.SplitN(s, sep, 2)[0]` for a single-byte separator. -/
def beforeByte (s : Bytes) (c : UInt8) : Bytes := s.takeWhile (· != c)

/-- Split on a single byte (like `strings.Split` with a 1-byte separator). -/
def splitByte (c : UInt8) : Bytes → List Bytes
  | [] => [[]]
  | b :: r =>
    match splitByte c r with
    | [] => [[]]   -- unreachable; keeps the function total
    | h :: t => if b == c then [] :: h :: t else (b :: h) :: t

def contains (s : Bytes) (c : UInt8) : Bool := s.any (· == c)

end Bytes
end RtVerif
