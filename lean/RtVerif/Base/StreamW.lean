import RtVerif.Base.StreamLaws
/-
  Additions to the stream library (core Lean only):

  * `RLaws`        — the laws of a reader that do not mention bufio's budget of empty reads;
                     every `Laws` gives them (`Laws.toRLaws`), and the scripted stream satisfies
                     them for EVERY schedule (`src_rlaws`, no `okRuns` hypothesis).
  * `readFromLoop` — `(*bytes.Buffer).ReadFrom(r)` ($GOROOT/src/bytes/buffer.go): read into the
                     free tail of the buffer until an error shows up, `io.EOF` becomes nil. The
                     size of the free tail (at least `bytes.MinRead`) depends on the growth policy
                     of the buffer: it is a parameter `sz`, and `readFromLoop_spec` holds for all
                     positive sizes.
  * `Snk`          — the scripted `io.Writer`/`io.WriteCloser`: per-call caps (short writes), a
                     total capacity (error at an offset), optionally lying about short writes.
  * `copyLoop`     — the generic loop of `io.Copy` ($GOROOT/src/io/io.go `copyBuffer`, neither side
                     offering `WriterTo`/`ReaderFrom`), 32 KiB buffer.
-/
namespace RtVerif.Stream
open RtVerif

/-! ## Reader laws without the zero-read budget -/

structure RLaws {σ : Type} (S : Sem σ) : Prop where
  read_inv : ∀ s k, S.Inv s → S.Inv (S.R.read s k).2
  read_term : ∀ s k, S.term (S.R.read s k).2 = S.term s
  read_content : ∀ s k, S.Inv s → S.content s = (S.R.read s k).1.1 ++ S.content (S.R.read s k).2
  read_err : ∀ s k e, S.Inv s → (S.R.read s k).1.2 = some e →
    e = S.term s ∧ S.content (S.R.read s k).2 = []
  read_mu : ∀ s k, S.Inv s → S.mu (S.R.read s k).2 + (S.R.read s k).1.1.length ≤ S.mu s
  read_mu_lt : ∀ s k, S.Inv s → 0 < k → (S.R.read s k).1.1 = [] → (S.R.read s k).1.2 = none →
    S.mu (S.R.read s k).2 < S.mu s
  read_closes : ∀ s k, S.closes (S.R.read s k).2 = S.closes s

theorem Laws.toRLaws {σ : Type} {S : Sem σ} (L : Laws S) : RLaws S :=
  ⟨L.read_inv, L.read_term, L.read_content, L.read_err, L.read_mu, L.read_mu_lt, L.read_closes⟩

/-- The scripted stream, any schedule: open means not closed (or indifferent to `Close`). -/
def srcSemAny : Sem Src where
  R := srcReader
  Inv := fun s => (s.checksClosed = true → s.closes = 0) ∧ (s.checksClosed = true ∨ s.data = [])
  Dead := fun s => (s.checksClosed = true ∧ 0 < s.closes) ∨ s.data = []
  content := fun s => s.data
  term := fun s => s.term
  mu := fun s => s.data.length + s.sched.length
  zeros := fun s => lead0 s.sched
  closes := fun s => s.closes
  sealed := fun _ => false

theorem src_rlaws : RLaws srcSemAny := by
  constructor
  · -- read_inv
    intro s k ⟨h2, h3⟩
    show ((s.read k).2.checksClosed = true → (s.read k).2.closes = 0) ∧
      ((s.read k).2.checksClosed = true ∨ (s.read k).2.data = [])
    rw [Src.read_open s k h2]
    rcases Src.readOpen_cases s k with ⟨_, e⟩ | ⟨_, r, hs, e⟩ | ⟨_, m, sc, _, _, _, _, e⟩
    · rw [e]; exact ⟨h2, h3⟩
    · rw [e]; exact ⟨h2, h3⟩
    · rw [e]; refine ⟨h2, ?_⟩
      rcases h3 with h3 | h3
      · exact Or.inl h3
      · right; show s.data.drop m = []; rw [h3]; simp
  · -- read_term
    intro s k
    show (s.read k).2.term = s.term
    unfold Src.read; split
    · rfl
    · rcases Src.readOpen_cases s k with ⟨_, e⟩ | ⟨_, r, hs, e⟩ | ⟨_, m, sc, _, _, _, _, e⟩ <;> rw [e] <;> rfl
  · -- read_content
    intro s k ⟨h2, h3⟩
    show s.data = (s.read k).1.1 ++ (s.read k).2.data
    rw [Src.read_open s k h2]
    rcases Src.readOpen_cases s k with ⟨hd, e⟩ | ⟨_, r, hs, e⟩ | ⟨_, m, sc, _, _, _, _, e⟩
    · rw [e]; simp
    · rw [e]; simp
    · rw [e]; simp [Src.deliver]
  · -- read_err
    intro s k e ⟨h2, h3⟩
    show (s.read k).1.2 = some e → e = s.term ∧ (s.read k).2.data = []
    rw [Src.read_open s k h2]
    rcases Src.readOpen_cases s k with ⟨hd, e'⟩ | ⟨_, r, hs, e'⟩ | ⟨_, m, sc, _, _, _, _, e'⟩
    · rw [e']; intro h; simp only [Option.some.injEq] at h; exact ⟨h.symm, hd⟩
    · rw [e']; intro h; cases h
    · rw [e']; intro h; exact Src.deliver_err s m sc e h
  · -- read_mu
    intro s k ⟨h2, h3⟩
    show (s.read k).2.data.length + (s.read k).2.sched.length + (s.read k).1.1.length ≤
      s.data.length + s.sched.length
    rw [Src.read_open s k h2]
    rcases Src.readOpen_cases s k with ⟨hd, e⟩ | ⟨_, r, hs, e⟩ | ⟨_, m, sc, _, hm, hl, _, e⟩
    · rw [e]; simp
    · rw [e, hs]; simp
    · rw [e]; simp only [Src.deliver, List.length_drop, List.length_take]; omega
  · -- read_mu_lt
    intro s k ⟨h2, h3⟩ hk
    show (s.read k).1.1 = [] → (s.read k).1.2 = none →
      (s.read k).2.data.length + (s.read k).2.sched.length < s.data.length + s.sched.length
    rw [Src.read_open s k h2]
    rcases Src.readOpen_cases s k with ⟨hd, e⟩ | ⟨_, r, hs, e⟩ | ⟨hd, m, sc, hm0, hm, hl, _, e⟩
    · rw [e]; intro _ h; cases h
    · rw [e, hs]; intro _ _; simp
    · rw [e, Src.deliver_fst]; intro h _; exact absurd h (take_ne_nil hd (hm0 hk))
  · -- read_closes
    intro s k
    show (s.read k).2.closes = s.closes
    unfold Src.read; split
    · rfl
    · rcases Src.readOpen_cases s k with ⟨_, e⟩ | ⟨_, r, hs, e⟩ | ⟨_, m, sc, _, _, _, _, e⟩ <;> rw [e] <;> rfl

/-! ## `(*bytes.Buffer).ReadFrom` -/

/-- `bytes.MinRead`: the least free space `ReadFrom` offers to a `Read` call. -/
def minRead : Nat := 512

/-- Result: the bytes appended, the error returned (`io.EOF` is reported as nil), and whether the
call budget of the model ran out (the real loop would still be running). `sz i` is the length of
the slice offered to the `i`-th `Read`. -/
def readFromLoop {σ : Type} (R : Reader σ) (sz : Nat → Nat) :
    Nat → Nat → σ → (Bytes × Option Err × Bool) × σ
  | 0, _, s => (([], none, true), s)
  | f + 1, i, s =>
    let r := R.read s (sz i)
    match r.1.2 with
    | some e => ((r.1.1, (if e = .eof then none else some e), false), r.2)
    | none =>
      let t := readFromLoop R sz f (i + 1) r.2
      ((r.1.1 ++ t.1.1, t.1.2), t.2)

theorem readFromLoop_succ {σ : Type} (R : Reader σ) (sz : Nat → Nat) (f i : Nat) (s : σ) :
    readFromLoop R sz (f + 1) i s =
    match (R.read s (sz i)).1.2 with
    | some e => (((R.read s (sz i)).1.1, (if e = .eof then none else some e), false), (R.read s (sz i)).2)
    | none =>
      (((R.read s (sz i)).1.1 ++ (readFromLoop R sz f (i + 1) (R.read s (sz i)).2).1.1,
        (readFromLoop R sz f (i + 1) (R.read s (sz i)).2).1.2),
       (readFromLoop R sz f (i + 1) (R.read s (sz i)).2).2) := rfl

/-- `io.EOF` becomes nil, any other terminal is returned. -/
def eofNil (e : Err) : Option Err := if e = .eof then none else some e

section
variable {σ : Type} {S : Sem σ} (L : RLaws S)
include L

/-- Refinement: whatever the sizes of the slices offered (all positive), `ReadFrom` on an open
reader appends exactly its content and returns its terminal (nil for `io.EOF`), within `mu + 1`
calls; nothing is closed, nothing is left. -/
theorem readFromLoop_spec (sz : Nat → Nat) (hsz : ∀ i, 0 < sz i) (f i : Nat) (s : σ)
    (hI : S.Inv s) (hf : S.mu s < f) :
    (readFromLoop S.R sz f i s).1 = (S.content s, eofNil (S.term s), false) ∧
    S.Inv (readFromLoop S.R sz f i s).2 ∧ S.content (readFromLoop S.R sz f i s).2 = [] ∧
    S.term (readFromLoop S.R sz f i s).2 = S.term s ∧
    S.closes (readFromLoop S.R sz f i s).2 = S.closes s := by
  induction f generalizing s i with
  | zero => omega
  | succ f ih =>
    rw [readFromLoop_succ]
    have hc := L.read_content s (sz i) hI
    have hm := L.read_mu s (sz i) hI
    split
    · rename_i e he
      have := L.read_err s (sz i) e hI he
      refine ⟨?_, L.read_inv _ _ hI, this.2, L.read_term _ _, L.read_closes _ _⟩
      rw [hc, this.2, this.1]; simp [eofNil]
    · rename_i he
      have hlt : S.mu (S.R.read s (sz i)).2 < f := by
        by_cases hd : (S.R.read s (sz i)).1.1 = []
        · have := L.read_mu_lt s (sz i) hI (hsz i) hd he; omega
        · have : 0 < (S.R.read s (sz i)).1.1.length := List.length_pos_iff.mpr hd
          omega
      have := ih (i + 1) (S.R.read s (sz i)).2 (L.read_inv _ _ hI) hlt
      rw [L.read_term, L.read_closes] at this
      refine ⟨?_, this.2.1, this.2.2.1, this.2.2.2.1, this.2.2.2.2⟩
      rw [this.1, hc]

/-- The outcome of `ReadFrom` does not depend on how the buffer grows. -/
theorem readFromLoop_indep (sz sz' : Nat → Nat) (hsz : ∀ i, 0 < sz i) (hsz' : ∀ i, 0 < sz' i)
    (f f' : Nat) (s : σ) (hI : S.Inv s) (hf : S.mu s < f) (hf' : S.mu s < f') :
    (readFromLoop S.R sz f 0 s).1 = (readFromLoop S.R sz' f' 0 s).1 := by
  rw [(readFromLoop_spec L sz hsz f 0 s hI hf).1, (readFromLoop_spec L sz' hsz' f' 0 s hI hf').1]

end

/-! ## Scripted writer -/

structure Snk where
  got : Bytes := []            -- everything accepted so far
  caps : List Nat              -- per `Write` call: 0 = takes all; n + 1 = takes at most n bytes
  limit : Option Nat           -- total capacity: the byte offset at which writing fails
  werr : Err                   -- the error a short write returns
  lie : Bool := false          -- a short write returns a nil error (violates `io.Writer`)
  closes : Nat := 0
  cerr : Option Err := none

/-- How many of `n` offered bytes this call takes. -/
def Snk.accept (w : Snk) (n : Nat) : Nat :=
  let a := match w.caps with
    | (c + 1) :: _ => min n c
    | _ => n
  match w.limit with
  | some l => min a (l - w.got.length)
  | none => a

/-- `Write(p)`: the count and error returned. -/
def Snk.write (w : Snk) (p : Bytes) : (Nat × Option Err) × Snk :=
  ((w.accept p.length,
    if w.accept p.length < p.length ∧ w.lie = false then some w.werr else none),
   { w with got := w.got ++ p.take (w.accept p.length), caps := w.caps.tail })

def Snk.close (w : Snk) : Option Err × Snk := (w.cerr, { w with closes := w.closes + 1 })

/-- A writer that never refuses a byte. -/
def Snk.faultFree (w : Snk) : Bool := w.limit.isNone && w.caps.all (· == 0)

/-- The writer honours the contract of `io.Writer` ("Write must return a non-nil error if it
returns n < len(p)"). -/
def Snk.honest (w : Snk) : Bool := !w.lie

theorem Snk.accept_le (w : Snk) (n : Nat) : w.accept n ≤ n := by
  unfold Snk.accept
  cases w.caps with
  | nil => cases w.limit with
    | none => exact Nat.le_refl _
    | some l => exact Nat.min_le_left _ _
  | cons c r => cases c with
    | zero => cases w.limit with
      | none => exact Nat.le_refl _
      | some l => exact Nat.min_le_left _ _
    | succ c => cases w.limit with
      | none => exact Nat.min_le_left _ _
      | some l => exact Nat.le_trans (Nat.min_le_left _ _) (Nat.min_le_left _ _)

theorem Snk.accept_faultFree (w : Snk) (n : Nat) (h : w.faultFree = true) : w.accept n = n := by
  unfold Snk.faultFree at h
  simp only [Bool.and_eq_true, Option.isNone_iff_eq_none] at h
  unfold Snk.accept
  rw [h.1]
  cases hc : w.caps with
  | nil => rfl
  | cons c r =>
    have := h.2
    rw [hc] at this
    simp only [List.all_cons, Bool.and_eq_true, beq_iff_eq] at this
    rw [this.1]

theorem Snk.write_faultFree (w : Snk) (p : Bytes) (h : w.faultFree = true) :
    (w.write p).2.faultFree = true := by
  unfold Snk.faultFree at h ⊢
  simp only [Bool.and_eq_true] at h ⊢
  refine ⟨h.1, ?_⟩
  show w.caps.tail.all (· == 0) = true
  cases hc : w.caps with
  | nil => rfl
  | cons c r =>
    have := h.2; rw [hc] at this
    simp only [List.all_cons, Bool.and_eq_true] at this
    exact this.2

theorem Snk.accept_limit (w : Snk) (n l : Nat) (h : w.limit = some l) :
    w.accept n ≤ l - w.got.length := by
  unfold Snk.accept
  rw [h]
  exact Nat.min_le_right _ _

theorem Snk.write_got (w : Snk) (p : Bytes) :
    (w.write p).2.got = w.got ++ p.take (w.accept p.length) := rfl
theorem Snk.write_count (w : Snk) (p : Bytes) : (w.write p).1.1 = w.accept p.length := rfl
theorem Snk.write_closes (w : Snk) (p : Bytes) : (w.write p).2.closes = w.closes := rfl
theorem Snk.write_limit (w : Snk) (p : Bytes) : (w.write p).2.limit = w.limit := rfl
theorem Snk.write_lie (w : Snk) (p : Bytes) : (w.write p).2.lie = w.lie := rfl
theorem Snk.write_werr (w : Snk) (p : Bytes) : (w.write p).2.werr = w.werr := rfl

/-- A write that reports no error on an honest writer took everything. -/
theorem Snk.write_ok_full (w : Snk) (p : Bytes) (hh : w.lie = false)
    (h : (w.write p).1.2 = none) : w.accept p.length = p.length := by
  have hle := w.accept_le p.length
  by_cases hlt : w.accept p.length < p.length
  · have : (w.write p).1.2 = some w.werr := by
      show (if w.accept p.length < p.length ∧ w.lie = false then some w.werr else none) = _
      rw [if_pos ⟨hlt, hh⟩]
    rw [this] at h; cases h
  · omega

theorem Snk.write_err (w : Snk) (p : Bytes) (e : Err) (h : (w.write p).1.2 = some e) :
    e = w.werr ∧ w.accept p.length < p.length := by
  have h : (if w.accept p.length < p.length ∧ w.lie = false then some w.werr else none) = some e := h
  split at h
  · rename_i hc; simp only [Option.some.injEq] at h; exact ⟨h.symm, hc.1⟩
  · cases h

theorem Snk.write_faultFree_ok (w : Snk) (p : Bytes) (h : w.faultFree = true) :
    (w.write p).1.2 = none ∧ (w.write p).1.1 = p.length := by
  have ha := w.accept_faultFree p.length h
  refine ⟨?_, ha⟩
  show (if w.accept p.length < p.length ∧ w.lie = false then some w.werr else none) = none
  rw [if_neg]; rw [ha]; omega

/-- The capacity is never exceeded. -/
theorem Snk.write_within (w : Snk) (p : Bytes) (l : Nat) (hl : w.limit = some l)
    (h : w.got.length ≤ l) : (w.write p).2.got.length ≤ l := by
  rw [Snk.write_got, List.length_append, List.length_take]
  have := w.accept_limit p.length l hl
  omega

/-! ## The generic loop of `io.Copy` -/

/-- What `io.Copy` can return: the reader's error, the writer's error, `io.ErrShortWrite`. -/
inductive CErr where
  | rd (e : Err)
  | wr (e : Err)
  | short
deriving DecidableEq, Repr

/-- `io.Copy`: `size := 32 * 1024`. -/
def copyBuf : Nat := 32768

/-- How a `Read` result ends the loop: `if er != nil { if er != EOF { err = er }; break }`. -/
def copyEnd (e : Err) : Option CErr := if e = .eof then none else some (.rd e)

/-- Result: the error returned, whether the call budget of the model ran out, both end states.
(`nw < 0 || nr < nw` cannot happen with a `Snk`: `accept_le`.) -/
def copyLoop {σ : Type} (R : Reader σ) : Nat → σ → Snk → (Option CErr × Bool) × σ × Snk
  | 0, s, w => ((none, true), s, w)
  | f + 1, s, w =>
    let r := R.read s copyBuf
    if r.1.1.isEmpty then
      match r.1.2 with
      | some e => ((copyEnd e, false), r.2, w)
      | none => copyLoop R f r.2 w
    else
      let x := w.write r.1.1
      match x.1.2 with
      | some e => ((some (.wr e), false), r.2, x.2)
      | none =>
        if x.1.1 ≠ r.1.1.length then ((some .short, false), r.2, x.2)
        else match r.1.2 with
          | some e => ((copyEnd e, false), r.2, x.2)
          | none => copyLoop R f r.2 x.2

theorem copyLoop_succ {σ : Type} (R : Reader σ) (f : Nat) (s : σ) (w : Snk) :
    copyLoop R (f + 1) s w =
    if (R.read s copyBuf).1.1.isEmpty then
      match (R.read s copyBuf).1.2 with
      | some e => ((copyEnd e, false), (R.read s copyBuf).2, w)
      | none => copyLoop R f (R.read s copyBuf).2 w
    else
      match (w.write (R.read s copyBuf).1.1).1.2 with
      | some e => ((some (.wr e), false), (R.read s copyBuf).2, (w.write (R.read s copyBuf).1.1).2)
      | none =>
        if (w.write (R.read s copyBuf).1.1).1.1 ≠ (R.read s copyBuf).1.1.length then
          ((some .short, false), (R.read s copyBuf).2, (w.write (R.read s copyBuf).1.1).2)
        else match (R.read s copyBuf).1.2 with
          | some e => ((copyEnd e, false), (R.read s copyBuf).2, (w.write (R.read s copyBuf).1.1).2)
          | none => copyLoop R f (R.read s copyBuf).2 (w.write (R.read s copyBuf).1.1).2 := rfl

theorem copyBuf_pos : 0 < copyBuf := by unfold copyBuf; omega

theorem copyEnd_none {e : Err} (h : copyEnd e = none) : e = .eof := by
  unfold copyEnd at h; split at h
  · assumption
  · cases h

theorem copyEnd_rd {e e' : Err} (h : copyEnd e = some (.rd e')) : e' = e ∧ e ≠ .eof := by
  unfold copyEnd at h; split at h
  · cases h
  · rename_i hne; simp only [Option.some.injEq, CErr.rd.injEq] at h; exact ⟨h.symm, hne⟩

theorem copyEnd_cases (e : Err) : (e = .eof ∧ copyEnd e = none) ∨ (e ≠ .eof ∧ copyEnd e = some (.rd e)) := by
  unfold copyEnd
  by_cases h : e = .eof
  · left; exact ⟨h, by rw [if_pos h]⟩
  · right; exact ⟨h, by rw [if_neg h]⟩

/-- What the loop guarantees, whatever the writer does. -/
structure CopyPost {σ : Type} (S : Sem σ) (s : σ) (w : Snk)
    (o : (Option CErr × Bool) × σ × Snk) : Prop where
  noHang : o.1.2 = false
  prefix_ : ∃ p q, S.content s = p ++ q ∧ o.2.2.got = w.got ++ p
  ok_eof : o.1.1 = none → S.term s = .eof
  ok_all : w.lie = false → o.1.1 = none → o.2.2.got = w.got ++ S.content s
  ok_drained : o.1.1 = none → S.content o.2.1 = []
  rd_err : ∀ e, o.1.1 = some (.rd e) → e = S.term s ∧ e ≠ .eof
  wr_err : ∀ e, o.1.1 = some (.wr e) → e = w.werr
  faultFree : w.faultFree = true → o.1.1 = copyEnd (S.term s) ∧ o.2.2.got = w.got ++ S.content s
  within : ∀ l, w.limit = some l → w.got.length ≤ l → o.2.2.got.length ≤ l
  frame : S.closes o.2.1 = S.closes s ∧ o.2.2.closes = w.closes ∧ o.2.2.limit = w.limit ∧
    o.2.2.lie = w.lie ∧ o.2.2.werr = w.werr ∧ S.term o.2.1 = S.term s

section
variable {σ : Type} {S : Sem σ} (L : RLaws S)
include L

theorem copyLoop_spec (f : Nat) (s : σ) (w : Snk) (hI : S.Inv s) (hf : S.mu s < f) :
    CopyPost S s w (copyLoop S.R f s w) := by
  induction f generalizing s w with
  | zero => omega
  | succ f ih =>
    rw [copyLoop_succ]
    have hc := L.read_content s copyBuf hI
    have hm := L.read_mu s copyBuf hI
    have hI' := L.read_inv s copyBuf hI
    have ht := L.read_term s copyBuf
    have hcl := L.read_closes s copyBuf
    generalize hr : S.R.read s copyBuf = r at hc hm hI' ht hcl
    split
    · -- nothing read
      rename_i hemp
      rw [List.isEmpty_iff] at hemp
      rw [hemp, List.nil_append] at hc
      split
      · rename_i e he
        have hre := L.read_err s copyBuf e hI (by rw [hr]; exact he)
        rw [hr] at hre
        have hgot : w.got = w.got ++ S.content s := by rw [hc, hre.2]; simp
        refine ⟨rfl, ⟨[], S.content s, by simp, by simp⟩, ?_, ?_, ?_, ?_, ?_, ?_, (fun l _ h => h),
          ⟨hcl, rfl, rfl, rfl, rfl, ht⟩⟩
        · intro h; have := copyEnd_none h; rw [hre.1] at this; exact this
        · intro _ _; exact hgot
        · intro _; exact hre.2
        · intro e' h; have := copyEnd_rd h; rw [hre.1] at this; exact ⟨this.1, by rw [this.1]; exact this.2⟩
        · intro e' h
          rcases copyEnd_cases e with ⟨_, h'⟩ | ⟨_, h'⟩ <;> rw [h'] at h <;> cases h
        · intro _; exact ⟨by rw [hre.1], hgot⟩
      · rename_i he
        have hlt : S.mu r.2 < f := by
          have := L.read_mu_lt s copyBuf hI copyBuf_pos (by rw [hr]; exact hemp) (by rw [hr]; exact he)
          rw [hr] at this; omega
        obtain ⟨h1, h2, h3, h3a, h3', h4, h5, h6, h6', h7⟩ := ih r.2 w hI' hlt
        rw [ht] at h3 h4 h6 h7
        rw [hcl] at h7
        rw [← hc] at h2 h3a h6
        exact ⟨h1, h2, h3, h3a, h3', h4, h5, h6, h6', h7⟩
    · -- some bytes read: one Write
      rename_i hne
      have hne : r.1.1 ≠ [] := by intro h; rw [h] at hne; simp at hne
      have hlen : 0 < r.1.1.length := List.length_pos_iff.mpr hne
      have hacc := w.accept_le r.1.1.length
      split
      · -- the writer reports an error
        rename_i e he
        have hwe := w.write_err r.1.1 e he
        refine ⟨rfl, ⟨r.1.1.take (w.accept r.1.1.length),
            r.1.1.drop (w.accept r.1.1.length) ++ S.content r.2, ?_, rfl⟩, ?_, ?_, ?_, ?_, ?_, ?_,
          (fun l hl h => w.write_within r.1.1 l hl h), ⟨hcl, rfl, rfl, rfl, rfl, ht⟩⟩
        · rw [← List.append_assoc, List.take_append_drop]; exact hc
        · intro h; cases h
        · intro _ h; cases h
        · intro h; cases h
        · intro e' h; cases h
        · intro e' h; simp only [Option.some.injEq, CErr.wr.injEq] at h; rw [← h]; exact hwe.1
        · intro hff
          have := (w.write_faultFree_ok r.1.1 hff).1
          rw [this] at he; cases he
      · rename_i he
        split
        · -- short count without an error (a lying writer)
          rename_i hshort
          refine ⟨rfl, ⟨r.1.1.take (w.accept r.1.1.length),
              r.1.1.drop (w.accept r.1.1.length) ++ S.content r.2, ?_, rfl⟩, ?_, ?_, ?_, ?_, ?_, ?_,
            (fun l hl h => w.write_within r.1.1 l hl h), ⟨hcl, rfl, rfl, rfl, rfl, ht⟩⟩
          · rw [← List.append_assoc, List.take_append_drop]; exact hc
          · intro h; cases h
          · intro _ h; cases h
          · intro h; cases h
          · intro e' h; cases h
          · intro e' h; cases h
          · intro hff
            exact absurd (w.write_faultFree_ok r.1.1 hff).2 hshort
        · -- everything was taken
          rename_i hfull
          have hfull : w.accept r.1.1.length = r.1.1.length := by
            have : (w.write r.1.1).1.1 = r.1.1.length := Decidable.of_not_not hfull
            exact this
          have hgot : (w.write r.1.1).2.got = w.got ++ r.1.1 := by
            rw [Snk.write_got, hfull, List.take_length]
          split
          · rename_i e hre'
            have hre := L.read_err s copyBuf e hI (by rw [hr]; exact hre')
            rw [hr] at hre
            have hcs : S.content s = r.1.1 := by rw [hc, hre.2]; simp
            have hgot' : (w.write r.1.1).2.got = w.got ++ S.content s := by rw [hgot, hcs]
            refine ⟨rfl, ⟨r.1.1, [], by rw [hcs]; simp, hgot⟩, ?_, ?_, ?_, ?_, ?_, ?_,
              (fun l hl h => w.write_within r.1.1 l hl h), ⟨hcl, rfl, rfl, rfl, rfl, ht⟩⟩
            · intro h; have := copyEnd_none h; rw [hre.1] at this; exact this
            · intro _ _; exact hgot'
            · intro _; exact hre.2
            · intro e' h; have := copyEnd_rd h; rw [hre.1] at this; exact ⟨this.1, by rw [this.1]; exact this.2⟩
            · intro e' h
              rcases copyEnd_cases e with ⟨_, h'⟩ | ⟨_, h'⟩ <;> rw [h'] at h <;> cases h
            · intro _; exact ⟨by rw [hre.1], hgot'⟩
          · rename_i hre'
            have hlt : S.mu r.2 < f := by omega
            obtain ⟨h1, ⟨p, q, hpq, hp1⟩, h3, h3a, h3', h4, h5, h6, h6', h7⟩ :=
              ih r.2 (w.write r.1.1).2 hI' hlt
            rw [ht] at h3 h4 h6 h7
            rw [hcl] at h7
            rw [hgot] at hp1 h3a h6
            refine ⟨h1, ⟨r.1.1 ++ p, q, by rw [hc, hpq, List.append_assoc],
              by rw [hp1, List.append_assoc]⟩, h3, ?_, h3', h4, ?_, ?_, ?_, ?_⟩
            · intro hl hn
              have := h3a (by rw [Snk.write_lie]; exact hl) hn
              rw [this, List.append_assoc, ← hc]
            · intro e' h; have := h5 e' h; rw [Snk.write_werr] at this; exact this
            · intro hff
              have := h6 (w.write_faultFree r.1.1 hff)
              exact ⟨this.1, by rw [this.2, List.append_assoc, ← hc]⟩
            · intro l hl h
              exact h6' l (by rw [Snk.write_limit]; exact hl) (w.write_within r.1.1 l hl h)
            · rw [Snk.write_closes, Snk.write_limit, Snk.write_lie, Snk.write_werr] at h7
              exact h7

end

end RtVerif.Stream
