import RtVerif.Base.Bytes
import RtVerif.Base.GoURL
/-
  GoURLParse — net/url's `Parse` on byte strings (core Lean only): `Parse` / `parse(…, viaRequest =
  false)`, `getScheme`, the query and fragment split, the authority split with `parseAuthority` /
  `parseHost` / `validOptionalPort` / `validUserinfo`, `setPath`, `setFragment`, `EscapedPath`,
  `validEncoded`, and `shouldEscape` / `escape` / `unescape` for every encoding mode.

  Hand-copied from Go's net/url (go1.23; stdlib is modelled, not verified).  Validated against the
  real `url.Parse` on every run by correspondence stream `U` of C10 (random byte strings over an
  alphabet of URL meta bytes, letters, digits, controls and high bytes, plus structured strings):
  either both refuse, or all of Scheme, Opaque, User, Host, Path, RawPath, EscapedPath(),
  ForceQuery, RawQuery, Fragment, RawFragment, OmitHost agree.

  An error of `Parse` is `none`: the model does not distinguish the error messages.
-/
namespace RtVerif.GoURLParse
open RtVerif

/-- net/url's `encoding` modes -/
inductive Mode where
  | path | pathSegment | host | zone | userPassword | queryComponent | fragment
deriving DecidableEq, Repr

def slash : UInt8 := 47
def qmark : UInt8 := 63
def hash : UInt8 := 35
def colon : UInt8 := 58
def pct : UInt8 := 37
def atSign : UInt8 := 64
def star : UInt8 := 42

/-- the bytes `shouldEscape` lets through in host and zone mode: `! $ & ' ( ) * + , ; = : [ ] < > "` -/
def hostExtra (c : UInt8) : Bool :=
  c == 33 || c == 36 || c == 38 || c == 39 || c == 40 || c == 41 || c == 42 || c == 43 || c == 44 ||
  c == 59 || c == 61 || c == 58 || c == 91 || c == 93 || c == 60 || c == 62 || c == 34

/-- `shouldEscape(c, mode)` -/
def shouldEscape (mode : Mode) (c : UInt8) : Bool :=
  if GoURL.isAlnum c then false
  else if (mode == .host || mode == .zone) && hostExtra c then false
  else if GoURL.isMark c then false
  else if GoURL.isReservedCh c then
    match mode with
    | .path => c == 63
    | .pathSegment => c == 47 || c == 59 || c == 44 || c == 63
    | .userPassword => c == 64 || c == 47 || c == 63 || c == 58
    | .queryComponent => true
    | .fragment => false
    | .host => true
    | .zone => true
  else if mode == .fragment && (c == 33 || c == 40 || c == 41 || c == 42) then false
  else true

def escapeByte (mode : Mode) (c : UInt8) : Bytes :=
  if shouldEscape mode c then
    if c == 32 && mode == .queryComponent then [43]
    else [37, GoURL.upperhex (c.toNat / 16), GoURL.upperhex (c.toNat % 16)]
  else [c]

/-- `escape(s, mode)` -/
def escape (mode : Mode) (s : Bytes) : Bytes := s.flatMap (escapeByte mode)

/-- the byte an escape `%ab` stands for -/
def pctByte (a b : UInt8) : UInt8 := UInt8.ofNat (GoURL.unhex a * 16 + GoURL.unhex b)

/-- is the escape `%ab` (both hex) admissible in a host (`zone = false`) / a zone? -/
def pctOk (zone : Bool) (a b : UInt8) : Bool :=
  if zone then (a == 50 && b == 53) || pctByte a b == 32 || !shouldEscape .host (pctByte a b)
  else !(GoURL.unhex a < 8 && !(a == 50 && b == 53))

/-- the additional refusals of `unescape` in host and zone mode: an escape of an ASCII byte other
than `%25` in a host, an escape of a non-host byte in a zone, a raw ASCII byte that is not a host
byte.  (On a malformed escape the answer is irrelevant: `unescape` refuses anyway.) -/
def hostCheck (zone : Bool) : Bytes → Bool
  | [] => true
  | 37 :: a :: b :: r => pctOk zone a b && hostCheck zone r
  | c :: r => !(c < 128 && shouldEscape (if zone then .zone else .host) c) && hostCheck zone r

/-- `unescape(s, mode)`; `none` is the error -/
def unescape (mode : Mode) (s : Bytes) : Option Bytes :=
  if mode == .host && !hostCheck false s then none
  else if mode == .zone && !hostCheck true s then none
  else GoURL.unescape (mode == .queryComponent) s

/-! ## small string helpers -/

/-- `before, _, _ := strings.Cut(s, c)` -/
def before (c : UInt8) (s : Bytes) : Bytes := s.takeWhile (· != c)
/-- `_, after, _ := strings.Cut(s, c)` -/
def after (c : UInt8) (s : Bytes) : Bytes := (s.dropWhile (· != c)).drop 1
/-- `s[strings.IndexByte(s, c):]`, empty when `c` does not occur -/
def fromByte (c : UInt8) (s : Bytes) : Bytes := s.dropWhile (· != c)

def lastIndexOf (c : UInt8) : Bytes → Option Nat
  | [] => none
  | x :: t =>
    match lastIndexOf c t with
    | some i => some (i + 1)
    | none => if x == c then some 0 else none

def indexOfSub (pat : Bytes) : Bytes → Option Nat
  | [] => if pat.isEmpty then some 0 else none
  | x :: t => if pat.isPrefixOf (x :: t) then some 0 else (indexOfSub pat t).map (· + 1)

def isAlpha (c : UInt8) : Bool := (97 ≤ c && c ≤ 122) || (65 ≤ c && c ≤ 90)
def isDigit (c : UInt8) : Bool := 48 ≤ c && c ≤ 57

/-- `stringContainsCTLByte` -/
def hasCTL (s : Bytes) : Bool := s.any fun b => b < 32 || b == 127

/-! ## the URL -/

structure URL where
  scheme : Bytes := []
  opaq : Bytes := []
  /-- `User`: `none` is the nil pointer; else the user name and the password when one is set -/
  user : Option (Bytes × Option Bytes) := none
  host : Bytes := []
  path : Bytes := []
  rawPath : Bytes := []
  omitHost : Bool := false
  forceQuery : Bool := false
  rawQuery : Bytes := []
  fragment : Bytes := []
  rawFragment : Bytes := []
deriving Repr, DecidableEq

/-- `getScheme`: `none` is "missing protocol scheme"; else `(scheme, rest)` -/
def getSchemeGo (raw : Bytes) : Bytes → Nat → Option (Bytes × Bytes)
  | [], _ => some ([], raw)
  | c :: t, i =>
    if isAlpha c then getSchemeGo raw t (i + 1)
    else if isDigit c || c == 43 || c == 45 || c == 46 then
      (if i == 0 then some ([], raw) else getSchemeGo raw t (i + 1))
    else if c == 58 then (if i == 0 then none else some (raw.take i, t))
    else some ([], raw)

def getScheme (raw : Bytes) : Option (Bytes × Bytes) := getSchemeGo raw raw 0

/-- the `ForceQuery` / `RawQuery` split: `(rest, rawQuery, forceQuery)` -/
def splitQuery (rest : Bytes) : Bytes × Bytes × Bool :=
  if rest.getLast? == some qmark && rest.count qmark == 1 then (rest.dropLast, [], true)
  else (before qmark rest, after qmark rest, false)

/-- `validOptionalPort` -/
def validOptionalPort : Bytes → Bool
  | [] => true
  | c :: r => c == colon && r.all isDigit

/-- `validUserinfo` -/
def validUserinfo (s : Bytes) : Bool :=
  s.all fun r =>
    GoURL.isAlnum r || r == 45 || r == 46 || r == 95 || r == 58 || r == 126 || r == 33 || r == 36 ||
    r == 38 || r == 39 || r == 40 || r == 41 || r == 42 || r == 43 || r == 44 || r == 59 || r == 61 ||
    r == 37 || r == 64

/-- the IP-literal branch of `parseHost` once the last `]` is found at `i` -/
def parseHostBracket (host : Bytes) (i : Nat) : Option Bytes :=
  if !validOptionalPort (host.drop (i + 1)) then none
  else
    match indexOfSub [37, 50, 53] (host.take i) with
    | some z =>
      match unescape .host (host.take z), unescape .zone ((host.take i).drop z), unescape .host (host.drop i) with
      | some h1, some h2, some h3 => some (h1 ++ h2 ++ h3)
      | _, _, _ => none
    | none => unescape .host host

/-- `parseHost` -/
def parseHost (host : Bytes) : Option Bytes :=
  if host.head? == some 91 then
    match lastIndexOf 93 host with
    | none => none
    | some i => parseHostBracket host i
  else
    match lastIndexOf colon host with
    | some i => if validOptionalPort (host.drop i) then unescape .host host else none
    | none => unescape .host host

/-- the user part of `parseAuthority` -/
def parseUserinfo (ui : Bytes) : Option (Bytes × Option Bytes) :=
  if !validUserinfo ui then none
  else if !ui.contains colon then (unescape .userPassword ui).map fun u => (u, none)
  else
    match unescape .userPassword (before colon ui), unescape .userPassword (after colon ui) with
    | some u, some p => some (u, some p)
    | _, _ => none

/-- `parseAuthority`: `(User, Host)` -/
def parseAuthority (a : Bytes) : Option (Option (Bytes × Option Bytes) × Bytes) :=
  match lastIndexOf atSign a with
  | none => (parseHost a).map fun h => (none, h)
  | some i =>
    match parseHost (a.drop (i + 1)) with
    | none => none
    | some h => (parseUserinfo (a.take i)).map fun u => (some u, h)

/-- `escape(path, encodePath)` -/
def escapePath (p : Bytes) : Bytes := escape .path p

/-- `URL.setPath` -/
def setPath (u : URL) (p : Bytes) : Option URL :=
  match unescape .path p with
  | none => none
  | some path => some { u with path := path, rawPath := if escapePath path == p then [] else p }

/-- `URL.setFragment` -/
def setFragment (u : URL) (f : Bytes) : Option URL :=
  match unescape .fragment f with
  | none => none
  | some frag => some { u with fragment := frag, rawFragment := if escape .fragment frag == f then [] else f }

/-- does `parse` read an authority?  `rest` starts with `//`, and (without a scheme) not with `///` -/
def takesAuthority (scheme rest : Bytes) : Bool :=
  (!scheme.isEmpty || !Bytes.hasPrefix rest [slash, slash, slash]) && Bytes.hasPrefix rest [slash, slash]

/-- the tail of `parse`: authority, `OmitHost`, `setPath` -/
def parseAuthPath (u : URL) (rest : Bytes) : Option URL :=
  if takesAuthority u.scheme rest then
    let r2 := rest.drop 2
    match parseAuthority (before slash r2) with
    | none => none
    | some (user, host) => setPath { u with user := user, host := host } (fromByte slash r2)
  else if !u.scheme.isEmpty && Bytes.hasPrefix rest [slash] then setPath { u with omitHost := true } rest
  else setPath u rest

/-- `parse` after the scheme and the query are split off -/
def parseRest (u : URL) (rest : Bytes) : Option URL :=
  if !Bytes.hasPrefix rest [slash] then
    if !u.scheme.isEmpty then some { u with opaq := rest }
    else if (before slash rest).contains colon then none
    else parseAuthPath u rest
  else parseAuthPath u rest

/-- `parse(rawURL, false)` -/
def parseNoFrag (raw : Bytes) : Option URL :=
  if hasCTL raw then none
  else if raw == [star] then some { path := [star] }
  else
    match getScheme raw with
    | none => none
    | some (scheme, rest0) =>
      let q := splitQuery rest0
      parseRest { scheme := Bytes.toLower scheme, rawQuery := q.2.1, forceQuery := q.2.2 } q.1

/-- `url.Parse` -/
def parse (raw : Bytes) : Option URL :=
  match parseNoFrag (before hash raw) with
  | none => none
  | some u => if (after hash raw).isEmpty then some u else setFragment u (after hash raw)

/-! ## EscapedPath -/

/-- the bytes `validEncoded(s, encodePath)` accepts: `! $ & ' ( ) * + , ; = : @ [ ] %` and
everything `shouldEscape(·, encodePath)` leaves alone -/
def validEncodedByte (c : UInt8) : Bool :=
  c == 33 || c == 36 || c == 38 || c == 39 || c == 40 || c == 41 || c == 42 || c == 43 || c == 44 ||
  c == 59 || c == 61 || c == 58 || c == 64 || c == 91 || c == 93 || c == 37 || !shouldEscape .path c

/-- `validEncoded(s, encodePath)` -/
def validEncoded (s : Bytes) : Bool := s.all validEncodedByte

/-- `URL.EscapedPath` -/
def escapedPath (u : URL) : Bytes :=
  if !u.rawPath.isEmpty && validEncoded u.rawPath && unescape .path u.rawPath == some u.path then u.rawPath
  else if u.path == [star] then [star]
  else escapePath u.path

end RtVerif.GoURLParse
