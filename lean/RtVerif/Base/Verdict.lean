import RtVerif.Base.Bytes
/-
  What the driver prints per case line.  `agree` is the correspondence (model output = what the
  real code did), `specOk` is the property judged on what the real code did, `known` names the
  recorded finding class the input falls in ("-" when none), `tag` is the model branch the case
  exercised (used to count distinct non-trivial cases), `model` is the model's own output rendered
  for the replay file.
-/
namespace RtVerif

structure Verdict where
  agree  : Bool
  specOk : Bool
  known  : String := "-"
  tag    : String := "-"
  model  : String := ""

def Verdict.bad (why : String) : Verdict :=
  { agree := false, specOk := false, known := "-", tag := "malformed-line", model := why }

def Verdict.render (v : Verdict) : String :=
  s!"agree={if v.agree then 1 else 0} spec={if v.specOk then 1 else 0} known={v.known} tag={v.tag} model={v.model}"

/-- Split a protocol line `<fields> => <fields>` into input and output field lists. -/
def splitLine (line : String) : List String × List String :=
  let toks := (line.trimAscii.toString.splitOn " ").filter (· ≠ "")
  let ins := toks.takeWhile (· ≠ "=>")
  let outs := (toks.dropWhile (· ≠ "=>")).drop 1
  (ins, outs)

end RtVerif
