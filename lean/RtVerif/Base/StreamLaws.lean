import RtVerif.Base.Stream
/-
  Abstract view of reader states and the laws of `read`/`close` with respect to it; proofs for the
  scripted stream (`src_laws`) and preservation under a bufio-backed peeking layer (`wrap_laws`).
-/
namespace RtVerif.Stream
open RtVerif

/-- What a reader state means. `Inv`: the reader is open and well behaved; `Dead`: it has been
closed (or can never deliver anything); `content`: the bytes still to be delivered, in order;
`term`: the terminal condition that follows them; `mu`: a bound on the number of further
non-failing reads; `zeros`: how many empty reads can come next; `closes`: how often the
underlying stream was closed; `sealed`: some layer will absorb further `Close` calls. -/
structure Sem (σ : Type) where
  R : Reader σ
  Inv : σ → Prop
  Dead : σ → Prop
  content : σ → Bytes
  term : σ → Err
  mu : σ → Nat
  zeros : σ → Nat
  closes : σ → Nat
  sealed : σ → Bool

structure Laws {σ : Type} (S : Sem σ) : Prop where
  read_inv : ∀ s k, S.Inv s → S.Inv (S.R.read s k).2
  read_term : ∀ s k, S.term (S.R.read s k).2 = S.term s
  read_content : ∀ s k, S.Inv s → S.content s = (S.R.read s k).1.1 ++ S.content (S.R.read s k).2
  read_len : ∀ s k, S.Inv s → (S.R.read s k).1.1.length ≤ k
  read_err : ∀ s k e, S.Inv s → (S.R.read s k).1.2 = some e →
    e = S.term s ∧ S.content (S.R.read s k).2 = []
  read_mu : ∀ s k, S.Inv s → S.mu (S.R.read s k).2 + (S.R.read s k).1.1.length ≤ S.mu s
  read_mu_lt : ∀ s k, S.Inv s → 0 < k → (S.R.read s k).1.1 = [] → (S.R.read s k).1.2 = none →
    S.mu (S.R.read s k).2 < S.mu s
  read_zeros : ∀ s k, S.Inv s → 0 < k → (S.R.read s k).1.1 = [] → (S.R.read s k).1.2 = none →
    S.zeros (S.R.read s k).2 < S.zeros s
  zeros_lt : ∀ s, S.Inv s → S.zeros s < maxEmpty
  read_closes : ∀ s k, S.closes (S.R.read s k).2 = S.closes s
  read_sealed : ∀ s k, S.sealed (S.R.read s k).2 = S.sealed s
  dead_read : ∀ s k, S.Dead s →
    (S.R.read s k).1.1 = [] ∧ (0 < k → (S.R.read s k).1.2 ≠ none) ∧ S.Dead (S.R.read s k).2
  dead_close : ∀ s, S.Dead s → S.Dead (S.R.close s).2
  close_dead : ∀ s, S.Inv s → S.Dead (S.R.close s).2
  close_sealed : ∀ s, S.sealed s = true →
    S.closes (S.R.close s).2 = S.closes s ∧ S.sealed (S.R.close s).2 = true
  close_unsealed : ∀ s, S.sealed s = false → S.closes (S.R.close s).2 = S.closes s + 1

/-! ## The scripted stream -/

def srcSem : Sem Src where
  R := srcReader
  Inv := fun s => okRuns s.sched = true ∧ (s.checksClosed = true → s.closes = 0) ∧
    (s.checksClosed = true ∨ s.data = [])
  Dead := fun s => (s.checksClosed = true ∧ 0 < s.closes) ∨ s.data = []
  content := fun s => s.data
  term := fun s => s.term
  mu := fun s => s.data.length + s.sched.length
  zeros := fun s => if s.data.isEmpty then 0 else lead0 s.sched
  closes := fun s => s.closes
  sealed := fun _ => false

theorem okRuns_tail {x : Nat} {r : List Nat} (h : okRuns (x :: r) = true) : okRuns r = true := by
  simp only [okRuns, Bool.and_eq_true] at h; exact h.2

theorem okRuns_lead0 {l : List Nat} (h : okRuns l = true) : lead0 l < maxEmpty := by
  cases l with
  | nil => simp [lead0, maxEmpty]
  | cons x r => simp only [okRuns, Bool.and_eq_true, decide_eq_true_eq] at h; exact h.1

theorem Src.read_open (s : Src) (k : Nat) (h : s.checksClosed = true → s.closes = 0) :
    s.read k = s.readOpen k := by
  unfold Src.read
  have : (s.checksClosed && decide (0 < s.closes)) = false := by
    cases hc : s.checksClosed
    · simp
    · simp [h hc]
  simp only [this, Bool.false_eq_true, if_false]

theorem Src.readOpen_cases (s : Src) (k : Nat) :
    (s.data = [] ∧ s.readOpen k = (([], some s.term), s)) ∨
    (s.data ≠ [] ∧ ∃ r, s.sched = 0 :: r ∧ s.readOpen k = (([], none), { s with sched := r })) ∨
    (s.data ≠ [] ∧ ∃ m sched', (0 < k → 0 < m) ∧ m ≤ k ∧ sched'.length ≤ s.sched.length ∧
      (okRuns s.sched = true → okRuns sched' = true) ∧ s.readOpen k = s.deliver m sched') := by
  unfold Src.readOpen
  cases hd : s.data with
  | nil => left; simp
  | cons x xs =>
    right
    simp only [List.isEmpty_cons, Bool.false_eq_true, if_false]
    cases hs : s.sched with
    | nil => right; exact ⟨by simp, k, [], fun h => h, Nat.le_refl _, by simp, fun h => h, rfl⟩
    | cons y r =>
      cases y with
      | zero => left; exact ⟨by simp, r, rfl, rfl⟩
      | succ n =>
        right
        refine ⟨by simp, min (n + 1) k, r, ?_, Nat.min_le_right _ _, by simp, okRuns_tail, rfl⟩
        intro hk; omega

theorem Src.deliver_fst (s : Src) (m : Nat) (sc : List Nat) :
    (s.deliver m sc).1.1 = s.data.take m := rfl
theorem Src.deliver_data (s : Src) (m : Nat) (sc : List Nat) :
    (s.deliver m sc).2.data = s.data.drop m := rfl

theorem Src.deliver_err (s : Src) (m : Nat) (sc : List Nat) (e : Err)
    (h : (s.deliver m sc).1.2 = some e) : e = s.term ∧ s.data.drop m = [] := by
  simp only [Src.deliver] at h
  split at h
  · rename_i hc
    simp only [Bool.and_eq_true, List.isEmpty_iff] at hc
    simp only [Option.some.injEq] at h
    exact ⟨h.symm, hc.1.1⟩
  · cases h

theorem take_ne_nil {α} {l : List α} {m : Nat} (hl : l ≠ []) (hm : 0 < m) : l.take m ≠ [] := by
  cases l with
  | nil => exact absurd rfl hl
  | cons x xs => cases m with
    | zero => omega
    | succ m => simp

theorem src_laws : Laws srcSem := by
  constructor
  · -- read_inv
    intro s k ⟨h1, h2, h3⟩
    show okRuns (s.read k).2.sched = true ∧ ((s.read k).2.checksClosed = true → (s.read k).2.closes = 0) ∧
      ((s.read k).2.checksClosed = true ∨ (s.read k).2.data = [])
    rw [Src.read_open s k h2]
    rcases Src.readOpen_cases s k with ⟨_, e⟩ | ⟨_, r, hs, e⟩ | ⟨_, m, sc, _, _, _, hok, e⟩
    · rw [e]; exact ⟨h1, h2, h3⟩
    · rw [e]; rw [hs] at h1; exact ⟨okRuns_tail h1, h2, h3⟩
    · rw [e]; refine ⟨hok h1, h2, ?_⟩
      rcases h3 with h3 | h3
      · exact Or.inl h3
      · right; show s.data.drop m = []; rw [h3]; simp
  · -- read_term
    intro s k
    show (s.read k).2.term = s.term
    unfold Src.read; split
    · rfl
    · rcases Src.readOpen_cases s k with ⟨_, e⟩ | ⟨_, r, hs, e⟩ | ⟨_, m, sc, _, _, _, hok, e⟩ <;> rw [e] <;> rfl
  · -- read_content
    intro s k ⟨h1, h2, h3⟩
    show s.data = (s.read k).1.1 ++ (s.read k).2.data
    rw [Src.read_open s k h2]
    rcases Src.readOpen_cases s k with ⟨hd, e⟩ | ⟨_, r, hs, e⟩ | ⟨_, m, sc, _, _, _, hok, e⟩
    · rw [e]; simp
    · rw [e]; simp
    · rw [e]; simp [Src.deliver]
  · -- read_len
    intro s k ⟨h1, h2, h3⟩
    show (s.read k).1.1.length ≤ k
    rw [Src.read_open s k h2]
    rcases Src.readOpen_cases s k with ⟨hd, e⟩ | ⟨_, r, hs, e⟩ | ⟨_, m, sc, _, hm, _, hok, e⟩
    · rw [e]; simp
    · rw [e]; simp
    · rw [e, Src.deliver_fst, List.length_take]; omega
  · -- read_err
    intro s k e ⟨h1, h2, h3⟩
    show (s.read k).1.2 = some e → e = s.term ∧ (s.read k).2.data = []
    rw [Src.read_open s k h2]
    rcases Src.readOpen_cases s k with ⟨hd, e'⟩ | ⟨_, r, hs, e'⟩ | ⟨_, m, sc, _, hm, _, hok, e'⟩
    · rw [e']; intro h; simp only [Option.some.injEq] at h; exact ⟨h.symm, hd⟩
    · rw [e']; intro h; cases h
    · rw [e']; intro h; exact Src.deliver_err s m sc e h
  · -- read_mu
    intro s k ⟨h1, h2, h3⟩
    show (s.read k).2.data.length + (s.read k).2.sched.length + (s.read k).1.1.length ≤
      s.data.length + s.sched.length
    rw [Src.read_open s k h2]
    rcases Src.readOpen_cases s k with ⟨hd, e⟩ | ⟨_, r, hs, e⟩ | ⟨_, m, sc, _, hm, hl, hok, e⟩
    · rw [e]; simp
    · rw [e, hs]; simp
    · rw [e]; simp only [Src.deliver, List.length_drop, List.length_take]; omega
  · -- read_mu_lt
    intro s k ⟨h1, h2, h3⟩ hk
    show (s.read k).1.1 = [] → (s.read k).1.2 = none →
      (s.read k).2.data.length + (s.read k).2.sched.length < s.data.length + s.sched.length
    rw [Src.read_open s k h2]
    rcases Src.readOpen_cases s k with ⟨hd, e⟩ | ⟨_, r, hs, e⟩ | ⟨hd, m, sc, hm0, hm, hl, hok, e⟩
    · rw [e]; intro _ h; cases h
    · rw [e, hs]; intro _ _; simp
    · rw [e, Src.deliver_fst]; intro h _; exact absurd h (take_ne_nil hd (hm0 hk))
  · -- read_zeros
    intro s k ⟨h1, h2, h3⟩ hk
    show (s.read k).1.1 = [] → (s.read k).1.2 = none →
      (if (s.read k).2.data.isEmpty then 0 else lead0 (s.read k).2.sched) <
        (if s.data.isEmpty then 0 else lead0 s.sched)
    rw [Src.read_open s k h2]
    rcases Src.readOpen_cases s k with ⟨hd, e⟩ | ⟨hd, r, hs, e⟩ | ⟨hd, m, sc, hm0, hm, hl, hok, e⟩
    · rw [e]; intro _ h; cases h
    · rw [e, hs]; intro _ _
      have : s.data.isEmpty = false := by simpa [List.isEmpty_iff] using hd
      simp only [this, Bool.false_eq_true, if_false, lead0]; omega
    · rw [e, Src.deliver_fst]; intro h _; exact absurd h (take_ne_nil hd (hm0 hk))
  · -- zeros_lt
    intro s ⟨h1, _, _⟩
    show (if s.data.isEmpty then 0 else lead0 s.sched) < maxEmpty
    split
    · simp [maxEmpty]
    · exact okRuns_lead0 h1
  · -- read_closes
    intro s k
    show (s.read k).2.closes = s.closes
    unfold Src.read; split
    · rfl
    · rcases Src.readOpen_cases s k with ⟨_, e⟩ | ⟨_, r, hs, e⟩ | ⟨_, m, sc, _, _, _, hok, e⟩ <;> rw [e] <;> rfl
  · intro s k; rfl
  · -- dead_read
    intro s k hd
    show (s.read k).1.1 = [] ∧ (0 < k → (s.read k).1.2 ≠ none) ∧
      (((s.read k).2.checksClosed = true ∧ 0 < (s.read k).2.closes) ∨ (s.read k).2.data = [])
    unfold Src.read
    split
    · rename_i hc
      simp only [Bool.and_eq_true, decide_eq_true_eq] at hc
      exact ⟨rfl, fun _ => by simp, Or.inl hc⟩
    · rename_i hc
      rcases hd with hd | hd
      · exact absurd (by simp [hd.1, hd.2]) hc
      · rcases Src.readOpen_cases s k with ⟨_, e⟩ | ⟨h, _⟩ | ⟨h, _⟩
        · rw [e]; exact ⟨rfl, fun _ => by simp, Or.inr hd⟩
        · exact absurd hd h
        · exact absurd hd h
  · -- dead_close
    intro s hd
    show ((s.close).2.checksClosed = true ∧ 0 < (s.close).2.closes) ∨ (s.close).2.data = []
    rcases hd with hd | hd
    · left; exact ⟨hd.1, by simp [Src.close]⟩
    · right; exact hd
  · -- close_dead
    intro s ⟨_, _, h3⟩
    show ((s.close).2.checksClosed = true ∧ 0 < (s.close).2.closes) ∨ (s.close).2.data = []
    rcases h3 with h3 | h3
    · left; exact ⟨h3, by simp [Src.close]⟩
    · right; exact h3
  · intro s h; cases h
  · intro s _; rfl

/-! ## The definitions with their `let`s expanded (what the proofs unfold to) -/

section
variable {σ : Type} (R : Reader σ)

theorem fillLoop_succ (i : Nat) (b : Buf) (s : σ) :
    fillLoop R (i + 1) b s =
    match (R.read s (bufSize - b.buf.length)).1.2 with
    | some e => ({ buf := b.buf ++ (R.read s (bufSize - b.buf.length)).1.1, err := some e },
                 (R.read s (bufSize - b.buf.length)).2)
    | none =>
      if (R.read s (bufSize - b.buf.length)).1.1.isEmpty then
        fillLoop R i b (R.read s (bufSize - b.buf.length)).2
      else ({ b with buf := b.buf ++ (R.read s (bufSize - b.buf.length)).1.1 },
            (R.read s (bufSize - b.buf.length)).2) := rfl

theorem peekLoop_succ (i n : Nat) (b : Buf) (s : σ) :
    peekLoop R (i + 1) n b s =
    if b.buf.length < n ∧ b.buf.length < bufSize ∧ b.err = none then
      peekLoop R i n (fill R b s).1 (fill R b s).2
    else (b, s) := rfl

theorem peek_eq (b : Buf) (s : σ) (n : Nat) :
    peek R b s n =
    if (peekLoop R (n + 1) n b s).1.buf.length < n then
      (((peekLoop R (n + 1) n b s).1.buf,
        some (match (peekLoop R (n + 1) n b s).1.err with | some e => e | none => .bufFull)),
       { (peekLoop R (n + 1) n b s).1 with err := none }, (peekLoop R (n + 1) n b s).2)
    else
      (((peekLoop R (n + 1) n b s).1.buf.take n, none),
       (peekLoop R (n + 1) n b s).1, (peekLoop R (n + 1) n b s).2) := rfl

theorem bread_eq (b : Buf) (s : σ) (k : Nat) :
    bread R b s k =
    if k = 0 then
      if b.buf.isEmpty then (([], b.err), { b with err := none }, s) else (([], none), b, s)
    else if b.buf.isEmpty then
      match b.err with
      | some e => (([], some e), { b with err := none }, s)
      | none =>
        if bufSize ≤ k then ((R.read s k).1, b, (R.read s k).2)
        else if (R.read s bufSize).1.1.isEmpty then
          (([], (R.read s bufSize).1.2), b, (R.read s bufSize).2)
        else
          (((R.read s bufSize).1.1.take k, none),
           { buf := (R.read s bufSize).1.1.drop k, err := (R.read s bufSize).1.2 },
           (R.read s bufSize).2)
    else ((b.buf.take k, none), { b with buf := b.buf.drop k }, s) := rfl

theorem hasContent_eq (b : Buf) (s : σ) :
    hasContent R b s =
    if !b.buf.isEmpty then (true, b, s)
    else
      ((match (peek R b s 1).1.2 with
        | some _ => false
        | none => !(peek R b s 1).1.1.isEmpty),
       (peek R b s 1).2) := rfl

theorem drainLoop_succ (i : Nat) (s : σ) (k : Nat) :
    drainLoop R (i + 1) s k =
    match (R.read s k).1.2 with
    | some e => (((R.read s k).1.1, some e, false), (R.read s k).2)
    | none =>
      (((R.read s k).1.1 ++ (drainLoop R i (R.read s k).2 k).1.1,
        (drainLoop R i (R.read s k).2 k).1.2),
       (drainLoop R i (R.read s k).2 k).2) := rfl

end

/-! ## A bufio-backed peeking layer preserves the laws -/

theorem bufSize_pos : 0 < bufSize := by unfold bufSize; omega

/-- `zeros` of a bufio layer: it passes empty reads through only when it holds nothing. -/
def bz (b : Buf) (z : Nat) : Nat := if b.buf.isEmpty && b.err.isNone then z else 0

def wrapSem {σ : Type} (S : Sem σ) : Sem (PR × σ) where
  R := wrap S.R
  Inv := fun ps => ps.1.closed = false ∧ S.Inv ps.2 ∧
    ∀ e, ps.1.b.err = some e → e = S.term ps.2 ∧ S.content ps.2 = []
  Dead := fun ps => S.Dead ps.2 ∧ ps.1.b.buf = []
  content := fun ps => ps.1.b.buf ++ S.content ps.2
  term := fun ps => S.term ps.2
  mu := fun ps => ps.1.b.buf.length + S.mu ps.2
  zeros := fun ps => bz ps.1.b (S.zeros ps.2)
  closes := fun ps => S.closes ps.2
  sealed := fun ps => ps.1.closed || S.sealed ps.2

section
variable {σ : Type} {S : Sem σ} (L : Laws S)
include L

/-- Everything `bufio.Reader.Read` does to an open, well-behaved inner reader. -/
theorem bread_spec (b : Buf) (s : σ) (k : Nat) (hI : S.Inv s)
    (hE : ∀ e, b.err = some e → e = S.term s ∧ S.content s = []) :
    S.Inv (bread S.R b s k).2.2 ∧ S.term (bread S.R b s k).2.2 = S.term s ∧
    (∀ e, (bread S.R b s k).2.1.err = some e → e = S.term s ∧ S.content (bread S.R b s k).2.2 = []) ∧
    b.buf ++ S.content s =
      (bread S.R b s k).1.1 ++ ((bread S.R b s k).2.1.buf ++ S.content (bread S.R b s k).2.2) ∧
    (bread S.R b s k).1.1.length ≤ k ∧
    (∀ e, (bread S.R b s k).1.2 = some e →
      e = S.term s ∧ (bread S.R b s k).2.1.buf ++ S.content (bread S.R b s k).2.2 = []) ∧
    (bread S.R b s k).2.1.buf.length + S.mu (bread S.R b s k).2.2 + (bread S.R b s k).1.1.length ≤
      b.buf.length + S.mu s ∧
    (0 < k → (bread S.R b s k).1.1 = [] → (bread S.R b s k).1.2 = none →
      (bread S.R b s k).2.1.buf.length + S.mu (bread S.R b s k).2.2 < b.buf.length + S.mu s ∧
      bz (bread S.R b s k).2.1 (S.zeros (bread S.R b s k).2.2) < bz b (S.zeros s)) := by
  simp only [bread_eq]
  split
  · -- k = 0
    rename_i hk
    split
    · rename_i hb
      rw [List.isEmpty_iff] at hb
      refine ⟨hI, rfl, (by intro e h; cases h), by simp [hb], by simp, ?_, by simp, by omega⟩
      intro e h; simp only at h; exact ⟨(hE e h).1, by simp [hb, (hE e h).2]⟩
    · exact ⟨hI, rfl, hE, by simp, by simp, (by intro e h; cases h), by simp, by omega⟩
  · rename_i hk
    have hk : 0 < k := Nat.pos_of_ne_zero hk
    split
    · rename_i hb
      rw [List.isEmpty_iff] at hb
      split
      · -- pending error
        rename_i e he
        refine ⟨hI, rfl, (by intro e h; cases h), by simp [hb], by simp, ?_, by simp, ?_⟩
        · intro e' h; simp only [Option.some.injEq] at h; subst h
          exact ⟨(hE e he).1, by simp [hb, (hE e he).2]⟩
        · intro _ _ h; cases h
      · rename_i he
        split
        · -- large read
          rename_i hbig
          refine ⟨L.read_inv s k hI, L.read_term s k, (by intro e h; rw [he] at h; cases h), ?_,
            L.read_len s k hI, ?_, ?_, ?_⟩
          · simp only [hb, List.nil_append]; exact L.read_content s k hI
          · intro e h; simp only [hb, List.nil_append]; exact L.read_err s k e hI h
          · simp only [hb, List.length_nil, Nat.zero_add]; exact L.read_mu s k hI
          · intro _ hd hn
            simp only [hb, List.length_nil, Nat.zero_add]
            refine ⟨L.read_mu_lt s k hI hk hd hn, ?_⟩
            simp only [bz, hb, he, List.isEmpty_nil, Option.isNone_none, Bool.and_self, if_true]
            exact L.read_zeros s k hI hk hd hn
        · split
          · -- small read that delivered nothing
            rename_i hd
            rw [List.isEmpty_iff] at hd
            refine ⟨L.read_inv s _ hI, L.read_term s _, (by intro e h; rw [he] at h; cases h), ?_,
              by simp, ?_, ?_, ?_⟩
            · simp only [hb, List.nil_append]
              have := L.read_content s bufSize hI; rw [hd] at this; simpa using this
            · intro e h; simp only [hb, List.nil_append]; exact L.read_err s _ e hI h
            · simp only [hb, List.length_nil, Nat.zero_add, Nat.add_zero]
              have := L.read_mu s bufSize hI; omega
            · intro _ _ hn
              simp only [hb, List.length_nil, Nat.zero_add]
              refine ⟨L.read_mu_lt s _ hI bufSize_pos hd hn, ?_⟩
              simp only [bz, hb, he, List.isEmpty_nil, Option.isNone_none, Bool.and_self, if_true]
              exact L.read_zeros s _ hI bufSize_pos hd hn
          · -- small read with data: buffer it, hand out a prefix
            rename_i hd
            rw [List.isEmpty_iff] at hd
            refine ⟨L.read_inv s _ hI, L.read_term s _, ?_, ?_, ?_, (by intro e h; cases h), ?_, ?_⟩
            · intro e h; exact L.read_err s _ e hI h
            · simp only [hb, List.nil_append, ← List.append_assoc, List.take_append_drop]
              exact L.read_content s _ hI
            · simp only [List.length_take]; omega
            · simp only [hb, List.length_nil, Nat.zero_add, List.length_drop, List.length_take]
              have := L.read_mu s bufSize hI; omega
            · intro _ h _; exact absurd h (take_ne_nil hd hk)
    · -- buffered data
      rename_i hb
      rw [List.isEmpty_iff] at hb
      refine ⟨hI, rfl, hE, ?_, ?_, (by intro e h; cases h), ?_, ?_⟩
      · simp only [← List.append_assoc, List.take_append_drop]
      · simp only [List.length_take]; omega
      · simp only [List.length_drop, List.length_take]; omega
      · intro _ h _; exact absurd h (take_ne_nil hb hk)

end
/-- `bufio.Reader.Read` performs at most one read on the inner reader. -/
theorem bread_state {σ : Type} (R : Reader σ) (b : Buf) (s : σ) (k : Nat) :
    (bread R b s k).2.2 = s ∨ ∃ k', (bread R b s k).2.2 = (R.read s k').2 := by
  simp only [bread_eq]
  repeat' split
  all_goals first | exact Or.inl rfl | exact Or.inr ⟨_, rfl⟩

theorem wrap_read_open {σ : Type} (R : Reader σ) (ps : PR × σ) (k : Nat) (h : ps.1.closed = false) :
    (wrap R).read ps k = ((bread R ps.1.b ps.2 k).1,
      ({ ps.1 with b := (bread R ps.1.b ps.2 k).2.1 }, (bread R ps.1.b ps.2 k).2.2)) := by
  simp [wrap, h]

theorem wrap_read_closed {σ : Type} (R : Reader σ) (ps : PR × σ) (k : Nat) (h : ps.1.closed = true) :
    (wrap R).read ps k = (([], some .ueof), ps) := by
  simp [wrap, h]

section
variable {σ : Type} {S : Sem σ} (L : Laws S)
include L

/-- Reading through a bufio layer that holds nothing, from a dead inner reader. -/
theorem bread_dead (b : Buf) (s : σ) (k : Nat) (hD : S.Dead s) (hb : b.buf = []) :
    (bread S.R b s k).1.1 = [] ∧ (0 < k → (bread S.R b s k).1.2 ≠ none) ∧
    S.Dead (bread S.R b s k).2.2 ∧ (bread S.R b s k).2.1.buf = [] := by
  simp only [bread_eq]
  split
  · rename_i hk
    split
    · exact ⟨rfl, by omega, hD, hb⟩
    · exact ⟨rfl, by omega, hD, hb⟩
  · rename_i hk
    have hk : 0 < k := Nat.pos_of_ne_zero hk
    split
    · split
      · exact ⟨rfl, fun _ => by simp, hD, hb⟩
      · split
        · have := L.dead_read s k hD
          exact ⟨this.1, this.2.1, this.2.2, hb⟩
        · have := L.dead_read s bufSize hD
          split
          · exact ⟨rfl, fun _ => this.2.1 bufSize_pos, this.2.2, hb⟩
          · rename_i hd; rw [List.isEmpty_iff] at hd; exact absurd this.1 hd
    · rename_i hne; rw [hb] at hne; simp at hne

theorem wrap_laws : Laws (wrapSem S) := by
  constructor
  · -- read_inv
    intro ps k ⟨hc, hI, hE⟩
    show ((wrap S.R).read ps k).2.1.closed = false ∧ S.Inv ((wrap S.R).read ps k).2.2 ∧
      ∀ e, ((wrap S.R).read ps k).2.1.b.err = some e →
        e = S.term ((wrap S.R).read ps k).2.2 ∧ S.content ((wrap S.R).read ps k).2.2 = []
    rw [wrap_read_open _ _ _ hc]
    have h := bread_spec L ps.1.b ps.2 k hI hE
    refine ⟨hc, h.1, ?_⟩
    intro e he
    have := h.2.2.1 e he
    exact ⟨by rw [h.2.1]; exact this.1, this.2⟩
  · -- read_term
    intro ps k
    show S.term ((wrap S.R).read ps k).2.2 = S.term ps.2
    cases hc : ps.1.closed
    · rw [wrap_read_open _ _ _ hc]
      rcases bread_state S.R ps.1.b ps.2 k with h | ⟨k', h⟩
      · show S.term (bread S.R ps.1.b ps.2 k).2.2 = _; rw [h]
      · show S.term (bread S.R ps.1.b ps.2 k).2.2 = _; rw [h]; exact L.read_term _ _
    · rw [wrap_read_closed _ _ _ hc]
  · -- read_content
    intro ps k ⟨hc, hI, hE⟩
    show ps.1.b.buf ++ S.content ps.2 = ((wrap S.R).read ps k).1.1 ++
      (((wrap S.R).read ps k).2.1.b.buf ++ S.content ((wrap S.R).read ps k).2.2)
    rw [wrap_read_open _ _ _ hc]
    exact (bread_spec L ps.1.b ps.2 k hI hE).2.2.2.1
  · -- read_len
    intro ps k ⟨hc, hI, hE⟩
    show ((wrap S.R).read ps k).1.1.length ≤ k
    rw [wrap_read_open _ _ _ hc]
    exact (bread_spec L ps.1.b ps.2 k hI hE).2.2.2.2.1
  · -- read_err
    intro ps k e ⟨hc, hI, hE⟩
    show ((wrap S.R).read ps k).1.2 = some e → e = S.term ps.2 ∧
      ((wrap S.R).read ps k).2.1.b.buf ++ S.content ((wrap S.R).read ps k).2.2 = []
    rw [wrap_read_open _ _ _ hc]
    exact (bread_spec L ps.1.b ps.2 k hI hE).2.2.2.2.2.1 e
  · -- read_mu
    intro ps k ⟨hc, hI, hE⟩
    show ((wrap S.R).read ps k).2.1.b.buf.length + S.mu ((wrap S.R).read ps k).2.2 +
      ((wrap S.R).read ps k).1.1.length ≤ ps.1.b.buf.length + S.mu ps.2
    rw [wrap_read_open _ _ _ hc]
    exact (bread_spec L ps.1.b ps.2 k hI hE).2.2.2.2.2.2.1
  · -- read_mu_lt
    intro ps k ⟨hc, hI, hE⟩ hk
    show ((wrap S.R).read ps k).1.1 = [] → ((wrap S.R).read ps k).1.2 = none →
      ((wrap S.R).read ps k).2.1.b.buf.length + S.mu ((wrap S.R).read ps k).2.2 <
        ps.1.b.buf.length + S.mu ps.2
    rw [wrap_read_open _ _ _ hc]
    intro h1 h2
    exact ((bread_spec L ps.1.b ps.2 k hI hE).2.2.2.2.2.2.2 hk h1 h2).1
  · -- read_zeros
    intro ps k ⟨hc, hI, hE⟩ hk
    show ((wrap S.R).read ps k).1.1 = [] → ((wrap S.R).read ps k).1.2 = none →
      bz ((wrap S.R).read ps k).2.1.b (S.zeros ((wrap S.R).read ps k).2.2) < bz ps.1.b (S.zeros ps.2)
    rw [wrap_read_open _ _ _ hc]
    intro h1 h2
    exact ((bread_spec L ps.1.b ps.2 k hI hE).2.2.2.2.2.2.2 hk h1 h2).2
  · -- zeros_lt
    intro ps ⟨hc, hI, hE⟩
    show bz ps.1.b (S.zeros ps.2) < maxEmpty
    unfold bz; split
    · exact L.zeros_lt _ hI
    · simp [maxEmpty]
  · -- read_closes
    intro ps k
    show S.closes ((wrap S.R).read ps k).2.2 = S.closes ps.2
    cases hc : ps.1.closed
    · rw [wrap_read_open _ _ _ hc]
      rcases bread_state S.R ps.1.b ps.2 k with h | ⟨k', h⟩
      · show S.closes (bread S.R ps.1.b ps.2 k).2.2 = _; rw [h]
      · show S.closes (bread S.R ps.1.b ps.2 k).2.2 = _; rw [h]; exact L.read_closes _ _
    · rw [wrap_read_closed _ _ _ hc]
  · -- read_sealed
    intro ps k
    show (((wrap S.R).read ps k).2.1.closed || S.sealed ((wrap S.R).read ps k).2.2) =
      (ps.1.closed || S.sealed ps.2)
    cases hc : ps.1.closed
    · rw [wrap_read_open _ _ _ hc]
      rcases bread_state S.R ps.1.b ps.2 k with h | ⟨k', h⟩
      · show (ps.1.closed || S.sealed (bread S.R ps.1.b ps.2 k).2.2) = _; rw [h, hc]
      · show (ps.1.closed || S.sealed (bread S.R ps.1.b ps.2 k).2.2) = _
        rw [h, hc, L.read_sealed]
    · rw [wrap_read_closed _ _ _ hc]; simp [hc]
  · -- dead_read
    intro ps k ⟨hD, hb⟩
    show ((wrap S.R).read ps k).1.1 = [] ∧ (0 < k → ((wrap S.R).read ps k).1.2 ≠ none) ∧
      S.Dead ((wrap S.R).read ps k).2.2 ∧ ((wrap S.R).read ps k).2.1.b.buf = []
    cases hc : ps.1.closed
    · rw [wrap_read_open _ _ _ hc]; exact bread_dead L ps.1.b ps.2 k hD hb
    · rw [wrap_read_closed _ _ _ hc]; exact ⟨rfl, fun _ => by simp, hD, hb⟩
  · -- dead_close
    intro ps ⟨hD, hb⟩
    show S.Dead ((wrap S.R).close ps).2.2 ∧ ((wrap S.R).close ps).2.1.b.buf = []
    cases hc : ps.1.closed
    · simp only [wrap, hc, Bool.false_eq_true, if_false]; exact ⟨L.dead_close _ hD, trivial⟩
    · simp only [wrap, hc, if_true]; exact ⟨hD, hb⟩
  · -- close_dead
    intro ps ⟨hc, hI, hE⟩
    show S.Dead ((wrap S.R).close ps).2.2 ∧ ((wrap S.R).close ps).2.1.b.buf = []
    simp only [wrap, hc, Bool.false_eq_true, if_false]; exact ⟨L.close_dead _ hI, trivial⟩
  · -- close_sealed
    intro ps hs
    show S.closes ((wrap S.R).close ps).2.2 = S.closes ps.2 ∧
      (((wrap S.R).close ps).2.1.closed || S.sealed ((wrap S.R).close ps).2.2) = true
    change (ps.1.closed || S.sealed ps.2) = true at hs
    cases hc : ps.1.closed
    · rw [hc] at hs
      simp only [wrap, hc, Bool.false_eq_true, if_false, Bool.true_or, and_true]
      exact (L.close_sealed _ (by simpa using hs)).1
    · simp only [wrap, hc, if_true, Bool.true_or, and_true]
  · -- close_unsealed
    intro ps hs
    show S.closes ((wrap S.R).close ps).2.2 = S.closes ps.2 + 1
    change (ps.1.closed || S.sealed ps.2) = false at hs
    simp only [Bool.or_eq_false_iff] at hs
    simp only [wrap, hs.1, Bool.false_eq_true, if_false]
    exact L.close_unsealed _ hs.2

omit L in
/-- After `Close` on a peeking layer, further `Close` calls are absorbed. -/
theorem wrap_close_sealed (ps : PR × σ) : (wrapSem S).sealed ((wrap S.R).close ps).2 = true := by
  show (((wrap S.R).close ps).2.1.closed || S.sealed ((wrap S.R).close ps).2.2) = true
  cases hc : ps.1.closed
  · simp [wrap, hc]
  · simp [wrap, hc]

end
/-! ## Derived facts: `fill`, `Peek(1)`/`HasContent`, draining -/

section
variable {σ : Type} {S : Sem σ} (L : Laws S)
include L

/-- `fill` never touches the close state or the terminal of the inner reader. -/
theorem fillLoop_frame (i : Nat) (b : Buf) (s : σ) :
    S.closes (fillLoop S.R i b s).2 = S.closes s ∧ S.sealed (fillLoop S.R i b s).2 = S.sealed s ∧
    S.term (fillLoop S.R i b s).2 = S.term s := by
  induction i generalizing s with
  | zero => exact ⟨rfl, rfl, rfl⟩
  | succ i ih =>
    rw [fillLoop_succ]
    split
    · exact ⟨L.read_closes _ _, L.read_sealed _ _, L.read_term _ _⟩
    · split
      · have := ih (S.R.read s (bufSize - b.buf.length)).2
        rw [L.read_closes, L.read_sealed, L.read_term] at this
        exact this
      · exact ⟨L.read_closes _ _, L.read_sealed _ _, L.read_term _ _⟩

/-- `fill` on an open inner reader whose runs of empty reads are shorter than the retry budget:
the content is preserved, and either a byte was added or the terminal is pending. In particular
`io.ErrNoProgress` is not produced. -/
theorem fillLoop_spec (i : Nat) (b : Buf) (s : σ) (hI : S.Inv s) (hbe : b.err = none)
    (hlen : b.buf.length < bufSize) (hz : S.zeros s < i) :
    S.Inv (fillLoop S.R i b s).2 ∧
    b.buf ++ S.content s = (fillLoop S.R i b s).1.buf ++ S.content (fillLoop S.R i b s).2 ∧
    (∀ e, (fillLoop S.R i b s).1.err = some e → e = S.term s ∧ S.content (fillLoop S.R i b s).2 = []) ∧
    ((fillLoop S.R i b s).1.err = none → b.buf.length < (fillLoop S.R i b s).1.buf.length) ∧
    (fillLoop S.R i b s).1.buf.length + S.mu (fillLoop S.R i b s).2 ≤ b.buf.length + S.mu s := by
  induction i generalizing s with
  | zero => omega
  | succ i ih =>
    have hk : 0 < bufSize - b.buf.length := by omega
    rw [fillLoop_succ]
    split
    · rename_i e he
      have h := L.read_err s _ e hI he
      refine ⟨L.read_inv _ _ hI, ?_, ?_, (by intro h; cases h), ?_⟩
      · rw [List.append_assoc]; congr 1; exact L.read_content s _ hI
      · intro e' he'; simp only [Option.some.injEq] at he'; subst he'; exact h
      · have := L.read_mu s (bufSize - b.buf.length) hI
        simp only [List.length_append]; omega
    · rename_i he
      split
      · rename_i hd
        rw [List.isEmpty_iff] at hd
        have hz' := L.read_zeros s _ hI hk hd he
        have hm := L.read_mu_lt s _ hI hk hd he
        have hc := L.read_content s (bufSize - b.buf.length) hI
        rw [hd, List.nil_append] at hc
        have := ih (S.R.read s (bufSize - b.buf.length)).2 (L.read_inv _ _ hI) (by omega)
        rw [L.read_term] at this
        refine ⟨this.1, by rw [hc]; exact this.2.1, this.2.2.1, this.2.2.2.1, ?_⟩
        have := this.2.2.2.2; omega
      · rename_i hd
        rw [List.isEmpty_iff] at hd
        refine ⟨L.read_inv _ _ hI, ?_, ?_, ?_, ?_⟩
        · rw [List.append_assoc]; congr 1; exact L.read_content s _ hI
        · intro e h; change b.err = some e at h; rw [hbe] at h; cases h
        · intro _
          have : 0 < (S.R.read s (bufSize - b.buf.length)).1.1.length :=
            List.length_pos_iff.mpr hd
          simp only [List.length_append]; omega
        · have := L.read_mu s (bufSize - b.buf.length) hI
          simp only [List.length_append]; omega

end
section
variable {σ : Type} {S : Sem σ} (L : Laws S)
include L

/-- `Peek(1)` on a fresh bufio reader is one `fill`: after it the loop condition is false. -/
theorem peekLoop_fresh (s : σ) (hI : S.Inv s) :
    peekLoop S.R 2 1 {} s = fill S.R {} s := by
  have h := fillLoop_spec L maxEmpty {} s hI rfl bufSize_pos (L.zeros_lt s hI)
  have h4 := h.2.2.2.1
  have hc : ¬ ((fill S.R {} s).1.buf.length < 1 ∧ (fill S.R {} s).1.buf.length < bufSize ∧
      (fill S.R {} s).1.err = none) := by
    intro hc
    have := h4 hc.2.2
    have h1 := hc.1
    simp only [fill] at h1
    simp only [List.length_nil] at this
    omega
  show (if (({} : Buf).buf.length < 1 ∧ ({} : Buf).buf.length < bufSize ∧ ({} : Buf).err = none) then
      peekLoop S.R 1 1 (fill S.R {} s).1 (fill S.R {} s).2 else (({} : Buf), s)) = _
  rw [if_pos ⟨by simp, bufSize_pos, rfl⟩]
  show (if _ then _ else ((fill S.R {} s).1, (fill S.R {} s).2)) = _
  rw [if_neg hc]

/-- Probing an open reader through a fresh bufio layer: the answer is "some byte is left", the
layer plus the inner reader still hold exactly the same content, nothing was closed. -/
theorem hasContent_spec (s : σ) (hI : S.Inv s) :
    (hasContent S.R {} s).1 = !(S.content s).isEmpty ∧
    (wrapSem S).Inv ({ b := (hasContent S.R {} s).2.1 }, (hasContent S.R {} s).2.2) ∧
    (hasContent S.R {} s).2.1.buf ++ S.content (hasContent S.R {} s).2.2 = S.content s ∧
    S.term (hasContent S.R {} s).2.2 = S.term s ∧
    (hasContent S.R {} s).2.1.buf.length + S.mu (hasContent S.R {} s).2.2 ≤ S.mu s ∧
    S.closes (hasContent S.R {} s).2.2 = S.closes s ∧
    S.sealed (hasContent S.R {} s).2.2 = S.sealed s := by
  have h := fillLoop_spec L maxEmpty {} s hI rfl bufSize_pos (L.zeros_lt s hI)
  have hf := fillLoop_frame L maxEmpty {} s
  have hpl := peekLoop_fresh L s hI
  simp only [fill] at hpl
  simp only [List.nil_append, List.length_nil, Nat.zero_add] at h
  obtain ⟨h1, h2, h3, h4, h5⟩ := h
  obtain ⟨f1, f2, f3⟩ := hf
  simp only [hasContent, peek, hpl, List.isEmpty_nil, Bool.not_true, Bool.false_eq_true, if_false]
  generalize fillLoop S.R maxEmpty {} s = F at *
  by_cases hlt : F.1.buf.length < 1
  · -- nothing buffered after the fill: the terminal was met
    simp only [hlt, if_true]
    have hb : F.1.buf = [] := List.length_eq_zero_iff.mp (by omega)
    cases hE : F.1.err with
    | none => have := h4 hE; omega
    | some e =>
      have := h3 e hE
      rw [hb, this.2] at h2
      refine ⟨by simp [h2], ⟨rfl, h1, (by intro e h; cases h)⟩, ?_, f3, ?_, f1, f2⟩
      · simp [hb, this.2, h2]
      · simpa [hb] using h5
  · simp only [hlt, if_false]
    have hb : F.1.buf ≠ [] := by
      intro hb; rw [hb] at hlt; simp at hlt
    refine ⟨?_, ⟨rfl, h1, ?_⟩, h2.symm, f3, h5, f1, f2⟩
    · rw [h2]
      cases hbb : F.1.buf with
      | nil => exact absurd hbb hb
      | cons x xs => simp
    · intro e he; rw [f3]; exact h3 e he

/-- Probing a dead reader: the answer is no, the layer stays empty, nothing is closed. -/
theorem hasContent_dead (s : σ) (hD : S.Dead s) :
    (hasContent S.R {} s).1 = false ∧ S.Dead (hasContent S.R {} s).2.2 ∧
    (hasContent S.R {} s).2.1.buf = [] ∧
    S.closes (hasContent S.R {} s).2.2 = S.closes s ∧
    S.sealed (hasContent S.R {} s).2.2 = S.sealed s := by
  have hd := L.dead_read s bufSize hD
  have he : ∃ e, (S.R.read s bufSize).1.2 = some e := by
    cases h : (S.R.read s bufSize).1.2 with
    | none => exact absurd h (hd.2.1 bufSize_pos)
    | some e => exact ⟨e, rfl⟩
  obtain ⟨e, he⟩ := he
  have hfill : fill S.R {} s = ({ buf := [], err := some e }, (S.R.read s bufSize).2) := by
    show fillLoop S.R (99 + 1) {} s = _
    rw [fillLoop_succ]
    simp only [List.length_nil, Nat.sub_zero, he, hd.1, List.nil_append]
  have hpl : peekLoop S.R 2 1 {} s = ({ buf := [], err := some e }, (S.R.read s bufSize).2) := by
    simp only [peekLoop, List.length_nil, Nat.lt_add_one, bufSize_pos, true_and, if_true, hfill]
    simp
  simp only [hasContent, peek, hpl, List.isEmpty_nil, Bool.not_true, Bool.false_eq_true, if_false,
    List.length_nil, Nat.lt_add_one, if_true]
  exact ⟨trivial, hd.2.2, trivial, L.read_closes _ _, L.read_sealed _ _⟩

/-- Draining never touches the close state. -/
theorem drainLoop_frame (i : Nat) (s : σ) (k : Nat) :
    S.closes (drainLoop S.R i s k).2 = S.closes s ∧ S.sealed (drainLoop S.R i s k).2 = S.sealed s := by
  induction i generalizing s with
  | zero => exact ⟨rfl, rfl⟩
  | succ i ih =>
    rw [drainLoop_succ]
    split
    · exact ⟨L.read_closes _ _, L.read_sealed _ _⟩
    · have := ih (S.R.read s k).2
      rw [L.read_closes, L.read_sealed] at this
      exact this

/-- Refinement to the byte sequence: reading an open reader with any non-empty buffer until an
error shows up yields exactly its content followed by its terminal, within `mu + 1` calls. -/
theorem drainLoop_spec (i : Nat) (s : σ) (k : Nat) (hI : S.Inv s) (hk : 0 < k) (hi : S.mu s < i) :
    (drainLoop S.R i s k).1 = (S.content s, some (S.term s), false) ∧
    S.Inv (drainLoop S.R i s k).2 ∧ S.content (drainLoop S.R i s k).2 = [] ∧
    S.term (drainLoop S.R i s k).2 = S.term s ∧ S.mu (drainLoop S.R i s k).2 ≤ S.mu s := by
  induction i generalizing s with
  | zero => omega
  | succ i ih =>
    rw [drainLoop_succ]
    have hc := L.read_content s k hI
    have hm := L.read_mu s k hI
    split
    · rename_i e he
      have := L.read_err s k e hI he
      refine ⟨?_, L.read_inv _ _ hI, this.2, L.read_term _ _, by show S.mu (S.R.read s k).2 ≤ _; omega⟩
      rw [hc, this.2, this.1]; simp
    · rename_i he
      have hlt : S.mu (S.R.read s k).2 < i := by
        by_cases hd : (S.R.read s k).1.1 = []
        · have := L.read_mu_lt s k hI hk hd he; omega
        · have : 0 < (S.R.read s k).1.1.length := List.length_pos_iff.mpr hd
          omega
      have := ih (S.R.read s k).2 (L.read_inv _ _ hI) hlt
      rw [L.read_term] at this
      refine ⟨?_, this.2.1, this.2.2.1, this.2.2.2.1,
        by have := this.2.2.2.2; show S.mu (drainLoop S.R i (S.R.read s k).2 k).2 ≤ _; omega⟩
      rw [this.1, hc]

/-- Draining a dead reader stops at the first call, with an error and no data. -/
theorem drainLoop_dead (i : Nat) (s : σ) (k : Nat) (hD : S.Dead s) (hk : 0 < k) :
    (∃ e, (drainLoop S.R (i + 1) s k).1 = ([], some e, false)) ∧ S.Dead (drainLoop S.R (i + 1) s k).2 := by
  have hd := L.dead_read s k hD
  rw [drainLoop_succ]
  split
  · rename_i e he
    exact ⟨⟨e, by rw [hd.1]⟩, hd.2.2⟩
  · rename_i he; exact absurd he (hd.2.1 hk)

end
section
variable {σ : Type} {S : Sem σ} (L : Laws S)
include L

/-- Draining with any buffer size (also 0) and any call budget is safe: what comes out is a prefix
of the content, the rest stays. -/
theorem drainLoop_safe (i : Nat) (s : σ) (k : Nat) (hI : S.Inv s) :
    S.Inv (drainLoop S.R i s k).2 ∧
    S.content s = (drainLoop S.R i s k).1.1 ++ S.content (drainLoop S.R i s k).2 ∧
    S.term (drainLoop S.R i s k).2 = S.term s ∧ S.mu (drainLoop S.R i s k).2 ≤ S.mu s ∧
    (k = 0 → (drainLoop S.R i s k).1.1 = []) := by
  induction i generalizing s with
  | zero => exact ⟨hI, by simp [drainLoop], rfl, Nat.le_refl _, fun _ => rfl⟩
  | succ i ih =>
    rw [drainLoop_succ]
    have hc := L.read_content s k hI
    have hm := L.read_mu s k hI
    have hl := L.read_len s k hI
    split
    · refine ⟨L.read_inv _ _ hI, hc, L.read_term _ _, by show S.mu (S.R.read s k).2 ≤ _; omega, ?_⟩
      intro hk; subst hk
      exact List.length_eq_zero_iff.mp (by show (S.R.read s 0).1.1.length = 0; omega)
    · have := ih (S.R.read s k).2 (L.read_inv _ _ hI)
      rw [L.read_term] at this
      refine ⟨this.1, ?_, this.2.2.1, ?_, ?_⟩
      · show S.content s = ((S.R.read s k).1.1 ++ _) ++ _
        rw [List.append_assoc, ← this.2.1]; exact hc
      · have := this.2.2.2.1; show S.mu (drainLoop S.R i (S.R.read s k).2 k).2 ≤ _; omega
      · intro hk
        have h1 := this.2.2.2.2 hk
        subst hk
        have h2 : (S.R.read s 0).1.1 = [] := List.length_eq_zero_iff.mp (by omega)
        show (S.R.read s 0).1.1 ++ (drainLoop S.R i (S.R.read s 0).2 0).1.1 = []
        rw [h1, h2]; rfl

/-- Draining a dead reader never yields data, whatever the buffer size. -/
theorem drainLoop_dead_any (i : Nat) (s : σ) (k : Nat) (hD : S.Dead s) :
    (drainLoop S.R i s k).1.1 = [] ∧ S.Dead (drainLoop S.R i s k).2 := by
  induction i generalizing s with
  | zero => exact ⟨rfl, hD⟩
  | succ i ih =>
    rw [drainLoop_succ]
    have hd := L.dead_read s k hD
    split
    · exact ⟨hd.1, hd.2.2⟩
    · have := ih (S.R.read s k).2 hd.2.2
      refine ⟨?_, this.2⟩
      show (S.R.read s k).1.1 ++ (drainLoop S.R i (S.R.read s k).2 k).1.1 = []
      rw [hd.1, this.1]; rfl

end

end RtVerif.Stream
