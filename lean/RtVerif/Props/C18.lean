import RtVerif.Model.C18
import RtVerif.Lemmas.C18
/-
  C18 — property theorems (helpers live in Lemmas/C18.lean).

  All statements quantify over EVERY option combination `o : Opts` (the lattice of the property is
  a finite sub-lattice of `Opts`: certificate/key/root numbers are arbitrary naturals here, the
  server name is an arbitrary byte string).

  * `min_version`, `min_version_all_writes`   — about the regenerated fact: re-checked against the
    Go source on every run.
  * `tlsAuth_spec`                            — the model satisfies the Spec written from the text.
  * the remaining theorems spell the Spec out clause by clause (and in the stronger `iff` form
    where the code gives it), state the two readings R1/R2 as theorems, and carry the property
    through the wrappers and through the hand model of the handshake.
-/
namespace RtVerif.C18
open RtVerif

/-! ### never below TLS 1.2 -/

/-- The `MinVersion` literal found in `TLSClientAuth` (regenerated fact) is at least TLS 1.2. -/
theorem min_version : tls12 ≤ effMin Facts.tlsMinVersion := by decide

/-- Every value the function ever writes to `MinVersion` is at least TLS 1.2. -/
theorem min_version_all_writes : ∀ v ∈ Facts.tlsMinVersionWrites, tls12 ≤ effMin v := by decide

theorem cfg_min_version {o : Opts} {c : Cfg} (h : tlsAuth o = .cfg c) : tls12 ≤ effMin c.minVersion := by
  obtain ⟨cs, rs, -, -, rfl⟩ := tlsAuth_cfg h
  exact min_version

example : ∃ c, tlsAuth ⟨.absent, .none, .absent, .none, .absent, none, none, [], true, 0, false, 0⟩ = .cfg c :=
  ⟨_, rfl⟩

/-! ### the Spec, for every option combination -/

/-- The model of `TLSClientAuth` satisfies the property for every combination of options. -/
theorem tlsAuth_spec (o : Opts) : spec o (tlsAuth o) = true := by
  cases h : tlsAuth o with
  | err s => rfl
  | cfg c =>
    obtain ⟨cs, rs, hc, hr, rfl⟩ := tlsAuth_cfg h
    have hmin : decide (tls12 ≤ effMin Facts.tlsMinVersion) = true := decide_eq_true min_version
    have hroots : rootsClause o rs = true := by
      rcases rootsOf_ok hr with ⟨rfl, hg⟩ | ⟨l, rfl, hg, rfl⟩
      · simp [rootsClause, hg]
      · simp [rootsClause, hg, sameSet_norm]
    have hisv : (!(if o.serverName ≠ [] then false else o.insecure) || (o.insecure && o.serverName == [])) = true := by
      by_cases hs : o.serverName = []
      · cases hi : o.insecure <;> simp [hs]
      · simp [hs]
    rcases clientCerts_ok hc with ⟨hg, hsup, rfl⟩ | ⟨hg, hu, x, hsup, rfl⟩
    · simp only [spec, specCfg, hmin, hisv, hroots, hg, hsup]
      simp
    · simp only [spec, specCfg, hmin, hisv, hroots, hg, hsup, hu]
      simp

/-- `TLSTransport` and `TLSClient` hand the very same outcome on. -/
theorem wrappers_same (o : Opts) : tlsTransport o = tlsAuth o ∧ tlsClient o = tlsAuth o := ⟨rfl, rfl⟩

theorem tlsClient_spec (o : Opts) : spec o (tlsClient o) = true := tlsAuth_spec o

/-! ### server-certificate verification -/

/-- Verification is skipped exactly when that was requested and no server name is given. -/
theorem insecure_iff {o : Opts} {c : Cfg} (h : tlsAuth o = .cfg c) :
    c.insecure = true ↔ (o.insecure = true ∧ o.serverName = []) := by
  obtain ⟨cs, rs, -, -, rfl⟩ := tlsAuth_cfg h
  by_cases hs : o.serverName = [] <;> simp [hs]

/-- The negative space the tests never assert: a server name forces verification on, whatever
else is set. -/
theorem server_name_forces_verification {o : Opts} {c : Cfg} (h : tlsAuth o = .cfg c)
    (hs : o.serverName ≠ []) : c.insecure = false := by
  cases hi : c.insecure with
  | false => rfl
  | true => exact absurd ((insecure_iff h).1 hi).2 hs

example : tlsAuth ⟨.absent, .none, .absent, .none, .absent, none, none, [115], true, 0, false, 0⟩ =
    .cfg ⟨Facts.tlsMinVersion, false, [115], none, [], 0, false, 0⟩ := rfl

/-! ### roots -/

/-- The system pool (`RootCAs = nil`) is used exactly when no root option is set. -/
theorem roots_system_iff {o : Opts} {c : Cfg} (h : tlsAuth o = .cfg c) :
    c.roots = none ↔ rootsGiven o = false := by
  obtain ⟨cs, rs, -, hr, rfl⟩ := tlsAuth_cfg h
  rcases rootsOf_ok hr with ⟨rfl, hg⟩ | ⟨l, rfl, hg, -⟩ <;> simp [hg]

/-- Otherwise the configuration trusts exactly the supplied roots (R2), rendered ascending without
duplicates. -/
theorem roots_exact {o : Opts} {c : Cfg} {l : List Nat} (h : tlsAuth o = .cfg c) (hl : c.roots = some l) :
    (∀ r, r ∈ l ↔ r ∈ suppliedRoots o) ∧ Asc l := by
  obtain ⟨cs, rs, -, hr, rfl⟩ := tlsAuth_cfg h
  rcases rootsOf_ok hr with ⟨rfl, -⟩ | ⟨l', rfl, -, rfl⟩
  · cases hl
  · simp only [Option.some.injEq] at hl
    subst hl
    exact ⟨fun _ => mem_norm, asc_norm _⟩

example : tlsAuth ⟨.absent, .none, .absent, .none, .ok [3, 0], none, some [1, 0], [], false, 0, false, 0⟩ =
    .cfg ⟨Facts.tlsMinVersion, false, [], some [0, 1, 3], [], 0, false, 0⟩ := rfl

/-- Reading R2 as a theorem: once `LoadedCA` is set the `CA` file plays no role (not even when it
is unreadable). -/
theorem loadedCA_makes_caFile_irrelevant (o : Opts) (r : Nat) (f : CAFile) (h : o.loadedCA = some r) :
    tlsAuth { o with caFile := f } = tlsAuth o := by
  simp [tlsAuth, rootsOf, clientCerts, h]

/-- non-vacuity: an unreadable CA file next to a LoadedCA still gives a configuration trusting
LoadedCA and the pool -/
example : tlsAuth ⟨.absent, .none, .absent, .none, .unreadable, some 2, some [1], [], false, 0, false, 0⟩ =
    .cfg ⟨Facts.tlsMinVersion, false, [], some [1, 2], [], 0, false, 0⟩ := rfl

/-! ### settings carried unchanged -/

theorem settings_copied {o : Opts} {c : Cfg} (h : tlsAuth o = .cfg c) :
    c.serverName = o.serverName ∧ c.callback = o.callback ∧
      c.ticketsDisabled = o.ticketsDisabled ∧ c.cache = o.cache := by
  obtain ⟨cs, rs, -, -, rfl⟩ := tlsAuth_cfg h
  exact ⟨rfl, rfl, rfl, rfl⟩

/-! ### client certificate -/

/-- A configuration presents exactly the supplied client certificate (R1) with its own key:
none when none was supplied, otherwise that one and no other. -/
theorem client_cert_exact {o : Opts} {c : Cfg} (h : tlsAuth o = .cfg c) :
    c.certs = (suppliedCert o).toList := by
  obtain ⟨cs, rs, hc, -, rfl⟩ := tlsAuth_cfg h
  rcases clientCerts_ok hc with ⟨-, hsup, rfl⟩ | ⟨-, -, x, hsup, rfl⟩ <;> simp [hsup]

/-- Unusable certificate or key material yields an error. -/
theorem unusable_identity_errors {o : Opts} (hg : certGiven o = true) (hu : identityUsable o = false) :
    ∃ s, tlsAuth o = .err s := by
  cases h : tlsAuth o with
  | err s => exact ⟨s, rfl⟩
  | cfg c =>
    obtain ⟨cs, rs, hc, -, -⟩ := tlsAuth_cfg h
    rcases clientCerts_ok hc with ⟨hg', -, -⟩ | ⟨-, hu', -⟩
    · rw [hg] at hg'; cases hg'
    · rw [hu] at hu'; cases hu'

example : certGiven ⟨.absent, .ok ⟨0, 0⟩, .ok 0, .ec true 1, .absent, none, none, [], true, 0, false, 0⟩ = true ∧
    identityUsable ⟨.absent, .ok ⟨0, 0⟩, .ok 0, .ec true 1, .absent, none, none, [], true, 0, false, 0⟩ = false := by
  decide

/-- ... never a configuration that silently lacks the client certificate. -/
theorem never_silently_without_cert {o : Opts} {c : Cfg} (hg : certGiven o = true) (h : tlsAuth o = .cfg c) :
    ∃ x, suppliedCert o = some x ∧ c.certs = [x] := by
  obtain ⟨cs, rs, hc, -, rfl⟩ := tlsAuth_cfg h
  rcases clientCerts_ok hc with ⟨hg', -, -⟩ | ⟨-, -, x, hsup, rfl⟩
  · rw [hg] at hg'; cases hg'
  · exact ⟨x, hsup, rfl⟩

example : tlsAuth ⟨.ok ⟨2, 1⟩, .ok ⟨0, 0⟩, .ok 1, .rsa true 0, .absent, none, none, [], false, 0, false, 0⟩ =
    .cfg ⟨Facts.tlsMinVersion, false, [], none, [⟨2, 1⟩], 0, false, 0⟩ := rfl

/-- When is there a configuration at all: the designated identity is usable (or no certificate
option is set) and the CA file, if it is consulted, can be read. Errors are never spurious. -/
theorem cfg_iff (o : Opts) :
    (∃ c, tlsAuth o = .cfg c) ↔
      ((certGiven o = false ∨ identityUsable o = true) ∧ (o.loadedCA = none → o.caFile ≠ .unreadable)) := by
  constructor
  · rintro ⟨c, h⟩
    obtain ⟨cs, rs, hc, hr, -⟩ := tlsAuth_cfg h
    refine ⟨?_, ?_⟩
    · rcases clientCerts_ok hc with ⟨hg, -, -⟩ | ⟨-, hu, -⟩
      · exact .inl hg
      · exact .inr hu
    · intro hl hca
      obtain ⟨cf, lc, kf, lk, ca, lca, pool, sn, isv, cb, std, cache⟩ := o
      simp only at hl hca
      subst hl hca
      simp [rootsOf] at hr
  · rintro ⟨hid, hca⟩
    cases hc : clientCerts o with
    | error s =>
      have := clientCerts_err hc
      rcases hid with hg | hu
      · rw [this.1] at hg; cases hg
      · rw [this.2] at hu; cases hu
    | ok cs =>
      cases hr : rootsOf o with
      | error s =>
        have := rootsOf_err hr
        exact absurd this.2.2 (hca this.2.1)
      | ok rs =>
        simp only [tlsAuth, hc, hr]
        exact ⟨_, rfl⟩

/-- Reading R1 as a theorem: without any certificate option the key options play no role (a key
alone is not an identity; nothing is presented and nothing fails). -/
theorem key_without_cert_irrelevant (o : Opts) (kf : KeyFile) (lk : LoadedKey)
    (h1 : o.certFile = .absent) (h2 : o.loadedCert = .none) :
    tlsAuth { o with keyFile := kf, loadedKey := lk } = tlsAuth o := by
  simp [tlsAuth, rootsOf, clientCerts, h1, h2]

/-- non-vacuity: an unreadable key file and an unsupported loaded key without any certificate -/
example : tlsAuth ⟨.absent, .none, .unreadable, .other, .absent, none, none, [], false, 3, true, 2⟩ =
    .cfg ⟨Facts.tlsMinVersion, false, [], none, [], 3, true, 2⟩ := rfl

/-- Documented precedence: with a `Certificate` file set, `LoadedCertificate`/`LoadedKey` play no
role. -/
theorem certFile_makes_loaded_irrelevant (o : Opts) (lc : LoadedCert) (lk : LoadedKey)
    (h : o.certFile ≠ .absent) :
    tlsAuth { o with loadedCert := lc, loadedKey := lk } = tlsAuth o := by
  obtain ⟨cf, lc', kf, lk', ca, lca, pool, sn, isv, cb, std, cache⟩ := o
  cases cf with
  | absent => exact absurd rfl h
  | unreadable => rfl
  | garbage => rfl
  | ok c => rfl

/-- non-vacuity: an unusable file pair is an error even though a usable loaded pair is present -/
example : tlsAuth ⟨.unreadable, .ok ⟨0, 0⟩, .ok 0, .rsa true 0, .absent, none, none, [], false, 0, false, 0⟩ =
    .err .clientCert := rfl

/-! ### the property seen from the wire (hand model of crypto/tls' handshake: support) -/

theorem handshake_spec (o : Opts) (s : Scn) : specHs o s (hsRun o s) = true := by
  unfold hsRun
  cases h : tlsAuth o with
  | err st => rfl
  | cfg c =>
    simp only
    unfold handshake
    split
    · rfl
    · rename_i hv
      split
      · rfl
      · rename_i hver
        split
        · rfl
        · rename_i hcb
          have hspec := tlsAuth_spec o
          rw [h] at hspec
          obtain ⟨cs, rs, hc, hr, rfl⟩ := tlsAuth_cfg h
          have hmin := min_version
          simp only [Nat.not_lt] at hv
          have hcb' : o.callback = 0 := by simpa using hcb
          have hp : cs.head?.map (·.cert) = (suppliedCert o).map (·.cert) ∧
              (!certGiven o || identityUsable o) = true := by
            rcases clientCerts_ok hc with ⟨hg, hsup, rfl⟩ | ⟨hg, hu, x, hsup, rfl⟩
            · simp [hsup, hg]
            · simp [hsup, hu]
          have hvok : ((o.insecure && o.serverName == []) ||
              (rootsGiven o && (suppliedRoots o).contains s.srvRoot
                && effName o.serverName s.dial == s.srvName)) = true := by
            simp only [verifyOk, Bool.not_eq_true', Bool.not_eq_false] at hver
            by_cases hs : o.serverName = []
            · cases hi : o.insecure
              · simp only [hs, hi] at hver ⊢
                rcases rootsOf_ok hr with ⟨rfl, -⟩ | ⟨l, rfl, hg, rfl⟩
                · simp at hver
                · simp only [hg]
                  simp only [ne_eq, not_true_eq_false, if_false, Bool.false_or, Bool.and_eq_true,
                    List.contains_iff_mem, mem_norm] at hver
                  simp [hver.1, hver.2]
              · simp [hs]
            · simp only [hs, ne_eq, not_false_eq_true, if_true, Bool.false_or, Bool.and_eq_true] at hver
              rcases rootsOf_ok hr with ⟨rfl, -⟩ | ⟨l, rfl, hg, rfl⟩
              · simp at hver
              · simp only [List.contains_iff_mem, mem_norm] at hver
                simp [hg, hver.1, hver.2]
          have hv' : decide (tls12 ≤ s.srvMax) = true := decide_eq_true (Nat.le_trans hmin hv)
          simp only [specHs, hvok, hcb', hp.1, hp.2, hv']
          simp

/-- A successful handshake never ran below TLS 1.2. -/
theorem handshake_version {o : Opts} {s : Scn} {v : Nat} {p : Option Nat} (h : hsRun o s = .ok v p) :
    tls12 ≤ v := by
  have := handshake_spec o s
  rw [h] at this
  simp only [specHs, Bool.and_eq_true, decide_eq_true_eq] at this
  exact this.1.1.1.1

/-- A successful handshake verified the server against the supplied roots and the given (or
dialled) name, unless skipping was requested and no server name was given; and it presented the
supplied client certificate. -/
theorem handshake_verified {o : Opts} {s : Scn} {v : Nat} {p : Option Nat} (h : hsRun o s = .ok v p) :
    ((o.insecure = true ∧ o.serverName = []) ∨
      (s.srvRoot ∈ suppliedRoots o ∧ effName o.serverName s.dial = s.srvName)) ∧
    p = (suppliedCert o).map (·.cert) := by
  have := handshake_spec o s
  rw [h] at this
  simp only [specHs, Bool.and_eq_true, Bool.or_eq_true, beq_iff_eq, List.contains_iff_mem] at this
  refine ⟨?_, this.1.2⟩
  rcases this.1.1.1.2 with h1 | h2
  · exact .inl h1
  · exact .inr ⟨h2.1.2, h2.2⟩

example : hsRun ⟨.absent, .ok ⟨0, 0⟩, .absent, .rsa true 0, .absent, some 2, none, [], false, 0, false, 0⟩
    ⟨2, [97], 0x0304, [97]⟩ = .ok 0x0304 (some 0) := by decide

end RtVerif.C18
