import RtVerif.Lemmas.C09
/-
  C09 — property theorems.

  (a) T1: the memo state machine keeps the promises of the Spec AND yields, wherever a stage is
      evaluated, the result derived from the request alone — for every configuration `Env` and
      EVERY sequence of accessor calls from the request as received, threaded or applied to stale
      request values (`model_meets_spec`), with the readable consequences spelled out (reuse:
      `stage_result_reused` …; history independence: `authorize_result_independent_of_history` …).
  (b) T2: any interleaving of the steps of N requests gives each request the trace it has alone.
  Data-race freedom is NOT a theorem here: see `FullStatement` at the end.
-/
namespace RtVerif.C09
open RtVerif Bytes

/-! ## what the model takes from the source (regenerated facts) -/

/-- The six context keys are pairwise distinct: a stage never reads another stage's memo. -/
theorem keys_distinct : [kCT, kFmt, kRoute, kBound, kPrinc, kScopes].Nodup := by decide

/-- Every accessor looks its result up under the key it stores it under; `Authorize` and
`ResetAuth` write the same two keys in the same order; the exported getters read those keys. -/
theorem accessor_keys_consistent :
    Facts.c09ReadsContentType = [kCT] ∧ Facts.c09WritesContentType = [kCT] ∧
    Facts.c09ReadsResponseFormat = [kFmt] ∧ Facts.c09WritesResponseFormat = [kFmt] ∧
    Facts.c09ReadsRouteInfo = [kRoute] ∧ Facts.c09WritesRouteInfo = [kRoute] ∧
    Facts.c09ReadsBindAndValidate = [kBound] ∧ Facts.c09WritesBindAndValidate = [kBound] ∧
    Facts.c09ReadsAuthorize = [kPrinc] ∧ Facts.c09WritesAuthorize = [kPrinc, kScopes] ∧
    Facts.c09ReadsResetAuth = [] ∧ Facts.c09WritesResetAuth = [kPrinc, kScopes] ∧
    Facts.c09ReadsMatchedRouteFrom = [kRoute] ∧ Facts.c09ReadsSecurityPrincipalFrom = [kPrinc] ∧
    Facts.c09ReadsSecurityScopesFrom = [kScopes] ∧
    (Facts.c09ContextKeys.map (·.2)).Nodup ∧ (∀ e ∈ Facts.c09ContextKeys, e.2 ≠ 0) := by decide

/-- The structural facts the model's privacy rests on: a lookup hands out a COPY of the shared
route entry (`&MatchedRoute{routeEntry: *entry, …}`, embedded by value); the only fields of a route
value the package assigns are per-request fields of `MatchedRoute` (`Consumer`, `Authenticator`) —
none of the shared entry's; nothing is written through the entry's maps or slices; and on the map
path `UntypedRequestBinder.Bind` assigns nothing on the shared binder. -/
theorem per_request_writes_are_private :
    Facts.c09LookupCopiesEntry = true ∧ Facts.c09MatchedRouteEmbedsByValue = true ∧
    (∀ f ∈ Facts.c09RouteFieldWrites, f ∈ Facts.c09MatchedRouteOwnFields ∧ f ∉ Facts.c09RouteEntryFields) ∧
    Facts.c09RouteIndexWrites = [] ∧ Facts.c09BinderMapPathWrites = [] := by decide

/-! ## T1 — stage results are reused -/

/-- **Memo hits.** A request value whose context shows a stage's result gets that result back,
together with the very request it passed in, whatever the shared state is; nothing is looked up,
no authenticator, authorizer or consumer runs, and the shared state is unchanged. -/
theorem hit_routeInfo (env : Env) (st : State) (c : Ctx) (r : Nat × RouteCfg) (h : memoRoute c = some r) :
    routeInfo env st c = ⟨st, .same, some r, []⟩ := routeInfo_hit env st c r h

theorem hit_contentType (env : Env) (c : Ctx) (p : Bytes × Bytes) (h : memoCT c = some p) :
    contentType env c = (.same, .ok p) := contentType_hit env c p h

theorem hit_responseFormat (env : Env) (c : Ctx) (offers : List Bytes) (f : Bytes) (h : memoFmt c = some f) :
    responseFormat env c offers = (.same, f) := responseFormat_hit env c offers f h

theorem hit_authorize (env : Env) (st : State) (c : Ctx) (i : Nat) (rc : RouteCfg) (u : Bytes)
    (hsec : rc.alts.isEmpty = false) (h : value c kPrinc = .princ u) :
    authorize env st c (some (i, rc)) = ⟨st, .same, .ok (.princ u), []⟩ := authorize_hit env st c i rc u hsec h

theorem hit_bindAndValidate (env : Env) (st : State) (c : Ctx) (route : Option (Nat × RouteCfg)) (r : BindRes)
    (h : memoBound c = some r) : bindAndValidate env st c route = ⟨st, .same, .done r, []⟩ :=
  bindAndValidate_hit env st c route r h

example : memoCT [(kFmt, .fmt [97]), (kCT, .ct [116] [])] = some ([116], []) := by decide

/-! ### the model meets the Spec on every program -/

/-- **T1 (main theorem).** For every configuration of the stage functions, every body length and
EVERY program — any sequence of the six accessors, each applied to the newest request value or to
any older one — the trace of the memo machine satisfies the Spec: whoever holds a request value a
stage returned (or one derived from it) gets the stage's result again, with none of the stage's
effects; `ResetAuth` re-arms authentication only; no request value sees the body consumed twice;
and every result NOT covered by a promise — route, content type, format, principal or error,
scopes, binding outcome — is the one the stage yields on the request as received (binding: with
what is left of its body), whatever was called before, on this or on any other request value. -/
theorem model_meets_spec (env : Env) (bodyLen : Nat) (prog : List Instr) :
    specOk env bodyLen prog (runProg env prog ⟨[], bodyLen⟩ [[]]) = true := by
  unfold specOk
  exact specGo_runProg env prog _ _ [[]] [{}] (inv_init env bodyLen)

/-! ### consequences for a caller threading the returned request (declarative form) -/

/-- **T1, threaded form.** Start anywhere (any shared state, any request value). Let an operation
produce a result of a kind the property lists — a parsed content type, a non-empty negotiated
format, a principal, a binding outcome (valid or not). Then after ANY sequence of further
operations on the returned request (for authentication: one without `ResetAuth`), asking the same
stage again yields the same result, hands back the very request it was given, and has no effect of
the stage: at most a router lookup of the
implicit `RouteInfo` (and none if a route was found before, `route_reused`) — no authenticator,
no authorizer, no consumer, no byte of the body. -/
theorem stage_result_reused (env : Env) (st : State) (c : Ctx) (op : Op) (ops : List Op) (op' : Op)
    (hstage : sameStage op op' = true) (hmemo : memoisable2 (stepCore env st c op).res2 = true)
    (hreset : op' = .authorize → Op.resetAuth ∉ ops) :
    (stepCore env (endThread env ops (stepCore env st c op).st (stepCore env st c op).held).1
        (endThread env ops (stepCore env st c op).st (stepCore env st c op).held).2 op').res2
      = (stepCore env st c op).res2 ∧
    (stepCore env (endThread env ops (stepCore env st c op).st (stepCore env st c op).held).1
        (endThread env ops (stepCore env st c op).st (stepCore env st c op).held).2 op').ret2 = .same ∧
    (stepCore env (endThread env ops (stepCore env st c op).st (stepCore env st c op).held).1
        (endThread env ops (stepCore env st c op).st (stepCore env st c op).held).2 op').effs.all isLookup = true := by
  have h1 := agree_after env st c op {} (agree_empty c)
  have hp : promised (after {} op (stepCore env st c op).obs) op' = some (stepCore env st c op).res2 := by
    have hne : op ≠ .resetAuth := by intro e; subst e; simp [sameStage] at hstage
    unfold after
    rw [promised_consumed, promised_afterReset _ _ _ (fun _ => hne)]
    unfold afterStage
    simp only [StepOut.obs, hmemo, if_true]
    cases op <;> cases op' <;> simp_all [sameStage, promised, setStage]
  obtain ⟨p', hag, hp'⟩ := thread_promise env op' _ ops (stepCore env st c op).st (stepCore env st c op).held _ h1 hp hreset
  exact stepCore_stage_hit env _ _ op' p' hag _ hp'

example : sameStage (.responseFormat [[97]]) (.responseFormat []) = true := rfl

/-- **The matched route is reused**: once any operation found the route, every later operation on
the returned request — after any sequence of operations, `ResetAuth` included — gets the same
`MatchedRoute` object together with the request it passed in, and the router is not asked again. -/
theorem route_reused (env : Env) (st : State) (c : Ctx) (op : Op) (ops : List Op) (op' : Op)
    (hfound : memoisable1 (stepCore env st c op).res1 = true) (hrp : hasRoutePart op' = true) :
    (stepCore env (endThread env ops (stepCore env st c op).st (stepCore env st c op).held).1
        (endThread env ops (stepCore env st c op).st (stepCore env st c op).held).2 op').res1
      = (stepCore env st c op).res1 ∧
    (stepCore env (endThread env ops (stepCore env st c op).st (stepCore env st c op).held).1
        (endThread env ops (stepCore env st c op).st (stepCore env st c op).held).2 op').ret1 = .same ∧
    (stepCore env (endThread env ops (stepCore env st c op).st (stepCore env st c op).held).1
        (endThread env ops (stepCore env st c op).st (stepCore env st c op).held).2 op').effs.all
      (fun e => !isLookup e) = true := by
  have h1 := agree_after env st c op {} (agree_empty c)
  have hp : (after {} op (stepCore env st c op).obs).route = some (stepCore env st c op).res1 := by
    rw [after_route]; simp [StepOut.obs, hfound]
  obtain ⟨p', hag, hp'⟩ := thread_route env _ ops (stepCore env st c op).st (stepCore env st c op).held _ h1 hp
  obtain ⟨i, rc, hm, hr⟩ := hag.route _ hp'
  have := stepCore_route_hit env (endThread env ops (stepCore env st c op).st (stepCore env st c op).held).1 _ op' (i, rc) hm hrp
  rw [hr]
  exact ⟨by rw [this.1]; rfl, this.2.1, this.2.2⟩

/-! ### "so the body is consumed at most once and an accepting authenticator is not consulted again" -/

/-- **The body is consumed at most once**: whatever sequence of accessors a caller threads the
request through, starting from the request as received, a consumer is called at most once — so the
body is read at most once. -/
theorem body_consumed_at_most_once (env : Env) (st : State) (ops : List Op) :
    consumes (runThread env ops st []) ≤ 1 := by
  simpa using thread_consumes env ops st [] {} agree_init

/-- operations other than `Authorize` never consult an authenticator or the authorizer -/
theorem only_authorize_consults (env : Env) (st : State) (c : Ctx) (op : Op) (h : op ≠ .authorize) :
    (stepCore env st c op).effs.all (fun e => !isAuthEff e) = true :=
  no_auth_effs_unless_authorize env st c op h

/-- **An accepting authenticator is not consulted again**: once `Authorize` has returned a
principal, no operation of any `ResetAuth`-free sequence on the returned request calls an
authenticator or the authorizer. -/
theorem accepting_authenticator_not_consulted_again (env : Env) (st : State) (c : Ctx) (u : Bytes) (ops : List Op)
    (hacc : (stepCore env st c .authorize).res2 = .princ u) (hnr : Op.resetAuth ∉ ops) :
    ∀ o ∈ runThread env ops (stepCore env st c .authorize).st (stepCore env st c .authorize).held,
      o.effs.all (fun e => !isAuthEff e) = true := by
  have h1 := agree_after env st c .authorize {} (agree_empty c)
  refine thread_no_auth env u ops _ _ _ h1 ?_ hnr
  simp [after, afterReset, afterStage, StepOut.obs, hacc, memoisable2, setStage]

/-! ### `ResetAuth` re-arms authentication only -/

/-- `ResetAuth` hides principal and scopes and leaves every other memo in place; the next
`Authorize` on a secured route authenticates afresh. -/
theorem resetAuth_rearms_authentication_only (env : Env) (st : State) (c : Ctx) (i : Nat) (rc : RouteCfg)
    (hsec : rc.alts.isEmpty = false) :
    memoRoute (resetAuth c) = memoRoute c ∧ memoCT (resetAuth c) = memoCT c ∧ memoFmt (resetAuth c) = memoFmt c ∧
    memoBound (resetAuth c) = memoBound c ∧ memoPrinc (resetAuth c) = none ∧
    (viewOf st (resetAuth c)).princ = none ∧ (viewOf st (resetAuth c)).scopes = [] ∧
    authorize env st (resetAuth c) (some (i, rc)) = authorizeMiss env st (resetAuth c) i rc := by
  have hp : value (resetAuth c) kPrinc = .nil := by
    unfold resetAuth; rw [value_push_ne _ _ ne_Scopes_Princ, value_push_eq]
  have hs : value (resetAuth c) kScopes = .nil := by unfold resetAuth; rw [value_push_eq]
  have hm : memoPrinc (resetAuth c) = none := by simp [memoPrinc, hp]
  refine ⟨?_, ?_, ?_, ?_, hm, ?_, ?_, ?_⟩
  · unfold resetAuth; rw [memoRoute_push _ _ ne_Scopes_Route, memoRoute_push _ _ ne_Princ_Route]
  · unfold resetAuth; rw [memoCT_push _ _ ne_Scopes_CT, memoCT_push _ _ ne_Princ_CT]
  · unfold resetAuth; rw [memoFmt_push _ _ ne_Scopes_Fmt, memoFmt_push _ _ ne_Princ_Fmt]
  · unfold resetAuth; rw [memoBound_push _ _ ne_Scopes_Bound, memoBound_push _ _ ne_Princ_Bound]
  · simp [viewOf, hp]
  · simp [viewOf, hs]
  · simp [authorize, hsec, hm]

/-! ### what is NOT memoised (exactly) -/

/-- A failed negotiation stores nothing and hands the same request back: the next asker negotiates
afresh, possibly with other offers and another outcome. -/
theorem failed_negotiation_not_memoised (env : Env) (c : Ctx) (offers offers' : List Bytes)
    (hm : memoFmt c = none) (hfail : (env.neg offers).isEmpty = true) :
    responseFormat env c offers = (.same, env.neg offers) ∧
    (responseFormat env ((responseFormat env c offers).1.held c) offers').2 = env.neg offers' := by
  have h1 : responseFormat env c offers = (.same, env.neg offers) := by simp [responseFormat, hm, hfail]
  refine ⟨h1, ?_⟩
  rw [h1]
  simp only [Ret.held, responseFormat, hm]
  split <;> rfl

/-- An authentication that succeeds WITHOUT a principal (anonymous access allowed, or an
authenticator accepting with a nil principal on such a route) stores nil under the principal key:
the value handed back shows no principal, and the next `Authorize` authenticates again. -/
theorem anonymous_not_memoised (env : Env) (st st' : State) (c : Ctx) (i : Nat) (rc : RouteCfg)
    (hm : memoPrinc c = none) (hanon : (authorize env st c (some (i, rc))).res = .ok .nil) :
    memoPrinc ((authorize env st c (some (i, rc))).ret.held c) = none ∧
    (rc.alts.isEmpty = false →
      authorize env st' ((authorize env st c (some (i, rc))).ret.held c) (some (i, rc)) =
        authorizeMiss env st' ((authorize env st c (some (i, rc))).ret.held c) i rc) := by
  have hnone : memoPrinc ((authorize env st c (some (i, rc))).ret.held c) = none := by
    rcases authorize_cases env st c (some (i, rc)) with ⟨h1, _⟩ | ⟨v, _, _, _, _, hv, _⟩ | ⟨sc, pr, _, _, _, _, _, h1, h2⟩
    · rw [h1]; exact hm
    · rw [hm] at hv; cases hv
    · rw [h1]
      rw [h2] at hanon
      cases pr with
      | some u => simp [princVal] at hanon
      | none =>
        show memoPrinc ((kScopes, Val.scopes sc) :: (kPrinc, princVal none) :: c) = none
        exact memoPrinc_nil _ (by rw [value_push_ne _ _ ne_Scopes_Princ, value_push_eq]; rfl)
  exact ⟨hnone, fun hsec => authorize_miss_eq env st' _ i rc hsec hnone⟩

/-- A failed `Authorize` (error, or no applicable credentials) and an unsecured route return no
request at all: nothing is stored. -/
theorem failed_authentication_stores_nothing (env : Env) (st : State) (c : Ctx) (route : Option (Nat × RouteCfg))
    (code : Nat) (h : (authorize env st c route).res = .fail code ∨ (authorize env st c route).res = .unsecured) :
    (authorize env st c route).ret = .nil := by
  rcases authorize_cases env st c route with ⟨h1, _⟩ | ⟨v, _, _, _, _, _, he⟩ | ⟨_, _, _, _, _, _, _, _, h2⟩
  · exact h1
  · rw [he] at h; rcases h with h | h <;> cases h
  · rw [h2] at h; rcases h with h | h <;> cases h

/-- A `Content-Type` header that does not parse stores nothing; without a matching route every
`RouteInfo` asks the router again. -/
theorem parse_error_and_no_route_store_nothing (env : Env) (st : State) (c : Ctx) :
    (∀ e, memoCT c = none → env.parseCT = .error e → contentType env c = (.nil, .error e)) ∧
    (memoRoute c = none → env.lookup = none → routeInfo env st c = ⟨st, .nil, none, [.lookup]⟩) := by
  constructor
  · intro e hm he; simp [contentType, hm, he]
  · intro hm hl; simp [routeInfo, hm, hl]

/-! ### witnesses: the hypotheses are met, and the non-memoised cases really recompute -/

/-- scheme `k` with scope `r`; anonymous access also allowed -/
def exRoute : RouteCfg := ⟨[111], [], [[106]], [⟨true, [[]], []⟩, ⟨false, [[107]], [[114]]⟩], true⟩

/-- a request with a 3-byte body and no credentials; `k` accepts `u` when `cred` is set -/
def exEnv (cred : Bool) : Env :=
  { lookup := some exRoute, parseCT := .ok ([106], []), neg := fun o => o.headD [],
    authn := fun _ => if cred then ⟨true, some [117], none⟩ else ⟨false, none, none⟩, authz := none,
    hasBody := true, ctAllowed := fun _ => true, consumerFor := fun _ => some [106], bodyParam := true,
    bind := fun n => if n = 0 then ⟨[601], []⟩ else ⟨[], [98]⟩ }

example : sameStage .bindAndValidate .bindAndValidate = true ∧
    memoisable2 (stepCore (exEnv true) ⟨[], 3⟩ [] .bindAndValidate).res2 = true ∧
    memoisable1 (stepCore (exEnv true) ⟨[], 3⟩ [] .bindAndValidate).res1 = true ∧
    (stepCore (exEnv true) ⟨[], 3⟩ [] .authorize).res2 = .princ [117] := by decide

/-- With credentials: the second `Authorize` consults nobody; after `ResetAuth` the third one
authenticates again, while the binding done in between stays memoised (no second consumer call). -/
theorem witness_memo_and_reset :
    (runThread (exEnv true) [.authorize, .bindAndValidate, .authorize, .resetAuth, .authorize, .bindAndValidate]
        ⟨[], 3⟩ []).map (·.effs) =
      [[.lookup, .authn [107], .authz], [.consume [106] 3], [], [], [.authn [107], .authz], []] := by decide

/-- Anonymous access is not memoised: without credentials both `Authorize` calls ask the
authenticator of the other alternative and the authorizer. -/
theorem witness_anonymous_recomputed :
    (runThread (exEnv false) [.authorize, .authorize] ⟨[], 3⟩ []).map (fun o => (o.res2, o.effs)) =
      [(.anon, [.lookup, .authn [107], .authz]), (.anon, [.authn [107], .authz])] := by decide

/-- "…that holds the request value the stage returned": an asker still holding the ORIGINAL request
(value 0) after a binding gets a recomputation — new lookup, a second consumer call that finds the
body drained, another outcome; the holder of the returned value keeps getting the first outcome. -/
theorem witness_stale_value_recomputes :
    (runProg (exEnv true) [⟨.bindAndValidate, 0⟩, ⟨.bindAndValidate, 1⟩, ⟨.bindAndValidate, 1⟩] ⟨[], 3⟩ [[]]).map
        (fun o => (o.res2, o.effs)) =
      [(.bound [] [98], [.lookup, .consume [106] 3]), (.bound [601] [], [.lookup, .consume [106] 0]),
       (.bound [] [98], [])] := by decide

/-! ## T1b — "… are those derived from that request alone": history independence

`endProg env prog ⟨[], b⟩ [[]]` is the shared state and the list of ALL request values after an
arbitrary program on the request as received (body of `b` bytes); `k` picks any of the values, the
newest or a stale one. The pristine request is the state `⟨[], _⟩` with the empty context `[]`. -/

/-- Authentication proper never looks at `route.Authenticator`: whatever it shows (`cur`, left
behind by an earlier — possibly failed — authentication, aliased to the loop variable or not), the
outcome of `RouteAuthenticators.Authenticate` as `Authorize` reads it is the reference's: first
credentialed alternative yielding a principal, else anonymous if allowed and nobody reported an
error, else the last error; with the scopes of the alternative that let the request in. -/
theorem authentication_ignores_current_authenticator (env : Env) (alts : List AuthAlt) (cur : Option AuthAlt)
    (aliased : Bool) (effs : List Eff) :
    rasOutcome (rasAuth env alts none none cur aliased effs) = refAlts env alts none none :=
  (rasAuth_ref env alts none none cur aliased effs).1

/-- **`Authorize` is independent of history.** After ANY program, on ANY request value that shows
no principal (never authenticated, authenticated anonymously, failed, or `ResetAuth`), `Authorize`
returns exactly what it returns on the pristine request — same principal or same error code — and,
when it lets the request in, shows the same scopes. Failed authentications, `ResetAuth`, calls on
other request values and the `route.Authenticator` they left behind have no influence. -/
theorem authorize_result_independent_of_history (env : Env) (b : Nat) (prog : List Instr) (k : Nat)
    (hnil : value ((endProg env prog ⟨[], b⟩ [[]]).2.getD k []) kPrinc = .nil) :
    (stepCore env (endProg env prog ⟨[], b⟩ [[]]).1 ((endProg env prog ⟨[], b⟩ [[]]).2.getD k []) .authorize).res2 =
      (stepCore env ⟨[], b⟩ [] .authorize).res2 ∧
    (authenticated (stepCore env ⟨[], b⟩ [] .authorize).res2 = true →
      (stepCore env (endProg env prog ⟨[], b⟩ [[]]).1 ((endProg env prog ⟨[], b⟩ [[]]).2.getD k []) .authorize).obs.view.scopes =
        (stepCore env ⟨[], b⟩ [] .authorize).obs.view.scopes) := by
  obtain ⟨p, hst, hag, hs⟩ := reach env b prog k
  obtain ⟨p0, hst0, hag0, hs0⟩ := reach env b [] 0
  obtain ⟨r, hr⟩ : ∃ r, ∀ q l, fresh env q l .authorize = some r := by
    simp only [fresh]
    cases env.lookup with
    | none => exact ⟨_, fun _ _ => rfl⟩
    | some rc => simp only; split <;> exact ⟨_, fun _ _ => rfl⟩
  have e1 := evaluated_eq_fresh env _ _ .authorize p hst hag hs hnil r (hr _ _)
  have e0 := evaluated_eq_fresh env _ _ .authorize p0 hst0 hag0 hs0 rfl r (hr _ _)
  simp only [endProg, List.getD_cons_zero] at e0 hst0 hag0 hs0
  refine ⟨e1.trans e0.symm, fun ha => ?_⟩
  cases hl : env.lookup with
  | none =>
    have : r = .unsecured := by have := hr {} 0; simp [fresh, hl] at this; exact this.symm
    rw [e0, this] at ha; cases ha
  | some rc =>
    rw [evaluated_scopes env _ _ p rc hst hag hs hnil hl (by rw [e1, ← e0]; exact ha),
      evaluated_scopes env _ _ p0 rc hst0 hag0 hs0 rfl hl ha]

/-- **The matched route and the path parameters** any operation reports — looked up now or taken
from the request value — are those the router finds for this request. -/
theorem route_independent_of_history (env : Env) (b : Nat) (prog : List Instr) (k : Nat) :
    routeAlone env (res1Of (routeInfo env (endProg env prog ⟨[], b⟩ [[]]).1
      ((endProg env prog ⟨[], b⟩ [[]]).2.getD k [])).route) = true := by
  obtain ⟨p, _, _, hs⟩ := reach env b prog k
  exact routeAlone_model env _ _ p hs

/-- **`ContentType` is independent of history** — memoised or evaluated: it is the parse of the
request's header (a parse error is not memoised and is reported again, the same). -/
theorem contentType_result_independent_of_history (env : Env) (b : Nat) (prog : List Instr) (k : Nat) :
    (stepCore env (endProg env prog ⟨[], b⟩ [[]]).1 ((endProg env prog ⟨[], b⟩ [[]]).2.getD k []) .contentType).res2 =
      (stepCore env ⟨[], b⟩ [] .contentType).res2 := by
  obtain ⟨p, _, _, hs⟩ := reach env b prog k
  simp only [stepCore]
  rw [(contentType_ref env _ hs.ct).1, (contentType_ref env [] (by intro x h; simp [memoCT, value] at h)).1]

/-- **`ResponseFormat` is independent of history** on a value that shows no format: a failed
negotiation (over whatever offers) leaves no trace; the result is the negotiation over THESE offers. -/
theorem responseFormat_result_independent_of_history (env : Env) (b : Nat) (prog : List Instr) (k : Nat)
    (offers : List Bytes) (hm : memoFmt ((endProg env prog ⟨[], b⟩ [[]]).2.getD k []) = none) :
    (stepCore env (endProg env prog ⟨[], b⟩ [[]]).1 ((endProg env prog ⟨[], b⟩ [[]]).2.getD k [])
        (.responseFormat offers)).res2 = .fmt (env.neg offers) := by
  obtain ⟨p, hst, hag, hs⟩ := reach env b prog k
  exact evaluated_eq_fresh env _ _ (.responseFormat offers) p hst hag hs hm _ rfl

/-- **`BindAndValidate` is independent of history, up to the body.** On a value that shows neither
a binding outcome nor a format, binding yields what it yields on the pristine request whose body
holds what is still unread — all of it, or nothing ("the body is consumed at most once": a consumed
body stays consumed, `reachable_body_full_or_consumed`). A `route.Consumer` set earlier, content
types parsed and formats negotiated on other values, authentications: no influence. -/
theorem bindAndValidate_result_independent_of_history (env : Env) (b : Nat) (prog : List Instr) (k : Nat)
    (hb : memoBound ((endProg env prog ⟨[], b⟩ [[]]).2.getD k []) = none)
    (hf : memoFmt ((endProg env prog ⟨[], b⟩ [[]]).2.getD k []) = none) :
    (stepCore env (endProg env prog ⟨[], b⟩ [[]]).1 ((endProg env prog ⟨[], b⟩ [[]]).2.getD k []) .bindAndValidate).res2 =
      (stepCore env ⟨[], (endProg env prog ⟨[], b⟩ [[]]).1.bodyLeft⟩ [] .bindAndValidate).res2 := by
  obtain ⟨p, hst, hag, hs⟩ := reach env b prog k
  obtain ⟨p0, hst0, hag0, hs0⟩ := reach env (endProg env prog ⟨[], b⟩ [[]]).1.bodyLeft [] 0
  simp only [endProg, List.getD_cons_zero] at hst0 hag0 hs0
  rw [bind_model env _ _ p hst hag hs hb, bind_model env _ _ p0 hst0 hag0 hs0 (by simp [memoBound, value])]
  cases env.lookup with
  | none => rfl
  | some rc =>
    simp only
    rw [refBind_congr env p p0 _ rc]
    rw [fmt_promise_eq hag hs, fmt_promise_eq hag0 hs0, hf]
    simp [memoFmt, value]

/-- …and with a format the value holds (negotiated by whoever asked first, from their offers),
binding is the reference's binding with THAT format: the one exception the property names. -/
theorem bindAndValidate_uses_promised_format_only (env : Env) (b : Nat) (prog : List Instr) (k : Nat) (r : Res2)
    (hb : memoBound ((endProg env prog ⟨[], b⟩ [[]]).2.getD k []) = none)
    (hf : fresh env { fmt := (memoFmt ((endProg env prog ⟨[], b⟩ [[]]).2.getD k [])).map Res2.fmt }
      (endProg env prog ⟨[], b⟩ [[]]).1.bodyLeft .bindAndValidate = some r) :
    (stepCore env (endProg env prog ⟨[], b⟩ [[]]).1 ((endProg env prog ⟨[], b⟩ [[]]).2.getD k []) .bindAndValidate).res2 = r := by
  obtain ⟨p, hst, hag, hs⟩ := reach env b prog k
  exact evaluated_eq_fresh env _ _ .bindAndValidate p hst hag hs hb r hf

/-- the body of a reachable state is untouched or consumed — never partly read, never replayed -/
theorem reachable_body_full_or_consumed (env : Env) (b : Nat) (prog : List Instr) :
    (endProg env prog ⟨[], b⟩ [[]]).1.bodyLeft = b ∨ (endProg env prog ⟨[], b⟩ [[]]).1.bodyLeft = 0 :=
  reach_body env b prog

/-! ### witnesses for T1b -/

/-- authentication optional: scheme `k` (scope `r`) first, anonymous access second -/
def exOptRoute : RouteCfg := ⟨[100], [], [[106]], [⟨false, [[107]], [[114]]⟩, ⟨true, [], []⟩], false⟩

/-- `k` reports 401 (`wrong`), or accepts `u` -/
def exOptEnv (wrong : Bool) : Env :=
  { lookup := some exOptRoute, parseCT := .ok ([106], []), neg := fun o => o.headD [],
    authn := fun _ => if wrong then ⟨true, none, some 401⟩ else ⟨true, some [117], none⟩, authz := none,
    hasBody := false, ctAllowed := fun _ => true, consumerFor := fun _ => some [106], bodyParam := false,
    bind := fun _ => ⟨[], [98]⟩ }

/-- the hypotheses of `authorize_result_independent_of_history` are met after a failed
authentication and after `ResetAuth`, by the newest and by stale values -/
example : value ((endProg (exOptEnv true) [⟨.authorize, 0⟩, ⟨.authorize, 0⟩] ⟨[], 0⟩ [[]]).2.getD 2 []) kPrinc = .nil ∧
    value ((endProg (exOptEnv false) [⟨.authorize, 0⟩, ⟨.resetAuth, 0⟩] ⟨[], 0⟩ [[]]).2.getD 2 []) kPrinc = .nil ∧
    value ((endProg (exOptEnv false) [⟨.authorize, 0⟩, ⟨.resetAuth, 0⟩] ⟨[], 0⟩ [[]]).2.getD 0 []) kPrinc = .nil ∧
    authenticated (stepCore (exOptEnv false) ⟨[], 0⟩ [] .authorize).res2 = true := by decide

/-- **A failed authentication leaves no trace**: wrong credentials on a route where authentication
is optional fail — and fail again, although `route.Authenticator` is no longer nil (last column;
`NeedsAuth()` has become false: with the loop variable shared it shows the alternative looked at
last, the anonymous one); with the right credentials, `Authorize`–`ResetAuth`–`Authorize` yields
the principal both times, with its scopes. -/
theorem witness_failed_authentication_leaves_no_trace :
    (runThread (exOptEnv true) [.authorize, .authorize] ⟨[], 0⟩ []).map (fun o => (o.res2, o.view.authn)) =
      [(.authErr 401, some []), (.authErr 401, some [])] ∧
    (runThread (exOptEnv false) [.authorize, .resetAuth, .authorize] ⟨[], 0⟩ []).map (fun o => (o.res2, o.view.scopes)) =
      [(.princ [117], [[114]]), (.na, []), (.princ [117], [[114]])] := by decide

/-- **The strengthened Spec is not vacuous**: a trace that differs from the model's only in the
second `Authorize` succeeding anonymously after the failed one (no promise is broken: a failure
promises nothing), and one in which `Authorize` after `ResetAuth` comes back anonymous instead of
with the principal, are both rejected; so is a second binding on a stale value that replays the
first outcome after the body was consumed. -/
theorem witness_spec_rejects_history_dependence :
    (let t := runProg (exOptEnv true) [⟨.authorize, 0⟩, ⟨.authorize, 0⟩] ⟨[], 0⟩ [[]]
     specOk (exOptEnv true) 0 [⟨.authorize, 0⟩, ⟨.authorize, 0⟩] t = true ∧
     specOk (exOptEnv true) 0 [⟨.authorize, 0⟩, ⟨.authorize, 0⟩]
       (t.take 1 ++ (t.drop 1).map fun o => { o with res2 := .anon, ret2 := .same }) = false) ∧
    (let t := runProg (exOptEnv false) [⟨.authorize, 0⟩, ⟨.resetAuth, 0⟩, ⟨.authorize, 0⟩] ⟨[], 0⟩ [[]]
     specOk (exOptEnv false) 0 [⟨.authorize, 0⟩, ⟨.resetAuth, 0⟩, ⟨.authorize, 0⟩] t = true ∧
     specOk (exOptEnv false) 0 [⟨.authorize, 0⟩, ⟨.resetAuth, 0⟩, ⟨.authorize, 0⟩]
       (t.take 2 ++ (t.drop 2).map fun o => { o with res2 := .anon, ret2 := .same }) = false) ∧
    (let t := runProg (exEnv true) [⟨.bindAndValidate, 0⟩, ⟨.bindAndValidate, 1⟩] ⟨[], 3⟩ [[]]
     specOk (exEnv true) 3 [⟨.bindAndValidate, 0⟩, ⟨.bindAndValidate, 1⟩] t = true ∧
     specOk (exEnv true) 3 [⟨.bindAndValidate, 0⟩, ⟨.bindAndValidate, 1⟩]
       (t.take 1 ++ (t.drop 1).map fun o => { o with res2 := .bound [] [98] }) = false) := by decide

/-! ## T2 — non-interference of concurrent requests (on the model) -/

/-- steps of different requests commute: they touch disjoint state -/
theorem steps_commute {ρ : Type} (envOf : ρ → Env) (reqs : Nat → ρ) (ls : Nat → Local) (i j : Nat) (h : i ≠ j) :
    gstep envOf reqs (gstep envOf reqs ls i) j = gstep envOf reqs (gstep envOf reqs ls j) i := by
  funext k
  unfold gstep upd
  by_cases hj : k = j <;> by_cases hi : k = i <;> simp_all [Ne.symm h]

/-- **T2 (non-interference).** N requests (indexed by ℕ) against one server, ANY schedule of their
steps: the local state of request `i` afterwards — shared objects handed to it, body position,
request value held, trace of results and effects — is what it is when request `i` runs alone for
as many steps as the schedule gave it. No other request's data enters into it. -/
theorem noninterference {ρ : Type} (envOf : ρ → Env) (reqs : Nat → ρ) : ∀ (sched : List Nat) (ls : Nat → Local) (i : Nat),
    runSched envOf reqs sched ls i = iter (lstep (envOf (reqs i))) (sched.count i) (ls i) := by
  intro sched
  induction sched with
  | nil => intro ls i; rfl
  | cons j rest ih =>
    intro ls i
    simp only [runSched]
    rw [ih]
    by_cases h : j = i
    · subst h
      simp [gstep, upd, List.count_cons_self, iter_succ']
    · have : (j :: rest).count i = rest.count i := by simp [h]
      rw [this]
      simp [gstep, upd, Ne.symm h]

/-- **Each request gets its own results.** Once the schedule has given request `i` enough steps for
its program, its trace — every result, every effect — is exactly the trace of running it alone
against the same configuration: `runThread` on ITS environment, ITS body, ITS program. -/
theorem concurrent_trace_eq_sequential {ρ : Type} (envOf : ρ → Env) (reqs : Nat → ρ) (bodyLen : Nat → Nat)
    (progs : Nat → List Op) (sched : List Nat) (i : Nat) (hdone : (progs i).length ≤ sched.count i) :
    (runSched envOf reqs sched (fun j => Local.fresh (bodyLen j) (progs j)) i).trace =
      runThread (envOf (reqs i)) (progs i) ⟨[], bodyLen i⟩ [] := by
  rw [noninterference]
  simp only [Local.fresh]
  rw [iter_lstep_run _ _ _ _ _ _ hdone]
  simp

example : ((fun _ => serveProg [[106]]) 1).length ≤ ([0, 1, 1, 0, 1, 0, 1, 1, 0, 0] : List Nat).count 1 := by decide

/-- …hence under any interleaving every request's trace satisfies the Spec of ITS OWN program, judged
against ITS OWN stage functions: no other request's data enters into any result. -/
theorem concurrent_requests_meet_spec {ρ : Type} (envOf : ρ → Env) (reqs : Nat → ρ) (bodyLen : Nat → Nat)
    (progs : Nat → List Op) (sched : List Nat) (i : Nat) (hdone : (progs i).length ≤ sched.count i) :
    specOk (envOf (reqs i)) (bodyLen i) ((progs i).map (⟨·, 0⟩))
      (runSched envOf reqs sched (fun j => Local.fresh (bodyLen j) (progs j)) i).trace = true := by
  rw [concurrent_trace_eq_sequential envOf reqs bodyLen progs sched i hdone]
  have := model_meets_spec (envOf (reqs i)) (bodyLen i) ((progs i).map (⟨·, 0⟩))
  rwa [show ([[]] : List Ctx) = [] ++ [[]] from rfl, runProg_threaded] at this

/-! ## the full statement, and the part of it that is proved -/

/-- "… are those derived from that request alone …" (within one request) and "Within one request,
once a stage has produced a result it is reused …" — every program -/
def MemoPart : Prop :=
  ∀ (env : Env) (bodyLen : Nat) (prog : List Instr), specOk env bodyLen prog (runProg env prog ⟨[], bodyLen⟩ [[]]) = true

/-- "Under any interleaving … each request's [results] are those derived from that request alone"
— on the step model in which a step of request `i` reads the immutable configuration and the
local state of `i` only -/
def InterleavingPart : Prop :=
  ∀ (ρ : Type) (envOf : ρ → Env) (reqs : Nat → ρ) (bodyLen : Nat → Nat) (progs : Nat → List Op)
    (sched : List Nat) (i : Nat), (progs i).length ≤ sched.count i →
    (runSched envOf reqs sched (fun j => Local.fresh (bodyLen j) (progs j)) i).trace =
      runThread (envOf (reqs i)) (progs i) ⟨[], bodyLen i⟩ []

/-- The property in full. `StepModelFaithful` stands for: "the compiled handler chain really
consists of steps that read only immutable shared configuration and the request's own objects"
(what `per_request_writes_are_private` checks structurally on the source, and the correlation-token
stream observes); `DataRaceFree` for: "in every execution of N goroutines serving requests through
one handler, at any GOMAXPROCS, no two conflicting memory accesses are unordered by happens-before".
Both are facts about the compiled program and the Go memory model; nothing in Lean proves them, so
they are parameters here. -/
def FullStatement (StepModelFaithful DataRaceFree : Prop) : Prop :=
  MemoPart ∧ InterleavingPart ∧ StepModelFaithful ∧ DataRaceFree

/-- What is proved of `FullStatement`: the memoisation part for all programs and the interleaving
part on the step model. Missing: data-race freedom and the faithfulness of the step model to the
memory behaviour of the Go code — supported, not proved, by the `-race` build of the harness
(stream R: 2–64 goroutines of mixed requests with correlation tokens against one handler). -/
theorem full_statement_partial : MemoPart ∧ InterleavingPart :=
  ⟨model_meets_spec, fun _ envOf reqs bodyLen progs sched i h =>
    concurrent_trace_eq_sequential envOf reqs bodyLen progs sched i h⟩

end RtVerif.C09
