import RtVerif.Lemmas.C15
/-
  C15 — "Built-in codecs round-trip values and never truncate, alias or panic."

  Property theorems for the byte-stream, text and discard codecs. `c : Case` is an arbitrary call:
  direction, codec, closing option, stream argument (nil / plain / closable), data kind (all the
  kinds of `K`, typed-nil pointers and `*interface{}` pre-states included) with arbitrary content,
  an arbitrary scripted reader (any bytes, EOF or error terminal — i.e. an error at any offset —,
  terminal delivered with the last bytes or separately, ANY per-call schedule: 1-byte chunks,
  zero-length reads of any number) and an arbitrary scripted writer (per-call caps, total
  capacity — i.e. a write error at any offset —, honest or lying about short writes).
  No theorem below bounds any of these.

  The JSON / XML / YAML codecs are calls into external libraries: see `FullStatement` at the end.
-/
namespace RtVerif.C15
open RtVerif Bytes _root_.RtVerif.Stream

/-! ## Ties to the code -/

/-- The order in which the four codec bodies examine their arguments is the order the model
follows (`bcInner`/`bcDispatch`/`bcStore`, `tcInner`/`tcStore`, `bpInner`/`bpDispatch`, `tpInner`):
stream nil check; [byte-stream: closer installed and deferred]; `data == nil`; typed-nil check
(F15a repair, after the deferred closer: F15d repair); then the interface assertions and
type-switch cases in this order; in the text consumer the empty-input shortcut sits inside the
`TextUnmarshaler` branch, after the nil-pointer check (F15b/F15c repair). Regenerated from the
source by factgen on every run: an edit that reorders or removes a check breaks this theorem. -/
theorem code_shape_facts :
    Facts.c15ByteStreamConsumer =
      ["nil:reader", "assert:reader:io.Closer", "defer:(func() literal)", "nil:data", "nilptr:data",
       "assert:data:io.ReaderFrom", "assert:data:io.Writer", "case:encoding.BinaryUnmarshaler",
       "case:*any", "case:string", "case:[]byte", "case:default"] ∧
    Facts.c15ByteStreamProducer =
      ["nil:writer", "assert:writer:io.Closer", "defer:(func() literal)", "nil:data", "nilptr:data",
       "assert:data:io.ReadCloser", "defer:rc.Close", "case:io.WriterTo", "case:io.Reader",
       "case:encoding.BinaryMarshaler", "case:error", "case:default"] ∧
    Facts.c15TextConsumer =
      ["nil:reader", "nilptr:data", "assert:data:encoding.TextUnmarshaler", "empty:b"] ∧
    Facts.c15TextProducer =
      ["nil:writer", "nil:data", "nilptr:data", "assert:data:encoding.TextMarshaler",
       "assert:data:error", "assert:data:fmt.Stringer"] := by
  decide

/-- The two option calls of the JSON codec are made, before decoding / encoding. -/
theorem json_option_facts :
    Facts.c15JSONConsumer = ["call:UseNumber", "call:Decode"] ∧
    Facts.c15JSONProducer = ["call:SetEscapeHTML:false", "call:Encode"] := by
  decide

/-- The loop models use the constants of the installed Go. -/
theorem stdlib_facts : minRead = Facts.bytesMinRead ∧ copyBuf = Facts.ioCopyBufSize := ⟨rfl, rfl⟩

/-! ## Main theorem -/

/-- For every call, what the model does satisfies the Spec. -/
theorem model_meets_spec (c : Case) : spec c (model c).obs = true := model_spec c

/-- A sample call: a 5-byte binary body (invalid UTF-8) delivered as 0+1+0+0+2+2 bytes, the error
terminal coming together with the last bytes, consumed with the closing option into a
pre-populated `*[]byte`. -/
def sampleConsume : Case :=
  { dir := .consume, codec := .bytestream, close := true, stream := .closer, kind := .pbyt,
    content := [111, 108, 100], flag := 0, aux := none,
    rdata := [255, 0, 254, 10, 195], rterm := .user 3, rtog := true, rsched := [0, 1, 0, 0, 2],
    rcerr := some (.user 4), wcaps := [], wlimit := none, wlie := false, wcerr := none }

/-- A sample call: a scripted `io.ReadCloser` payload produced into a writer that takes at most one
byte of the second write. -/
def sampleProduce : Case :=
  { dir := .produce, codec := .bytestream, close := true, stream := .closer, kind := .rdc,
    content := [], flag := 0, aux := none,
    rdata := [1, 2, 3, 4, 5], rterm := .eof, rtog := false, rsched := [2, 0, 3],
    rcerr := none, wcaps := [0, 2], wlimit := none, wlie := false, wcerr := some (.user 5) }

/-! ## Never a panic -/

/-- No call panics, and no call fails to return (the loops end on every scripted stream). -/
theorem never_panics_never_hangs (c : Case) : (model c).res ≠ .panic ∧ (model c).res ≠ .hang := by
  unfold model
  cases c.dir with
  | consume =>
    by_cases hc : c.codec = .discard
    · unfold consume; rw [hc]; simp
    · by_cases hs : c.stream = .nil
      · unfold consume
        cases hcd : c.codec with
        | discard => exact absurd hcd hc
        | bytestream => simp [hs]
        | text => simp [hs]
      · have := specConsume_proj (consume_meets c) hc hs
        exact ⟨this.1, this.2.1⟩
  | produce =>
    by_cases hc : c.codec = .discard
    · unfold produce; rw [hc]; simp
    · by_cases hs : c.stream = .nil
      · unfold produce
        cases hcd : c.codec with
        | discard => exact absurd hcd hc
        | bytestream => simp [hs]
        | text => simp [hs]
      · have := specProduce_proj (produce_meets c) hc hs
        exact ⟨this.1, this.2.1⟩

/-! ## Consumers: the bytes stored are exactly the bytes read -/

/-- Destinations that are replaced (`*string`, `*[]byte`, named variants, `*interface{}` holding a
string or a []byte; for the text codec the string ones): whatever the chunking, with EOF the call
succeeds and the destination holds exactly the stream's bytes (whatever it held before); with an
error terminal — at any offset, delivered alone or with the last bytes — that error is returned. -/
theorem consume_replaces_exactly (c : Case) (hd : c.dir = .consume) (hc : c.codec ≠ .discard)
    (hs : c.stream ≠ .nil) (hk : c.dstClass = .replace) :
    (c.rterm = .eof → (model c).res = .ok ∧ (model c).obs.val = c.rdata) ∧
    (c.rterm ≠ .eof → (model c).res = .rd c.rterm) := by
  have hm : model c = consume c := by unfold model; rw [hd]
  have h := (specConsume_proj (consume_meets c) hc hs).2.2.2
  rw [hk] at h
  have := specStored_elim (show specStored c (consume c).obs c.rdata = true from h)
  rw [hm]
  exact ⟨fun ht => ⟨this.2.1 ht, (this.1 (this.2.1 ht)).1⟩, this.2.2⟩

example : sampleConsume.dir = .consume ∧ sampleConsume.codec ≠ .discard ∧ sampleConsume.stream ≠ .nil ∧
    sampleConsume.dstClass = .replace ∧ sampleConsume.rterm ≠ .eof := by decide

/-- `*bytes.Buffer` (an `io.ReaderFrom`): the stream's bytes are appended to what it holds. -/
theorem consume_appends_exactly (c : Case) (hd : c.dir = .consume) (hc : c.codec ≠ .discard)
    (hs : c.stream ≠ .nil) (hk : c.dstClass = .append) :
    (c.rterm = .eof → (model c).res = .ok ∧ (model c).obs.val = c.content ++ c.rdata) ∧
    (c.rterm ≠ .eof → (model c).res = .rd c.rterm) := by
  have hm : model c = consume c := by unfold model; rw [hd]
  have h := (specConsume_proj (consume_meets c) hc hs).2.2.2
  rw [hk] at h
  have := specStored_elim (show specStored c (consume c).obs (c.content ++ c.rdata) = true from h)
  rw [hm]
  exact ⟨fun ht => ⟨this.2.1 ht, (this.1 (this.2.1 ht)).1⟩, this.2.2⟩

example : ({ sampleConsume with kind := .buf } : Case).dstClass = .append := by decide

/-- Unmarshalers: with EOF and a method that accepts, the call succeeds and the method was handed
exactly the stream's bytes; a failing method makes the call fail; a read error is returned. The
text consumer does not hand over an empty input (it succeeds and leaves the value alone). -/
theorem consume_unmarshals_exactly (c : Case) (hd : c.dir = .consume) (hc : c.codec ≠ .discard)
    (hs : c.stream ≠ .nil) (hk : c.dstClass = .unmarshal) :
    (c.rterm = .eof → c.flag = 0 → (model c).res = .ok) ∧
    ((model c).res = .ok → c.rterm = .eof ∧
      ((c.flag = 0 ∧ (model c).obs.val = c.rdata) ∨
       (c.codec = .text ∧ c.rdata = [] ∧ (model c).obs.val = c.content))) ∧
    (c.rterm ≠ .eof → (model c).res = .rd c.rterm) := by
  have hm : model c = consume c := by unfold model; rw [hd]
  have h := (specConsume_proj (consume_meets c) hc hs).2.2.2
  rw [hk] at h
  rw [hm]
  unfold specDst at h
  simp only [Bool.and_eq_true, Bool.or_eq_true, bne_iff_ne, beq_iff_eq, ne_eq, Bool.not_eq_true',
    Bool.and_eq_false_iff, List.isEmpty_iff, beq_eq_false_iff_ne, and_assoc] at h
  obtain ⟨h1, h2, h3⟩ := h
  refine ⟨?_, ?_, ?_⟩
  · intro ht hf
    rcases h2 with (h2 | h2) | h2
    · exact absurd ht h2
    · exact absurd hf h2
    · exact h2
  · intro hr
    rcases h1 with h1 | h1
    · exact absurd hr h1
    · exact h1
  · intro ht
    rcases h3 with h3 | h3
    · exact absurd h3 ht
    · exact h3

example : ({ sampleConsume with kind := .bin } : Case).dstClass = .unmarshal ∧
    ({ sampleConsume with codec := .text, kind := .txt } : Case).dstClass = .unmarshal := by decide

/-- An `io.Writer` destination (through `io.Copy`): the writer only ever holds a prefix of the
stream; with an honest writer a success means it holds all of it and the stream ended with EOF;
EOF and a writer that refuses nothing give success; a read error is returned unless a write error
came first. -/
theorem consume_into_writer (c : Case) (hd : c.dir = .consume) (hc : c.codec ≠ .discard)
    (hs : c.stream ≠ .nil) (hk : c.dstClass = .sink) :
    (model c).obs.wgot <+: c.rdata ∧
    (c.wlie = false → (model c).res = .ok → (model c).obs.wgot = c.rdata ∧ c.rterm = .eof) ∧
    (c.rterm = .eof → c.snkFaultFree = true → (model c).res = .ok) ∧
    (c.rterm ≠ .eof → (model c).res = .rd c.rterm ∨ (model c).res.isWriteError = true) := by
  have hm : model c = consume c := by unfold model; rw [hd]
  have h := (specConsume_proj (consume_meets c) hc hs).2.2.2
  rw [hk] at h
  rw [hm]
  unfold specDst at h
  simp only [Bool.and_eq_true, Bool.or_eq_true, bne_iff_ne, beq_iff_eq, ne_eq, Bool.not_eq_true',
    Bool.and_eq_false_iff, List.isPrefixOf_iff_prefix, beq_eq_false_iff_ne] at h
  obtain ⟨⟨⟨h1, h2⟩, h3⟩, h4⟩ := h
  refine ⟨h3, ?_, ?_, ?_⟩
  · intro hl hr
    rcases h1 with (h1 | h1) | h1
    · rw [hl] at h1; cases h1
    · exact absurd hr h1
    · exact h1
  · intro ht hf
    rcases h2 with (h2 | h2) | h2
    · exact absurd ht h2
    · rw [hf] at h2; cases h2
    · exact h2
  · intro ht
    rcases h4 with (h4 | h4) | h4
    · exact absurd h4 ht
    · exact Or.inl h4
    · exact Or.inr h4

example : ({ sampleConsume with kind := .wr } : Case).dstClass = .sink := by decide

/-! ## Producers: the bytes written are exactly the source bytes -/

/-- What a single source value must give: `p` are its bytes. -/
def WrittenExactly (c : Case) (p : Bytes) : Prop :=
  (model c).obs.wgot <+: p ∧
  (c.wlie = false → (model c).res = .ok → (model c).obs.wgot = p) ∧
  (c.snkFaultFree = true → (model c).res = .ok ∧ (model c).obs.wgot = p) ∧
  ((model c).res = .ok ∨ (model c).res.isWriteError = true)

/-- Strings, byte slices, pointers to and types over them, errors, Stringers (text), `io.WriterTo`
buffers: the writer only ever holds a prefix of the source bytes; an honest writer and a success
mean it holds exactly the source bytes; a writer that refuses nothing gives success; a failure is
the write error (or `io.ErrShortWrite`). Any caps, any capacity. -/
theorem produce_writes_exactly (c : Case) (hd : c.dir = .produce) (hc : c.codec ≠ .discard)
    (hs : c.stream ≠ .nil) (hk : c.srcClass = .bytes) : WrittenExactly c c.content := by
  have hm : model c = produce c := by unfold model; rw [hd]
  have h := (specProduce_proj (produce_meets c) hc hs).2.2.2
  rw [hk] at h
  have := specWritten_elim (show specWritten c (produce c).obs c.content = true from h)
  unfold WrittenExactly
  rw [hm]
  exact ⟨this.2.2.1, this.1, this.2.1, this.2.2.2⟩

example : ({ sampleProduce with kind := .pnbyt, content := [0, 255, 7] } : Case).srcClass = .bytes ∧
    ({ sampleProduce with codec := .text, kind := .strg, content := [0, 255, 7] } : Case).srcClass = .bytes := by
  decide

/-- Marshalers: a failing method makes the call fail with nothing written; otherwise as above. -/
theorem produce_marshals_exactly (c : Case) (hd : c.dir = .produce) (hc : c.codec ≠ .discard)
    (hs : c.stream ≠ .nil) (hk : c.srcClass = .marshal) :
    (c.flag = 0 → WrittenExactly c c.content) ∧
    (c.flag ≠ 0 → (model c).res.isError = true ∧ (model c).obs.wgot = []) := by
  have hm : model c = produce c := by unfold model; rw [hd]
  have h := (specProduce_proj (produce_meets c) hc hs).2.2.2
  rw [hk] at h
  unfold specSrc at h
  refine ⟨?_, ?_⟩
  · intro hf
    rw [hf] at h
    have := specWritten_elim (show specWritten c (produce c).obs c.content = true from h)
    unfold WrittenExactly
    rw [hm]
    exact ⟨this.2.2.1, this.1, this.2.1, this.2.2.2⟩
  · intro hf
    have hf' : (c.flag == 0) = false := by simpa using hf
    rw [hf'] at h
    simp only [Bool.false_eq_true, if_false, Bool.and_eq_true, List.isEmpty_iff] at h
    rw [hm]; exact h

example : ({ sampleProduce with kind := .bin, flag := 3 } : Case).srcClass = .marshal := by decide

/-- A value that is an `error` AND has other text methods (`fmt.Stringer`, and for the byte-stream
codec `encoding.TextMarshaler`): what is written is exactly its `Error()` text — `"E:"` followed by the
content in the harness's convention, where `String()` would give `"S:"…` and `MarshalText` the bare
content — whenever no method of higher rank applies (`MarshalText` for the text codec,
`MarshalBinary` for the byte-stream codec: these kinds are in the marshal class). -/
theorem produce_writes_error_text_exactly (c : Case) (hd : c.dir = .produce) (hc : c.codec ≠ .discard)
    (hs : c.stream ≠ .nil) (hk : c.srcClass = .errText) : WrittenExactly c (ePre ++ c.content) := by
  have hm : model c = produce c := by unfold model; rw [hd]
  have h := (specProduce_proj (produce_meets c) hc hs).2.2.2
  rw [hk] at h
  have := specWritten_elim (show specWritten c (produce c).obs (ePre ++ c.content) = true from h)
  unfold WrittenExactly
  rw [hm]
  exact ⟨this.2.2.1, this.1, this.2.1, this.2.2.2⟩

example : ({ sampleProduce with kind := .tes, content := [0, 255, 7] } : Case).srcClass = .errText ∧
    ({ sampleProduce with codec := .text, kind := .tes, content := [0, 255, 7] } : Case).srcClass = .marshal ∧
    ({ sampleProduce with codec := .text, kind := .es } : Case).srcClass = .errText ∧
    ({ sampleProduce with codec := .text, kind := .bes } : Case).srcClass = .errText ∧
    ({ sampleProduce with kind := .bes } : Case).srcClass = .marshal ∧
    ({ sampleProduce with codec := .text, kind := .ts } : Case).srcClass = .marshal ∧
    ({ sampleProduce with kind := .ts } : Case).srcClass = .json := by
  decide

/-- Structs and slices: exactly the bytes of the (external) JSON rendering are written; when the
rendering fails the call fails with nothing written. -/
theorem produce_writes_json_exactly (c : Case) (hd : c.dir = .produce) (hc : c.codec ≠ .discard)
    (hs : c.stream ≠ .nil) (hk : c.srcClass = .json) :
    (∀ j, c.aux = some j → WrittenExactly c j) ∧
    (c.aux = none → (model c).res.isError = true ∧ (model c).obs.wgot = []) := by
  have hm : model c = produce c := by unfold model; rw [hd]
  have h := (specProduce_proj (produce_meets c) hc hs).2.2.2
  rw [hk] at h
  unfold specSrc at h
  refine ⟨?_, ?_⟩
  · intro j hj
    rw [hj] at h
    have := specWritten_elim (show specWritten c (produce c).obs j = true from h)
    unfold WrittenExactly
    rw [hm]
    exact ⟨this.2.2.1, this.1, this.2.1, this.2.2.2⟩
  · intro hj
    rw [hj] at h
    simp only [Bool.and_eq_true, List.isEmpty_iff] at h
    rw [hm]; exact h

example : ({ sampleProduce with kind := .pstrct, aux := some [123, 125] } : Case).srcClass = .json := by decide

/-- `io.Reader` payloads (through `io.Copy`): as for a writer destination. -/
theorem produce_copies_reader (c : Case) (hd : c.dir = .produce) (hc : c.codec ≠ .discard)
    (hs : c.stream ≠ .nil) (hk : c.srcClass = .stream) :
    (model c).obs.wgot <+: c.rdata ∧
    (c.wlie = false → (model c).res = .ok → (model c).obs.wgot = c.rdata ∧ c.rterm = .eof) ∧
    (c.rterm = .eof → c.snkFaultFree = true → (model c).res = .ok) ∧
    (c.rterm ≠ .eof → (model c).res = .rd c.rterm ∨ (model c).res.isWriteError = true) := by
  have hm : model c = produce c := by unfold model; rw [hd]
  have h := (specProduce_proj (produce_meets c) hc hs).2.2.2
  rw [hk] at h
  rw [hm]
  unfold specSrc at h
  simp only [Bool.and_eq_true, Bool.or_eq_true, bne_iff_ne, beq_iff_eq, ne_eq, Bool.not_eq_true',
    Bool.and_eq_false_iff, List.isPrefixOf_iff_prefix, beq_eq_false_iff_ne] at h
  obtain ⟨⟨⟨h1, h2⟩, h3⟩, h4⟩ := h
  refine ⟨h3, ?_, ?_, ?_⟩
  · intro hl hr
    rcases h1 with (h1 | h1) | h1
    · rw [hl] at h1; cases h1
    · exact absurd hr h1
    · exact h1
  · intro ht hf
    rcases h2 with (h2 | h2) | h2
    · exact absurd ht h2
    · rw [hf] at h2; cases h2
    · exact h2
  · intro ht
    rcases h4 with (h4 | h4) | h4
    · exact absurd h4 ht
    · exact Or.inl h4
    · exact Or.inr h4

example : sampleProduce.dir = .produce ∧ sampleProduce.codec ≠ .discard ∧ sampleProduce.stream ≠ .nil ∧
    sampleProduce.srcClass = .stream := by decide

/-- A write error at any offset is returned, never a shorter success: an honest writer whose
capacity is smaller than what has to be written makes the call fail, with at most `l` bytes out.
(`p`: the source bytes — the content, the payload stream, or the JSON rendering.) -/
theorem write_error_is_returned (c : Case) (hd : c.dir = .produce) (hc : c.codec ≠ .discard)
    (hs : c.stream ≠ .nil) (hl : c.wlie = false) (l : Nat) (hlim : c.wlimit = some l) (p : Bytes)
    (hp : (c.srcClass = .bytes ∧ p = c.content) ∨ (c.srcClass = .marshal ∧ c.flag = 0 ∧ p = c.content) ∨
          (c.srcClass = .json ∧ c.aux = some p) ∨ (c.srcClass = .stream ∧ p = c.rdata) ∨
          (c.srcClass = .errText ∧ p = ePre ++ c.content))
    (hshort : l < p.length) :
    (model c).res ≠ .ok ∧ (model c).obs.wgot.length ≤ l := by
  have hm : model c = produce c := by unfold model; rw [hd]
  have hw : (model c).obs.wgot.length ≤ l := by rw [hm]; exact produce_within c l hlim
  refine ⟨?_, hw⟩
  intro hok
  have hall : (model c).obs.wgot = p := by
    rcases hp with ⟨hk, rfl⟩ | ⟨hk, hf, rfl⟩ | ⟨hk, ha⟩ | ⟨hk, rfl⟩ | ⟨hk, rfl⟩
    · exact (produce_writes_exactly c hd hc hs hk).2.1 hl hok
    · exact ((produce_marshals_exactly c hd hc hs hk).1 hf).2.1 hl hok
    · exact ((produce_writes_json_exactly c hd hc hs hk).1 p ha).2.1 hl hok
    · exact ((produce_copies_reader c hd hc hs hk).2.1 hl hok).1
    · exact (produce_writes_error_text_exactly c hd hc hs hk).2.1 hl hok
  rw [hall] at hw
  omega

example : ∃ c : Case, c.dir = .produce ∧ c.codec ≠ .discard ∧ c.stream ≠ .nil ∧ c.wlie = false ∧
    c.wlimit = some 3 ∧ c.srcClass = .stream ∧ 3 < c.rdata.length :=
  ⟨{ sampleProduce with wlimit := some 3 }, by decide⟩

/-- Round trip of a producer/consumer pair of the text or byte-stream codec: what the producer
wrote for a value with byte content into a writer that refuses nothing, delivered to the consumer
by ANY scripted reader ending in EOF (any chunking, zero-length reads, data with EOF), is stored as
exactly the value's content in a replaced destination. -/
theorem round_trip (p q : Case)
    (hp : p.dir = .produce ∧ p.codec ≠ .discard ∧ p.stream ≠ .nil ∧ p.srcClass = .bytes)
    (hw : p.snkFaultFree = true)
    (hq : q.dir = .consume ∧ q.codec ≠ .discard ∧ q.stream ≠ .nil ∧ q.dstClass = .replace)
    (hwire : q.rdata = (model p).obs.wgot) (heof : q.rterm = .eof) :
    (model p).res = .ok ∧ (model q).res = .ok ∧ (model q).obs.val = p.content := by
  have h1 := (produce_writes_exactly p hp.1 hp.2.1 hp.2.2.1 hp.2.2.2).2.2.1 hw
  have h2 := (consume_replaces_exactly q hq.1 hq.2.1 hq.2.2.1 hq.2.2.2).1 heof
  exact ⟨h1.1, h2.1, by rw [h2.2, hwire, h1.2]⟩

example : ∃ p q : Case, (p.dir = .produce ∧ p.codec ≠ .discard ∧ p.stream ≠ .nil ∧ p.srcClass = .bytes) ∧
    p.snkFaultFree = true ∧ (q.dir = .consume ∧ q.codec ≠ .discard ∧ q.stream ≠ .nil ∧ q.dstClass = .replace) ∧
    q.rdata = (model p).obs.wgot ∧ q.rterm = .eof ∧ q.rsched = [1, 0, 1] ∧ q.rtog = true :=
  ⟨{ sampleProduce with codec := .text, kind := .nstr, content := [104, 255, 0], wcaps := [] },
   { sampleConsume with codec := .text, kind := .pstr, rdata := [104, 255, 0], rterm := .eof,
                        rsched := [1, 0, 1] }, by decide⟩

/-! ## Closing -/

/-- "The underlying stream is closed if and only if the closing option was requested": exactly one
`Close` with the option (byte-stream codec, a stream that has `Close`) — also when the data is
refused —, none otherwise; a consumer never closes a writer destination. -/
theorem stream_closed_iff_requested (c : Case) :
    (c.dir = .consume →
      (model c).obs.rcloses = (if c.closeAsked = true then 1 else 0) ∧ (model c).obs.wcloses = 0) ∧
    (c.dir = .produce → (model c).obs.wcloses = (if c.closeAsked = true then 1 else 0)) := by
  refine ⟨?_, ?_⟩
  · intro hd
    have hm : model c = consume c := by unfold model; rw [hd]
    rw [hm]; exact consume_closes c
  · intro hd
    have hm : model c = produce c := by unfold model; rw [hd]
    rw [hm]; exact (produce_closes c).1

/-- The option is honoured also for refused data: nil interface and typed-nil destinations. -/
example : (model { sampleConsume with kind := .nil }).obs.rcloses = 1 ∧
    (model { sampleConsume with kind := .nil }).res = .nilData ∧
    (model { sampleConsume with kind := .pbytNil }).obs.rcloses = 1 ∧
    (model { sampleConsume with kind := .pbytNil }).res = .nilPtr := by decide

/-- "A closable source payload is always closed": an `io.ReadCloser` given to the byte-stream
producer with a writer is closed exactly once, whatever happens to the copy. -/
theorem closable_payload_always_closed (c : Case) (hd : c.dir = .produce) (hc : c.codec = .bytestream)
    (hs : c.stream ≠ .nil) (hk : c.kind.closable = true) : (model c).obs.rcloses = 1 := by
  have hm : model c = produce c := by unfold model; rw [hd]
  rw [hm]; exact (produce_closes c).2 hc hs hk

example : sampleProduce.kind.closable = true ∧ (model sampleProduce).res = .wr werr ∧
    (model sampleProduce).obs.rcloses = 1 ∧ (model sampleProduce).obs.wcloses = 1 := by decide

/-! ## Unsupported, nil and pre-populated data -/

/-- Every destination outside the supported tables gets an error (never a panic: see above). -/
theorem unsupported_destination_yields_error (c : Case) (hd : c.dir = .consume) (hc : c.codec ≠ .discard)
    (hs : c.stream ≠ .nil) (hk : c.dstClass = .unsupported) : (model c).res.isError = true := by
  have hm : model c = consume c := by unfold model; rw [hd]
  have h := (specConsume_proj (consume_meets c) hc hs).2.2.2
  rw [hk] at h
  rw [hm]; exact h

/-- Likewise for source values of the producers. -/
theorem unsupported_source_yields_error (c : Case) (hd : c.dir = .produce) (hc : c.codec ≠ .discard)
    (hs : c.stream ≠ .nil) (hk : c.srcClass = .unsupported) : (model c).res.isError = true := by
  have hm : model c = produce c := by unfold model; rw [hd]
  have h := (specProduce_proj (produce_meets c) hc hs).2.2.2
  rw [hk] at h
  rw [hm]; exact h

/-- What "unsupported" covers: the nil interface, every typed-nil pointer (also of types that
implement a supported interface), and `*interface{}` destinations pre-populated with anything but a
string or a []byte — for all four codecs. -/
theorem nil_and_prepopulated_are_unsupported (k : K) :
    ((feat k).ty = .nil ∨ (feat k).nilPtr = true →
      bcDst k = .unsupported ∧ tcDst k = .unsupported ∧ bpSrc k = .unsupported ∧ tpSrc k = .unsupported) ∧
    (k = .pifNil ∨ k = .pifInt → bcDst k = .unsupported ∧ tcDst k = .unsupported) := by
  cases k <;> simp [feat, bcDst, tcDst, bpSrc, tpSrc]

/-- The refusals are the dedicated errors, before anything is read or written (the text consumer
buffers its input first: there a read error comes first). -/
theorem typed_nil_is_refused (c : Case) (hs : c.stream ≠ .nil) (hn : (feat c.kind).nilPtr = true)
    (hc : c.codec = .bytestream ∨ (c.codec = .text ∧ c.dir = .produce)) :
    (model c).res = .nilPtr ∧ (model c).obs.wgot = [] ∧ (model c).obs.rleft = c.rdata.length := by
  have hty : (feat c.kind).ty ≠ .nil := by
    intro h
    have : ∀ k, (feat k).nilPtr = true → (feat k).ty ≠ .nil := by
      intro k; cases k <;> simp [feat]
    exact this c.kind hn h
  have hbc : ∀ st, bcInner (feat c.kind) c.flag st = (.nilPtr, st) := by
    intro st; unfold bcInner; rw [if_neg hty, hn]; rfl
  have hbp : ∀ st, bpInner (feat c.kind) c.flag c.aux st = (.nilPtr, st) := by
    intro st; unfold bpInner; rw [if_neg hty, hn]; rfl
  have htp : ∀ st, tpInner (feat c.kind) c.flag c.aux st = (.nilPtr, st) := by
    intro st; unfold tpInner; rw [if_neg hty, hn]; rfl
  unfold model
  rcases hc with hc | ⟨hc, hd⟩
  · cases hd : c.dir with
    | consume =>
      unfold consume
      rw [hc]
      simp only []
      rw [if_neg hs, hbc]
      have := closeR_fields c ⟨c.content, c.src, c.snk⟩
      refine ⟨rfl, ?_, ?_⟩
      · show (closeR c ⟨c.content, c.src, c.snk⟩).w.got = []
        rw [this.2.1]; rfl
      · show (closeR c ⟨c.content, c.src, c.snk⟩).r.data.length = _
        rw [this.2.2.1]; rfl
    | produce =>
      unfold produce
      rw [hc]
      simp only []
      rw [if_neg hs, hbp]
      have := closeW_fields c ⟨c.content, c.src, c.snk⟩
      refine ⟨rfl, ?_, ?_⟩
      · show (closeW c ⟨c.content, c.src, c.snk⟩).w.got = []
        rw [this.2.2.1]; rfl
      · show (closeW c ⟨c.content, c.src, c.snk⟩).r.data.length = _
        rw [this.2.1]; rfl
  · rw [hd]
    unfold produce
    rw [hc]
    simp only []
    rw [if_neg hs, htp]
    exact ⟨rfl, rfl, rfl⟩

example : (feat .bufNil).nilPtr = true ∧ (feat .pstrNil).nilPtr = true ∧ (feat .pifNilPtr).nilPtr = true := by
  decide

/-- A nil stream argument is an error and nothing happens. -/
theorem nil_stream_yields_error (c : Case) (hc : c.codec ≠ .discard) (hs : c.stream = .nil) :
    (model c).res = .noStream ∧ (model c).obs.rcloses = 0 ∧ (model c).obs.wcloses = 0 ∧
    (model c).obs.wgot = [] ∧ (model c).obs.val = c.content := by
  unfold model
  cases c.dir with
  | consume =>
    unfold consume
    cases hcd : c.codec with
    | discard => exact absurd hcd hc
    | bytestream => simp only []; rw [if_pos hs]; exact ⟨rfl, rfl, rfl, rfl, rfl⟩
    | text => simp only []; rw [if_pos hs]; exact ⟨rfl, rfl, rfl, rfl, rfl⟩
  | produce =>
    unfold produce
    cases hcd : c.codec with
    | discard => exact absurd hcd hc
    | bytestream => simp only []; rw [if_pos hs]; exact ⟨rfl, rfl, rfl, rfl, rfl⟩
    | text => simp only []; rw [if_pos hs]; exact ⟨rfl, rfl, rfl, rfl, rfl⟩

/-- The discard codec: success, and nothing is read, written, stored or closed. -/
theorem discard_touches_nothing (c : Case) (hc : c.codec = .discard) :
    (model c).res = .ok ∧ (model c).obs.val = c.content ∧ (model c).obs.rleft = c.rdata.length ∧
    (model c).obs.rcloses = 0 ∧ (model c).obs.wcloses = 0 ∧ (model c).obs.wgot = [] := by
  unfold model
  cases c.dir with
  | consume => unfold consume; rw [hc]; exact ⟨rfl, rfl, rfl, rfl, rfl, rfl⟩
  | produce => unfold produce; rw [hc]; exact ⟨rfl, rfl, rfl, rfl, rfl, rfl⟩

/-! ## The loop models -/

/-- The outcome of buffering a scripted stream with `bytes.Buffer.ReadFrom` does not depend on how
the buffer grows (the sizes of the slices it offers to `Read`, all at least `bytes.MinRead`), nor
on the call budget of the model: all the bytes, the terminal with `io.EOF` turned into nil, for
EVERY schedule of the stream (any number of zero-length reads included). -/
theorem buffering_is_chunking_independent (r : Src) (hr : Open r) (sz : Nat → Nat)
    (hsz : ∀ i, minRead ≤ sz i) (f : Nat) (hf : fuel r ≤ f) :
    (readFromLoop srcReader sz f 0 r).1 = (r.data, eofNil r.term, false) := by
  have hpos : ∀ i, 0 < sz i := fun i => Nat.lt_of_lt_of_le (by unfold minRead; omega) (hsz i)
  exact (readFromLoop_spec src_rlaws sz hpos f 0 r hr.inv (Nat.lt_of_lt_of_le (fuel_gt r) hf)).1

example : Open sampleConsume.src ∧ (readAll sampleConsume.src).1 = ([255, 0, 254, 10, 195], some (.user 3), false) :=
  ⟨⟨rfl, rfl⟩, by decide⟩

/-- The kind dispatch table is internally coherent: a typed-nil value has a pointer type, only
`*interface{}` values carry a pre-state, and the nil interface implements nothing. -/
theorem feat_table_coherent (k : K) :
    ((feat k).nilPtr = true → ∃ e, (feat k).ty = .ptr e) ∧
    ((feat k).ipre ≠ .none → (feat k).ty = .ptr .iface) ∧
    ((feat k).ty = .nil → feat k = { ty := .nil }) := by
  cases k <;> simp [feat]

/-! ## The full statement -/

/-- What the text and byte-stream (and discard) part of the property says of every call. -/
def TextAndByteStreamPart : Prop := ∀ c : Case, spec c (model c).obs = true

/-- The property in full. `ExternalRoundTrips` stands for: "for every supported value `v`,
`JSONConsumer` applied to what `JSONProducer` wrote for `v` yields a value equal to `v` (numbers
beyond float64 precision included), and likewise for the XML and YAML pairs" — a statement about
`encoding/json`, `encoding/xml` and `gopkg.in/yaml.v3`, which this development does not model.
It is a parameter here precisely because nothing in Lean proves it. -/
def FullStatement (ExternalRoundTrips : Prop) : Prop :=
  TextAndByteStreamPart ∧ ExternalRoundTrips

/-- What is proved of `FullStatement`: the text / byte-stream / discard part. Missing: the round
trips through the external JSON, XML and YAML libraries; they are TESTED by stream J of the harness
(generated documents and generic trees, integers beyond 2^53 and beyond 2^64, `<>&` in strings,
nested maps and slices), and the two option calls the JSON round trip relies on are facts extracted
from the source (`json_option_facts`). -/
theorem full_statement_partial : TextAndByteStreamPart := model_spec

end RtVerif.C15
