import RtVerif.Model.C07
import RtVerif.Lemmas.C07
import RtVerif.Lemmas.C07Mono
/-
  C07 — property theorems (helpers live in Lemmas/C07.lean).

  The model (`negotiateContentType`, a transcription of the Go double loop with its `bestQ`,
  `bestWild` bookkeeping) is shown equal to the declarative `specChoice` for every Accept header,
  offer list and default; `specChoice` is then characterised: the result is an offer or the
  default, it is a *maximal* candidate for (quality, specificity), every candidate in front of it
  is strictly worse, ranges with q = 0 are never candidates, and an absent header selects the
  first offer.
-/
namespace RtVerif.C07
open RtVerif Bytes

/-- The Go double loop computes the declarative choice — all headers, offers, defaults. -/
theorem negotiate_eq_spec (specs : List Spec) (offers : List Bytes) (d : Bytes) :
    negotiateContentType specs offers d = specChoice specs offers d := by
  unfold negotiateContentType specChoice
  cases offers with
  | nil => rfl
  | cons o os =>
    simp only
    split
    · rfl
    · have hinit : (⟨d, none, 3⟩ : Best).q = none → (⟨d, none, 3⟩ : Best).offer = d := fun _ => rfl
      rw [offer_eq_of_abs _ d (offer_of_none_fold specs (o :: os) _ d hinit)]
      rw [absBest_fold, foldl_pick]
      rfl

/-- Same, from header lines (parsing is total: `parseAccept` is a terminating function). -/
theorem negotiate_header_eq_spec (lines offers : List Bytes) (d : Bytes) :
    negotiateContentType (parseAccept lines) offers d = specChoice (parseAccept lines) offers d :=
  negotiate_eq_spec _ _ _

/-! ### what `specChoice` means -/

theorem firstMax_mem {l : List Cand} {m : Cand} (h : firstMax l = some m) : m ∈ l := by
  induction l generalizing m with
  | nil => simp [firstMax] at h
  | cons c cs ih =>
    simp only [firstMax] at h
    cases hm : firstMax cs with
    | none => rw [hm] at h; simp only [Option.some.injEq] at h; simp [h]
    | some m' =>
      rw [hm] at h
      simp only at h
      split at h
      · simp only [Option.some.injEq] at h; subst h; exact List.mem_cons_of_mem _ (ih hm)
      · simp only [Option.some.injEq] at h; simp [h]

/-- No candidate is strictly better than the chosen one. -/
theorem firstMax_max {l : List Cand} {m : Cand} (h : firstMax l = some m) :
    ∀ c ∈ l, c.better m = false := by
  induction l generalizing m with
  | nil => simp
  | cons c cs ih =>
    simp only [firstMax] at h
    intro x hx
    cases hm : firstMax cs with
    | none =>
      rw [hm] at h; simp only [Option.some.injEq] at h; subst h
      have : cs = [] := by
        cases cs with
        | nil => rfl
        | cons a t => simp only [firstMax] at hm; split at hm <;> (try split at hm) <;> simp at hm
      subst this
      simp only [List.mem_cons, List.not_mem_nil, or_false] at hx
      subst hx
      cases hb : Cand.better x x with
      | false => rfl
      | true => rw [better_iff] at hb; omega
    | some m' =>
      rw [hm] at h
      simp only at h
      have ih' := ih hm
      split at h
      · rename_i hbc
        simp only [Option.some.injEq] at h; subst h
        rcases List.mem_cons.mp hx with rfl | hx'
        · cases hb : Cand.better x m' with
          | false => rfl
          | true => rw [better_iff] at hb hbc; omega
        · exact ih' x hx'
      · rename_i hbc
        simp only [Option.some.injEq] at h; subst h
        rcases List.mem_cons.mp hx with rfl | hx'
        · cases hb : Cand.better x x with
          | false => rfl
          | true => rw [better_iff] at hb; omega
        · have h1 := ih' x hx'
          cases hb : Cand.better x c with
          | false => rfl
          | true =>
            have h2 : ¬ (m'.better c = true) := hbc
            have h3 : ¬ (x.better m' = true) := by simp [h1]
            rw [better_iff] at hb h2 h3; omega

/-- Everything in front of the chosen candidate is strictly worse (ties go to the earlier offer). -/
theorem firstMax_first {l : List Cand} {m : Cand} (h : firstMax l = some m) :
    ∃ pre post, l = pre ++ m :: post ∧ ∀ c ∈ pre, m.better c = true := by
  induction l generalizing m with
  | nil => simp [firstMax] at h
  | cons c cs ih =>
    simp only [firstMax] at h
    cases hm : firstMax cs with
    | none =>
      rw [hm] at h; simp only [Option.some.injEq] at h; subst h
      exact ⟨[], cs, rfl, by simp⟩
    | some m' =>
      rw [hm] at h
      simp only at h
      split at h
      · rename_i hbc
        simp only [Option.some.injEq] at h; subst h
        obtain ⟨pre, post, hl, hpre⟩ := ih hm
        refine ⟨c :: pre, post, by rw [hl]; rfl, ?_⟩
        intro x hx
        rcases List.mem_cons.mp hx with rfl | hx'
        · exact hbc
        · exact hpre x hx'
      · simp only [Option.some.injEq] at h; subst h
        exact ⟨[], cs, rfl, by simp⟩

/-- Every candidate comes from an offer and a range with q > 0 that matches it. -/
theorem mem_candidates {specs : List Spec} {offers : List Bytes} {c : Cand}
    (h : c ∈ candidates specs offers) :
    c.raw ∈ offers ∧ ∃ sp ∈ specs, sp.q.isZero = false ∧ c.q = sp.q ∧
      matchWild sp.value (normalizeOffer c.raw) = some c.wild := by
  simp only [candidates, List.mem_flatMap, candsFor, List.mem_filterMap] at h
  obtain ⟨o, ho, sp, hsp, hc⟩ := h
  split at hc
  · cases hc
  · rename_i hz
    simp only [Option.map_eq_some_iff] at hc
    obtain ⟨w, hw, rfl⟩ := hc
    exact ⟨ho, sp, hsp, by simpa using hz, rfl, hw⟩

/-- T1: the answer is one of the offers, or the stated default. -/
theorem specChoice_mem (specs : List Spec) (offers : List Bytes) (d : Bytes) :
    specChoice specs offers d = d ∨ specChoice specs offers d ∈ offers := by
  unfold specChoice
  cases offers with
  | nil => exact Or.inl rfl
  | cons o os =>
    simp only
    split
    · exact Or.inr (by simp)
    · split
      · exact Or.inl rfl
      · rename_i c hc
        exact Or.inr (mem_candidates (firstMax_mem hc)).1

theorem negotiate_mem (specs : List Spec) (offers : List Bytes) (d : Bytes) :
    negotiateContentType specs offers d = d ∨ negotiateContentType specs offers d ∈ offers := by
  rw [negotiate_eq_spec]; exact specChoice_mem specs offers d

/-- T2/T3: with an Accept header and at least one offer, the chosen offer is matched by a range
with q > 0, nothing acceptable is strictly better, and an equally good candidate never sits in
front of it; if nothing is acceptable the default is returned. -/
theorem negotiate_best (specs : List Spec) (offers : List Bytes) (d : Bytes)
    (hs : specs ≠ []) (ho : offers ≠ []) :
    (candidates specs offers = [] ∧ negotiateContentType specs offers d = d) ∨
    ∃ m pre post, candidates specs offers = pre ++ m :: post ∧
      negotiateContentType specs offers d = m.raw ∧
      (∀ c ∈ candidates specs offers, c.better m = false) ∧
      (∀ c ∈ pre, m.better c = true) := by
  rw [negotiate_eq_spec]
  unfold specChoice
  cases offers with
  | nil => exact absurd rfl ho
  | cons o os =>
    have : specs.isEmpty = false := by cases specs <;> simp_all
    simp only [this]
    cases hm : firstMax (candidates specs (o :: os)) with
    | none =>
      left
      refine ⟨?_, by simp⟩
      cases hc : candidates specs (o :: os) with
      | nil => rfl
      | cons a t => rw [hc] at hm; simp only [firstMax] at hm; split at hm <;> (try split at hm) <;> simp at hm
    | some m =>
      right
      obtain ⟨pre, post, hl, hpre⟩ := firstMax_first hm
      exact ⟨m, pre, post, hl, by simp, firstMax_max hm, hpre⟩

/-- T3: a range with quality 0 never contributes a candidate. -/
theorem zero_q_never_selects {specs : List Spec} {offers : List Bytes} {c : Cand}
    (h : c ∈ candidates specs offers) : c.q.isZero = false := by
  obtain ⟨_, sp, _, hz, hq, _⟩ := mem_candidates h
  rw [hq]; exact hz

/-- T3: no Accept header ⇒ the first offer. -/
theorem no_accept_first_offer (o : Bytes) (os : List Bytes) (d : Bytes) :
    negotiateContentType (parseAccept []) (o :: os) d = o := by
  simp [parseAccept, negotiateContentType]

/-! ### q-values -/

/-- The accumulated numerator and denominator fit Go's `int` (the reason for the digit cap). -/
theorem cap_fits_int : 10 ^ Facts.maxQDigits < 2 ^ 63 := by decide

/-- … and it is not lower than the precision a float64 q-value carries: the reading "digits beyond what the
q-value's own type can hold are not compared" allows a cap of 15 fractional digits, not a coarser one
(with fewer, q=0.1234 and q=0.1239 would tie and the smaller could win the tie-break). -/
theorem cap_keeps_float_precision : 15 ≤ Facts.maxQDigits := by decide

theorem digitsLoop_bound (cap : Nat) (s : Bytes) (i n k : Nat) (hk : k ≤ cap) (hik : i < cap → k = i)
    (hn : n < 10 ^ k) :
    (digitsLoop cap s i n k).1.2 ≤ cap ∧ (digitsLoop cap s i n k).1.1 < 10 ^ (digitsLoop cap s i n k).1.2 := by
  induction s generalizing i n k with
  | nil => simp [digitsLoop, hk, hn]
  | cons b r ih =>
    simp only [digitsLoop]
    split
    · rename_i hd
      split
      · rename_i hlt
        apply ih
        · have := hik hlt; omega
        · intro h; have := hik hlt; omega
        · have hb : b.toNat - 48 < 10 := by
            simp only [isDigit, Bool.and_eq_true, decide_eq_true_eq] at hd
            have := hd.2
            have h2 : b.toNat ≤ 57 := by simpa using UInt8.le_iff_toNat_le.mp this
            omega
          rw [Nat.pow_succ]; omega
      · rename_i hge
        apply ih
        · exact hk
        · intro h; omega
        · exact hn
    · simp [hk, hn]

/-- Every q-value the parser produces has at most `cap` digits and a numerator below `10^digits`;
hence numerator and denominator stay below 2^63. -/
theorem fracPart_wf (int : Nat) (s : Bytes) (q : Q) (h : (fracPart int s).1 = some q) :
    q.digits ≤ Facts.maxQDigits ∧ q.num < 10 ^ q.digits := by
  unfold fracPart at h
  split at h
  · rename_i t
    simp only [Option.some.injEq] at h
    subst h
    exact digitsLoop_bound Facts.maxQDigits t 0 0 0 (Nat.zero_le _) (fun _ => rfl) (by simp)
  · simp only [Option.some.injEq] at h
    subst h; simp

/-- `units` is the exact value: `units / 10^cap = int + num / 10^digits` (cross-multiplied). -/
theorem units_exact (q : Q) (h : q.digits ≤ Facts.maxQDigits) :
    q.units * 10 ^ q.digits = (q.int * 10 ^ q.digits + q.num) * 10 ^ Facts.maxQDigits := by
  unfold Q.units
  have hp : 10 ^ Facts.maxQDigits = 10 ^ (Facts.maxQDigits - q.digits) * 10 ^ q.digits := by
    rw [← Nat.pow_add]; congr 1; omega
  generalize 10 ^ (Facts.maxQDigits - q.digits) = A at hp
  generalize 10 ^ q.digits = B at hp
  generalize 10 ^ Facts.maxQDigits = C at hp
  subst hp
  simp only [Nat.add_mul, Nat.mul_add, Nat.mul_assoc, Nat.mul_comm, Nat.mul_left_comm]

/-- the q-value `expectQuality` produces for `<int>.<ds>` (`fracPart` is its tail after the integer digit) -/
def parsedQ (int : Nat) (ds : Bytes) : Q :=
  ⟨int, (digitsLoop Facts.maxQDigits ds 0 0 0).1.1, (digitsLoop Facts.maxQDigits ds 0 0 0).1.2⟩

theorem fracPart_dot (int : Nat) (ds : Bytes) : (fracPart int (46 :: ds)).1 = some (parsedQ int ds) := rfl

/-- **T5**: a q-value whose digits denote a smaller number never outranks one denoting a larger
number — for digit strings of ANY length (the first `maxQualityDigits` digits are kept, and keeping
a prefix is a floor, which is monotone). `numOf a / 10^|a| ≤ numOf b / 10^|b|` is cross-multiplied. -/
theorem q_value_monotone (int : Nat) (a b : Bytes) (ha : allDigits a = true) (hb : allDigits b = true)
    (h : numOf a * 10 ^ b.length ≤ numOf b * 10 ^ a.length) :
    Q.le (parsedQ int a) (parsedQ int b) = true := by
  have := fracUnits_mono a b ha hb h
  simp only [fracUnits] at this
  simp only [Q.le, Q.units, parsedQ]
  exact decide_eq_true (Nat.add_le_add_left this _)

/-- non-vacuity: 67 fractional digits (the F07a witness) against `0.5` -/
example : allDigits (List.replicate 66 48 ++ [49]) = true ∧ allDigits [53] = true ∧
    numOf (List.replicate 66 48 ++ [49]) * 10 ^ [53].length ≤ numOf [53] * 10 ^ (List.replicate 66 48 ++ [49]).length := by
  decide

/-! ### Accept-Encoding -/

def encPick (offer : Bytes) (sp : Spec) : Option Cand :=
  if sp.value == star || sp.value == offer then some ⟨offer, sp.q, 0⟩ else none

/-- state of the encoding loop as an optional candidate -/
def encAbs (st : Bytes × Option Q) : Option Cand :=
  match st.2 with | none => none | some q => some ⟨st.1, q, 0⟩

theorem encAbs_step (offer : Bytes) (st : Bytes × Option Q) (sp : Spec) :
    encAbs (encStep offer st sp) =
      match encPick offer sp with
      | none => encAbs st
      | some c => pick (encAbs st) c := by
  unfold encStep encPick encAbs
  obtain ⟨so, sq⟩ := st
  by_cases hm : (sp.value == star || sp.value == offer) = true
  · simp only [hm, Bool.and_true, ↓reduceIte]
    cases sq with
    | none => simp [qGtBest, pick]
    | some bq =>
      simp only [qGtBest, pick, Cand.better, Q.lt, Nat.lt_irrefl, decide_false, Bool.and_false,
        Bool.or_false]
      by_cases h : bq.units < sp.q.units <;> simp [h]
  · simp only [hm, Bool.and_false, Bool.false_eq_true, ↓reduceIte]

theorem encAbs_fold (specs : List Spec) (offers : List Bytes) (st : Bytes × Option Q) :
    encAbs (offers.foldl (fun st o => specs.foldl (encStep o) st) st) =
      (encCands specs offers).foldl pick (encAbs st) := by
  induction offers generalizing st with
  | nil => simp [encCands]
  | cons o os ih =>
    simp only [List.foldl_cons, encCands, List.flatMap_cons, List.foldl_append]
    rw [ih]
    congr 1
    clear ih
    induction specs generalizing st with
    | nil => simp
    | cons sp sps ih2 =>
      simp only [List.foldl_cons, List.filterMap_cons]
      rw [ih2, encAbs_step]
      unfold encPick
      split <;> simp_all

theorem enc_none_step (offer : Bytes) (st : Bytes × Option Q) (sp : Spec)
    (h : st.2 = none → st.1 = identity) :
    (encStep offer st sp).2 = none → (encStep offer st sp).1 = identity := by
  unfold encStep
  split
  · intro hq; cases hq
  · exact h

theorem enc_none_fold (specs : List Spec) (offers : List Bytes) (st : Bytes × Option Q)
    (h : st.2 = none → st.1 = identity) :
    (offers.foldl (fun st o => specs.foldl (encStep o) st) st).2 = none →
    (offers.foldl (fun st o => specs.foldl (encStep o) st) st).1 = identity := by
  induction offers generalizing st with
  | nil => exact h
  | cons o os ih =>
    simp only [List.foldl_cons]
    apply ih
    clear ih
    induction specs generalizing st with
    | nil => exact h
    | cons sp sps ih2 =>
      simp only [List.foldl_cons]
      exact ih2 _ (enc_none_step o st sp h)

/-- `NegotiateContentEncoding` computes its documented choice. -/
theorem encoding_eq_spec (specs : List Spec) (offers : List Bytes) :
    negotiateContentEncoding specs offers = specEncoding specs offers := by
  unfold negotiateContentEncoding specEncoding
  have h := encAbs_fold specs offers (identity, none)
  have hi := enc_none_fold specs offers (identity, none) (fun _ => rfl)
  rw [foldl_pick] at h
  simp only [encAbs] at h
  generalize offers.foldl (fun st o => specs.foldl (encStep o) st) (identity, none) = r at h hi
  obtain ⟨ro, rq⟩ := r
  cases rq with
  | none =>
    simp only at h hi
    rw [← h, hi trivial]
  | some q =>
    simp only at h
    rw [← h]

end RtVerif.C07
