import RtVerif.Model.C01
import RtVerif.Props.C05
import RtVerif.Lemmas.C01Bridge
import RtVerif.Lemmas.C01Composite
import RtVerif.Lemmas.C01Allow
import RtVerif.Lemmas.C01CompBridge
import RtVerif.Lemmas.C01SpecLink
/-
  C01 — property theorems for the dispatch model.

  `dispatch` composes `path.Clean`, the per-method trie tables (C05) and the 404/405 decision.
  The theorems lift C05's `lookup_spec` through that composition:

  * `ran_sound`      — the operation that runs is registered under the request's upper-cased method,
                        has a handler, and the cleaned escaped path instantiates its converted key
                        (soundness, naming, literal-over-parameter preference: the whole C05 spec);
  * `refused_unfit`  — when nothing runs, the table of the request's method holds no key that the
                        cleaned path instantiates with non-empty texts (C05 completeness);
  * `allow_exact`    — 405 ⇔ some other method's table matches; the Allow set is exactly the set of
                        those methods, sorted; 404 otherwise;
  * `method_case_insensitive`, `path_only_through_clean`;
  * `allow_exact_templates` — the 404/405 decision in the property's own words, for descriptions all
                        of whose templates are simple: Allow lists exactly the methods under which
                        some template is instantiated segment by segment by the cleaned path;
  * composite segments (`{a}-{b}`, `{id}.json`, `{name}.{ext}`): `allInst_exact` (the Spec's
    enumerator lists exactly the instantiations), `composite_split_instantiates` (what
    `decodeCompositParams` returns is an instantiation whenever the segment text has one),
    `composite_split_unique`, `composite_values_unique`, `composite_values_sepOnce` (where the
    instantiation is unique the handler receives exactly it, decoded, by name),
    `composite_ran_params` (dispatch on a template with composite segments: the operation that
    runs, the texts the trie captures, and that the values received are the decoded texts of an
    instantiation of the whole template), `composite_ran_meets_spec` (the same in terms of the
    Spec's own enumerator `instAll`, read from the template text), and the witnesses of the recorded findings F01g (fixed),
    F01h, F01i.
-/
namespace RtVerif.C01
open RtVerif Bytes

theorem mem_recordsFor {api : Api} {mn : Bytes} {kv : Bytes × Nat} (h : kv ∈ recordsFor api mn) :
    ∃ op, api.ops[kv.2]? = some op ∧ toUpper op.method = mn ∧ hasHandler api op = true ∧
      kv.1 = convert (fullPath api op) := by
  unfold recordsFor at h
  simp only [List.mem_filterMap] at h
  obtain ⟨⟨op, i⟩, hmem, hf⟩ := h
  simp only at hf
  split at hf
  · rename_i hc
    simp only [Option.some.injEq] at hf
    subst hf
    simp only [Bool.and_eq_true, beq_iff_eq] at hc
    have := List.mem_zipIdx hmem
    simp only [Nat.sub_zero, Nat.zero_add] at this
    refine ⟨op, ?_, hc.1, hc.2, rfl⟩
    simp only
    obtain ⟨_, hlt, heq⟩ := this
    rw [List.getElem?_eq_getElem hlt]
    exact congrArg some heq.symm
  · cases hf

/-- what `lookupUnder` found satisfies the whole C05 specification for that method's table -/
theorem lookupUnder_spec {api : Api} {m cleaned : Bytes} {o : C05.LookupOut}
    (h : lookupUnder api m cleaned = some o) :
    C05.specLookup (recordsFor api m) cleaned o = true := by
  unfold lookupUnder C05.route at h
  cases hb : C05.build (recordsFor api m) with
  | ok t =>
    rw [hb] at h
    simp only [Option.some.injEq] at h
    subst h
    exact C05.lookup_spec _ t cleaned hb
  | errReserved => rw [hb] at h; cases h
  | errDupName => rw [hb] at h; cases h

/-- **Soundness of dispatch.** -/
theorem ran_sound (api : Api) (m p : Bytes) (i : Nat) (ps : List (Bytes × Bytes))
    (h : dispatch api m p = .ran i ps) :
    ∃ op names vals, api.ops[i]? = some op ∧ toUpper op.method = toUpper m ∧ hasHandler api op = true ∧
      collectParams (fullPath api op) names vals = some ps ∧
      C05.specLookup (recordsFor api (toUpper m)) (GoPath.clean p) (.found i names vals) = true := by
  unfold dispatch at h
  simp only at h
  cases hc : (methodsOf api).contains (toUpper m) with
  | false =>
    simp only [hc, Bool.false_eq_true, ↓reduceIte] at h
    split at h <;> cases h
  | true =>
    simp only [hc, ↓reduceIte] at h
    cases hl : lookupUnder api (toUpper m) (GoPath.clean p) with
    | none => simp only [hl] at h; split at h <;> cases h
    | some o =>
      cases o with
      | notFound => simp only [hl] at h; split at h <;> cases h
      | found v names vals =>
        simp only [hl] at h
        cases hop : api.ops[v]? with
        | none => simp only [hop] at h; cases h
        | some op =>
          simp only [hop] at h
          cases hps : collectParams (fullPath api op) names vals with
          | none => simp only [hps] at h; cases h
          | some ps' =>
            simp only [hps, Out.ran.injEq] at h
            obtain ⟨rfl, rfl⟩ := h
            have hs := lookupUnder_spec hl
            have hs' := hs
            simp only [C05.specLookup, List.any_eq_true, Bool.and_eq_true, beq_iff_eq] at hs'
            obtain ⟨kv, hkv, hv, _⟩ := hs'
            obtain ⟨op', hop', hm', hh', _⟩ := mem_recordsFor hkv
            rw [hv, hop] at hop'
            simp only [Option.some.injEq] at hop'
            subst hop'
            exact ⟨op, names, vals, hop, hm', hh', hps, hs⟩

theorem mem_sortBytes {x : Bytes} {l : List Bytes} : x ∈ sortBytes l ↔ x ∈ l := by
  induction l with
  | nil => simp [sortBytes]
  | cons y ys ih =>
    have hins : ∀ (a : Bytes) (l : List Bytes), x ∈ sortBytes.ins a l ↔ x = a ∨ x ∈ l := by
      intro a l
      induction l with
      | nil => simp [sortBytes.ins]
      | cons b bs ihb =>
        simp only [sortBytes.ins]
        split
        · simp
        · simp only [List.mem_cons, ihb]
          constructor
          · rintro (h | h | h) <;> simp [h]
          · rintro (h | h | h) <;> simp [h]
    have : sortBytes (y :: ys) = sortBytes.ins y (sortBytes ys) := rfl
    rw [this, hins, ih]; simp

/-- does some key filed under `m` match the cleaned path? -/
def matchesUnder (api : Api) (m cleaned : Bytes) : Bool :=
  match lookupUnder api m cleaned with | some (.found _ _ _) => true | _ => false

/-- **The 404/405 decision**: when no operation runs under the request's method, the answer is 405
with exactly the other methods whose table matches the cleaned path (as a sorted set), or 404 when
there is none. -/
theorem allow_exact (api : Api) (m p : Bytes) :
    (∀ a, dispatch api m p = .notAllowed a →
        a ≠ [] ∧ ∀ x, x ∈ a ↔ (x ∈ methodsOf api ∧ x ≠ toUpper m ∧ matchesUnder api x (GoPath.clean p) = true)) ∧
    (dispatch api m p = .notFound →
        ∀ x ∈ methodsOf api, x ≠ toUpper m → matchesUnder api x (GoPath.clean p) = false) := by
  unfold dispatch
  simp only
  split
  · -- something was found: neither 404 nor 405
    split
    · split
      · exact ⟨fun a h => (by cases h), fun h => (by cases h)⟩
      · exact ⟨fun a h => (by cases h), fun h => (by cases h)⟩
    · exact ⟨fun a h => (by cases h), fun h => (by cases h)⟩
  · split
    · rename_i hempty
      refine ⟨fun a h => (by cases h), ?_⟩
      intro _ x hx hne
      simp only [List.isEmpty_iff, List.filter_eq_nil_iff, Bool.and_eq_true, bne_iff_ne, ne_eq,
        not_and] at hempty
      have := hempty x hx hne
      unfold matchesUnder
      cases hl : lookupUnder api x (GoPath.clean p) with
      | none => rfl
      | some o =>
        cases o with
        | notFound => rfl
        | found v ns vs => rw [hl] at this; simp at this
    · rename_i hne
      refine ⟨?_, fun h => (by cases h)⟩
      intro a h
      simp only [Out.notAllowed.injEq] at h
      subst h
      refine ⟨?_, ?_⟩
      · intro hnil
        apply hne
        cases hf : (methodsOf api).filter _ with
        | nil => rfl
        | cons y ys =>
          rw [hf] at hnil
          have : y ∈ sortBytes (y :: ys) := mem_sortBytes.mpr List.mem_cons_self
          rw [hnil] at this; cases this
      · intro x
        rw [mem_sortBytes, List.mem_filter]
        simp only [Bool.and_eq_true, bne_iff_ne, ne_eq, matchesUnder]
        constructor
        · rintro ⟨h1, h2, h3⟩; exact ⟨h1, h2, h3⟩
        · rintro ⟨h1, h2, h3⟩; exact ⟨h1, h2, h3⟩

/-- **Completeness**: if no operation ran, no key filed under the request's method is instantiated
by the cleaned path with non-empty parameter texts (whenever that method's table was accepted). -/
theorem refused_unfit (api : Api) (m p : Bytes)
    (h : ∀ i ps, dispatch api m p ≠ .ran i ps) (hnp : dispatch api m p ≠ .panic)
    (hm : toUpper m ∈ methodsOf api) (t : C05.Table)
    (hb : C05.build (recordsFor api (toUpper m)) = .ok t) :
    C05.specLookup (recordsFor api (toUpper m)) (GoPath.clean p) .notFound = true := by
  have hspec := C05.lookup_spec _ t (GoPath.clean p) hb
  cases hl : C05.lookup t (GoPath.clean p) with
  | notFound => rw [hl] at hspec; exact hspec
  | found v names vals =>
    exfalso
    have hlu : lookupUnder api (toUpper m) (GoPath.clean p) = some (.found v names vals) := by
      simp [lookupUnder, C05.route, hb, hl]
    have hc : (methodsOf api).contains (toUpper m) = true := by simpa using hm
    unfold dispatch at h hnp
    simp only [hc, ↓reduceIte, hlu] at h hnp
    cases hop : api.ops[v]? with
    | none => simp [hop] at hnp
    | some op =>
      cases hcp : collectParams (fullPath api op) names vals with
      | none => simp [hop, hcp] at hnp
      | some ps => exact h v ps (by simp [hop, hcp])

/-- the request's method is compared in upper case -/
theorem method_case_insensitive (api : Api) (m m' p : Bytes) (h : toUpper m = toUpper m') :
    dispatch api m p = dispatch api m' p := by
  unfold dispatch; rw [h]

/-- only the cleaned path matters: dot segments, duplicate and trailing slashes are normalised -/
theorem path_only_through_clean (api : Api) (m p p' : Bytes) (h : GoPath.clean p = GoPath.clean p') :
    dispatch api m p = dispatch api m p' := by
  unfold dispatch; rw [h]


/-! ## The bridge to the property's own words

`ran_sound` speaks of the trie key `convert (fullPath …)`.  For *simple* templates — every segment
static text or one whole-segment `{name}` — that key is instantiated by a path exactly when the
template is instantiated segment by segment (`instantiates`, the Spec the driver applies), with the
same parameter texts. -/

/-- the template→key conversion of a simple template, segment by segment -/
theorem convert_simple (segs : List SSeg) (hw : WFT segs) : convert (renderT segs) = keyOf segs :=
  convert_renderT segs hw

/-- **Bridge** (all simple templates, all rendered paths): trie matching = segment-wise instantiation. -/
theorem key_matches_iff_template_instantiated (segs : List SSeg) (hw : WFT segs) (hne : segs ≠ [])
    (ps : List Bytes) (hps : ∀ q ∈ ps, slash ∉ q) :
    C05.matchKey false (convert (renderT segs) ++ [C05.cTerm]) (renderP ps) =
      (instantiates (renderT segs) (renderP ps)).map (fun l => l.map (·.2)) :=
  simple_template_bridge segs hw hne ps hps

/-- non-vacuity: `/pets/{id}` against `/pets/42` -/
example : WFT [.lit [112, 101, 116, 115], .ph [105, 100]] ∧
    renderT [.lit [112, 101, 116, 115], .ph [105, 100]] = [47, 112, 101, 116, 115, 47, 123, 105, 100, 125] ∧
    instantiates (renderT [.lit [112, 101, 116, 115], .ph [105, 100]]) (renderP [[112, 101, 116, 115], [52, 50]])
      = some [([105, 100], [52, 50])] := by
  refine ⟨?_, rfl, by decide⟩
  intro s hs
  simp only [List.mem_cons, List.not_mem_nil, or_false] at hs
  rcases hs with rfl | rfl <;> decide


/-- **C01 for simple templates, in the property's own words.**  If an operation runs, its method is
the request's (upper-cased), its path template — under the base path — is instantiated segment by
segment by the request's cleaned, still percent-encoded path, and the handler's path parameters are
exactly the percent-decoded texts that instantiate the placeholders, by name. -/
theorem simple_ran_params (api : Api) (m p : Bytes) (i : Nat) (ps : List (Bytes × Bytes))
    (hran : dispatch api m p = .ran i ps) (segs : List SSeg) (hw : WFT segs) (hne : segs ≠ [])
    (hfp : ∀ op, api.ops[i]? = some op → fullPath api op = renderT segs)
    (hroot : GoPath.isRooted p = true) :
    ∃ op raws, api.ops[i]? = some op ∧ toUpper op.method = toUpper m ∧
      instantiates (fullPath api op) (GoPath.clean p) = some raws ∧
      ps = raws.map (fun kv => (kv.1, decode kv.2)) := by
  obtain ⟨op, names, vals, hop, hm, _, hcp, hspec⟩ := ran_sound api m p i ps hran
  have hfp' := hfp op hop
  obtain ⟨hclean, hsegs⟩ := clean_rooted_renderP p hroot
  -- the record that was found is this operation's converted template
  simp only [C05.specLookup, List.any_eq_true, Bool.and_eq_true, beq_iff_eq] at hspec
  obtain ⟨kv, hkv, hv, hfound⟩ := hspec
  obtain ⟨op', hop', _, _, hkey⟩ := mem_recordsFor hkv
  rw [hv, hop] at hop'
  simp only [Option.some.injEq] at hop'
  subst hop'
  rw [hfp', convert_renderT segs hw] at hkey
  -- bridge facts for this template and path
  have hbridge := matchKey_keyOf segs hw (pathSegs p) hsegs
  have hinst := instantiates_simple segs hw hne (pathSegs p) hsegs
  rw [hfp'] at hcp
  refine ⟨op, ?_⟩
  rw [hfp', hclean, hinst]
  unfold C05.foundOk at hfound
  rw [hkey, hclean] at hfound
  by_cases hpk : C05.isParamKey (keyOf segs) = true
  · -- parameterised key
    simp only [hpk, Bool.not_true, Bool.false_eq_true, ↓reduceIte, Bool.and_eq_true, beq_iff_eq] at hfound
    obtain ⟨⟨⟨hmk, hnames⟩, _⟩, _⟩ := hfound
    have hmk' : C05.matchKey false (tailKey segs) (renderP (pathSegs p)) = some vals := hmk
    rw [hbridge] at hmk'
    simp only [Option.map_eq_some_iff] at hmk'
    obtain ⟨raws, hraws, hvals⟩ := hmk'
    have hnm : names = phNames segs := by
      have : names = C05.namesOf (tailKey segs) := hnames
      rw [this, namesOf_tailKey segs hw]
    have hfst := matchSegs_names segs (pathSegs p) raws hraws
    rw [collectParams_simple segs hw names vals (by rw [hnm]; exact phNames_plain segs hw)] at hcp
    simp only [Option.some.injEq] at hcp
    refine ⟨raws, hop, hm, hraws, ?_⟩
    rw [← hcp, hnm, ← hfst, ← hvals, List.map_map]
    exact zip_map_map (·.1) (fun kv => decode kv.2) raws
  · -- static key: the cleaned path is the template itself
    have hpk' : C05.isParamKey (keyOf segs) = false := by simpa using hpk
    simp only [hpk', Bool.not_false, ↓reduceIte, Bool.and_eq_true, beq_iff_eq, List.isEmpty_iff] at hfound
    obtain ⟨⟨hk, hn0⟩, hv0⟩ := hfound
    subst hn0; subst hv0
    have hself := matchKey_self false (keyOf segs) (keyOf_static_bytes segs hw hpk')
    have : C05.matchKey false (tailKey segs) (renderP (pathSegs p)) = some [] := by
      rw [← hk]; exact hself
    rw [hbridge] at this
    simp only [Option.map_eq_some_iff] at this
    obtain ⟨raws, hraws, hnil⟩ := this
    have hr0 : raws = [] := by simpa using hnil
    subst hr0
    simp only [collectParams, Option.some.injEq] at hcp
    exact ⟨[], hop, hm, hraws, by rw [← hcp]; rfl⟩


/-! ## The 404/405 decision in the property's own words (simple templates) -/

/-- **405 with Allow = exactly the methods under which some template fits** — for a description all
of whose templates are simple (every segment static text or one whole-segment placeholder) and whose
per-method tables the trie router accepted.  `Allow` (as a set) lies between the methods under which
a template is instantiated with non-empty texts and those under which one is instantiated at all;
the two coincide unless the cleaned path is the root `/` (`allow_exact_templates_nonroot`).
No template under the request's own method fits (with non-empty texts), in the 405 and in the 404
case; in the 404 case none does under any method. -/
theorem allow_exact_templates (api : Api) (m p : Bytes)
    (hsimple : ∀ op ∈ api.ops, ∃ segs, WFT segs ∧ segs ≠ [] ∧ fullPath api op = renderT segs)
    (hbuilt : ∀ x ∈ methodsOf api, ∃ t, C05.build (recordsFor api x) = .ok t)
    (hroot : GoPath.isRooted p = true) :
    (∀ a, dispatch api m p = .notAllowed a →
      a ≠ [] ∧
      (∀ x ∈ a, x ∈ methodsOf api ∧ x ≠ toUpper m ∧
        ∃ op ∈ api.ops, toUpper op.method = x ∧
          (instantiates (fullPath api op) (GoPath.clean p)).isSome = true) ∧
      (∀ op ∈ api.ops, toUpper op.method ≠ toUpper m →
        fitsStrict (fullPath api op) (GoPath.clean p) = true → toUpper op.method ∈ a)) ∧
    (dispatch api m p = .notFound →
      ∀ op ∈ api.ops, toUpper op.method ≠ toUpper m → fitsStrict (fullPath api op) (GoPath.clean p) = false) ∧
    ((∀ i ps, dispatch api m p ≠ .ran i ps) → dispatch api m p ≠ .panic →
      ∀ op ∈ api.ops, toUpper op.method = toUpper m → fitsStrict (fullPath api op) (GoPath.clean p) = false) := by
  obtain ⟨hclean, hsegs⟩ := clean_rooted_renderP p hroot
  -- the two directions, per method
  have hloose : ∀ x, matchesUnder api x (GoPath.clean p) = true →
      ∃ op ∈ api.ops, toUpper op.method = x ∧ (instantiates (fullPath api op) (GoPath.clean p)).isSome = true := by
    intro x hx
    unfold matchesUnder at hx
    cases hl : lookupUnder api x (GoPath.clean p) with
    | none => rw [hl] at hx; cases hx
    | some o =>
      cases o with
      | notFound => rw [hl] at hx; cases hx
      | found v names vals =>
        have hs := lookupUnder_spec hl
        simp only [C05.specLookup, List.any_eq_true, Bool.and_eq_true, beq_iff_eq] at hs
        obtain ⟨kv, hkv, _, hfound⟩ := hs
        obtain ⟨op, hop, hm', _, hkey⟩ := mem_recordsFor hkv
        have hmem : op ∈ api.ops := List.mem_of_getElem? hop
        obtain ⟨segs, hw, hne, hfp⟩ := hsimple op hmem
        refine ⟨op, hmem, hm', ?_⟩
        rw [hkey, hfp, convert_renderT segs hw, hclean] at hfound
        rw [hfp, hclean]
        exact foundOk_loose _ segs hw hne _ hsegs names vals hfound
  have hstrict : ∀ op ∈ api.ops, toUpper op.method ∈ methodsOf api →
      matchesUnder api (toUpper op.method) (GoPath.clean p) = false →
      fitsStrict (fullPath api op) (GoPath.clean p) = false := by
    intro op hmem hmeth hx
    obtain ⟨segs, hw, hne, hfp⟩ := hsimple op hmem
    obtain ⟨t, hb⟩ := hbuilt _ hmeth
    obtain ⟨i, hi⟩ := recordsFor_of_mem hmem
    have hspec := C05.lookup_spec _ t (GoPath.clean p) hb
    have hlu : lookupUnder api (toUpper op.method) (GoPath.clean p) = some (C05.lookup t (GoPath.clean p)) := by
      simp [lookupUnder, C05.route, hb]
    unfold matchesUnder at hx
    rw [hlu] at hx
    cases hl : C05.lookup t (GoPath.clean p) with
    | found v ns vs => rw [hl] at hx; simp at hx
    | notFound =>
      rw [hl, hclean] at hspec
      rw [hfp, convert_renderT segs hw] at hi
      rw [hfp, hclean]
      exact notFound_unfit _ segs hw hne _ hsegs i hi hspec
  obtain ⟨h405, h404⟩ := allow_exact api m p
  refine ⟨?_, ?_, ?_⟩
  · intro a ha
    obtain ⟨hne, hiff⟩ := h405 a ha
    refine ⟨hne, ?_, ?_⟩
    · intro x hx
      obtain ⟨h1, h2, h3⟩ := (hiff x).mp hx
      exact ⟨h1, h2, hloose x h3⟩
    · intro op hmem hne' hfit
      apply (hiff _).mpr
      refine ⟨mem_methodsOf hmem, hne', ?_⟩
      cases hmu : matchesUnder api (toUpper op.method) (GoPath.clean p) with
      | true => rfl
      | false => rw [hstrict op hmem (mem_methodsOf hmem) hmu] at hfit; cases hfit
  · intro hnf op hmem hne'
    exact hstrict op hmem (mem_methodsOf hmem) (h404 hnf _ (mem_methodsOf hmem) hne')
  · intro hnr hnp op hmem hme
    have hmeth : toUpper m ∈ methodsOf api := hme ▸ mem_methodsOf hmem
    obtain ⟨t, hb⟩ := hbuilt _ hmeth
    have := refused_unfit api m p hnr hnp hmeth t hb
    obtain ⟨segs, hw, hne, hfp⟩ := hsimple op hmem
    obtain ⟨i, hi⟩ := recordsFor_of_mem hmem
    rw [hme, hfp, convert_renderT segs hw] at hi
    rw [hclean] at this
    rw [hfp, hclean]
    exact notFound_unfit _ segs hw hne _ hsegs i hi this

/-- away from the root path "fits" needs no qualification: Allow is *exactly* the set of the other
methods under which some template is instantiated by the cleaned path -/
theorem allow_exact_templates_nonroot (api : Api) (m p : Bytes)
    (hsimple : ∀ op ∈ api.ops, ∃ segs, WFT segs ∧ segs ≠ [] ∧ fullPath api op = renderT segs)
    (hbuilt : ∀ x ∈ methodsOf api, ∃ t, C05.build (recordsFor api x) = .ok t)
    (hroot : GoPath.isRooted p = true) (hk : GoPath.kept p ≠ [])
    (a : List Bytes) (h : dispatch api m p = .notAllowed a) (x : Bytes) :
    x ∈ a ↔ (x ≠ toUpper m ∧ ∃ op ∈ api.ops, toUpper op.method = x ∧
      (instantiates (fullPath api op) (GoPath.clean p)).isSome = true) := by
  obtain ⟨h405, _, _⟩ := allow_exact_templates api m p hsimple hbuilt hroot
  obtain ⟨_, hl, hs⟩ := h405 a h
  constructor
  · intro hx
    obtain ⟨_, h2, h3⟩ := hl x hx
    exact ⟨h2, h3⟩
  · rintro ⟨hne, op, hmem, rfl, hfit⟩
    obtain ⟨segs, hw, hne', hfp⟩ := hsimple op hmem
    rw [hfp] at hfit
    exact hs op hmem hne (by rw [hfp]; exact loose_strict_of_nonroot segs hw hne' p hroot hk hfit)

set_option maxRecDepth 20000 in
/-- non-vacuity: the description GET /pets/{id}, POST /pets meets the hypotheses -/
example :
    (∀ op ∈ exApi.ops, ∃ segs, WFT segs ∧ segs ≠ [] ∧ fullPath exApi op = renderT segs) ∧
    (∀ x ∈ methodsOf exApi, ∃ t, C05.build (recordsFor exApi x) = .ok t) := by
  have hw0 : WFT [.lit [112,101,116,115], .ph [105,100]] := by
    intro s hs
    simp only [List.mem_cons, List.not_mem_nil, or_false] at hs
    rcases hs with rfl | rfl <;> decide
  have hw1 : WFT [.lit [112,101,116,115]] := by
    intro s hs
    simp only [List.mem_cons, List.not_mem_nil, or_false] at hs
    rcases hs with rfl <;> decide
  have hf0 : fullPath exApi ⟨[103,101,116], [47,112,101,116,115,47,123,105,100,125]⟩ = renderT [.lit [112,101,116,115], .ph [105,100]] := by decide
  have hf1 : fullPath exApi ⟨[112,111,115,116],[47,112,101,116,115]⟩ = renderT [.lit [112,101,116,115]] := by decide
  constructor
  · intro op hop
    simp only [exApi, List.mem_cons, List.not_mem_nil, or_false] at hop
    rcases hop with rfl | rfl
    · exact ⟨_, hw0, by simp, hf0⟩
    · exact ⟨_, hw1, by simp, hf1⟩
  · have hm : methodsOf exApi = [[71,69,84],[80,79,83,84]] := by decide
    rw [hm]
    have c00 : (toUpper [103,101,116] == [71,69,84] && hasHandler exApi ⟨[103,101,116], [47,112,101,116,115,47,123,105,100,125]⟩) = true := by decide
    have c01 : (toUpper [112,111,115,116] == [71,69,84] && hasHandler exApi ⟨[112,111,115,116],[47,112,101,116,115]⟩) = false := by decide
    have c10 : (toUpper [103,101,116] == [80,79,83,84] && hasHandler exApi ⟨[103,101,116], [47,112,101,116,115,47,123,105,100,125]⟩) = false := by decide
    have c11 : (toUpper [112,111,115,116] == [80,79,83,84] && hasHandler exApi ⟨[112,111,115,116],[47,112,101,116,115]⟩) = true := by decide
    have hr0 : recordsFor exApi [71,69,84] = [([47,112,101,116,115,47,58,105,100], 0)] := by
      unfold recordsFor
      have : exApi.ops = [⟨[103,101,116], [47,112,101,116,115,47,123,105,100,125]⟩, ⟨[112,111,115,116],[47,112,101,116,115]⟩] := rfl
      simp only [this, List.zipIdx_cons, List.zipIdx_nil, List.filterMap_cons, List.filterMap_nil, c00, c01,
        ↓reduceIte, Bool.false_eq_true, hf0, convert_renderT _ hw0]
      rfl
    have hr1 : recordsFor exApi [80,79,83,84] = [([47,112,101,116,115], 1)] := by
      unfold recordsFor
      have : exApi.ops = [⟨[103,101,116], [47,112,101,116,115,47,123,105,100,125]⟩, ⟨[112,111,115,116],[47,112,101,116,115]⟩] := rfl
      simp only [this, List.zipIdx_cons, List.zipIdx_nil, List.filterMap_cons, List.filterMap_nil, c10, c11,
        ↓reduceIte, Bool.false_eq_true, hf1, convert_renderT _ hw1]
      rfl
    intro x hx
    simp only [List.mem_cons, List.not_mem_nil, or_false] at hx
    rcases hx with rfl | rfl
    · rw [hr0]; exact build_ok_of _ (by decide)
    · rw [hr1]; exact build_ok_of _ (by decide)


/-! ## Composite segments: `pre {n0} st0 {n1} st1 … {nk} stk`

`segText`/`patAfter` spell the pattern text, `renderVals phs vs` the segment text the values `vs`
make of it, `allInst phs t` is the Spec's enumerator of the instantiations of the text `t`. -/

/-- **the Spec's enumerator is exact**: it lists the value lists that reproduce the segment text when
put between the static texts, and only those -/
theorem allInst_exact (phs : List (Bytes × Bytes)) (t : Bytes) (vs : List Bytes) :
    vs ∈ allInst phs t ↔ renderVals phs vs = some t :=
  mem_allInst phs t vs

/-- **what `decodeCompositParams` returns** (names of the placeholders in order, one value each,
never a panic) **is an instantiation whenever the segment text has one at all** — for every pattern
with brace-free names and static texts, adjacent placeholders and empty values included. -/
theorem composite_split_instantiates (n0 st0 : Bytes) (r : List (Bytes × Bytes)) (t : Bytes)
    (hw : PhsWF ((n0, st0) :: r)) :
    ∃ vals, decodeComposite ((patAfter st0 r).length + 2) n0 t (patAfter st0 r) =
        some ((((n0, st0) :: r).map (·.1)).zip vals) ∧
      vals.length = r.length + 1 ∧
      ((allInst ((n0, st0) :: r) t ≠ []) → vals ∈ allInst ((n0, st0) :: r) t) := by
  refine ⟨greedy ((n0, st0) :: r) t, ?_, by simp [greedy_length], ?_⟩
  · apply decodeComposite_eq r _ n0 st0 t hw
    have := segText_length r
    simp only [patAfter, List.length_append]; omega
  · intro hne
    obtain ⟨us, hus⟩ := List.exists_mem_of_ne_nil _ hne
    exact (mem_allInst _ _ _).mpr (greedy_complete _ t ⟨us, (mem_allInst _ _ _).mp hus⟩)

/-- non-vacuity: `{name}.{ext}` against `a.b.c` (two instantiations; the code's is the leftmost) -/
example : PhsWF [([110], [46]), ([101], [])] ∧
    allInst [([110], [46]), ([101], [])] [97, 46, 98, 46, 99] = [[[97], [98, 46, 99]], [[97, 46, 98], [99]]] ∧
    decodeComposite 9 [110] [97, 46, 98, 46, 99] [46, 123, 101, 125] = some [([110], [97]), ([101], [98, 46, 99])] := by
  refine ⟨?_, by decide, by decide⟩
  intro p hp
  simp only [List.mem_cons, List.not_mem_nil, or_false] at hp
  rcases hp with rfl | rfl <;> decide

/-- **unique instantiation ⇒ exactly it**: if `us` is the only instantiation of the segment text,
`decodeCompositParams` returns `us`, by name. -/
theorem composite_split_unique (n0 st0 : Bytes) (r : List (Bytes × Bytes)) (t : Bytes) (us : List Bytes)
    (hw : PhsWF ((n0, st0) :: r)) (hus : us ∈ allInst ((n0, st0) :: r) t)
    (huniq : ∀ vs ∈ allInst ((n0, st0) :: r) t, vs = us) :
    decodeComposite ((patAfter st0 r).length + 2) n0 t (patAfter st0 r) =
      some ((((n0, st0) :: r).map (·.1)).zip us) := by
  obtain ⟨vals, hdc, _, hin⟩ := composite_split_instantiates n0 st0 r t hw
  rw [hdc, huniq vals (hin (List.ne_nil_of_mem hus))]

/-- **C01 for a composite segment, in the property's own words.**  For the template
`A ++ {n0} ++ st0 {n1} st1 … {nk} stk ++ B` (`B` empty or the following segments) and the still
escaped text `raw` the trie captured for `n0`: if `us` is the one instantiation of `raw`, the handler
receives exactly the percent-decoded `us`, by name. -/
theorem composite_values_unique (A B n0 st0 : Bytes) (r : List (Bytes × Bytes)) (raw : Bytes) (us : List Bytes)
    (hw : PhsWF ((n0, st0) :: r))
    (hidx : indexOf (needleOf n0) (A ++ needleOf n0 ++ patAfter st0 r ++ B) = some A.length)
    (hne : patAfter st0 r ≠ []) (hns : slash ∉ patAfter st0 r)
    (hB : B = [] ∨ ∃ B', B = slash :: B')
    (hus : us ∈ allInst ((n0, st0) :: r) raw)
    (huniq : ∀ vs ∈ allInst ((n0, st0) :: r) raw, vs = us) :
    paramsOf (A ++ needleOf n0 ++ patAfter st0 r ++ B) n0 raw =
      some ((((n0, st0) :: r).map (·.1)).zip (us.map decode)) := by
  rw [paramsOf_composite A B n0 st0 r raw hw hidx hne hns hB]
  have := greedy_complete _ raw ⟨us, (mem_allInst _ _ _).mp hus⟩
  rw [huniq _ ((mem_allInst _ _ _).mpr this)]

/-- **the explicit class**: the values `us` render the segment text, and every separator between two
placeholders occurs in the text that remains from the value in front of it on at its designated
place only (`SepOnce`; for a one-byte separator: it occurs neither in that value nor behind it,
`onlyAt_single`).  Then `us` is the only instantiation and the handler receives it, decoded. -/
theorem composite_values_sepOnce (A B n0 st0 : Bytes) (r : List (Bytes × Bytes)) (raw : Bytes) (us : List Bytes)
    (hw : PhsWF ((n0, st0) :: r))
    (hidx : indexOf (needleOf n0) (A ++ needleOf n0 ++ patAfter st0 r ++ B) = some A.length)
    (hne : patAfter st0 r ≠ []) (hns : slash ∉ patAfter st0 r)
    (hB : B = [] ∨ ∃ B', B = slash :: B')
    (hus : renderVals ((n0, st0) :: r) us = some raw) (hsep : SepOnce ((n0, st0) :: r) us) :
    (∀ vs ∈ allInst ((n0, st0) :: r) raw, vs = us) ∧
    paramsOf (A ++ needleOf n0 ++ patAfter st0 r ++ B) n0 raw =
      some ((((n0, st0) :: r).map (·.1)).zip (us.map decode)) := by
  have huniq : ∀ vs ∈ allInst ((n0, st0) :: r) raw, vs = us := fun vs hvs =>
    unique_of_sepOnce _ us raw hus hsep vs ((mem_allInst _ _ _).mp hvs)
  exact ⟨huniq, composite_values_unique A B n0 st0 r raw us hw hidx hne hns hB ((mem_allInst _ _ _).mpr hus) huniq⟩

/-- non-vacuity: template `/f/{n}.{e}/x`, captured text `a%2Eb.c` (the escaped dot belongs to the
value): the class holds and the handler receives n = `a.b`, e = `c` -/
example :
    let A : Bytes := [47, 102, 47]
    let B : Bytes := [47, 120]
    let raw : Bytes := [97, 37, 50, 69, 98, 46, 99]
    PhsWF [([110], [46]), ([101], [])] ∧
    indexOf (needleOf [110]) (A ++ needleOf [110] ++ patAfter [46] [([101], [])] ++ B) = some A.length ∧
    renderVals [([110], [46]), ([101], [])] [[97, 37, 50, 69, 98], [99]] = some raw ∧
    SepOnce [([110], [46]), ([101], [])] [[97, 37, 50, 69, 98], [99]] ∧
    paramsOf (A ++ needleOf [110] ++ patAfter [46] [([101], [])] ++ B) [110] raw =
      some [([110], [97, 46, 98]), ([101], [99])] := by
  refine ⟨?_, by decide, by decide, ?_, by decide⟩
  · intro p hp
    simp only [List.mem_cons, List.not_mem_nil, or_false] at hp
    rcases hp with rfl | rfl <;> decide
  · refine ⟨⟨[99], by decide, ?_⟩, trivial⟩
    exact onlyAt_single 46 _ _ (by decide) (by decide)

/-! ### dispatch on templates with composite segments -/

/-- **C01 for templates with composite segments, in the property's own words.**  The template is
`/s1/s2/…`, every segment static text or `pre {n0} st0 {n1} st1 … {nk} stk` (a whole-segment
placeholder included), placeholder names distinct, the converted key one the trie router takes for
parameterised (`/:` in it — not the class F01h).  If an operation runs: its method is the
request's; every static segment equals the path segment at its place and every `pre` is a prefix of
its path segment (`matchX`); the handler receives, per segment, the leftmost splitting of the text
behind `pre`, every fragment percent-decoded, by name (`flatParams`).  And whenever the cleaned
path instantiates the template at all (`InstOf`), the values received are the percent-decoded
texts of an instantiation — of THE instantiation when there is only one. -/
theorem composite_ran_params (api : Api) (m p : Bytes) (i : Nat) (ps : List (Bytes × Bytes))
    (hran : dispatch api m p = .ran i ps) (xs : List XS) (hw : WFX xs)
    (hnd : (allNames xs).Nodup) (hpk : C05.isParamKey (keyX xs) = true)
    (hfp : ∀ op, api.ops[i]? = some op → fullPath api op = renderX xs)
    (hroot : GoPath.isRooted p = true) :
    ∃ op vals, api.ops[i]? = some op ∧ toUpper op.method = toUpper m ∧
      matchX xs (pathSegs p) = some vals ∧ ps = flatParams xs vals ∧
      ((∃ raws, InstOf xs (pathSegs p) raws) →
        ∃ raws, InstOf xs (pathSegs p) raws ∧ ps = raws.map (fun kv => (kv.1, decode kv.2))) := by
  obtain ⟨op, names, vals, hop, hm, _, hcp, hspec⟩ := ran_sound api m p i ps hran
  have hfp' := hfp op hop
  obtain ⟨hclean, hsegs⟩ := clean_rooted_renderP p hroot
  simp only [C05.specLookup, List.any_eq_true, Bool.and_eq_true, beq_iff_eq] at hspec
  obtain ⟨kv, hkv, hv, hfound⟩ := hspec
  obtain ⟨op', hop', _, _, hkey⟩ := mem_recordsFor hkv
  rw [hv, hop] at hop'
  simp only [Option.some.injEq] at hop'
  subst hop'
  rw [hfp', convert_renderX xs hw] at hkey
  unfold C05.foundOk at hfound
  rw [hkey, hclean] at hfound
  simp only [hpk, Bool.not_true, Bool.false_eq_true, ↓reduceIte, Bool.and_eq_true, beq_iff_eq] at hfound
  obtain ⟨⟨⟨hmk, hnames⟩, _⟩, _⟩ := hfound
  have hmk' : C05.matchKey false (tailKeyX xs) (renderP (pathSegs p)) = some vals := hmk
  rw [matchKey_keyX xs hw _ hsegs] at hmk'
  have hnm : names = firstNames xs := by
    have : names = C05.namesOf (tailKeyX xs) := hnames
    rw [this, namesOf_tailKeyX xs hw]
  rw [hfp', hnm] at hcp
  have hcx := collectParams_X [] xs (by simpa using hw) (by simpa using hnd) vals
  simp only [List.nil_append] at hcx
  rw [hcx] at hcp
  simp only [Option.some.injEq] at hcp
  refine ⟨op, vals, hop, hm, hmk', hcp.symm, ?_⟩
  intro hex
  exact ⟨rawParams xs vals, instOf_greedy xs _ vals hmk' hex, by rw [← hcp, flatParams_eq]⟩

/-- non-vacuity: `/f/{n}.{e}` -/
example : WFX [.lit [102], .par [] [110] [46] [([101], [])]] ∧
    renderX [.lit [102], .par [] [110] [46] [([101], [])]] = [47, 102, 47, 123, 110, 125, 46, 123, 101, 125] ∧
    (allNames [.lit [102], .par [] [110] [46] [([101], [])]]).Nodup ∧
    C05.isParamKey (keyX [.lit [102], .par [] [110] [46] [([101], [])]]) = true ∧
    matchX [.lit [102], .par [] [110] [46] [([101], [])]] [[102], [97, 46, 98]] = some [[97, 46, 98]] ∧
    flatParams [.lit [102], .par [] [110] [46] [([101], [])]] [[97, 46, 98]] = [([110], [97]), ([101], [98])] := by
  refine ⟨?_, by decide, by decide, by decide, by decide, by decide⟩
  intro s hs
  simp only [List.mem_cons, List.not_mem_nil, or_false] at hs
  rcases hs with rfl | rfl
  · show List.all [102] plainByte = true; decide
  · refine ⟨by decide, by decide, by decide, by decide, ?_⟩
    intro p hp
    simp only [List.mem_cons, List.not_mem_nil, or_false] at hp
    subst hp; decide

/-- **the `ran` clause of the driver's Spec (`specDispatchC`), route and values, is met** on every
template with composite segments of the class of `composite_ran_params` that the cleaned path
instantiates at all: the operation is registered under the request's method and the values the
handler receives are the percent-decoded texts of one of the instantiations `instAll` lists — of
the only one when `instAll` lists one. -/
theorem composite_ran_meets_spec (api : Api) (m p : Bytes) (i : Nat) (ps : List (Bytes × Bytes))
    (hran : dispatch api m p = .ran i ps) (xs : List XS) (hw : WFX xs) (hne : xs ≠ [])
    (hnd : (allNames xs).Nodup) (hpk : C05.isParamKey (keyX xs) = true)
    (hfp : ∀ op, api.ops[i]? = some op → fullPath api op = renderX xs)
    (hroot : GoPath.isRooted p = true)
    (hfit : fitsLooseC (renderX xs) (GoPath.clean p) = true) :
    ∃ op, api.ops[i]? = some op ∧ toUpper op.method = toUpper m ∧
      (instAll (fullPath api op) (GoPath.clean p)).any
        (fun raws => ps == raws.map (fun kv => (kv.1, decode kv.2))) = true := by
  obtain ⟨op, vals, hop, hm, _, _, himp⟩ := composite_ran_params api m p i ps hran xs hw hnd hpk hfp hroot
  obtain ⟨hclean, hsegs⟩ := clean_rooted_renderP p hroot
  refine ⟨op, hop, hm, ?_⟩
  rw [hfp op hop, hclean]
  rw [hclean] at hfit
  have hex : ∃ raws, InstOf xs (pathSegs p) raws := by
    unfold fitsLooseC at hfit
    cases hl : instAll (renderX xs) (renderP (pathSegs p)) with
    | nil => rw [hl] at hfit; simp at hfit
    | cons r0 rs =>
      exact ⟨r0, (mem_instAll xs hw hne _ hsegs (pathSegs_ne_nil p) r0).mp (by rw [hl]; exact List.mem_cons_self)⟩
  obtain ⟨raws, hinst, hps⟩ := himp hex
  simp only [List.any_eq_true, beq_iff_eq]
  exact ⟨raws, (mem_instAll xs hw hne _ hsegs (pathSegs_ne_nil p) raws).mpr hinst, hps⟩

/-- The full statement for descriptions with composite segments — what the driver's Spec
(`specDispatchC`) demands, for all inputs outside the recorded classes.  Proved of it: the whole
`ran` clause but the preference among templates (`composite_ran_meets_spec`: method, and the values
are the decoded texts of one of the instantiations `instAll` lists), for templates of the class of
`composite_ran_params`; `instAll` is exact there (`mem_instAll`, `allInst_exact`).  NOT proved for
composite templates: the preference clause and the 404/405 clauses in terms of templates (they hold
at the level of the trie key: `ran_sound`, `refused_unfit`, `allow_exact`).  The correspondence
check judges every generated case with this very predicate. -/
def CompositeRanStatement : Prop :=
  ∀ (api : Api) (m p : Bytes),
    (api.ops.all fun op => wellFormedT (fullPath api op)) = true →
    dupKeys api = false → buildRefused api = false → oddStatic api = false →
    staticComposite api (GoPath.clean p) = false → compositeMisfit api (GoPath.clean p) = false →
    specDispatchC api m p (dispatch api m p) = true

/-! ### witnesses of the recorded findings -/

/-- F01g (fixed): the split runs on the escaped text, every fragment is decoded on its own —
`/x/{a}-{b}` with `/x/foo%2Dbar-baz` gives a = `foo-bar`, b = `baz` (the code before the repair
decoded first and split `foo-bar-baz` at the first `-`). -/
theorem F01g_escaped_separator :
    paramsOf [47, 120, 47, 123, 97, 125, 45, 123, 98, 125] [97]
        [102, 111, 111, 37, 50, 68, 98, 97, 114, 45, 98, 97, 122] =
      some [([97], [102, 111, 111, 45, 98, 97, 114]), ([98], [98, 97, 122])] ∧
    decodeComposite 6 [97] (decode [102, 111, 111, 37, 50, 68, 98, 97, 114, 45, 98, 97, 122]) [45, 123, 98, 125] =
      some [([97], [102, 111, 111]), ([98], [98, 97, 114, 45, 98, 97, 122])] := by
  constructor <;> decide

/-- F01h: `/v{major}.{minor}` becomes the key `/v:major`, which the trie router files as static
text (no `/:` in it): only the literal path `/v:major` is matched. -/
theorem F01h_prefix_key_is_static :
    convert [47, 118, 123, 109, 97, 106, 111, 114, 125, 46, 123, 109, 105, 110, 111, 114, 125] =
      [47, 118, 58, 109, 97, 106, 111, 114] ∧
    C05.isParamKey [47, 118, 58, 109, 97, 106, 111, 114] = false := by
  refine ⟨?_, by decide⟩
  rw [convert_cons_ne _ _ (by decide), convert_cons_ne _ _ (by decide)]
  have h : convert [123, 109, 97, 106, 111, 114, 125, 46, 123, 109, 105, 110, 111, 114, 125] =
      [58, 109, 97, 106, 111, 114] := by
    have h := convert_ph [109, 97, 106, 111, 114] [46, 123, 109, 105, 110, 111, 114, 125] (by decide) (by decide)
    have hd : List.dropWhile (fun x => x != slash) [46, 123, 109, 105, 110, 111, 114, 125] = [] := by decide
    rw [hd, convert_nil] at h
    exact h
  rw [h]

/-- F01i: the trie keeps `{id}` of `{id}.json` only; for the captured text `5.xml`, which has no
instantiation, the handler is given id = "" all the same. -/
theorem F01i_misfit_runs_with_empty_value :
    allInst [([105, 100], [46, 106, 115, 111, 110])] [53, 46, 120, 109, 108] = [] ∧
    paramsOf [47, 112, 47, 123, 105, 100, 125, 46, 106, 115, 111, 110] [105, 100] [53, 46, 120, 109, 108] =
      some [([105, 100], [])] := by
  constructor <;> decide

end RtVerif.C01
