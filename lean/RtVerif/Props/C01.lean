import RtVerif.Model.C01
import RtVerif.Props.C05
import RtVerif.Lemmas.C01Bridge
/-
  C01 — property theorems for the dispatch model.

  `dispatch` composes `path.Clean`, the per-method trie tables (C05) and the 404/405 decision.
  The theorems lift C05's `lookup_spec` through that composition:

  * `ran_sound`      — the operation that runs is registered under the request's upper-cased method,
                        has a handler, and the cleaned escaped path instantiates its converted key
                        (soundness, naming, literal-over-parameter preference: the whole C05 spec);
  * `refused_unfit`  — when nothing runs, the table of the request's method holds no key that the
                        cleaned path instantiates with non-empty texts (C05 completeness);
  * `allow_exact`    — 405 ⇔ some other method's table matches; the Allow set is exactly the set of
                        those methods, sorted; 404 otherwise;
  * `method_case_insensitive`, `path_only_through_clean`.
-/
namespace RtVerif.C01
open RtVerif Bytes

theorem mem_recordsFor {api : Api} {mn : Bytes} {kv : Bytes × Nat} (h : kv ∈ recordsFor api mn) :
    ∃ op, api.ops[kv.2]? = some op ∧ toUpper op.method = mn ∧ hasHandler api op = true ∧
      kv.1 = convert (fullPath api op) := by
  unfold recordsFor at h
  simp only [List.mem_filterMap] at h
  obtain ⟨⟨op, i⟩, hmem, hf⟩ := h
  simp only at hf
  split at hf
  · rename_i hc
    simp only [Option.some.injEq] at hf
    subst hf
    simp only [Bool.and_eq_true, beq_iff_eq] at hc
    have := List.mem_zipIdx hmem
    simp only [Nat.sub_zero, Nat.zero_add] at this
    refine ⟨op, ?_, hc.1, hc.2, rfl⟩
    simp only
    obtain ⟨_, hlt, heq⟩ := this
    rw [List.getElem?_eq_getElem hlt]
    exact congrArg some heq.symm
  · cases hf

/-- what `lookupUnder` found satisfies the whole C05 specification for that method's table -/
theorem lookupUnder_spec {api : Api} {m cleaned : Bytes} {o : C05.LookupOut}
    (h : lookupUnder api m cleaned = some o) :
    C05.specLookup (recordsFor api m) cleaned o = true := by
  unfold lookupUnder C05.route at h
  cases hb : C05.build (recordsFor api m) with
  | ok t =>
    rw [hb] at h
    simp only [Option.some.injEq] at h
    subst h
    exact C05.lookup_spec _ t cleaned hb
  | errReserved => rw [hb] at h; cases h
  | errDupName => rw [hb] at h; cases h

/-- **Soundness of dispatch.** -/
theorem ran_sound (api : Api) (m p : Bytes) (i : Nat) (ps : List (Bytes × Bytes))
    (h : dispatch api m p = .ran i ps) :
    ∃ op names vals, api.ops[i]? = some op ∧ toUpper op.method = toUpper m ∧ hasHandler api op = true ∧
      collectParams (fullPath api op) names vals = some ps ∧
      C05.specLookup (recordsFor api (toUpper m)) (GoPath.clean p) (.found i names vals) = true := by
  unfold dispatch at h
  simp only at h
  cases hc : (methodsOf api).contains (toUpper m) with
  | false =>
    simp only [hc, Bool.false_eq_true, ↓reduceIte] at h
    split at h <;> cases h
  | true =>
    simp only [hc, ↓reduceIte] at h
    cases hl : lookupUnder api (toUpper m) (GoPath.clean p) with
    | none => simp only [hl] at h; split at h <;> cases h
    | some o =>
      cases o with
      | notFound => simp only [hl] at h; split at h <;> cases h
      | found v names vals =>
        simp only [hl] at h
        cases hop : api.ops[v]? with
        | none => simp only [hop] at h; cases h
        | some op =>
          simp only [hop] at h
          cases hps : collectParams (fullPath api op) names vals with
          | none => simp only [hps] at h; cases h
          | some ps' =>
            simp only [hps, Out.ran.injEq] at h
            obtain ⟨rfl, rfl⟩ := h
            have hs := lookupUnder_spec hl
            have hs' := hs
            simp only [C05.specLookup, List.any_eq_true, Bool.and_eq_true, beq_iff_eq] at hs'
            obtain ⟨kv, hkv, hv, _⟩ := hs'
            obtain ⟨op', hop', hm', hh', _⟩ := mem_recordsFor hkv
            rw [hv, hop] at hop'
            simp only [Option.some.injEq] at hop'
            subst hop'
            exact ⟨op, names, vals, hop, hm', hh', hps, hs⟩

theorem mem_sortBytes {x : Bytes} {l : List Bytes} : x ∈ sortBytes l ↔ x ∈ l := by
  induction l with
  | nil => simp [sortBytes]
  | cons y ys ih =>
    have hins : ∀ (a : Bytes) (l : List Bytes), x ∈ sortBytes.ins a l ↔ x = a ∨ x ∈ l := by
      intro a l
      induction l with
      | nil => simp [sortBytes.ins]
      | cons b bs ihb =>
        simp only [sortBytes.ins]
        split
        · simp
        · simp only [List.mem_cons, ihb]
          constructor
          · rintro (h | h | h) <;> simp [h]
          · rintro (h | h | h) <;> simp [h]
    have : sortBytes (y :: ys) = sortBytes.ins y (sortBytes ys) := rfl
    rw [this, hins, ih]; simp

/-- does some key filed under `m` match the cleaned path? -/
def matchesUnder (api : Api) (m cleaned : Bytes) : Bool :=
  match lookupUnder api m cleaned with | some (.found _ _ _) => true | _ => false

/-- **The 404/405 decision**: when no operation runs under the request's method, the answer is 405
with exactly the other methods whose table matches the cleaned path (as a sorted set), or 404 when
there is none. -/
theorem allow_exact (api : Api) (m p : Bytes) :
    (∀ a, dispatch api m p = .notAllowed a →
        a ≠ [] ∧ ∀ x, x ∈ a ↔ (x ∈ methodsOf api ∧ x ≠ toUpper m ∧ matchesUnder api x (GoPath.clean p) = true)) ∧
    (dispatch api m p = .notFound →
        ∀ x ∈ methodsOf api, x ≠ toUpper m → matchesUnder api x (GoPath.clean p) = false) := by
  unfold dispatch
  simp only
  split
  · -- something was found: neither 404 nor 405
    split
    · split
      · exact ⟨fun a h => (by cases h), fun h => (by cases h)⟩
      · exact ⟨fun a h => (by cases h), fun h => (by cases h)⟩
    · exact ⟨fun a h => (by cases h), fun h => (by cases h)⟩
  · split
    · rename_i hempty
      refine ⟨fun a h => (by cases h), ?_⟩
      intro _ x hx hne
      simp only [List.isEmpty_iff, List.filter_eq_nil_iff, Bool.and_eq_true, bne_iff_ne, ne_eq,
        not_and] at hempty
      have := hempty x hx hne
      unfold matchesUnder
      cases hl : lookupUnder api x (GoPath.clean p) with
      | none => rfl
      | some o =>
        cases o with
        | notFound => rfl
        | found v ns vs => rw [hl] at this; simp at this
    · rename_i hne
      refine ⟨?_, fun h => (by cases h)⟩
      intro a h
      simp only [Out.notAllowed.injEq] at h
      subst h
      refine ⟨?_, ?_⟩
      · intro hnil
        apply hne
        cases hf : (methodsOf api).filter _ with
        | nil => rfl
        | cons y ys =>
          rw [hf] at hnil
          have : y ∈ sortBytes (y :: ys) := mem_sortBytes.mpr List.mem_cons_self
          rw [hnil] at this; cases this
      · intro x
        rw [mem_sortBytes, List.mem_filter]
        simp only [Bool.and_eq_true, bne_iff_ne, ne_eq, matchesUnder]
        constructor
        · rintro ⟨h1, h2, h3⟩; exact ⟨h1, h2, h3⟩
        · rintro ⟨h1, h2, h3⟩; exact ⟨h1, h2, h3⟩

/-- **Completeness**: if no operation ran, no key filed under the request's method is instantiated
by the cleaned path with non-empty parameter texts (whenever that method's table was accepted). -/
theorem refused_unfit (api : Api) (m p : Bytes)
    (h : ∀ i ps, dispatch api m p ≠ .ran i ps) (hnp : dispatch api m p ≠ .panic)
    (hm : toUpper m ∈ methodsOf api) (t : C05.Table)
    (hb : C05.build (recordsFor api (toUpper m)) = .ok t) :
    C05.specLookup (recordsFor api (toUpper m)) (GoPath.clean p) .notFound = true := by
  have hspec := C05.lookup_spec _ t (GoPath.clean p) hb
  cases hl : C05.lookup t (GoPath.clean p) with
  | notFound => rw [hl] at hspec; exact hspec
  | found v names vals =>
    exfalso
    have hlu : lookupUnder api (toUpper m) (GoPath.clean p) = some (.found v names vals) := by
      simp [lookupUnder, C05.route, hb, hl]
    have hc : (methodsOf api).contains (toUpper m) = true := by simpa using hm
    unfold dispatch at h hnp
    simp only [hc, ↓reduceIte, hlu] at h hnp
    cases hop : api.ops[v]? with
    | none => simp [hop] at hnp
    | some op =>
      cases hcp : collectParams (fullPath api op) names vals with
      | none => simp [hop, hcp] at hnp
      | some ps => exact h v ps (by simp [hop, hcp])

/-- the request's method is compared in upper case -/
theorem method_case_insensitive (api : Api) (m m' p : Bytes) (h : toUpper m = toUpper m') :
    dispatch api m p = dispatch api m' p := by
  unfold dispatch; rw [h]

/-- only the cleaned path matters: dot segments, duplicate and trailing slashes are normalised -/
theorem path_only_through_clean (api : Api) (m p p' : Bytes) (h : GoPath.clean p = GoPath.clean p') :
    dispatch api m p = dispatch api m p' := by
  unfold dispatch; rw [h]


/-! ## The bridge to the property's own words

`ran_sound` speaks of the trie key `convert (fullPath …)`.  For *simple* templates — every segment
static text or one whole-segment `{name}` — that key is instantiated by a path exactly when the
template is instantiated segment by segment (`instantiates`, the Spec the driver applies), with the
same parameter texts. -/

/-- the template→key conversion of a simple template, segment by segment -/
theorem convert_simple (segs : List SSeg) (hw : WFT segs) : convert (renderT segs) = keyOf segs :=
  convert_renderT segs hw

/-- **Bridge** (all simple templates, all rendered paths): trie matching = segment-wise instantiation. -/
theorem key_matches_iff_template_instantiated (segs : List SSeg) (hw : WFT segs) (hne : segs ≠ [])
    (ps : List Bytes) (hps : ∀ q ∈ ps, slash ∉ q) :
    C05.matchKey false (convert (renderT segs) ++ [C05.cTerm]) (renderP ps) =
      (instantiates (renderT segs) (renderP ps)).map (fun l => l.map (·.2)) :=
  simple_template_bridge segs hw hne ps hps

/-- non-vacuity: `/pets/{id}` against `/pets/42` -/
example : WFT [.lit [112, 101, 116, 115], .ph [105, 100]] ∧
    renderT [.lit [112, 101, 116, 115], .ph [105, 100]] = [47, 112, 101, 116, 115, 47, 123, 105, 100, 125] ∧
    instantiates (renderT [.lit [112, 101, 116, 115], .ph [105, 100]]) (renderP [[112, 101, 116, 115], [52, 50]])
      = some [([105, 100], [52, 50])] := by
  refine ⟨?_, rfl, by decide⟩
  intro s hs
  simp only [List.mem_cons, List.not_mem_nil, or_false] at hs
  rcases hs with rfl | rfl <;> decide


/-- **C01 for simple templates, in the property's own words.**  If an operation runs, its method is
the request's (upper-cased), its path template — under the base path — is instantiated segment by
segment by the request's cleaned, still percent-encoded path, and the handler's path parameters are
exactly the percent-decoded texts that instantiate the placeholders, by name. -/
theorem simple_ran_params (api : Api) (m p : Bytes) (i : Nat) (ps : List (Bytes × Bytes))
    (hran : dispatch api m p = .ran i ps) (segs : List SSeg) (hw : WFT segs) (hne : segs ≠ [])
    (hfp : ∀ op, api.ops[i]? = some op → fullPath api op = renderT segs)
    (hroot : GoPath.isRooted p = true) :
    ∃ op raws, api.ops[i]? = some op ∧ toUpper op.method = toUpper m ∧
      instantiates (fullPath api op) (GoPath.clean p) = some raws ∧
      ps = raws.map (fun kv => (kv.1, decode kv.2)) := by
  obtain ⟨op, names, vals, hop, hm, _, hcp, hspec⟩ := ran_sound api m p i ps hran
  have hfp' := hfp op hop
  obtain ⟨hclean, hsegs⟩ := clean_rooted_renderP p hroot
  -- the record that was found is this operation's converted template
  simp only [C05.specLookup, List.any_eq_true, Bool.and_eq_true, beq_iff_eq] at hspec
  obtain ⟨kv, hkv, hv, hfound⟩ := hspec
  obtain ⟨op', hop', _, _, hkey⟩ := mem_recordsFor hkv
  rw [hv, hop] at hop'
  simp only [Option.some.injEq] at hop'
  subst hop'
  rw [hfp', convert_renderT segs hw] at hkey
  -- bridge facts for this template and path
  have hbridge := matchKey_keyOf segs hw (pathSegs p) hsegs
  have hinst := instantiates_simple segs hw hne (pathSegs p) hsegs
  rw [hfp'] at hcp
  refine ⟨op, ?_⟩
  rw [hfp', hclean, hinst]
  unfold C05.foundOk at hfound
  rw [hkey, hclean] at hfound
  by_cases hpk : C05.isParamKey (keyOf segs) = true
  · -- parameterised key
    simp only [hpk, Bool.not_true, Bool.false_eq_true, ↓reduceIte, Bool.and_eq_true, beq_iff_eq] at hfound
    obtain ⟨⟨⟨hmk, hnames⟩, _⟩, _⟩ := hfound
    have hmk' : C05.matchKey false (tailKey segs) (renderP (pathSegs p)) = some vals := hmk
    rw [hbridge] at hmk'
    simp only [Option.map_eq_some_iff] at hmk'
    obtain ⟨raws, hraws, hvals⟩ := hmk'
    have hnm : names = phNames segs := by
      have : names = C05.namesOf (tailKey segs) := hnames
      rw [this, namesOf_tailKey segs hw]
    have hfst := matchSegs_names segs (pathSegs p) raws hraws
    rw [collectParams_simple segs hw names vals (by rw [hnm]; exact phNames_plain segs hw)] at hcp
    simp only [Option.some.injEq] at hcp
    refine ⟨raws, hop, hm, hraws, ?_⟩
    rw [← hcp, hnm, ← hfst, ← hvals, List.map_map]
    exact zip_map_map (·.1) (fun kv => decode kv.2) raws
  · -- static key: the cleaned path is the template itself
    have hpk' : C05.isParamKey (keyOf segs) = false := by simpa using hpk
    simp only [hpk', Bool.not_false, ↓reduceIte, Bool.and_eq_true, beq_iff_eq, List.isEmpty_iff] at hfound
    obtain ⟨⟨hk, hn0⟩, hv0⟩ := hfound
    subst hn0; subst hv0
    have hself := matchKey_self false (keyOf segs) (keyOf_static_bytes segs hw hpk')
    have : C05.matchKey false (tailKey segs) (renderP (pathSegs p)) = some [] := by
      rw [← hk]; exact hself
    rw [hbridge] at this
    simp only [Option.map_eq_some_iff] at this
    obtain ⟨raws, hraws, hnil⟩ := this
    have hr0 : raws = [] := by simpa using hnil
    subst hr0
    simp only [collectParams, Option.some.injEq] at hcp
    exact ⟨[], hop, hm, hraws, by rw [← hcp]; rfl⟩

end RtVerif.C01
