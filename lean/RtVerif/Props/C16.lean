import RtVerif.Model.C16
import RtVerif.Lemmas.C16
/-
  C16 — property theorems (helpers live in Lemmas/C16.lean).

  The model of the codec (`consume`, `produce`: kind dispatch, pipeCSV / bufferedCSV, the three
  writers, the reusing reader over a heap of backing arrays, the reflect calls on the destination
  table) is parameterised by what factgen reads off csv.go (`Cfg.repo`).  The theorems below are
  about `Cfg.repo` itself: they hold for every event stream a standard CSV parse can yield (any
  records, ending in eof or in any error), every option set, every skipped-lines count, every
  destination / source object (any set of implemented interfaces, any value shape, any pre-state of
  the destination table, any failure script).
-/
namespace RtVerif.C16
open RtVerif Bytes

/-- The working tree's csv.go has the shape the proofs are about: clause order of both type
switches, which clause applies which options and uses which transfer function, the nil and
element-type guards, the reflect calls on the table (`SetLen(0)` first), the copy in the container. -/
theorem facts_describe_the_repaired_code : Cfg.repo = Cfg.fixed := repo_is_fixed

/-! ## The property, for the consumer and for the producer -/

/-- CSVConsumer: every destination kind and pre-state, every option set, every parse. -/
theorem consumer_meets_spec (x : KIn) : KSpec x (consume Cfg.repo x) = true := by
  rw [repo_is_fixed]
  unfold KSpec consume
  cases hs : x.srcNil with
  | true => simp [idle_res, Res.isErr]
  | false =>
    simp only [Bool.false_eq_true, ↓reduceIte]
    cases hn : x.dst.isNil with
    | true =>
      have hk : dstKind x.dst = .unsupported := by simp [dstKind, hn]
      simp only [↓reduceIte, hk]
      exact spec_unsupported _ _ _ _ _ msgNilDest (idle_res _ _)
    | false =>
      simp only [Bool.false_eq_true, ↓reduceIte]
      rw [specCore_srcClose]
      exact consumeBody_spec x hn

/-- CSVProducer: every source kind, every option set, every parse, every sink. -/
theorem producer_meets_spec (x : PIn) : PSpec x (produce Cfg.repo x) = true := by
  rw [repo_is_fixed]
  unfold PSpec produce
  cases hs : x.sinkNil with
  | true => simp [Out.fail, Res.isErr]
  | false =>
    simp only [Bool.false_eq_true, ↓reduceIte]
    cases hn : x.src.isNil with
    | true =>
      have hk : srcSupported x.src = false := by simp [srcSupported, hn]
      simp only [↓reduceIte, hk, Bool.false_eq_true]
      exact spec_unsupported _ _ _ _ _ msgNilData rfl
    | false =>
      simp only [Bool.false_eq_true, ↓reduceIte]
      rw [specCore_closes]
      exact produceBody_spec x hn

theorem producer_meets_spec' (x : PIn) : PSpec x (produce Cfg.fixed x) = true := by
  have := producer_meets_spec x
  rwa [repo_is_fixed] at this

/-! ## What the Spec pins down -/

/-- With a supported kind and an environment that does not fail, the Spec leaves no freedom: the
result is `ok` exactly when the parse ended in eof, otherwise it is the parser's error; and on
`ok` the delivery is complete. -/
theorem spec_determines_outcome (k : Kind) (w : WOpts) (ev : Events) (skip : Nat) (o : Out)
    (hk : k ≠ .unsupported) (h : specCore k false w ev skip o = true) :
    o.res = (match ev.term with | .eof => Res.ok | .err e => Res.err e) ∧
    (ev.term = .eof → deliveredOk k w (expected ev skip) o = true) := by
  unfold specCore at h
  cases k with
  | unsupported => exact absurd rfl hk
  | bytes =>
    cases ht : ev.term with
    | err e => simp [ht] at h; simp [h.2]
    | eof =>
      simp only [ht, Bool.false_or, Bool.and_eq_true, Bool.or_eq_true, bne_iff_ne, ne_eq, beq_iff_eq] at h
      refine ⟨h.2.2, fun _ => ?_⟩
      cases h.2.1 with
      | inl hne => exact absurd h.2.2 hne
      | inr hd => exact hd
  | records =>
    cases ht : ev.term with
    | err e => simp [ht] at h; simp [h.2]
    | eof =>
      simp only [ht, Bool.false_or, Bool.and_eq_true, Bool.or_eq_true, bne_iff_ne, ne_eq, beq_iff_eq] at h
      refine ⟨h.2.2, fun _ => ?_⟩
      cases h.2.1 with
      | inl hne => exact absurd h.2.2 hne
      | inr hd => exact hd

/-- "same count": as many records as the parse yields, minus the skipped ones. -/
theorem expected_count (ev : Events) (skip : Nat) :
    (expected ev skip).length = ev.recs.length - skip := by
  simp [expected]

/-- "same order and field text": the i-th delivered record is the (skip+i)-th parsed record. -/
theorem expected_order (ev : Events) (skip i : Nat) :
    (expected ev skip)[i]? = ev.recs[skip + i]? := by
  simp [expected]

/-- skipping beyond the record count delivers nothing (and is not an error) -/
theorem expected_beyond (ev : Events) (skip : Nat) (h : ev.recs.length ≤ skip) : expected ev skip = [] := by
  simp [expected, h]

/-! ## All kinds agree with one another on the same input -/

/-- Two supported destinations given the same input and options: same result; when the parse ends
in eof both hold exactly `drop skip records` (as records, or as their standard CSV text). -/
theorem consumer_kinds_agree (x : KIn) (d₁ d₂ : Dst) (hsrc : x.srcNil = false)
    (h₁ : dstKind d₁ ≠ .unsupported) (h₂ : dstKind d₂ ≠ .unsupported)
    (e₁ : dstEnvFails x.opts d₁ = false) (e₂ : dstEnvFails x.opts d₂ = false) :
    (consume Cfg.repo { x with dst := d₁ }).res = (consume Cfg.repo { x with dst := d₂ }).res ∧
    (x.evOpt.term = .eof →
      deliveredOk (dstKind d₁) (effW x.opts) (expected x.evOpt x.opts.skip) (consume Cfg.repo { x with dst := d₁ }) = true ∧
      deliveredOk (dstKind d₂) (effW x.opts) (expected x.evOpt x.opts.skip) (consume Cfg.repo { x with dst := d₂ }) = true) := by
  obtain ⟨opts, evOpt, evDef, srcNil, srcCloser, dst⟩ := x
  simp only at hsrc e₁ e₂ ⊢
  subst hsrc
  have s₁ := consumer_meets_spec ⟨opts, evOpt, evDef, false, srcCloser, d₁⟩
  have s₂ := consumer_meets_spec ⟨opts, evOpt, evDef, false, srcCloser, d₂⟩
  simp only [KSpec, Bool.false_eq_true, ↓reduceIte, e₁, e₂] at s₁ s₂
  have o₁ := spec_determines_outcome _ _ _ _ _ h₁ s₁
  have o₂ := spec_determines_outcome _ _ _ _ _ h₂ s₂
  exact ⟨o₁.1.trans o₂.1.symm, fun ht => ⟨o₁.2 ht, o₂.2 ht⟩⟩

/-- non-vacuity: a pre-populated, longer table and a ReaderFrom object, three records, skip 1 -/
example :
    let x : KIn := ⟨⟨true, 59, true, 1, false⟩, ⟨[[[97], [98]], [[99]], [[100]]], .eof⟩, ⟨[], .eof⟩, false, false,
      ⟨[], .tab, false, 5, 7, none, false⟩⟩
    let d₂ : Dst := ⟨[.xfer], .other, false, 0, 0, none, false⟩
    x.srcNil = false ∧ dstKind x.dst ≠ .unsupported ∧ dstKind d₂ ≠ .unsupported ∧
      dstEnvFails x.opts x.dst = false ∧ dstEnvFails x.opts d₂ = false ∧
      (consume Cfg.repo x).recs = some [[[99]], [[100]]] ∧
      (consume Cfg.repo { x with dst := d₂ }).sink = some [99, 13, 10, 100, 13, 10] := by
  decide

/-- Two supported sources carrying the same input (a record table holds exactly the parse): the
sink receives the same bytes and the call returns the same result. -/
theorem producer_kinds_agree (x : PIn) (s₁ s₂ : Src) (hsink : x.sinkNil = false)
    (h₁ : srcSupported s₁ = true) (h₂ : srcSupported s₂ = true)
    (htab : x.evOpt = ⟨x.table, .eof⟩)
    (e₁ : srcEnvFails { x with src := s₁ } = false) (e₂ : srcEnvFails { x with src := s₂ } = false) :
    (produce Cfg.repo { x with src := s₁ }).res = .ok ∧ (produce Cfg.repo { x with src := s₂ }).res = .ok ∧
    (produce Cfg.repo { x with src := s₁ }).sink = some (stdEncode (effW x.opts) (x.table.drop x.opts.skip)) ∧
    (produce Cfg.repo { x with src := s₂ }).sink = some (stdEncode (effW x.opts) (x.table.drop x.opts.skip)) := by
  obtain ⟨opts, evOpt, evDef, table, src, sinkNil, sinkFails, sinkCloser⟩ := x
  simp only at hsink htab e₁ e₂ ⊢
  subst hsink
  have ev₁ : srcEvents ⟨opts, evOpt, evDef, table, s₁, false, sinkFails, sinkCloser⟩ = ⟨table, .eof⟩ := by
    simp only [srcEvents]; split <;> simp [htab]
  have ev₂ : srcEvents ⟨opts, evOpt, evDef, table, s₂, false, sinkFails, sinkCloser⟩ = ⟨table, .eof⟩ := by
    simp only [srcEvents]; split <;> simp [htab]
  have p₁ := producer_meets_spec ⟨opts, evOpt, evDef, table, s₁, false, sinkFails, sinkCloser⟩
  have p₂ := producer_meets_spec ⟨opts, evOpt, evDef, table, s₂, false, sinkFails, sinkCloser⟩
  simp only [PSpec, Bool.false_eq_true, ↓reduceIte, h₁, h₂, e₁, e₂, ev₁, ev₂] at p₁ p₂
  have o₁ := spec_determines_outcome .bytes _ _ _ _ (by decide) p₁
  have o₂ := spec_determines_outcome .bytes _ _ _ _ (by decide) p₂
  simp only [deliveredOk, beq_iff_eq, expected] at o₁ o₂
  exact ⟨o₁.1, o₂.1, o₁.2 trivial, o₂.2 trivial⟩

/-- non-vacuity: a BinaryMarshaler object and a record table -/
example :
    let x : PIn := ⟨⟨false, 0, false, 1, false⟩, ⟨[[[97]], [[98], [99]]], .eof⟩, ⟨[], .eof⟩, [[[97]], [[98], [99]]],
      ⟨[.bin], false, .other, false, false⟩, false, false, false⟩
    let s₂ : Src := ⟨[], false, .tab, false, false⟩
    srcSupported x.src = true ∧ srcSupported s₂ = true ∧ srcEnvFails x = false ∧
      srcEnvFails { x with src := s₂ } = false ∧ (produce Cfg.repo x).sink = some [98, 44, 99, 10] := by
  decide

/-- A byte destination of the consumer and the sink of the producer receive the same CSV text. -/
theorem consumer_and_producer_agree (k : KIn) (p : PIn) (hk : k.srcNil = false) (hp : p.sinkNil = false)
    (hd : dstKind k.dst = .bytes) (hs : srcSupported p.src = true)
    (hopts : p.opts = k.opts) (hev : srcEvents p = k.evOpt) (ht : k.evOpt.term = .eof)
    (e₁ : dstEnvFails k.opts k.dst = false) (e₂ : srcEnvFails p = false) :
    (consume Cfg.repo k).sink = (produce Cfg.repo p).sink := by
  have s₁ := consumer_meets_spec k
  have s₂ := producer_meets_spec p
  simp only [KSpec, hk, Bool.false_eq_true, ↓reduceIte, e₁, hd] at s₁
  simp only [PSpec, hp, Bool.false_eq_true, ↓reduceIte, e₂, hs, hopts, hev] at s₂
  have o₁ := (spec_determines_outcome .bytes _ _ _ _ (by decide) s₁).2 ht
  have o₂ := (spec_determines_outcome .bytes _ _ _ _ (by decide) s₂).2 (hev ▸ ht)
  simp only [deliveredOk, beq_iff_eq] at o₁ o₂
  rw [o₁, o₂]

/-- non-vacuity: a string destination of the consumer, a byte-slice source of the producer -/
example :
    let ev : Events := ⟨[[[97], [34]], [[98]]], .eof⟩
    let k : KIn := ⟨⟨false, 9, false, 0, true⟩, ev, ev, false, true, ⟨[], .str, false, 1, 0, none, false⟩⟩
    let p : PIn := ⟨k.opts, ev, ev, [], ⟨[], false, .bytes, false, false⟩, false, false, true⟩
    dstKind k.dst = .bytes ∧ srcSupported p.src = true ∧ srcEvents p = k.evOpt ∧ dstEnvFails k.opts k.dst = false ∧
      srcEnvFails p = false ∧ (produce Cfg.repo p).sink = some [97, 9, 34, 34, 34, 34, 10, 98, 10] := by
  decide

/-! ## No panic, no aliasing, destinations untouched on error -/

theorem consumer_never_panics (x : KIn) : (consume Cfg.repo x).res.isPanic = false := by
  have h := consumer_meets_spec x
  unfold KSpec at h
  split at h
  · cases hr : (consume Cfg.repo x).res <;> simp_all [Res.isErr, Res.isPanic]
  · unfold specCore at h
    simp only [Bool.and_eq_true, Bool.not_eq_true'] at h
    exact h.1

theorem producer_never_panics (x : PIn) : (produce Cfg.repo x).res.isPanic = false := by
  have h := producer_meets_spec x
  unfold PSpec at h
  split at h
  · cases hr : (produce Cfg.repo x).res <;> simp_all [Res.isErr, Res.isPanic]
  · unfold specCore at h
    simp only [Bool.and_eq_true, Bool.not_eq_true'] at h
    exact h.1

/-- The reflect calls on the destination table, as they stand in csv.go: for EVERY slice header the
caller may pass (any length, any capacity, shorter or longer than the input) no call panics, and the
table ends up holding exactly the collected records, with length = capacity = their number. -/
theorem table_calls_never_panic (src : List Slice) (t : Tab) :
    tabRun true src Cfg.repo.tableOps t = (⟨src.map Cell.new, src.length⟩, none) := by
  rw [repo_is_fixed]
  exact tabRun_fixed src t

/-- The records the container keeps, for every reader configuration (ReuseRecord or not), every
skipped-lines count and every parse that ends in eof: their contents in the FINAL heap are
`drop skip records` (no later read clobbers an earlier record), and no two of them share a
backing array. -/
theorem delivered_records_do_not_alias (reuse : Bool) (skip : Nat) (ev : Events) (ht : ev.term = .eof) :
    let p := pipeCSV Cfg.repo.clones reuse .container skip ev
    p.tbl.map p.heap.deref = expected ev skip ∧ List.Pairwise (· ≠ ·) (p.tbl.map (·.arr)) := by
  rw [repo_is_fixed]
  have h := (container_pipe reuse skip ev).2 ht
  exact ⟨h.1, h.2.imp (fun hlt => Nat.ne_of_lt hlt)⟩

/-- non-vacuity and contrast: with ReuseRecord the READER does alias (records 1 and 2 share array 0
here — it is the copy in the container that separates them) -/
example :
    let ev : Events := ⟨[[[97], [98]], [[99], [100]], [[101], [102]]], .eof⟩
    (pipeCSV true true .container 0 ev).tbl.map (·.arr) = [1, 2, 3] ∧
    (pipeCSV false true .container 0 ev).tbl.map (·.arr) = [0, 0, 0] := by
  decide

/-- Malformed input (or any error) leaves a table, byte-slice, string, ReaderFrom or
BinaryUnmarshaler destination exactly as it was. -/
theorem error_leaves_buffered_destination_untouched (x : KIn) (e : Bytes)
    (h1 : x.dst.caps.contains .csvPtr = false) (h2 : x.dst.caps.contains .csvIface = false)
    (h3 : x.dst.caps.contains .io = false) (hs : x.srcNil = false) (hn : x.dst.isNil = false)
    (herr : (consume Cfg.repo x).res = .err e) :
    (consume Cfg.repo x).sink = (x.dst.idle (.err e)).sink ∧
    (consume Cfg.repo x).recs = (x.dst.idle (.err e)).recs ∧
    (consume Cfg.repo x).len = (x.dst.idle (.err e)).len ∧
    (consume Cfg.repo x).cap = (x.dst.idle (.err e)).cap := by
  rw [repo_is_fixed] at herr ⊢
  have key : consumeBody Cfg.fixed x = x.dst.idle (.err e) :=
    consumeBody_error_idle x e h1 h2 h3 (by simpa [consume, hs, hn] using herr)
  simp [consume, hs, hn, key]

/-- non-vacuity: a pre-filled string destination and a parse that fails after one record -/
example :
    let x : KIn := ⟨⟨false, 0, false, 0, false⟩, ⟨[[[97]]], .err [1]⟩, ⟨[], .eof⟩, false, false,
      ⟨[], .str, false, 1, 0, none, false⟩⟩
    (consume Cfg.repo x).res = .err [1] ∧ (consume Cfg.repo x).sink = some (ascii "old") := by
  decide

/-! ## The recorded findings stay real: undo one repair in the configuration and the Spec fails -/

/-- F16a: without `SetLen(0)` a destination table longer than the input panics in `SetCap`. -/
theorem F16a_returns_without_the_repair :
    let cfg := { Cfg.fixed with tableOps := [.growN, .setCapN, .setLenN, .copy] }
    let x : KIn := ⟨⟨false, 0, false, 0, false⟩, ⟨[[[97], [98]], [[99], [100]], [[101], [102]]], .eof⟩, ⟨[], .eof⟩,
      false, false, ⟨[], .tab, false, 5, 5, none, false⟩⟩
    (consume cfg x).res = .panic panicSetCap ∧ KSpec x (consume cfg x) = false := by
  decide

/-- F16b: without the copy in the container, `ReuseRecord` makes every delivered record the last one. -/
theorem F16b_returns_without_the_repair :
    let cfg := { Cfg.fixed with clones := false }
    let x : KIn := ⟨⟨true, 0, false, 0, false⟩, ⟨[[[97], [98]], [[99], [100]], [[101], [102]]], .eof⟩, ⟨[], .eof⟩,
      false, false, ⟨[], .tab, false, 0, 0, none, false⟩⟩
    (consume cfg x).recs = some [[[101], [102]], [[101], [102]], [[101], [102]]] ∧ (consume cfg x).alias = 3 ∧
    KSpec x (consume cfg x) = false := by
  decide

/-- F16c: a BinaryMarshaler clause that does not apply the reader options parses `a;b` as one field. -/
theorem F16c_returns_without_the_repair :
    let cfg := { Cfg.fixed with prodCases := Cfg.fixed.prodCases.map fun c => if c.br = .bin then { c with applyR := false } else c }
    let x : PIn := ⟨⟨false, 0, false, 0, false⟩, ⟨[[[97], [98]]], .eof⟩, ⟨[[[97, 59, 98]]], .eof⟩, [],
      ⟨[.bin], false, .other, false, false⟩, false, false, false⟩
    (produce cfg x).sink = some [97, 59, 98, 10] ∧ PSpec x (produce cfg x) = false := by
  decide

/-- F16d / F16e: without the element-type test a table of a named row type panics in reflect.Copy;
without the nil guard a typed-nil pointer panics in reflect.Value.Type. -/
theorem F16d_F16e_return_without_the_repair :
    let ev : Events := ⟨[[[97]]], .eof⟩
    let xd : KIn := ⟨⟨false, 0, false, 0, false⟩, ev, ev, false, false, ⟨[], .nrow, false, 0, 0, none, false⟩⟩
    let xe : KIn := ⟨⟨false, 0, false, 0, false⟩, ev, ev, false, false, ⟨[], .nilPtr, false, 0, 0, none, false⟩⟩
    KSpec xd (consume { Cfg.fixed with consExact := false } xd) = false ∧
    KSpec xe (consume { Cfg.fixed with consNilGuard := false } xe) = false := by
  decide

/-- F16f: with a plain `Close` of the pipe in the io.WriterTo clause, a reader that gives up before
draining the pipe lets the scheduler report io.ErrClosedPipe instead of the parser's error (the model
takes the adverse choice; the real code did so once in a few thousand runs). -/
theorem F16f_returns_without_the_repair :
    let cfg := { Cfg.fixed with wtCloseWithErr := false }
    let x : PIn := ⟨⟨false, 0, false, 0, false⟩, ⟨[], .err msgInvalidDelim⟩, ⟨[], .eof⟩, [],
      ⟨[.xfer], false, .other, false, false⟩, false, false, false⟩
    (produce cfg x).res = .err msgClosedPipe ∧ PSpec x (produce cfg x) = false ∧
    PSpec x (produce Cfg.fixed x) = true := by
  decide

end RtVerif.C16
