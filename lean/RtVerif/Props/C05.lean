import RtVerif.Model.C05
import RtVerif.Lemmas.C05
import RtVerif.Lemmas.C05Order
/-
  C05 — property theorems for the trie-router model.

  `look` (the DFS that mirrors `doubleArray.lookup`) is related to the naive matcher `matchKey`
  (the Spec) for ALL candidate lists, paths and accumulated values:

  * `look_complete`  — if the DFS fails, no candidate's key is instantiated by the path
                        (strict matcher: parameters start on a non-empty remaining path);
  * `look_sound_pref` — if it succeeds, the reported record descends from a candidate whose key the
                        path instantiates with exactly the reported values, named as in the key, and
                        that candidate is minimal in the literal < parameter < wildcard preference
                        order among all candidates the path instantiates;
  * `look_arity`     — as many values as names: the name-filling loop of `Router.Lookup` cannot index
                        out of range.
-/
namespace RtVerif.C05
open RtVerif Bytes

/-- classification of the first byte of a remaining key -/
theorem head_cases (b : UInt8) :
    b = cTerm ∨ b = cParam ∨ b = cWild ∨
      ((b == cTerm) = false ∧ (b == cParam) = false ∧ (b == cWild) = false) := by
  by_cases h1 : b = cTerm
  · exact Or.inl h1
  · by_cases h2 : b = cParam
    · exact Or.inr (Or.inl h2)
    · by_cases h3 : b = cWild
      · exact Or.inr (Or.inr (Or.inl h3))
      · exact Or.inr (Or.inr (Or.inr ⟨by simpa using h1, by simpa using h2, by simpa using h3⟩))

/-- T2 (completeness, trie level): a failed DFS means no candidate key is instantiated. -/
theorem look_complete (rs : List Rec) (path : Bytes) (vals : List Bytes) (hwf : NulFree rs)
    (h : look rs path vals = none) : ∀ r ∈ rs, matchKey true r.key path = none := by
  induction rs, path, vals using look.induct with
  | case1 rs vals =>
    rw [look.eq_1] at h
    simp only [Option.map_eq_none_iff] at h
    have hleaf := leafOf_none h
    intro r hr
    cases hk : r.key with
    | nil => exact matchKey_nil _ _
    | cons b k =>
      rcases head_cases b with rfl | rfl | rfl | ⟨h1, h2, h3⟩
      · rw [matchKey_term]
        cases k with
        | nil =>
          exfalso
          have : (⟨[], r.names, r.val⟩ : Rec) ∈ advLit cTerm rs :=
            mem_advLit.mpr ⟨r, hr, by simp [hk], rfl, rfl⟩
          exact hleaf _ this rfl
        | cons a t => simp
      · rw [matchKey_param]; simp
      · rw [matchKey_wild]; simp
      · exact matchKey_lit_nil _ _ _ h1 h2 h3
  | case2 rs vals c rest ih1 ih2 =>
    rw [look.eq_2] at h
    -- all three alternatives failed
    have hlit : (if isReserved c = true then none else look (advLit c rs) rest vals) = none := by
      cases hx : (if isReserved c = true then none else look (advLit c rs) rest vals) with
      | none => rfl
      | some x => rw [hx] at h; simp [first] at h
    rw [hlit] at h
    simp only [first] at h
    have hsingle : (if h : hasSingle rs = true then
          look (advSingle rs) (List.dropWhile notPathSep (c :: rest))
            (vals ++ [List.takeWhile notPathSep (c :: rest)]) else none) = none := by
      cases hx : (if h : hasSingle rs = true then
          look (advSingle rs) (List.dropWhile notPathSep (c :: rest))
            (vals ++ [List.takeWhile notPathSep (c :: rest)]) else none) with
      | none => rfl
      | some x => rw [hx] at h; simp at h
    rw [hsingle] at h
    simp only [Option.map_eq_none_iff] at h
    have hwild := leafOf_none h
    intro r hr
    cases hk : r.key with
    | nil => exact matchKey_nil _ _
    | cons b k =>
      rcases head_cases b with rfl | rfl | rfl | ⟨h1, h2, h3⟩
      · rw [matchKey_term]; simp
      · -- single parameter edge
        rw [matchKey_param]
        simp only [List.isEmpty_cons, Bool.and_false, Bool.false_eq_true, ↓reduceIte,
          Option.map_eq_none_iff]
        have hs : hasSingle rs = true := by
          unfold hasSingle
          rw [List.any_eq_true]
          exact ⟨r, hr, by simp [isSingleHead, hk]⟩
        simp only [hs, ↓reduceDIte] at hsingle
        have hmem : (⟨k.dropWhile notKeySep, r.names ++ [k.takeWhile notKeySep], r.val⟩ : Rec) ∈ advSingle rs :=
          mem_advSingle.mpr ⟨r, hr, stepSingle_eq.mpr ⟨k, hk, rfl, rfl, rfl⟩⟩
        exact ih2 hs (nulFree_advSingle hwf) hsingle _ hmem
      · -- wildcard edge
        exfalso
        have hmem : (⟨[], r.names ++ [k.dropLast], r.val⟩ : Rec) ∈ advWild rs :=
          mem_advWild.mpr ⟨r, hr, stepWild_eq.mpr ⟨k, hk, rfl, rfl, rfl⟩⟩
        exact hwild _ hmem rfl
      · -- literal edge
        rw [matchKey_lit_cons _ _ _ _ _ h1 h2 h3]
        by_cases hcb : (c == b) = true
        · simp only [hcb, ↓reduceIte]
          simp only [beq_iff_eq] at hcb
          subst hcb
          have hnr : isReserved c = false := by
            have hnul : c ≠ 0 := by
              intro h0
              have := hwf r hr
              rw [hk, h0] at this
              simp at this
            unfold isReserved
            simp only [h1, h2, h3, Bool.or_self, Bool.false_or, beq_eq_false_iff_ne, ne_eq]
            exact hnul
          simp only [hnr, Bool.false_eq_true, ↓reduceIte] at hlit
          have hmem : (⟨k, r.names, r.val⟩ : Rec) ∈ advLit c rs :=
            mem_advLit.mpr ⟨r, hr, hk, rfl, rfl⟩
          exact ih1 (nulFree_advLit hwf) hlit _ hmem
        · simp [hcb]

/-- T1 + T4 (soundness and preference, trie level). -/
theorem look_sound_pref (rs : List Rec) (path : Bytes) (vals : List Bytes) (f : Found)
    (h : look rs path vals = some f) :
    ∃ r0 ∈ rs, ∃ vs, matchKey true r0.key path = some vs ∧ f.vals = vals ++ vs ∧
      f.r.names = r0.names ++ namesOf r0.key ∧ f.r.val = r0.val ∧
      (NulFree rs → ∀ r ∈ rs, (matchKey true r.key path).isSome = true →
        kindsLe (edgeKinds r0.key) (edgeKinds r.key) = true) := by
  induction rs, path, vals using look.induct generalizing f with
  | case1 rs vals =>
    rw [look.eq_1] at h
    simp only [Option.map_eq_some_iff] at h
    obtain ⟨r, hr, rfl⟩ := h
    obtain ⟨hmem, hkey⟩ := leafOf_some hr
    obtain ⟨r0, hr0, hk, hn, hv⟩ := mem_advLit.mp hmem
    rw [hkey] at hk
    refine ⟨r0, hr0, [], ?_, by simp, ?_, hv, ?_⟩
    · rw [hk, matchKey_term]; simp
    · rw [hk, hn]
      rw [namesOf_lit _ _ cTerm_ne_cParam cTerm_ne_cWild, namesOf_nil]
      simp
    · intro _ r hr hm
      -- only a bare termination key matches the empty path
      cases hkr : r.key with
      | nil => rw [hkr, matchKey_nil] at hm; cases hm
      | cons b k =>
        rw [hkr] at hm
        rcases head_cases b with rfl | rfl | rfl | ⟨h1, h2, h3⟩
        · rw [matchKey_term] at hm
          cases k with
          | nil => rw [hk]; exact kindsLe_refl _
          | cons a t => simp at hm
        · rw [matchKey_param] at hm; simp at hm
        · rw [matchKey_wild] at hm; simp at hm
        · rw [matchKey_lit_nil _ _ _ h1 h2 h3] at hm; cases hm
  | case2 rs vals c rest ih1 ih2 =>
    rw [look.eq_2] at h
    rcases first_some h with hlit | ⟨hlitnone, h2⟩
    · -- literal edge taken
      split at hlit
      · cases hlit
      · rename_i hres
        obtain ⟨r1, hr1, vs, hm, hvals, hnames, hval, hpref⟩ := ih1 f hlit
        obtain ⟨r0, hr0, hk, hn, hv⟩ := mem_advLit.mp hr1
        have hres' : isReserved c = false := by simpa using hres
        unfold isReserved at hres'
        simp only [Bool.or_eq_false_iff] at hres'
        obtain ⟨⟨⟨hp, hw⟩, ht⟩, _⟩ := hres'
        refine ⟨r0, hr0, vs, ?_, hvals, ?_, by rw [hval, hv], ?_⟩
        · rw [hk, matchKey_lit_cons _ _ _ _ _ ht hp hw]; simpa using hm
        · rw [hnames, hn, hk, namesOf_lit _ _ hp hw]
        · intro hwf r hr hmr
          rw [hk, edgeKinds_lit _ _ hp hw]
          cases hkr : r.key with
          | nil => rw [hkr, matchKey_nil] at hmr; cases hmr
          | cons b k =>
            rw [hkr] at hmr
            rcases head_cases b with rfl | rfl | rfl | ⟨h1, h2, h3⟩
            · rw [matchKey_term] at hmr; simp at hmr
            · rw [edgeKinds_param]; simp [kindsLe]
            · rw [edgeKinds_wild]; simp [kindsLe]
            · rw [edgeKinds_lit _ _ h2 h3]
              rw [matchKey_lit_cons _ _ _ _ _ h1 h2 h3] at hmr
              by_cases hcb : (c == b) = true
              · simp only [hcb, ↓reduceIte] at hmr
                simp only [beq_iff_eq] at hcb
                subst hcb
                have hmem : (⟨k, r.names, r.val⟩ : Rec) ∈ advLit c rs :=
                  mem_advLit.mpr ⟨r, hr, hkr, rfl, rfl⟩
                have := hpref (nulFree_advLit hwf) _ hmem hmr
                simpa [kindsLe] using this
              · simp [hcb] at hmr
    · -- the literal alternative failed
      rcases first_some h2 with hsing | ⟨hsingnone, h3⟩
      · -- single parameter edge taken
        split at hsing
        · rename_i hs
          obtain ⟨r1, hr1, vs, hm, hvals, hnames, hval, hpref⟩ := ih2 hs f hsing
          obtain ⟨r0, hr0, hstep⟩ := mem_advSingle.mp hr1
          obtain ⟨k, hk, hk1, hn1, hv1⟩ := stepSingle_eq.mp hstep
          refine ⟨r0, hr0, (c :: rest).takeWhile notPathSep :: vs, ?_, ?_, ?_, by rw [hval, hv1], ?_⟩
          · rw [hk, matchKey_param]
            simp only [List.isEmpty_cons, Bool.and_false, Bool.false_eq_true, ↓reduceIte]
            rw [← hk1, hm]; rfl
          · rw [hvals]; simp
          · rw [hnames, hn1, hk, namesOf_param, hk1]; simp
          · intro hwf r hr hmr
            rw [hk, edgeKinds_param]
            cases hkr : r.key with
            | nil => rw [hkr, matchKey_nil] at hmr; cases hmr
            | cons b k' =>
              rw [hkr] at hmr
              rcases head_cases b with rfl | rfl | rfl | ⟨h1, h2', h3'⟩
              · rw [matchKey_term] at hmr; simp at hmr
              · rw [edgeKinds_param]
                rw [matchKey_param] at hmr
                simp only [List.isEmpty_cons, Bool.and_false, Bool.false_eq_true, ↓reduceIte,
                  Option.isSome_map] at hmr
                have hmem : (⟨k'.dropWhile notKeySep, r.names ++ [k'.takeWhile notKeySep], r.val⟩ : Rec)
                    ∈ advSingle rs :=
                  mem_advSingle.mpr ⟨r, hr, stepSingle_eq.mpr ⟨k', hkr, rfl, rfl, rfl⟩⟩
                have := hpref (nulFree_advSingle hwf) _ hmem hmr
                rw [hk1] at this
                simpa [kindsLe] using this
              · rw [edgeKinds_wild]; simp [kindsLe]
              · -- a literal candidate cannot match: the literal alternative failed
                exfalso
                have hnone := look_complete rs (c :: rest) vals hwf
                -- rebuild: the whole lookup did not fail, so use completeness of the literal child
                rw [matchKey_lit_cons _ _ _ _ _ h1 h2' h3'] at hmr
                by_cases hcb : (c == b) = true
                · simp only [hcb, ↓reduceIte] at hmr
                  simp only [beq_iff_eq] at hcb
                  subst hcb
                  have hnr : isReserved c = false := by
                    have hnul : c ≠ 0 := by
                      intro h0
                      have := hwf r hr
                      rw [hkr, h0] at this
                      simp at this
                    unfold isReserved
                    simp only [h1, h2', h3', Bool.or_self, Bool.false_or, beq_eq_false_iff_ne, ne_eq]
                    exact hnul
                  simp only [hnr, Bool.false_eq_true, ↓reduceIte] at hlitnone
                  have hmem : (⟨k', r.names, r.val⟩ : Rec) ∈ advLit c rs :=
                    mem_advLit.mpr ⟨r, hr, hkr, rfl, rfl⟩
                  have := look_complete _ _ _ (nulFree_advLit hwf) hlitnone _ hmem
                  rw [this] at hmr; cases hmr
                · simp [hcb] at hmr
        · cases hsing
      · -- wildcard edge taken
        simp only [Option.map_eq_some_iff] at h3
        obtain ⟨r1, hr1, rfl⟩ := h3
        obtain ⟨hmem1, _⟩ := leafOf_some hr1
        obtain ⟨r0, hr0, hstep⟩ := mem_advWild.mp hmem1
        obtain ⟨k, hk, hk1, hn1, hv1⟩ := stepWild_eq.mp hstep
        refine ⟨r0, hr0, [c :: rest], ?_, rfl, ?_, hv1, ?_⟩
        · rw [hk, matchKey_wild]; simp
        · rw [hn1, hk, namesOf_wild]
        · intro hwf r hr hmr
          rw [hk, edgeKinds_wild]
          cases hkr : r.key with
          | nil => rw [hkr, matchKey_nil] at hmr; cases hmr
          | cons b k' =>
            rw [hkr] at hmr
            rcases head_cases b with rfl | rfl | rfl | ⟨h1, h2', h3'⟩
            · rw [matchKey_term] at hmr; simp at hmr
            · -- a single-parameter candidate cannot match: that alternative failed
              exfalso
              have hs : hasSingle rs = true := by
                unfold hasSingle
                rw [List.any_eq_true]
                exact ⟨r, hr, by simp [isSingleHead, hkr]⟩
              simp only [hs, ↓reduceDIte] at hsingnone
              rw [matchKey_param] at hmr
              simp only [List.isEmpty_cons, Bool.and_false, Bool.false_eq_true, ↓reduceIte,
                Option.isSome_map] at hmr
              have hmem : (⟨k'.dropWhile notKeySep, r.names ++ [k'.takeWhile notKeySep], r.val⟩ : Rec)
                  ∈ advSingle rs :=
                mem_advSingle.mpr ⟨r, hr, stepSingle_eq.mpr ⟨k', hkr, rfl, rfl, rfl⟩⟩
              have := look_complete _ _ _ (nulFree_advSingle hwf) hsingnone _ hmem
              rw [this] at hmr; cases hmr
            · rw [edgeKinds_wild]; rfl
            · exfalso
              rw [matchKey_lit_cons _ _ _ _ _ h1 h2' h3'] at hmr
              by_cases hcb : (c == b) = true
              · simp only [hcb, ↓reduceIte] at hmr
                simp only [beq_iff_eq] at hcb
                subst hcb
                have hnr : isReserved c = false := by
                  have hnul : c ≠ 0 := by
                    intro h0
                    have := hwf r hr
                    rw [hkr, h0] at this
                    simp at this
                  unfold isReserved
                  simp only [h1, h2', h3', Bool.or_self, Bool.false_or, beq_eq_false_iff_ne, ne_eq]
                  exact hnul
                simp only [hnr, Bool.false_eq_true, ↓reduceIte] at hlitnone
                have hmem : (⟨k', r.names, r.val⟩ : Rec) ∈ advLit c rs :=
                  mem_advLit.mpr ⟨r, hr, hkr, rfl, rfl⟩
                have := look_complete _ _ _ (nulFree_advLit hwf) hlitnone _ hmem
                rw [this] at hmr; cases hmr
              · simp [hcb] at hmr


/-! ## Router level: `Build` then `Lookup` -/

theorem mem_paramRecs {recs : List (Bytes × Nat)} {r : Rec} :
    r ∈ paramRecs recs ↔ ∃ kv ∈ recs, isParamKey kv.1 = true ∧ r = ⟨kv.1 ++ [cTerm], [], kv.2⟩ := by
  unfold paramRecs
  simp only [List.mem_map, List.mem_filter]
  constructor
  · rintro ⟨kv, ⟨hkv, hp⟩, rfl⟩; exact ⟨kv, hkv, hp, rfl⟩
  · rintro ⟨kv, hkv, hp, rfl⟩; exact ⟨kv, ⟨hkv, hp⟩, rfl⟩

theorem build_ok {recs : List (Bytes × Nat)} {t : Table} (h : build recs = .ok t) :
    t.statics = recs.filter (fun kv => !isParamKey kv.1) ∧ t.params = sortRecs (paramRecs recs) ∧
    ∀ kv ∈ recs, isParamKey kv.1 = true → isBadKey kv.1 = false := by
  unfold build at h
  split at h
  · cases h
  · rename_i hbad
    simp only at h
    split at h
    · cases h
    · simp only [BuildOut.ok.injEq] at h
      subst h
      refine ⟨rfl, rfl, ?_⟩
      intro kv hkv hp
      simp only [List.any_eq_true, List.mem_filter, not_exists, not_and, and_imp] at hbad
      have := hbad kv hkv hp
      simpa using this

theorem contains_false {l : Bytes} {c : UInt8} (h : l.contains c = false) : c ∉ l := by
  intro hm
  induction l with
  | nil => cases hm
  | cons a t ih =>
    simp only [Bytes.contains, List.any_cons, Bool.or_eq_false_iff, beq_eq_false_iff_ne] at h ih
    rcases List.mem_cons.mp hm with rfl | hm'
    · exact h.1 rfl
    · exact ih h.2 hm'

theorem nulFree_params {recs : List (Bytes × Nat)} {t : Table} (h : build recs = .ok t) :
    NulFree t.params := by
  obtain ⟨_, hp, hbad⟩ := build_ok h
  intro r hr
  rw [hp, mem_sortRecs, mem_paramRecs] at hr
  obtain ⟨kv, hkv, hpk, rfl⟩ := hr
  have := hbad kv hkv hpk
  simp only [isBadKey, Bool.or_eq_false_iff, List.contains_eq_mem, decide_eq_false_iff_not] at this
  simp only [List.mem_append, List.mem_cons, List.not_mem_nil, or_false, not_or]
  exact ⟨contains_false this.2, fun h0 => chars_distinct.2.2.2.2.2.2.2.2.1 h0.symm⟩

theorem staticLookup_some {st : List (Bytes × Nat)} {p : Bytes} {v : Nat}
    (h : staticLookup st p = some v) : ∃ kv ∈ st, kv.1 = p ∧ kv.2 = v := by
  unfold staticLookup at h
  simp only [Option.map_eq_some_iff] at h
  obtain ⟨kv, hkv, rfl⟩ := h
  have := List.mem_of_getLast? hkv
  simp only [List.mem_filter, beq_iff_eq] at this
  exact ⟨kv, this.1, this.2, rfl⟩

theorem staticLookup_none {st : List (Bytes × Nat)} {p : Bytes}
    (h : staticLookup st p = none) : ∀ kv ∈ st, kv.1 ≠ p := by
  unfold staticLookup at h
  simp only [Option.map_eq_none_iff, List.getLast?_eq_none_iff, List.filter_eq_nil_iff,
    beq_iff_eq] at h
  exact h

/-- **The property, for the model, for every table and every path**: whatever `Build` accepts,
`Lookup`'s answer satisfies the very predicate `specLookup` with which the driver judges the real
code — sound (the path instantiates the reported pattern with exactly the reported values, named as
in the pattern), complete (a miss means no pattern is instantiated with non-empty texts), static
patterns win for equal paths, and a literal is preferred to a parameter, a parameter to a wildcard. -/
theorem lookup_spec (recs : List (Bytes × Nat)) (t : Table) (path : Bytes)
    (hb : build recs = .ok t) : specLookup recs path (lookup t path) = true := by
  obtain ⟨hst, hpar, hbad⟩ := build_ok hb
  have hwf := nulFree_params hb
  unfold lookup
  cases hs : staticLookup t.statics path with
  | some v =>
    simp only
    obtain ⟨kv, hkv, hk, hv⟩ := staticLookup_some hs
    rw [hst, List.mem_filter] at hkv
    simp only [specLookup, List.any_eq_true]
    refine ⟨kv, hkv.1, ?_⟩
    subst hk
    simp only [foundOk, hkv.2, hv, beq_self_eq_true, ↓reduceIte, List.isEmpty_nil, Bool.and_self]
  | none =>
    simp only
    have hnostatic := staticLookup_none hs
    cases hl : look t.params path [] with
    | some f =>
      simp only
      obtain ⟨r0, hr0, vs, hm, hvals, hnames, hval, hpref⟩ := look_sound_pref _ _ _ _ hl
      rw [hpar, mem_sortRecs, mem_paramRecs] at hr0
      obtain ⟨kv, hkv, hpk, rfl⟩ := hr0
      simp only [specLookup, List.any_eq_true]
      refine ⟨kv, hkv, ?_⟩
      simp only at hval hnames hvals hm
      simp only [List.nil_append] at hvals hnames
      simp only [foundOk, hpk, Bool.not_true, Bool.false_eq_true, ↓reduceIte, hval, beq_self_eq_true,
        Bool.true_and, Bool.and_eq_true, hnames, hvals, matchKey_strict_imp _ _ _ hm,
        Bool.not_eq_eq_eq_not, List.all_eq_true, Bool.or_eq_true, Bool.not_eq_true', true_and]
      refine ⟨?_, ?_⟩
      · -- no static pattern equals the path
        rw [Bool.eq_false_iff]
        intro hany
        simp only [List.any_eq_true, Bool.and_eq_true, Bool.not_eq_eq_eq_not, Bool.not_true,
          beq_iff_eq] at hany
        obtain ⟨kv', hkv', hnp, hk'⟩ := hany
        exact hnostatic kv' (by rw [hst, List.mem_filter]; exact ⟨hkv', by simp [hnp]⟩) hk'
      · intro kv' hkv'
        by_cases hq : (isParamKey kv'.1 && (matchKey true (kv'.1 ++ [cTerm]) path).isSome) = true
        · right
          simp only [Bool.and_eq_true] at hq
          have hmem : (⟨kv'.1 ++ [cTerm], [], kv'.2⟩ : Rec) ∈ t.params := by
            rw [hpar, mem_sortRecs, mem_paramRecs]; exact ⟨kv', hkv', hq.1, rfl⟩
          exact hpref hwf _ hmem hq.2
        · left; simpa using hq
    | none =>
      simp only
      have hc := look_complete _ _ _ hwf hl
      simp only [specLookup, List.all_eq_true]
      intro kv hkv
      by_cases hpk : isParamKey kv.1 = true
      · simp only [hpk, Bool.not_true, Bool.false_eq_true, ↓reduceIte]
        have hmem : (⟨kv.1 ++ [cTerm], [], kv.2⟩ : Rec) ∈ t.params := by
          rw [hpar, mem_sortRecs, mem_paramRecs]; exact ⟨kv, hkv, hpk, rfl⟩
        have hnone := hc _ hmem
        simp only at hnone
        cases hm : matchKey false (kv.1 ++ [cTerm]) path with
        | none => rfl
        | some vs =>
          simp only [List.any_eq_true, List.isEmpty_iff]
          apply Classical.byContradiction
          intro hno
          have hne : ∀ v ∈ vs, v ≠ [] := fun v hv hv0 => hno ⟨v, hv, hv0⟩
          rw [matchKey_nonempty_strict _ _ _ hm hne] at hnone
          cases hnone
      · simp only [hpk, Bool.not_false, ↓reduceIte, bne_iff_ne, ne_eq]
        exact hnostatic kv (by rw [hst, List.mem_filter]; exact ⟨hkv, by simp [hpk]⟩)

/-- T5 (no index out of range in `Router.Lookup`'s name-filling loop): a reported match carries
exactly as many values as the leaf has names. -/
theorem lookup_arity (recs : List (Bytes × Nat)) (t : Table) (path : Bytes) (v : Nat)
    (names vals : List Bytes) (hb : build recs = .ok t) (h : lookup t path = .found v names vals) :
    vals.length = names.length := by
  unfold lookup at h
  split at h
  · simp only [LookupOut.found.injEq] at h
    obtain ⟨_, rfl, rfl⟩ := h; rfl
  · split at h
    · rename_i f hl
      simp only [LookupOut.found.injEq] at h
      obtain ⟨_, rfl, rfl⟩ := h
      obtain ⟨r0, hr0, vs, hm, hvals, hnames, _, _⟩ := look_sound_pref _ _ _ _ hl
      obtain ⟨_, hpar, _⟩ := build_ok hb
      rw [hpar, mem_sortRecs, mem_paramRecs] at hr0
      obtain ⟨kv, _, _, rfl⟩ := hr0
      simp only [List.nil_append] at hvals hnames
      rw [hvals, hnames]
      exact matchKey_arity _ _ _ _ hm
    · cases h

/-- "a single-segment parameter never spans a '/'" -/
theorem lookup_single_values_no_sep (recs : List (Bytes × Nat)) (t : Table) (path : Bytes) (v : Nat)
    (names vals : List Bytes) (hb : build recs = .ok t) (h : lookup t path = .found v names vals) :
    ∃ kv ∈ recs, kv.2 = v ∧ (cWild ∉ kv.1 → ∀ x ∈ vals, cSep ∉ x) := by
  unfold lookup at h
  obtain ⟨hst, hpar, _⟩ := build_ok hb
  split at h
  · rename_i v' hs
    simp only [LookupOut.found.injEq] at h
    obtain ⟨rfl, _, rfl⟩ := h
    obtain ⟨kv, hkv, _, hv⟩ := staticLookup_some hs
    rw [hst, List.mem_filter] at hkv
    exact ⟨kv, hkv.1, hv, by simp⟩
  · split at h
    · rename_i f hl
      simp only [LookupOut.found.injEq] at h
      obtain ⟨rfl, _, rfl⟩ := h
      obtain ⟨r0, hr0, vs, hm, hvals, _, hval, _⟩ := look_sound_pref _ _ _ _ hl
      rw [hpar, mem_sortRecs, mem_paramRecs] at hr0
      obtain ⟨kv, hkv, _, rfl⟩ := hr0
      simp only [List.nil_append] at hvals
      refine ⟨kv, hkv, hval.symm, ?_⟩
      intro hw
      rw [hvals]
      apply matchKey_values_no_sep _ _ _ _ hm
      simp only [List.mem_append, List.mem_cons, List.not_mem_nil, or_false, not_or]
      exact ⟨hw, chars_distinct.2.2.2.1⟩
    · cases h

/- Non-vacuity of `build recs = .ok t`: evaluating `build` in the kernel is too deep for `decide`
(the duplicate-name scan walks 256 possible edges per trie level); the correspondence stream
evaluates it on thousands of accepted tables per run (tags `params*`, `static`, `miss` in the
evidence), e.g. `[("/a/:id",0),("/a/b",1)]`. -/


/-! ## T6: the answer does not depend on the order in which the patterns were supplied -/

theorem eq_of_key_eq {recs : List (Bytes × Nat)} (hnd : (recs.map (·.1)).Nodup)
    {a b : Bytes × Nat} (ha : a ∈ recs) (hb : b ∈ recs) (h : a.1 = b.1) : a = b := by
  induction recs with
  | nil => cases ha
  | cons x xs ih =>
    simp only [List.map_cons, List.nodup_cons, List.mem_map, not_exists, not_and] at hnd
    rcases List.mem_cons.mp ha with rfl | ha'
    · rcases List.mem_cons.mp hb with rfl | hb'
      · rfl
      · exact absurd h.symm (hnd.1 b hb')
    · rcases List.mem_cons.mp hb with rfl | hb'
      · exact absurd h (hnd.1 a ha')
      · exact ih hnd.2 ha' hb'

theorem any_perm {α} {l l' : List α} (hp : l.Perm l') (f : α → Bool) : l.any f = l'.any f := by
  rw [Bool.eq_iff_iff]
  simp only [List.any_eq_true]
  constructor
  · rintro ⟨x, hx, hf⟩; exact ⟨x, hp.mem_iff.mp hx, hf⟩
  · rintro ⟨x, hx, hf⟩; exact ⟨x, hp.mem_iff.mpr hx, hf⟩

theorem staticLookup_perm {st st' : List (Bytes × Nat)} (hp : st.Perm st')
    (hinj : ∀ a ∈ st, ∀ b ∈ st, a.1 = b.1 → a = b) (path : Bytes) :
    staticLookup st path = staticLookup st' path := by
  cases h : staticLookup st path with
  | none =>
    have hn := staticLookup_none h
    cases h' : staticLookup st' path with
    | none => rfl
    | some v =>
      obtain ⟨kv, hkv, hk, _⟩ := staticLookup_some h'
      exact absurd hk (hn kv (hp.mem_iff.mpr hkv))
  | some v =>
    obtain ⟨kv, hkv, hk, hv⟩ := staticLookup_some h
    cases h' : staticLookup st' path with
    | none => exact absurd hk (staticLookup_none h' kv (hp.mem_iff.mp hkv))
    | some v' =>
      obtain ⟨kv', hkv', hk', hv'⟩ := staticLookup_some h'
      have := hinj kv hkv kv' (hp.mem_iff.mpr hkv') (by rw [hk, hk'])
      subst this
      rw [← hv, ← hv']

/-- **T6**: for records with pairwise distinct keys, `Build` + `Lookup` give the same answer (the
same match with the same parameters, the same miss, or the same refusal of the table) for every
permutation of the records. -/
theorem route_perm (recs recs' : List (Bytes × Nat)) (path : Bytes) (hp : recs.Perm recs')
    (hnd : (recs.map (·.1)).Nodup) : route recs path = route recs' path := by
  have hfp : (recs.filter fun kv => isParamKey kv.1).Perm (recs'.filter fun kv => isParamKey kv.1) :=
    hp.filter _
  have hpar : (paramRecs recs).Perm (paramRecs recs') := by
    unfold paramRecs; exact hfp.map _
  have hdist : ∀ a ∈ paramRecs recs, ∀ b ∈ paramRecs recs, a.key = b.key → a = b := by
    intro a ha b hb hk
    obtain ⟨kva, hkva, _, rfl⟩ := mem_paramRecs.mp ha
    obtain ⟨kvb, hkvb, _, rfl⟩ := mem_paramRecs.mp hb
    simp only [List.append_cancel_right_eq] at hk
    have := eq_of_key_eq hnd hkva hkvb hk
    subst this; rfl
  have hsorted : sortRecs (paramRecs recs) = sortRecs (paramRecs recs') :=
    sortRecs_eq_of_perm hpar hdist
  have hbad := any_perm hfp (fun kv => isBadKey kv.1)
  have hst : (recs.filter fun kv => !isParamKey kv.1).Perm (recs'.filter fun kv => !isParamKey kv.1) :=
    hp.filter _
  have hinj : ∀ a ∈ recs.filter (fun kv => !isParamKey kv.1),
      ∀ b ∈ recs.filter (fun kv => !isParamKey kv.1), a.1 = b.1 → a = b := by
    intro a ha b hb h
    exact eq_of_key_eq hnd (List.mem_filter.mp ha).1 (List.mem_filter.mp hb).1 h
  unfold route build
  rw [hbad, hsorted]
  by_cases h1 : ((recs'.filter fun kv => isParamKey kv.1).any fun kv => isBadKey kv.1) = true
  · simp only [h1, ↓reduceIte]
  · simp only [h1, Bool.false_eq_true, ↓reduceIte]
    by_cases h2 : ((leaves (weight (sortRecs (paramRecs recs')) + 1) (sortRecs (paramRecs recs'))).any
        fun r => hasDup r.names) = true
    · simp only [h2, ↓reduceIte]
    · simp only [h2, Bool.false_eq_true, ↓reduceIte, lookup]
      rw [staticLookup_perm hst hinj path]


/-! ## `denco.Mux`: the per-method wrapper inherits the router specification -/

theorem mem_muxRecords {handlers : List (Bytes × Bytes)} {m : Bytes} {kv : Bytes × Nat}
    (h : kv ∈ muxRecords handlers m) : ∃ hd, handlers[kv.2]? = some hd ∧ hd.1 = m ∧ hd.2 = kv.1 := by
  unfold muxRecords at h
  simp only [List.mem_filterMap] at h
  obtain ⟨⟨hd, i⟩, hmem, hf⟩ := h
  simp only at hf
  split at hf
  · rename_i hc
    simp only [Option.some.injEq] at hf
    subst hf
    have := List.mem_zipIdx hmem
    simp only [Nat.sub_zero, Nat.zero_add] at this
    obtain ⟨_, hlt, heq⟩ := this
    refine ⟨hd, ?_, by simpa using hc, rfl⟩
    simp only
    rw [List.getElem?_eq_getElem hlt]
    exact congrArg some heq.symm
  · cases hf

/-- A request handled by `Mux` went to a handler registered under exactly the request's method
(compared as spelled), and the match satisfies the whole router specification for the patterns
registered under that method; anything else is answered by `NotFound` only if that specification
allows a miss. -/
theorem mux_spec (handlers : List (Bytes × Bytes)) (method path : Bytes) :
    (∀ v names vals, muxServe handlers method path = .handled v names vals →
      (∃ hd, handlers[v]? = some hd ∧ hd.1 = method) ∧
      specLookup (muxRecords handlers method) path (.found v names vals) = true) ∧
    (muxServe handlers method path = .notFound → method ∈ muxMethods handlers →
      specLookup (muxRecords handlers method) path .notFound = true) := by
  unfold muxServe
  split
  · exact ⟨fun _ _ _ h => (by cases h), fun h => (by cases h)⟩
  · split
    · rename_i hnb hm
      unfold route
      cases hb : build (muxRecords handlers method) with
      | ok t =>
        simp only
        have hspec := lookup_spec _ t path hb
        cases hl : lookup t path with
        | found v names vals =>
          simp only
          rw [hl] at hspec
          refine ⟨?_, fun h => (by cases h)⟩
          intro v' n' vs' h
          simp only [MuxOut.handled.injEq] at h
          obtain ⟨rfl, rfl, rfl⟩ := h
          refine ⟨?_, hspec⟩
          have hs' := hspec
          simp only [specLookup, List.any_eq_true, Bool.and_eq_true, beq_iff_eq] at hs'
          obtain ⟨kv, hkv, hv, _⟩ := hs'
          obtain ⟨hd, hget, hm1, _⟩ := mem_muxRecords hkv
          exact ⟨hd, by rw [← hv]; exact hget, hm1⟩
        | notFound =>
          simp only
          rw [hl] at hspec
          exact ⟨fun _ _ _ h => (by cases h), fun _ _ => hspec⟩
      | errReserved =>
        exfalso
        apply hnb
        rw [List.any_eq_true]
        exact ⟨method, by simpa using hm, by simp [hb]⟩
      | errDupName =>
        exfalso
        apply hnb
        rw [List.any_eq_true]
        exact ⟨method, by simpa using hm, by simp [hb]⟩
    · rename_i hm
      refine ⟨fun _ _ _ h => (by cases h), fun _ hmem => ?_⟩
      exfalso; apply hm; simpa using hmem

end RtVerif.C05
