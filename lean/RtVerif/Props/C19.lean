import RtVerif.Model.C19
import RtVerif.Lemmas.C19
/-
  C19 — property theorems (helpers live in Lemmas/C19.lean).

  1. `verify` is exact set comparison: `verify_none_iff`, `verify_lists`, `verify_sorted`,
     `verify_perm` (map iteration order is irrelevant).
  2. `validate` reports the first failing check of the regenerated list, with exactly the two
     differences (`validate_first_failure`), passes exactly when registrations coincide with the
     description (`validate_ok_iff`), and meets the Spec written from the property text
     (`validate_meets_spec`; `specV_exact` shows that Spec entails the "exactly when").
  3. Case variants of media types / methods and the order of the `Register*` calls do not matter
     (`build_case_variants`, `validate_call_order`).
  4. A validated API has every request-time lookup succeed (`valid_lookups`) and, over simple
     descriptions, answers every well-formed request without a registration failure
     (`valid_serves`); witnesses show each hypothesis is needed.
-/
namespace RtVerif.C19
open RtVerif Bytes

/-! ## 1. `verify` -/

/-- `verify` passes exactly when registrations and expectations are equal as sets. -/
theorem verify_none_iff (s : String) (regs exps : List Bytes) :
    verify s regs exps = none ↔ ∀ x, x ∈ regs ↔ x ∈ exps := by
  unfold verify
  simp only
  split
  · rename_i h
    simp only [Bool.and_eq_true, isEmpty_iff_no_mem] at h
    simp only [true_iff]
    intro x
    have h1 := h.1 x
    have h2 := h.2 x
    rw [mem_unregistered] at h1
    rw [mem_unspecified] at h2
    constructor
    · intro hx; exact Classical.byContradiction fun hn => h2 ⟨hx, hn⟩
    · intro hx; exact Classical.byContradiction fun hn => h1 ⟨hx, hn⟩
  · rename_i h
    simp only [reduceCtorEq, false_iff]
    intro hall
    apply h
    simp only [Bool.and_eq_true, isEmpty_iff_no_mem]
    constructor
    · intro x hx; rw [mem_unregistered] at hx; exact hx.2 ((hall x).2 hx.1)
    · intro x hx; rw [mem_unspecified] at hx; exact hx.2 ((hall x).1 hx.1)

/-- Otherwise the error names the section and its lists are exactly the two set differences. -/
theorem verify_lists {s : String} {regs exps : List Bytes} {e : VErr} (h : verify s regs exps = some e) :
    e.sect = s ∧
    (∀ x, x ∈ e.missingReg ↔ x ∈ exps ∧ x ∉ regs) ∧
    (∀ x, x ∈ e.missingSpec ↔ x ∈ regs ∧ x ∉ exps) ∧
    (e.missingReg ≠ [] ∨ e.missingSpec ≠ []) := by
  unfold verify at h
  simp only at h
  split at h
  · cases h
  · rename_i hne
    simp only [Option.some.injEq] at h
    subst h
    refine ⟨rfl, fun x => mem_unregistered, fun x => mem_unspecified, ?_⟩
    apply Classical.byContradiction
    intro hcon
    simp only [not_or, ne_eq, Decidable.not_not] at hcon
    apply hne
    rw [hcon.1, hcon.2]; rfl

/-- Both lists come out in Go string order, and no missing registration is named twice (nor a
superfluous one, when the registrations are map keys). -/
theorem verify_sorted {s : String} {regs exps : List Bytes} {e : VErr} (h : verify s regs exps = some e) :
    Sorted e.missingReg ∧ e.missingReg.Nodup ∧ Sorted e.missingSpec ∧ (regs.Nodup → e.missingSpec.Nodup) := by
  unfold verify at h
  simp only at h
  split at h
  · cases h
  · simp only [Option.some.injEq] at h
    subst h
    refine ⟨sorted_isort _, nodup_isort (nodup_dedup _), sorted_filter _ (sorted_isort _), ?_⟩
    intro hn
    exact (nodup_isort hn).filter _

/-- The result does not depend on the order in which Go iterates its maps. -/
theorem verify_perm {s : String} {regs regs' exps exps' : List Bytes}
    (hr : regs.Perm regs') (he : ∀ x, x ∈ exps ↔ x ∈ exps') :
    verify s regs exps = verify s regs' exps' := by
  have h1 : (isort regs).filter (fun v => decide (v ∉ exps)) = (isort regs').filter (fun v => decide (v ∉ exps')) := by
    rw [isort_eq_of_perm hr]
    apply List.filter_congr
    intro x _
    simp [he x]
  have h2 : isort (dedup (exps.filter (fun v => decide (v ∉ regs)))) =
      isort (dedup (exps'.filter (fun v => decide (v ∉ regs')))) := by
    apply isort_eq_of_perm
    apply dedup_perm_of_mem_iff
    intro x
    simp only [List.mem_filter, decide_eq_true_eq, he x, hr.mem_iff]
  unfold verify
  simp only [h1, h2]

/-! ## 2. `validate` -/

theorem validateWith_ok_iff (a : Api) (d : Desc) (cs : List (String × String × String)) :
    validateWith a d cs = .ok ↔ ∀ c ∈ cs, checkOne a d c = .ok := by
  induction cs with
  | nil => simp [validateWith]
  | cons c t ih =>
    simp only [validateWith, List.mem_cons, forall_eq_or_imp]
    cases hc : checkOne a d c with
    | ok => simp [ih]
    | err e => simp
    | badFact w => simp

/-- `validate` returns the result of the FIRST check that does not pass: everything before it
passed, nothing after it was looked at. Holds for any list of checks. -/
theorem validate_first_failure (a : Api) (d : Desc) (cs : List (String × String × String)) (r : VResult)
    (h : validateWith a d cs = r) (hr : r ≠ .ok) :
    ∃ pre c post, cs = pre ++ c :: post ∧ (∀ c' ∈ pre, checkOne a d c' = .ok) ∧ checkOne a d c = r := by
  induction cs with
  | nil => simp [validateWith] at h; exact absurd h.symm hr
  | cons c t ih =>
    simp only [validateWith] at h
    cases hc : checkOne a d c with
    | ok =>
      rw [hc] at h
      simp only at h
      obtain ⟨pre, c', post, e1, e2, e3⟩ := ih h
      refine ⟨c :: pre, c', post, by rw [e1]; rfl, ?_, e3⟩
      intro x hx
      rcases List.mem_cons.1 hx with rfl | hx
      · exact hc
      · exact e2 x hx
    | err e =>
      rw [hc] at h
      exact ⟨[], c, t, rfl, by simp, by rw [hc]; exact h⟩
    | badFact w =>
      rw [hc] at h
      exact ⟨[], c, t, rfl, by simp, by rw [hc]; exact h⟩

/-- Every regenerated check is one of the five comparisons the property names, under its section
name (obligation on `Facts.validateChecks`: fails to compile if the code compares something else). -/
theorem facts_known (a : Api) (d : Desc) :
    ∀ c ∈ Facts.validateChecks, ∃ cat, specCat a d c.1 = some cat ∧
      regsOf a d c.2.1 = some cat.regs ∧ expsOf d c.2.2 = some cat.exps := by
  intro c hc
  simp only [Facts.validateChecks, List.mem_cons, List.not_mem_nil, or_false] at hc
  rcases hc with rfl | rfl | rfl | rfl | rfl <;>
    exact ⟨_, by simp [specCat]; rfl, by simp [regsOf], by simp [expsOf]⟩

/-- … and all five are checked (obligation: fails if the code drops a check). -/
theorem facts_cover :
    ∀ s ∈ ["consumes", "produces", "operation", "auth scheme", "security definitions"], s ∈ checkOrder := by
  decide

/-- the remaining regenerated facts the model relies on -/
theorem facts_normalisation :
    Facts.registerConsumerNorm = "ToLower" ∧ Facts.registerProducerNorm = "ToLower" ∧
    Facts.registerOperationNorm = "ToUpper" ∧ Facts.registerAuthNorm = "" ∧
    Facts.opKeyFormat = "%s %s" := by
  decide

theorem checkOne_ok_iff {a : Api} {d : Desc} {c : String × String × String} {cat : Cat}
    (h2 : regsOf a d c.2.1 = some cat.regs) (h3 : expsOf d c.2.2 = some cat.exps) :
    checkOne a d c = .ok ↔ setEq cat.regs cat.exps = true := by
  rw [checkOne_of_cat h2 h3, setEq_iff, ← verify_none_iff c.1]
  cases verify c.1 cat.regs cat.exps <;> simp

theorem catOk_iff_of_known {a : Api} {d : Desc} {c : String × String × String}
    (hc : c ∈ Facts.validateChecks) : checkOne a d c = .ok ↔ catOk a d c.1 = true := by
  obtain ⟨cat, h1, h2, h3⟩ := facts_known a d c hc
  rw [checkOne_ok_iff h2 h3]
  simp [catOk, h1]

/-- **Exactness.** Validation succeeds exactly when the registered consumers, producers, operation
handlers and authenticators coincide with those the description requires, every declared security
definition is used (and every required scheme is declared). -/
theorem validate_ok_iff (a : Api) (d : Desc) :
    validate a d = .ok ↔ Coincide a d = true ∧ DescValid d = true := by
  unfold validate
  rw [validateWith_ok_iff]
  have hk1 : ∀ s ∈ checkOrder,
      s ∈ ["consumes", "produces", "operation", "auth scheme", "security definitions"] := by
    decide
  have hk : ∀ s, s ∈ checkOrder ↔
      s ∈ ["consumes", "produces", "operation", "auth scheme", "security definitions"] :=
    fun s => ⟨hk1 s, facts_cover s⟩
  have key : (∀ c ∈ Facts.validateChecks, checkOne a d c = .ok) ↔
      ∀ s ∈ ["consumes", "produces", "operation", "auth scheme", "security definitions"], catOk a d s = true := by
    constructor
    · intro h s hs
      have hs' := (hk s).2 hs
      simp only [checkOrder, List.mem_map] at hs'
      obtain ⟨c, hc, rfl⟩ := hs'
      exact (catOk_iff_of_known hc).1 (h c hc)
    · intro h c hc
      rw [catOk_iff_of_known hc]
      exact h c.1 ((hk c.1).1 (by simp only [checkOrder, List.mem_map]; exact ⟨c, hc, rfl⟩))
  rw [key]
  simp only [List.mem_cons, List.not_mem_nil, or_false, forall_eq_or_imp, forall_eq, catOk, specCat,
    Coincide, DescValid, Bool.and_eq_true]
  simp only [setEq, Bool.and_eq_true]
  constructor
  · intro h; simp_all
  · intro h; simp_all

def VResult.toOut : VResult → Option VOut
  | .ok => some .ok
  | .err e => some (.err e.sect e.missingReg e.missingSpec)
  | .badFact _ => none

/-- **The model meets the Spec**, for every API object and every description: the result is `ok`
only if everything coincides, and otherwise it is the error of the first failing category (in the
order of the code's checks) naming every missing and every superfluous item. -/
theorem validate_meets_spec (a : Api) (d : Desc) :
    ∃ o, (validate a d).toOut = some o ∧ specV a d checkOrder o = true := by
  cases hv : validate a d with
  | ok =>
    refine ⟨.ok, rfl, ?_⟩
    have := (validate_ok_iff a d).1 hv
    simp [specV, this.1, this.2]
  | err e =>
    refine ⟨_, rfl, ?_⟩
    obtain ⟨pre, c, post, hcs, hpre, hc⟩ := validate_first_failure a d _ _ hv (by simp)
    have hmem : c ∈ Facts.validateChecks := by rw [hcs]; simp
    obtain ⟨cat, h1, h2, h3⟩ := facts_known a d c hmem
    rw [checkOne_of_cat h2 h3] at hc
    cases hver : verify c.1 cat.regs cat.exps with
    | none => rw [hver] at hc; simp at hc
    | some e' =>
      rw [hver] at hc
      have hc' : e' = e := by simpa using hc
      subst hc'
      obtain ⟨hs, hmr, hms, hne⟩ := verify_lists hver
      simp only [specV, hs, h1, Bool.and_eq_true, decide_eq_true_eq, Bool.not_eq_true',
        Bool.and_eq_false_iff]
      refine ⟨⟨⟨⟨?_, ?_⟩, ?_⟩, ?_⟩, ?_⟩
      · simp only [checkOrder, List.mem_map]; exact ⟨c, hmem, rfl⟩
      · rw [List.all_eq_true]
        intro n hn
        have hord : checkOrder = pre.map (·.1) ++ c.1 :: post.map (·.1) := by
          simp [checkOrder, hcs]
        rw [hord] at hn
        have := mem_takeWhile_prefix (fun x => x != c.1) (pre.map (·.1)) c.1 (post.map (·.1)) (by simp) n hn
        simp only [List.mem_map] at this
        obtain ⟨c', hc', rfl⟩ := this
        have hmem' : c' ∈ Facts.validateChecks := by rw [hcs]; simp [hc']
        exact (catOk_iff_of_known hmem').1 (hpre c' hc')
      · rw [setEq_iff]; intro x; rw [hmr x, mem_diff]
      · rw [setEq_iff]; intro x; rw [hms x, mem_diff]
      · rcases hne with h | h
        · left; cases hl : e'.missingReg with
          | nil => exact absurd hl h
          | cons _ _ => rfl
        · right; cases hl : e'.missingSpec with
          | nil => exact absurd hl h
          | cons _ _ => rfl
  | badFact w =>
    exfalso
    obtain ⟨pre, c, post, hcs, _, hc⟩ := validate_first_failure a d _ _ hv (by simp)
    have hmem : c ∈ Facts.validateChecks := by rw [hcs]; simp
    obtain ⟨cat, _, h2, h3⟩ := facts_known a d c hmem
    rw [checkOne_of_cat h2 h3] at hc
    cases hver : verify c.1 cat.regs cat.exps <;> rw [hver] at hc <;> cases hc

/-- The Spec entails the "exactly when" of the text: any result that meets it is `ok` iff the
registrations coincide with the (valid) description. -/
theorem specV_exact (a : Api) (d : Desc) (order : List String) (o : VOut) (h : specV a d order o = true) :
    o = .ok ↔ (Coincide a d = true ∧ DescValid d = true) := by
  cases o with
  | ok =>
    simp only [specV, Bool.and_eq_true] at h
    simp [h]
  | err s mr ms =>
    simp only [reduceCtorEq, false_iff]
    intro hco
    simp only [specV] at h
    split at h
    · exact absurd h (by simp)
    · rename_i c hcat
      simp only [Bool.and_eq_true, Bool.not_eq_true', Bool.and_eq_false_iff, setEq_iff] at h
      obtain ⟨⟨⟨_, hmr⟩, hms⟩, hne⟩ := h
      -- the named category coincides (it is one of the five), so both differences are empty
      have hc : ∀ x, x ∈ c.regs ↔ x ∈ c.exps := by
        obtain ⟨h1, h2⟩ := hco
        simp only [Coincide, DescValid, Bool.and_eq_true, setEq_iff, subset_iff] at h1 h2
        unfold specCat at hcat
        split at hcat
        · cases hcat; exact h1.1.1.1.1
        · split at hcat
          · cases hcat; exact h1.1.1.1.2
          · split at hcat
            · cases hcat; exact h1.1.1.2
            · split at hcat
              · cases hcat; exact h1.1.2
              · split at hcat
                · cases hcat; exact fun x => ⟨h1.2 x, h2 x⟩
                · cases hcat
      have e1 : mr = [] := by
        cases mr with
        | nil => rfl
        | cons x t =>
          have := (hmr x).1 (by simp)
          rw [mem_diff] at this
          exact absurd ((hc x).2 this.1) this.2
      have e2 : ms = [] := by
        cases ms with
        | nil => rfl
        | cons x t =>
          have := (hms x).1 (by simp)
          rw [mem_diff] at this
          exact absurd ((hc x).1 this.1) this.2
      subst e1 e2
      simp at hne

/-- Over valid descriptions (every required scheme declared) the condition is literally the text's:
coincidence of the four registration kinds and "every declared security definition is used". -/
theorem validate_ok_iff_text (a : Api) (d : Desc) (hd : DescValid d = true) :
    validate a d = .ok ↔ Coincide a d = true := by
  rw [validate_ok_iff]; simp [hd]

/-- A description requiring an undeclared scheme never validates, whatever is registered. -/
theorem undeclared_scheme_never_validates (a : Api) (d : Desc) (s : Bytes)
    (h1 : s ∈ d.reqSchemes) (h2 : s ∉ d.secDefs) : validate a d ≠ .ok := by
  intro h
  have := ((validate_ok_iff a d).1 h).2
  simp only [DescValid, subset_iff] at this
  exact h2 (this s h1)

/-! ## 3. Normalisation and call order -/

/-- The API object after all `Register*` calls is the one the Spec speaks about (reading (1)):
the code's normalisation (regenerated facts) is lower-casing media types and upper-casing methods. -/
theorem build_eq (r : Regs) : build r = specApi r := by
  unfold build specApi
  rw [foldl_registerOperation, foldl_registerAuth, foldl_registerProducer, foldl_registerConsumer]

/-- **Case variants.** Registrations that differ only in the case of media types and of methods
build the same API object (hence validate and serve alike). Scheme names and paths are compared
as spelled. -/
theorem build_case_variants (r r' : Regs) (hj : r.jsonDefaults = r'.jsonDefaults)
    (hc : r.consumers.map toLower = r'.consumers.map toLower)
    (hp : r.producers.map toLower = r'.producers.map toLower)
    (ha : r.auths = r'.auths)
    (ho : r.operations.map (fun mp => (toUpper mp.1, mp.2)) = r'.operations.map (fun mp => (toUpper mp.1, mp.2))) :
    build r = build r' := by
  rw [build_eq, build_eq]; unfold specApi; rw [hj, hc, hp, ha, ho]

theorem checkOne_congr {a a' : Api} {d : Desc} (c : String × String × String)
    (h1 : a.consumers.Perm a'.consumers) (h2 : a.producers.Perm a'.producers)
    (h3 : a.auths.Perm a'.auths) (h4 : a.operations.Perm a'.operations) :
    checkOne a d c = checkOne a' d c := by
  unfold checkOne
  rcases regsOf_perm d c.2.1 h1 h2 h3 h4 with ⟨e1, e2⟩ | ⟨r, r', e1, e2, hp⟩
  · rw [e1, e2]
  · rw [e1, e2]
    cases expsOf d c.2.2 with
    | none => rfl
    | some exps => simp only [verify_perm (s := c.1) hp (fun x => Iff.rfl)]

/-- `validate` depends on the key sets only, not on the order the maps hold (or iterate) them in. -/
theorem validate_perm {a a' : Api} (d : Desc)
    (h1 : a.consumers.Perm a'.consumers) (h2 : a.producers.Perm a'.producers)
    (h3 : a.auths.Perm a'.auths) (h4 : a.operations.Perm a'.operations) :
    validate a d = validate a' d := by
  unfold validate
  generalize Facts.validateChecks = cs
  induction cs with
  | nil => rfl
  | cons c t ih => simp only [validateWith, checkOne_congr c h1 h2 h3 h4, ih]

/-- **Call order.** Permuting the `Register*` calls does not change the verdict of `Validate`. -/
theorem validate_call_order (r r' : Regs) (d : Desc) (hj : r.jsonDefaults = r'.jsonDefaults)
    (hc : r.consumers.Perm r'.consumers) (hp : r.producers.Perm r'.producers)
    (ha : r.auths.Perm r'.auths) (ho : r.operations.Perm r'.operations) :
    validate (build r) d = validate (build r') d := by
  obtain ⟨n1, n2, n3, n4⟩ := newApi_nodup r'.jsonDefaults
  apply validate_perm <;> rw [build_eq, build_eq] <;> unfold specApi <;> rw [hj] <;> simp only
  · exact foldl_addKey_perm _ n1 (hc.map _)
  · exact foldl_addKey_perm _ n2 (hp.map _)
  · exact foldl_addKey_perm _ n3 ha
  · exact foldl_addKey_perm _ n4 (ho.map _)

/-! ## 4. Validated APIs serve -/

/-- method keys are upper-case (what `RegisterOperation` leaves in the map) -/
def Normalised (a : Api) : Prop := ∀ mp ∈ a.operations, toUpper mp.1 = mp.1

theorem build_normalised (r : Regs) : Normalised (build r) := by
  intro mp hmp
  rw [build_eq] at hmp
  simp only [specApi] at hmp
  rw [mem_foldl_addKey (fun x : Bytes × Bytes => x)] at hmp
  rcases hmp with h | ⟨k, hk, rfl⟩
  · cases hj : r.jsonDefaults <;> simp [newApi, hj] at h
  · simp only [List.mem_map] at hk
    obtain ⟨q, _, rfl⟩ := hk
    exact toUpper_idem _

theorem build_tokens (r : Regs) (h : ∀ mp ∈ r.operations, (32 : UInt8) ∉ mp.1) :
    MethodsAreTokens (build r) = true := by
  simp only [MethodsAreTokens, List.all_eq_true, Bool.not_eq_true', contains_false_iff]
  intro mp hmp
  rw [build_eq] at hmp
  simp only [specApi] at hmp
  rw [mem_foldl_addKey (fun x : Bytes × Bytes => x)] at hmp
  rcases hmp with h' | ⟨k, hk, rfl⟩
  · cases hj : r.jsonDefaults <;> simp [newApi, hj] at h'
  · simp only [List.mem_map] at hk
    obtain ⟨q, hq, rfl⟩ := hk
    exact toUpper_no_space (h q hq)

/-- both constructors of the untyped API keep their defaults registered, whatever is registered later -/
theorem build_defaults (r : Regs) : DefaultsRegistered (build r) = true := by
  rw [build_eq]
  unfold specApi
  cases hj : r.jsonDefaults
  · simp [DefaultsRegistered, newApi]
  · simp only [DefaultsRegistered, newApi, Bool.and_eq_true, Bool.or_eq_true, decide_eq_true_eq,
      Bool.not_eq_true', contains_false_iff, ↓reduceIte]
    have hno : (59 : UInt8) ∉ jsonMime := by decide
    refine ⟨Or.inr ⟨?_, hno⟩, Or.inr ⟨?_, hno⟩⟩
    · rw [mem_foldl_addKey (fun x : Bytes => x)]; left; simp
    · rw [mem_foldl_addKey (fun x : Bytes => x)]; left; simp

/-- **Lookups.** In an API that passes validation, for every declared operation: the handler lookup
of `AddRoute` succeeds (the operation is routed), every declared parameter-free consumes / produces
type has its consumer / producer in the route's table, and every scheme named in a security
requirement has its authenticator in the route's table. -/
theorem valid_lookups (a : Api) (d : Desc) (op : Op)
    (hv : validate a d = .ok) (hop : OpHyp d op = true)
    (ht : MethodsAreTokens a = true) (hn : Normalised a) :
    handlerFor a op.method op.path = true ∧
    (∀ mt ∈ op.consumesFor, normalizeOffer mt = mt → mt ∈ routeConsumers a op) ∧
    (∀ mt ∈ op.producesFor, normalizeOffer mt = mt → mt ∈ routeProducers a op) ∧
    (∀ alt ∈ op.secReqs, altComplete a d alt = true) := by
  obtain ⟨hco, hdv⟩ := (validate_ok_iff a d).1 hv
  simp only [Coincide, Bool.and_eq_true, setEq_iff, subset_iff] at hco
  obtain ⟨⟨⟨⟨hcons, hprod⟩, hops⟩, hauth⟩, hdefs⟩ := hco
  simp only [DescValid, subset_iff] at hdv
  simp only [OpHyp, Bool.and_eq_true, subset_iff, List.all_eq_true, Bool.or_eq_true, decide_eq_true_eq,
    Bool.not_eq_true', contains_false_iff, beq_iff_eq] at hop
  obtain ⟨⟨⟨⟨⟨hcf, hpf⟩, hsr⟩, hkey⟩, hns⟩, hupper⟩ := hop
  refine ⟨?_, ?_, ?_, ?_⟩
  · -- handler
    have := (hops _).2 hkey
    simp only [List.mem_map] at this
    obtain ⟨mp, hmp, hk⟩ := this
    have hmp1 : (32 : UInt8) ∉ mp.1 := by
      simp only [MethodsAreTokens, List.all_eq_true, Bool.not_eq_true', contains_false_iff] at ht
      exact ht mp hmp
    simp only [opKey] at hk
    obtain ⟨e1, e2⟩ := key_inj (toUpper_no_space hmp1) (toUpper_no_space hns) hk
    simp only [handlerFor, decide_eq_true_eq]
    rw [← e1, ← e2, hn mp hmp]
    exact hmp
  · intro mt hmt hno
    rw [routeConsumers, mem_tableFor]
    refine ⟨?_, (hcons mt).2 (hcf mt hmt)⟩
    simp only [List.mem_map]
    exact ⟨mt, subset_withDefault _ _ mt hmt, hno⟩
  · intro mt hmt hno
    rw [routeProducers, mem_tableFor]
    refine ⟨?_, (hprod mt).2 (hpf mt hmt)⟩
    simp only [List.mem_map]
    exact ⟨mt, subset_withDefault _ _ mt hmt, hno⟩
  · intro alt halt
    simp only [altComplete, List.all_eq_true, Bool.or_eq_true, decide_eq_true_eq]
    intro s hs
    rcases hsr alt halt s hs with h | h
    · exact Or.inl h
    · right
      simp only [altAuths, mem_isort, mem_dedup, List.mem_filter, Bool.and_eq_true, decide_eq_true_eq]
      exact ⟨hs, hdv s h, (hauth s).2 h⟩

/-- **Serving.** Over a description whose media types are lower-case, parameter-free and
wildcard-free, an API that passes validation answers a well-formed request to any declared
operation — body media type among the types the route admits (declared consumes, or the API
default), negotiated format among the types the route offers (declared produces, or the API
default) — without failing for lack of a handler, authenticator, consumer or producer. -/
theorem valid_serves (a : Api) (d : Desc) (op : Op) (ct : Option Bytes) (format : Bytes)
    (hv : validate a d = .ok) (hop : OpHyp d op = true)
    (ht : MethodsAreTokens a = true) (hn : Normalised a) (hdr : DefaultsRegistered a = true)
    (hs : Simple d = true)
    (hct : ∀ c, ct = some c → c ∈ routeConsumes a op)
    (hf : format ∈ routeProduces a op) :
    serveClass a d op ct format = .ok := by
  obtain ⟨h1, h2, h3, h4⟩ := valid_lookups a d op hv hop ht hn
  obtain ⟨sc, sp⟩ := simple_no_semicolon hs
  have hop' := hop
  simp only [OpHyp, Bool.and_eq_true, subset_iff] at hop'
  obtain ⟨⟨⟨⟨⟨hcf, hpf⟩, _⟩, _⟩, _⟩, _⟩ := hop'
  simp only [DefaultsRegistered, Bool.and_eq_true, Bool.or_eq_true, decide_eq_true_eq,
    Bool.not_eq_true', contains_false_iff] at hdr
  unfold serveClass
  rw [h1]
  have hall : op.secReqs.all (altComplete a d) = true := List.all_eq_true.2 h4
  rw [hall]
  simp only [Bool.not_true, Bool.false_eq_true, ↓reduceIte]
  have hcons : ∀ c, ct = some c → c ∈ routeConsumers a op := by
    intro c hc
    rcases mem_withDefault (hct c hc) with h | ⟨h, hne⟩
    · exact h2 c h (normalizeOffer_of_no_semicolon (sc c (hcf c h)))
    · rcases hdr.1 with h0 | ⟨hreg, hno⟩
      · rw [h0] at hne; cases hne
      · rw [routeConsumers, mem_tableFor]
        refine ⟨?_, h ▸ hreg⟩
        simp only [List.mem_map]
        exact ⟨c, hct c hc, normalizeOffer_of_no_semicolon (h ▸ hno)⟩
  have hcons' : consumerMissing a op ct = false := by
    cases ct with
    | none => rfl
    | some c => simp [consumerMissing, hcons c rfl]
  rw [hcons']
  simp only [Bool.false_eq_true, ↓reduceIte]
  split
  · rfl
  · have hprod : format ∈ routeProducers a op := by
      rcases mem_withDefault hf with h | ⟨h, hne⟩
      · exact h3 format h (normalizeOffer_of_no_semicolon (sp format (hpf format h)))
      · rcases hdr.2 with h0 | ⟨hreg, hno⟩
        · rw [h0] at hne; cases hne
        · rw [routeProducers, mem_tableFor]
          refine ⟨?_, h ▸ hreg⟩
          simp only [List.mem_map]
          exact ⟨format, hf, normalizeOffer_of_no_semicolon (h ▸ hno)⟩
    simp [hprod]

/-- **Headline (second sentence of the property), for the API objects the untyped package builds.**
Whatever the `Register*` calls were (methods being tokens), if `Validate` passes over a simple
description then a well-formed request to a declared operation is answered `ok`. -/
theorem validated_api_serves (r : Regs) (d : Desc) (op : Op) (ct : Option Bytes) (format : Bytes)
    (hm : ∀ mp ∈ r.operations, (32 : UInt8) ∉ mp.1)
    (hv : validate (build r) d = .ok) (hop : OpHyp d op = true) (hs : Simple d = true)
    (hct : ∀ c, ct = some c → c ∈ routeConsumes (build r) op)
    (hf : format ∈ routeProduces (build r) op) :
    serveClass (build r) d op ct format = .ok :=
  valid_serves (build r) d op ct format hv hop (build_tokens r hm) (build_normalised r)
    (build_defaults r) hs hct hf

/-! ### Non-vacuity and necessity of the hypotheses (concrete descriptions, decided by evaluation) -/

section witnesses

def bGET : Bytes := [71, 69, 84]
def bPets : Bytes := [47, 112]                         -- "/p"
def bTP : Bytes := [116, 47, 112]                      -- "t/p"
def bTPparam : Bytes := [116, 47, 112, 59, 99]         -- "t/p;c"
def bKey : Bytes := [107]                              -- "k"
def bGETpets : Bytes := [71, 69, 84, 32, 47, 112]      -- "GET /p"

/-- one operation `GET /p` consuming and producing `t/p`, secured by scheme `k` -/
def wDesc : Desc := ⟨[bTP], [bTP], [bKey], [bGETpets], [bKey]⟩
def wOp : Op := ⟨bGET, bPets, [bTP], [bTP], [[bKey]]⟩
/-- registered with case variants: `T/P`, method `get` -/
def wRegs : Regs := ⟨false, [[84, 47, 80]], [bTP], [bKey], [([103, 101, 116], bPets)]⟩

/-- the hypotheses of `valid_serves` are met by a concrete non-trivial API … -/
example : validate (build wRegs) wDesc = .ok ∧ OpHyp wDesc wOp = true ∧
    MethodsAreTokens (build wRegs) = true ∧ DefaultsRegistered (build wRegs) = true ∧
    Simple wDesc = true ∧ bTP ∈ routeConsumes (build wRegs) wOp ∧ bTP ∈ routeProduces (build wRegs) wOp := by
  decide

/-- `validate_ok_iff_text` / `undeclared_scheme_never_validates`: a valid description, and one that is not -/
example : DescValid wDesc = true ∧ validate (build wRegs) wDesc = .ok ∧ Coincide (build wRegs) wDesc = true := by decide
example : bTP ∈ ({ wDesc with reqSchemes := [bKey, bTP] } : Desc).reqSchemes ∧ bTP ∉ wDesc.secDefs := by decide

/-- `validate_call_order` / `build_case_variants`: a permuted, differently-cased call sequence -/
example :
    let r : Regs := ⟨true, [bTP, [97, 47, 98]], [], [bKey, bTP], [(bGET, bPets), ([112, 117, 116], bPets)]⟩
    let r' : Regs := ⟨true, [[65, 47, 66], [84, 47, 80]], [], [bTP, bKey], [([80, 85, 84], bPets), ([103, 101, 116], bPets)]⟩
    r.consumers.map toLower ≠ r'.consumers.map toLower ∧   -- not the same sequence …
    (build r).consumers ≠ (build r').consumers ∧            -- … nor the same key order …
    validate (build r) wDesc = validate (build r') wDesc := by  -- … yet the same verdict
  decide

/-- … and the omission of any one registration is reported in its category, by name -/
theorem omission_is_reported :
    validate (build { wRegs with auths := [] }) wDesc = .err ⟨"auth scheme", [], [bKey]⟩ ∧
    validate (build { wRegs with consumers := [] }) wDesc = .err ⟨"consumes", [], [bTP]⟩ ∧
    validate (build { wRegs with producers := [bTP, bTPparam] }) wDesc = .err ⟨"produces", [bTPparam], []⟩ ∧
    validate (build { wRegs with operations := [] }) wDesc = .err ⟨"operation", [], [bGETpets]⟩ ∧
    validate (build wRegs) { wDesc with secDefs := [bKey, bTP] } = .err ⟨"security definitions", [bTP], []⟩ := by
  decide

/-- "parameter-free" is needed: a description consuming `t/p;c` validates against the registration
`t/p;c`, yet the route's consumer table (keyed by normalised offers) holds nothing for the request's
media type `t/p` — the request fails with "no consumer registered". -/
theorem parameter_free_needed :
    let d : Desc := { wDesc with reqConsumes := [bTPparam] }
    let op : Op := { wOp with consumesFor := [bTPparam] }
    let a := build { wRegs with consumers := [bTPparam] }
    validate a d = .ok ∧ OpHyp d op = true ∧ Simple d = false ∧
      serveClass a d op (some bTP) bTP = .noconsumer := by
  decide

/-- "methods are tokens" is needed: `RegisterOperation("GET /X", "y")` has the same key as the
declared operation `GET` `/X y`, validation passes, the operation is not routed. -/
theorem method_token_needed :
    let d : Desc := ⟨[], [], [], [[71, 69, 84, 32, 47, 88, 32, 121]], []⟩
    let op : Op := ⟨bGET, [47, 88, 32, 121], [], [], []⟩
    let a := build ⟨false, [], [], [], [([71, 69, 84, 32, 47, 88], [121])]⟩
    validate a d = .ok ∧ OpHyp d op = true ∧ MethodsAreTokens a = false ∧
      serveClass a d op none [] = .noroute := by
  decide

end witnesses

end RtVerif.C19
