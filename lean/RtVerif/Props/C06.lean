import RtVerif.Model.C06
import RtVerif.Lemmas.C06
/-
  C06 — property theorems (helpers live in Lemmas/C06.lean).

  All statements are for EVERY API configuration (`consumes` list, default, registrations), EVERY
  request head and EVERY parser `pmt` satisfying `PmtOK` (what is assumed of
  `mime.ParseMediaType`: the type it returns parses to itself, is not empty and holds no `;` — each
  clause is re-checked on every harness case against the real function).  `WF api` is the
  property's own quantifier: consumes entries are spelled in lower case.

  * `untyped_meets_spec`, `typed_meets_spec`   both gates satisfy the Spec (the property as read in
                                               Model/C06.lean)
  * `typed_eq_untyped`                         T4: the two entry points give the same observable
                                               outcome (same accept/refuse, same consumer)
  * `consumer_only_for_admitted`               T1
  * `refused_415`, `refused_400`               T2 (with "neither a consumer nor the handler runs")
  * `no_body_not_checked`                      T3
  * `listed_and_registered_is_decoded`         the positive direction for types spelled in the list
  * `never_passes_without_consumer`            the nil-consumer panic is unreachable
  * `gate_ignores_method`, `gate_depends_only_on_parsed_type`
  * `spec_functional`                          the Spec pins the outcome (non-vacuity of the Spec)
  * `holds_outside_known`                      the shape DESIGN §2.2 asks for (`Known` is empty)

  The WHOLE functions (`typedFull` = `Context.BindValidRequest`: gate, response-format check, binder;
  `untypedFull` = `validateRequest`/`BindAndValidate`), for every parsed Accept header, produces
  list and binder (nil / succeeding / failing):

  * `typedFull_meets_spec`, `untypedFull_meets_spec`, `typedFull_meets_spec_route`
                                               both meet `SpecFull` (C06 gate + C07's 406 statement)
  * `full_entry_points_agree`                  same answer of the checks, same gate, same activity
  * `binder_runs_iff`                          the binder runs iff there is one and no check failed
  * `e406_iff`, `e406_iff_admits_none`         406 iff gate passed, types declared, none admitted
  * `typed_answer_shape`, `untyped_406_stands_alone`   error order: one error, 406 never beside another
  * `binder_error_as_is`, `failing_binder_answer`      the binder's error is returned unchanged
  * `old_tail_passes_in_class`, `old_tail_same_outside_class`, `tRct_ne_nil_iff`
                                               F06b: exactly where the unrepaired tail differed
-/
namespace RtVerif.C06
open RtVerif Bytes

/-- The property: the reflective gate (behind `Context.BindAndValidate`) meets the Spec. -/
theorem untyped_meets_spec {pmt : Pmt} (hp : PmtOK pmt) {api : Api} (hwf : WF api = true) (h : ReqHead) :
    Spec pmt api h (gateUntyped pmt api h) = true := by
  rw [gateUntyped_eq_nf pmt api h hp.nonempty]
  exact gateNF_meets_spec hp hwf h

/-- T4 — the two binding entry points accept or refuse the same requests and pick the same
consumer. Needs only that the parser never returns an empty type: for an empty type the reflective
gate skips the consumer lookup while the typed one answers 500. -/
theorem typed_eq_untyped {pmt : Pmt} (hne : ∀ x t, pmt x = some t → t ≠ []) (api : Api) (h : ReqHead) :
    gateTyped pmt api h = gateUntyped pmt api h := by
  rw [gateTyped_eq_nf, gateUntyped_eq_nf pmt api h hne]

/-- The gate of generated servers (`Context.BindValidRequest`) meets the Spec. -/
theorem typed_meets_spec {pmt : Pmt} (hp : PmtOK pmt) {api : Api} (hwf : WF api = true) (h : ReqHead) :
    Spec pmt api h (gateTyped pmt api h) = true := by
  rw [typed_eq_untyped hp.nonempty]
  exact untyped_meets_spec hp hwf h

/-- What is seen downstream (consumer that decodes, handler) meets the Spec too. -/
theorem model_obs_meets_spec {pmt : Pmt} (hp : PmtOK pmt) {api : Api} (hwf : WF api = true) (h : ReqHead) :
    SpecObs pmt api h (modelObs (gateUntyped pmt api h)) = true := by
  unfold SpecObs modelObs
  rw [untyped_meets_spec hp hwf h]
  cases gateUntyped pmt api h <;> simp [consumerRan, handlerRan]

/-- DESIGN §2.2 shape; `Known` is empty for C06 (F06a was repaired). -/
theorem holds_outside_known {pmt : Pmt} (hp : PmtOK pmt) {api : Api} (hwf : WF api = true) (h : ReqHead)
    (_ : Known api h = none) : Spec pmt api h (gateUntyped pmt api h) = true :=
  untyped_meets_spec hp hwf h

/-- T1 — a consumer is selected only for a body-carrying request whose lower-cased, parameter-free
type is admitted by `consumes ∪ {default}` (directly or through a wildcard entry), and it is the
consumer registered for exactly that type. (No `WF` needed.) -/
theorem consumer_only_for_admitted {pmt : Pmt} (hp : PmtOK pmt) (api : Api) (h : ReqHead) (k : Nat)
    (hk : gateUntyped pmt api h = .consumer k) :
    carriesBody h = true ∧ ∃ t, mediaType pmt h = some t ∧ admitted (allConsumes api) t = true ∧
      regLookup api.registered t = some k := by
  rw [gateUntyped_eq_nf pmt api h hp.nonempty] at hk
  unfold gateNF at hk
  rw [← hasBody_eq_carries, mediaType_eq]
  by_cases hb : hasBody h
  · refine ⟨hb, ?_⟩
    simp only [hb, ↓reduceIte] at hk
    cases hx : pmt (effCT h) with
    | none => rw [hx] at hk; cases hk
    | some t =>
      rw [hx] at hk
      simp only at hk
      rw [validate_eq_admitted hp api hx] at hk
      by_cases ha : admitted (allConsumes api) t
      · simp only [ha, ↓reduceIte] at hk
        cases hc : routeConsumer api t with
        | none => rw [hc] at hk; cases hk
        | some k' =>
          rw [hc] at hk
          simp only [GateOut.consumer.injEq] at hk
          subst hk
          exact ⟨t, rfl, ha, routeConsumer_some hc⟩
      · simp [ha] at hk
  · simp [hb] at hk

/-- T2 (415) — a body-carrying request whose type is not admitted is answered 415 and neither a
consumer nor the handler runs. -/
theorem refused_415 {pmt : Pmt} (hp : PmtOK pmt) (api : Api) (h : ReqHead) (t : Bytes)
    (hb : carriesBody h = true) (ht : mediaType pmt h = some t)
    (hna : admitted (allConsumes api) t = false) :
    gateUntyped pmt api h = .e415 ∧ consumerRan (gateUntyped pmt api h) = none ∧
      handlerRan (gateUntyped pmt api h) = false := by
  have : gateUntyped pmt api h = .e415 := by
    rw [gateUntyped_eq_nf pmt api h hp.nonempty]
    rw [← hasBody_eq_carries] at hb
    rw [mediaType_eq] at ht
    unfold gateNF
    simp only [hb, ↓reduceIte, ht]
    rw [validate_eq_admitted hp api ht, hna]
    simp
  rw [this]
  exact ⟨rfl, rfl, rfl⟩

/-- T2 (400) — a body-carrying request whose Content-Type cannot be parsed is answered 400 and
neither a consumer nor the handler runs. (No hypothesis on the parser.) -/
theorem refused_400 (pmt : Pmt) (api : Api) (h : ReqHead)
    (hb : carriesBody h = true) (ht : mediaType pmt h = none) :
    gateUntyped pmt api h = .e400 ∧ gateTyped pmt api h = .e400 ∧
      consumerRan (gateUntyped pmt api h) = none ∧ handlerRan (gateUntyped pmt api h) = false := by
  rw [← hasBody_eq_carries] at hb
  rw [mediaType_eq] at ht
  have hu : gateUntyped pmt api h = .e400 := by
    unfold gateUntyped untypedRaw
    simp [hb, uStep1, runtimeContentType_eq, ht, uStep2, uStep3, observe, GateOut.ofErr]
  have ht' : gateTyped pmt api h = .e400 := by
    rw [gateTyped_eq_nf]; unfold gateNF; simp [hb, ht]
  rw [hu, ht']
  exact ⟨rfl, rfl, rfl, rfl⟩

/-- T3 — a request without a body is not subjected to the check (whatever its Content-Type, the
consumes list and the parser), no consumer decodes anything and the handler runs. -/
theorem no_body_not_checked (pmt : Pmt) (api : Api) (h : ReqHead) (hb : carriesBody h = false) :
    gateUntyped pmt api h = .skipped ∧ gateTyped pmt api h = .skipped ∧
      consumerRan (gateUntyped pmt api h) = none ∧ handlerRan (gateUntyped pmt api h) = true := by
  rw [← hasBody_eq_carries] at hb
  have hu : gateUntyped pmt api h = .skipped := by
    unfold gateUntyped untypedRaw; simp [hb, observe]
  have ht : gateTyped pmt api h = .skipped := by
    unfold gateTyped typedRaw; simp [hb, observe]
  rw [hu, ht]
  exact ⟨rfl, rfl, rfl, rfl⟩

/-- Positive direction: a body-carrying request whose type is spelled in `consumes ∪ {default}`
and registered is decoded by that registration (by both entry points). -/
theorem listed_and_registered_is_decoded {pmt : Pmt} (hp : PmtOK pmt) {api : Api} (hwf : WF api = true)
    (h : ReqHead) (t : Bytes) (k : Nat) (hb : carriesBody h = true) (ht : mediaType pmt h = some t)
    (hl : listedAsSpelled (allConsumes api) t = true) (hr : regLookup api.registered t = some k) :
    gateUntyped pmt api h = .consumer k ∧ gateTyped pmt api h = .consumer k := by
  have hadm : admitted (allConsumes api) t = true := by
    unfold admitted
    unfold listedAsSpelled at hl
    have hm : t ∈ allConsumes api := by simpa using hl
    exact List.any_eq_true.mpr ⟨t, hm, by simp [entryAdmits, equalFold]⟩
  have key : gateNF pmt api h = .consumer k := by
    rw [← hasBody_eq_carries] at hb
    rw [mediaType_eq] at ht
    unfold gateNF
    simp only [hb, ↓reduceIte, ht]
    rw [validate_eq_admitted hp api ht, hadm,
      routeConsumer_of_listed hwf (hp.nosemi _ _ ht) hl hr]
    simp
  rw [gateTyped_eq_nf, gateUntyped_eq_nf pmt api h hp.nonempty]
  exact ⟨key, key⟩

/-- Neither gate lets a body through without a consumer (which would make the binder call
`Consume` on a nil interface). -/
theorem never_passes_without_consumer {pmt : Pmt} (hne : ∀ x t, pmt x = some t → t ≠ []) (api : Api)
    (h : ReqHead) :
    gateUntyped pmt api h ≠ .passNoConsumer ∧ gateTyped pmt api h ≠ .passNoConsumer := by
  rw [gateTyped_eq_nf, gateUntyped_eq_nf pmt api h hne]
  have : gateNF pmt api h ≠ .passNoConsumer := by
    unfold gateNF
    split
    · split
      · simp
      · split
        · split <;> simp
        · simp
    · simp
  exact ⟨this, this⟩

/-- "x all methods": the gate does not look at the method. -/
theorem gate_ignores_method (pmt : Pmt) (api : Api) (h : ReqHead) (m : Bytes) :
    gateUntyped pmt api { h with method := m } = gateUntyped pmt api h ∧
      gateTyped pmt api { h with method := m } = gateTyped pmt api h := ⟨rfl, rfl⟩

/-- "ignoring parameters such as charset", case, whitespace: two requests whose headers the parser
maps to the same result, and which both carry a body (or both do not), get the same outcome. -/
theorem gate_depends_only_on_parsed_type {pmt : Pmt} (hne : ∀ x t, pmt x = some t → t ≠ []) (api : Api)
    (h h' : ReqHead) (hb : carriesBody h = carriesBody h')
    (ht : mediaType pmt h = mediaType pmt h') :
    gateUntyped pmt api h = gateUntyped pmt api h' := by
  rw [gateUntyped_eq_nf pmt api h hne, gateUntyped_eq_nf pmt api h' hne]
  rw [mediaType_eq, mediaType_eq] at ht
  rw [← hasBody_eq_carries, ← hasBody_eq_carries] at hb
  unfold gateNF
  rw [hb, ht]

/-- The Spec pins the outcome, except for an admitted registered type that is not itself spelled in
the list (admitted through a wildcard only), where 500 and the registered consumer are both accepted. -/
theorem spec_functional (pmt : Pmt) (api : Api) (h : ReqHead) (o₁ o₂ : GateOut)
    (h₁ : Spec pmt api h o₁ = true) (h₂ : Spec pmt api h o₂ = true) :
    o₁ = o₂ ∨ ∃ t, mediaType pmt h = some t ∧ listedAsSpelled (allConsumes api) t = false ∧
      (regLookup api.registered t).isSome = true := by
  unfold Spec at h₁ h₂
  by_cases hb : carriesBody h
  · simp only [hb, Bool.not_true, Bool.false_eq_true, ↓reduceIte] at h₁ h₂
    cases hm : mediaType pmt h with
    | none =>
      rw [hm] at h₁ h₂
      simp only [beq_iff_eq] at h₁ h₂
      exact Or.inl (h₁.trans h₂.symm)
    | some t =>
      rw [hm] at h₁ h₂
      simp only at h₁ h₂
      by_cases ha : admitted (allConsumes api) t
      · simp only [ha, Bool.not_true, Bool.false_eq_true, ↓reduceIte] at h₁ h₂
        cases hr : regLookup api.registered t with
        | none =>
          rw [hr] at h₁ h₂
          cases o₁ <;> cases o₂ <;> simp_all
        | some k =>
          rw [hr] at h₁ h₂
          cases hl : listedAsSpelled (allConsumes api) t with
          | false => exact Or.inr ⟨t, rfl, hl, by first | rfl | (rw [hr]; rfl)⟩
          | true =>
            rw [hl] at h₁ h₂
            cases o₁ <;> cases o₂ <;> simp_all
      · simp only [ha, Bool.not_false, ↓reduceIte, beq_iff_eq] at h₁ h₂
        exact Or.inl (h₁.trans h₂.symm)
  · simp only [hb, Bool.not_false, ↓reduceIte, beq_iff_eq] at h₁ h₂
    exact Or.inl (h₁.trans h₂.symm)

/-! ### non-vacuity: a concrete parser meeting `PmtOK`, and concrete non-trivial inputs -/

def bTextPlain : Bytes := [116, 101, 120, 116, 47, 112, 108, 97, 105, 110]          -- "text/plain"
def bTextPlainSpelled : Bytes := [84, 101, 120, 116, 47, 80, 108, 97, 105, 110, 59, 32, 99, 104, 97, 114, 115, 101, 116, 61, 117, 116, 102, 45, 56]   -- "Text/Plain; charset=utf-8"
def bJson : Bytes := [97, 112, 112, 108, 105, 99, 97, 116, 105, 111, 110, 47, 106, 115, 111, 110]               -- "application/json"
def bTextStar : Bytes := [116, 101, 120, 116, 47, 42]           -- "text/*"
def bPost : Bytes := [80, 79, 83, 84]               -- "POST"

/-- a three-line table standing for the parser -/
def tablePmt : Pmt := fun x =>
  if x == bTextPlainSpelled then some bTextPlain
  else if x == bTextPlain then some bTextPlain
  else if x == bJson then some bJson
  else none

theorem tablePmt_ok : PmtOK tablePmt := by
  have key : ∀ x t, tablePmt x = some t → t = bTextPlain ∨ t = bJson := by
    intro x t h
    unfold tablePmt at h
    split at h
    · exact Or.inl (Option.some.inj h).symm
    · split at h
      · exact Or.inl (Option.some.inj h).symm
      · split at h
        · exact Or.inr (Option.some.inj h).symm
        · cases h
  constructor
  · intro x t h; rcases key x t h with rfl | rfl <;> decide
  · intro x t h; rcases key x t h with rfl | rfl <;> decide
  · intro x t h; rcases key x t h with rfl | rfl <;> decide

/-- consumes `text/plain`; default `application/json`; registrations json (0), text/plain (1) -/
def exApi : Api := ⟨[bTextPlain], bJson, [bJson, bTextPlain]⟩
/-- consumes `text/*` only; the same registrations -/
def exWildApi : Api := ⟨[bTextStar], [], [bJson, bTextPlain]⟩
/-- POST, `Content-Type: Text/Plain; charset=utf-8`, chunked body -/
def exReq : ReqHead := ⟨bPost, [bTextPlainSpelled], -1, [], true⟩
/-- the same with a JSON label and Content-Length 7 -/
def exJsonReq : ReqHead := ⟨bPost, [bJson], 7, [55], false⟩
/-- an unparsable label -/
def exBadReq : ReqHead := ⟨bPost, [[47, 106]], 7, [55], false⟩

example : WF exApi = true ∧ WF exWildApi = true := by decide
-- T1 / the positive direction: the spelled header reaches consumer 1 by both entry points
example : gateUntyped tablePmt exApi exReq = .consumer 1 ∧ gateTyped tablePmt exApi exReq = .consumer 1 := by
  decide
example : carriesBody exReq = true ∧ mediaType tablePmt exReq = some bTextPlain ∧
    listedAsSpelled (allConsumes exApi) bTextPlain = true ∧
    regLookup exApi.registered bTextPlain = some 1 := by decide
-- the API default is part of the list: JSON is decoded by consumer 0
example : gateUntyped tablePmt exApi exJsonReq = .consumer 0 := by decide
-- T2: JSON is not admitted by `text/*` -> 415; an unparsable label -> 400
example : carriesBody exJsonReq = true ∧ mediaType tablePmt exJsonReq = some bJson ∧
    admitted (allConsumes exWildApi) bJson = false ∧
    gateUntyped tablePmt exWildApi exJsonReq = .e415 := by decide
example : carriesBody exBadReq = true ∧ mediaType tablePmt exBadReq = none ∧
    gateTyped tablePmt exApi exBadReq = .e400 := by decide
-- T3: Content-Length: 0 -> not checked although the label is not admitted
example : carriesBody { exJsonReq with contentLength := 0, clHeader := [48], streamHasData := true } = false ∧
    gateUntyped tablePmt exWildApi { exJsonReq with contentLength := 0, clHeader := [48], streamHasData := true }
      = .skipped := by decide
-- the case `spec_functional` leaves open is real: admitted through `text/*` only -> 500, and the
-- Spec accepts it
example : gateUntyped tablePmt exWildApi exReq = .e500NoConsumer ∧
    Spec tablePmt exWildApi exReq .e500NoConsumer = true ∧
    admitted (allConsumes exWildApi) bTextPlain = true := by decide
-- the Spec is not vacuous: it rejects every other outcome on that request but the registered consumer
example : Spec tablePmt exWildApi exReq .e415 = false ∧ Spec tablePmt exWildApi exReq .skipped = false ∧
    Spec tablePmt exWildApi exReq (.consumer 0) = false ∧ Spec tablePmt exApi exReq .e500NoConsumer = false := by
  decide


/-! ## the whole functions: gate, response-format check, binder -/

/-- The whole of `Context.BindValidRequest` meets the Spec: for every API, request head, parsed
Accept header, produces list `t.produces` holding the declared types (as a set, no empty entry) and
every binder (nil, succeeding, failing). -/
theorem typedFull_meets_spec {pmt : Pmt} (hp : PmtOK pmt) {api : Api} (hwf : WF api = true) (h : ReqHead)
    (t : TailIn) (declared : List Bytes) (hmem : ∀ x, x ∈ t.produces ↔ x ∈ declared)
    (hnn : ([] : Bytes) ∉ t.produces) :
    SpecFull pmt api h t.specs declared t.binder (obsOfFull (typedFull pmt api h t)) = true := by
  have hs := typed_meets_spec hp hwf h
  have htp := tailPass_eq_admits t declared hmem hnn
  rcases typedFull_obs pmt api h t with ⟨hc, hg, ho⟩ | ⟨_, k, hg, ho⟩ | ⟨_, e, hg, ho⟩
  · rw [ho]; rw [hg] at hs
    exact specFull_tailObs pmt api h t declared t.binder none .skipped
      (gateSeen_tailObs_none h t t.binder hc) rfl (Or.inl rfl) hs htp
  · rw [ho]; rw [hg] at hs
    exact specFull_tailObs pmt api h t declared t.binder (some k) (.consumer k)
      (gateSeen_tailObs_some h t t.binder k) rfl (Or.inr ⟨k, rfl⟩) hs htp
  · rw [ho]; rw [hg] at hs
    unfold SpecFull
    rw [gateSeen_refused h e [] none, hs]
    cases e <;> rfl

/-- The whole of `validateRequest` / `Context.BindAndValidate` meets the Spec (its binder is the
route's own parameter binder: it is always there and, on these routes, succeeds). -/
theorem untypedFull_meets_spec {pmt : Pmt} (hp : PmtOK pmt) {api : Api} (hwf : WF api = true) (h : ReqHead)
    (t : TailIn) (declared : List Bytes) (hmem : ∀ x, x ∈ t.produces ↔ x ∈ declared)
    (hnn : ([] : Bytes) ∉ t.produces) :
    SpecFull pmt api h t.specs declared (some .ok) (obsOfFull (untypedFull pmt api h t)) = true := by
  have hs := untyped_meets_spec hp hwf h
  have htp := tailPass_eq_admits t declared hmem hnn
  rcases untypedFull_obs pmt api h t hp.nonempty with ⟨hc, hg, ho⟩ | ⟨_, k, hg, ho⟩ | ⟨_, e, es, sel, hg, ho⟩
  · rw [ho]; rw [hg] at hs
    exact specFull_tailObs pmt api h t declared (some .ok) none .skipped
      (gateSeen_tailObs_none h t _ hc) rfl (Or.inl rfl) hs htp
  · rw [ho]; rw [hg] at hs
    exact specFull_tailObs pmt api h t declared (some .ok) (some k) (.consumer k)
      (gateSeen_tailObs_some h t _ k) rfl (Or.inr ⟨k, rfl⟩) hs htp
  · rw [ho]; rw [hg] at hs
    unfold SpecFull
    rw [gateSeen_refused h e _ sel, hs]
    cases e <;> rfl

/-- The same for the configuration itself: `route.Produces` as the router builds it from an
operation's produces list and the API's default type (lower case, no empty entry), judged against
"its produces list plus the API's default type". -/
theorem typedFull_meets_spec_route {pmt : Pmt} (hp : PmtOK pmt) {api : Api} (hwf : WF api = true) (h : ReqHead)
    (specs : List C07.Spec) (opProduces : List Bytes) (dprod : Bytes) (hwfp : WFp opProduces dprod = true)
    (b : Option BinderRes) :
    SpecFull pmt api h specs (declaredTypes opProduces dprod) b
      (obsOfFull (typedFull pmt api h ⟨specs, routeProduces opProduces dprod, b⟩)) = true :=
  typedFull_meets_spec hp hwf h ⟨specs, routeProduces opProduces dprod, b⟩ _
    (routeProduces_mem hwfp) (routeProduces_no_empty hwfp)

/-- The two entry points agree on the whole function: the checks give the same answer (same refusal
code or none) whatever binder is handed in, the gate is seen alike, and with a succeeding binder the
same binder/consumer activity follows. (Only the parser's non-empty result is needed.) -/
theorem full_entry_points_agree {pmt : Pmt} (hne : ∀ x t, pmt x = some t → t ≠ []) (api : Api) (h : ReqHead)
    (t : TailIn) :
    checksVerdict (obsOfFull (typedFull pmt api h t)) = checksVerdict (obsOfFull (untypedFull pmt api h t)) ∧
    gateSeen h (obsOfFull (typedFull pmt api h t)) = gateSeen h (obsOfFull (untypedFull pmt api h t)) ∧
    (t.binder = some .ok →
      (obsOfFull (typedFull pmt api h t)).binderRan = (obsOfFull (untypedFull pmt api h t)).binderRan ∧
      (obsOfFull (typedFull pmt api h t)).decoded = (obsOfFull (untypedFull pmt api h t)).decoded ∧
      ((obsOfFull (typedFull pmt api h t)).codes = [] ↔ (obsOfFull (untypedFull pmt api h t)).codes = [])) := by
  have hgg := typed_eq_untyped hne api h
  rcases typedFull_obs pmt api h t with ⟨hc, hg, ho⟩ | ⟨hc, k, hg, ho⟩ | ⟨hc, e, hg, ho⟩ <;>
    rcases untypedFull_obs pmt api h t hne with ⟨hc', hg', ho'⟩ | ⟨hc', k', hg', ho'⟩ | ⟨hc', e', es', sel', hg', ho'⟩ <;>
    (try (rw [hc] at hc'; cases hc')) <;>
    (rw [hg, hg'] at hgg) <;> (try (cases e <;> cases hgg)) <;> (try (cases e' <;> cases hgg))
  · rw [ho, ho']
    refine ⟨?_, by rw [gateSeen_tailObs_none h t _ hc, gateSeen_tailObs_none h t _ hc], ?_⟩
    · unfold checksVerdict tailObs
      cases tailPass t
      · rfl
      · cases t.binder with
        | none => rfl
        | some r => cases r <;> rfl
    · intro hb; rw [hb]; exact ⟨rfl, rfl, Iff.rfl⟩
  · cases hgg
    rw [ho, ho']
    refine ⟨?_, by rw [gateSeen_tailObs_some, gateSeen_tailObs_some], ?_⟩
    · unfold checksVerdict tailObs
      cases tailPass t
      · rfl
      · cases t.binder with
        | none => rfl
        | some r => cases r <;> rfl
    · intro hb; rw [hb]; exact ⟨rfl, rfl, Iff.rfl⟩
  · rw [ho, ho']
    have : e = e' := by cases e <;> cases e' <;> first | rfl | cases hgg
    subst this
    refine ⟨rfl, by rw [gateSeen_refused, gateSeen_refused], ?_⟩
    intro _; exact ⟨rfl, rfl, by simp⟩


/-- "The binder runs iff no check failed": the binder handed to `BindValidRequest` is called exactly
when there is one, the content-type gate let the request through (or did not apply) and the
response-format check did (no produces list, or the negotiation found a format). -/
theorem binder_runs_iff (pmt : Pmt) (api : Api) (h : ReqHead) (t : TailIn) :
    (typedFull pmt api h t).binderRan = true ↔
      t.binder.isSome = true ∧ handlerRan (gateTyped pmt api h) = true ∧
        (t.produces = [] ∨ noFormat t.specs t.produces = false) := by
  have hob : (typedFull pmt api h t).binderRan = (obsOfFull (typedFull pmt api h t)).binderRan := rfl
  have htp : (t.produces = [] ∨ noFormat t.specs t.produces = false) ↔ tailPass t = true := by
    unfold tailPass; cases t.produces <;> simp
  rw [hob, htp]
  rcases typedFull_obs pmt api h t with ⟨_, hg, ho⟩ | ⟨_, k, hg, ho⟩ | ⟨_, e, hg, ho⟩ <;> rw [ho, hg]
  · unfold tailObs
    cases tailPass t <;> (cases t.binder with
      | none => simp [handlerRan]
      | some r => cases r <;> simp [handlerRan])
  · unfold tailObs
    cases tailPass t <;> (cases t.binder with
      | none => simp [handlerRan]
      | some r => cases r <;> simp [handlerRan])
  · cases e <;> simp [GateOut.ofErr, handlerRan]

/-- 406 characterised: `BindValidRequest` answers 406 (an error of its own, not the binder's)
exactly when the gate let the request through, the route declares types, and the negotiation over
them with the default `""` yields nothing. The request body plays no part. -/
theorem e406_iff (pmt : Pmt) (api : Api) (h : ReqHead) (t : TailIn) :
    ((obsOfFull (typedFull pmt api h t)).codes = [406] ∧ (obsOfFull (typedFull pmt api h t)).asIs = false) ↔
      handlerRan (gateTyped pmt api h) = true ∧ t.produces ≠ [] ∧ noFormat t.specs t.produces = true := by
  have htp : (t.produces ≠ [] ∧ noFormat t.specs t.produces = true) ↔ tailPass t = false := by
    unfold tailPass; cases t.produces <;> simp
  rw [htp]
  rcases typedFull_obs pmt api h t with ⟨_, hg, ho⟩ | ⟨_, k, hg, ho⟩ | ⟨_, e, hg, ho⟩ <;> rw [ho, hg]
  · unfold tailObs
    cases tailPass t <;> (cases t.binder with
      | none => simp [handlerRan]
      | some r => cases r <;> simp [handlerRan])
  · unfold tailObs
    cases tailPass t <;> (cases t.binder with
      | none => simp [handlerRan]
      | some r => cases r <;> simp [handlerRan])
  · cases e <;> simp [GateOut.ofErr, handlerRan, Err.code]

/-- … which, for declared types without an empty entry, says: the Accept header admits none of the
types the operation declares (C07's statement about the API handler). -/
theorem e406_iff_admits_none (pmt : Pmt) (api : Api) (h : ReqHead) (t : TailIn)
    (declared : List Bytes) (hmem : ∀ x, x ∈ t.produces ↔ x ∈ declared) (hnn : ([] : Bytes) ∉ t.produces) :
    ((obsOfFull (typedFull pmt api h t)).codes = [406] ∧ (obsOfFull (typedFull pmt api h t)).asIs = false) ↔
      handlerRan (gateTyped pmt api h) = true ∧ declared ≠ [] ∧ acceptAdmits t.specs declared = false := by
  rw [e406_iff]
  have h1 := tailPass_eq_admits t declared hmem hnn
  have h2 : (t.produces ≠ [] ∧ noFormat t.specs t.produces = true) ↔ tailPass t = false := by
    unfold tailPass; cases t.produces <;> simp
  have h3 : (declared ≠ [] ∧ acceptAdmits t.specs declared = false) ↔
      (declared.isEmpty || acceptAdmits t.specs declared) = false := by
    cases declared <;> simp
  rw [h2, h3, h1]

/-- Error order and shape (generated entry point): the answer is nil, the binder's own error, or ONE
error of the checks — 400/415/500 from the gate, else 406. -/
theorem typed_answer_shape (pmt : Pmt) (api : Api) (h : ReqHead) (t : TailIn) :
    ((obsOfFull (typedFull pmt api h t)).asIs = false ∧
      ((obsOfFull (typedFull pmt api h t)).codes = [] ∨ (obsOfFull (typedFull pmt api h t)).codes = [400] ∨
       (obsOfFull (typedFull pmt api h t)).codes = [415] ∨ (obsOfFull (typedFull pmt api h t)).codes = [500] ∨
       (obsOfFull (typedFull pmt api h t)).codes = [406])) ∨
    (∃ c, t.binder = some (.fail c) ∧ (obsOfFull (typedFull pmt api h t)).asIs = true ∧
      (obsOfFull (typedFull pmt api h t)).codes = [c] ∧ (obsOfFull (typedFull pmt api h t)).binderRan = true) := by
  rcases typedFull_obs pmt api h t with ⟨_, _, ho⟩ | ⟨_, k, _, ho⟩ | ⟨_, e, _, ho⟩ <;> rw [ho]
  · unfold tailObs
    cases tailPass t <;> (cases t.binder with
      | none => simp
      | some r => cases r <;> simp)
  · unfold tailObs
    cases tailPass t <;> (cases t.binder with
      | none => simp
      | some r => cases r <;> simp)
  · cases e <;> simp [Err.code]

/-- Error order (reflective entry point): the errors of the gate come first and 406 stands alone —
it is only ever the sole error. -/
theorem untyped_406_stands_alone {pmt : Pmt} (hne : ∀ x t, pmt x = some t → t ≠ []) (api : Api) (h : ReqHead)
    (t : TailIn) (h406 : 406 ∈ (obsOfFull (untypedFull pmt api h t)).codes) :
    (obsOfFull (untypedFull pmt api h t)).codes = [406] ∧
      handlerRan (gateUntyped pmt api h) = true ∧ (obsOfFull (untypedFull pmt api h t)).binderRan = false := by
  rcases untypedFull_obs pmt api h t hne with ⟨_, hg, ho⟩ | ⟨_, k, hg, ho⟩ | ⟨_, e, es, sel, hg, ho⟩ <;>
    rw [ho] at h406 ⊢ <;> rw [hg]
  · unfold tailObs at h406 ⊢
    cases htp : tailPass t <;> simp [htp, handlerRan] at h406 ⊢
  · unfold tailObs at h406 ⊢
    cases htp : tailPass t <;> simp [htp, handlerRan] at h406 ⊢
  · exfalso
    simp only [List.mem_cons, List.mem_map] at h406
    rcases h406 with h406 | ⟨e', _, h406⟩
    · cases e <;> simp [Err.code] at h406
    · cases e' <;> simp [Err.code] at h406

/-- The binder's own error is returned AS IS: `BindValidRequest` returns the very value of a failing
binder exactly when that binder ran; it is never folded into the composite of the checks. -/
theorem binder_error_as_is (pmt : Pmt) (api : Api) (h : ReqHead) (t : TailIn) (c : Nat) :
    (typedFull pmt api h t).ret = .asIs c ↔
      t.binder = some (.fail c) ∧ (typedFull pmt api h t).binderRan = true := by
  unfold typedFull
  generalize tRespCheck (rawErrs (typedRaw pmt api h)) t = res
  generalize rawSel (typedRaw pmt api h) = sel
  cases res with
  | nil =>
    cases t.binder with
    | none => simp [tBind]
    | some r => cases r <;> simp [tBind]
  | cons e es =>
    cases t.binder with
    | none => simp [tBind]
    | some r => cases r <;> simp [tBind]

/-- A failing binder that runs determines the answer; one that does not run leaves no trace. -/
theorem failing_binder_answer (pmt : Pmt) (api : Api) (h : ReqHead) (t : TailIn) (c : Nat)
    (hb : t.binder = some (.fail c)) :
    ((typedFull pmt api h t).binderRan = true → (typedFull pmt api h t).ret = .asIs c) ∧
    ((typedFull pmt api h t).binderRan = false →
      typedFull pmt api h t = typedFull pmt api h { t with binder := none }) := by
  have hsame : ∀ res, tRespCheck res { t with binder := none } = tRespCheck res t := fun _ => rfl
  unfold typedFull
  rw [hsame, hb]
  generalize tRespCheck (rawErrs (typedRaw pmt api h)) t = res
  generalize rawSel (typedRaw pmt api h) = sel
  cases res <;> simp [tBind]

/-! ### F06b — what the tail did before the repair -/

/-- `requestContentType` of the unrepaired tail: the request's media type, set only when the body
was admitted and its consumer found -/
def tRct (pmt : Pmt) (api : Api) (h : ReqHead) : Bytes :=
  if hasBody h then
    match runtimeContentType pmt h with
    | .ok ct => if (tStep pmt api ct).errs.isEmpty then ct else []
    | .err => []
  else []

/-- The class of F06b: inside it the unrepaired tail let the request through where the reflective
entry point (and the repaired tail) answers 406 … -/
theorem old_tail_passes_in_class (t : TailIn) (rct : Bytes) (hr : rct ≠ []) (hp : t.produces ≠ [])
    (hs : t.specs ≠ []) (hc : C07.candidates t.specs t.produces = []) :
    tRespCheckOld [] rct t = [] ∧ tRespCheck [] t = [.notAcceptable] ∧ uRespCheck [] t = [.notAcceptable] := by
  have hneg : ∀ d, C07.negotiateContentType t.specs t.produces d = d := by
    intro d
    rw [C07.negotiate_eq_spec]
    unfold C07.specChoice
    cases hpp : t.produces with
    | nil => exact absurd hpp hp
    | cons o os =>
      have : t.specs.isEmpty = false := by cases hss : t.specs with
        | nil => exact absurd hss hs
        | cons a b => rfl
      simp only [this, Bool.false_eq_true, ↓reduceIte]
      rw [← hpp, hc]
      rfl
  have hpe : t.produces.isEmpty = false := by
    cases hpp : t.produces with
    | nil => exact absurd hpp hp
    | cons a b => rfl
  have hre : rct.isEmpty = false := by
    cases rct with
    | nil => exact absurd rfl hr
    | cons a b => rfl
  refine ⟨?_, ?_, ?_⟩
  · simp [tRespCheckOld, hneg, hpe, hre]
  · simp [tRespCheck, noFormat, hneg, hpe]
  · simp [uRespCheck, noFormat, hneg, hpe]

/-- … and outside it the unrepaired tail and the repaired one are the same function: F06b is exactly "an admitted body (`rct ≠ ""`), declared types, an Accept header
with ranges, none of which admits a declared type". -/
theorem old_tail_same_outside_class (t : TailIn) (rct : Bytes)
    (hout : ¬ (rct ≠ [] ∧ t.produces ≠ [] ∧ t.specs ≠ [] ∧ C07.candidates t.specs t.produces = [])) :
    tRespCheckOld [] rct t = tRespCheck [] t := by
  unfold tRespCheckOld tRespCheck noFormat
  cases hpp : t.produces with
  | nil =>
    cases rct <;> simp [C07.negotiateContentType, starSlashStar]
  | cons o os =>
    simp only [List.isEmpty_nil, List.isEmpty_cons, Bool.false_and, Bool.false_eq_true, ↓reduceIte,
      Bool.not_false, Bool.and_self]
    by_cases hr : rct = []
    · rw [hr]
    · -- the negotiation does not fall back on the default
      have hnd : ∀ d, C07.negotiateContentType t.specs (o :: os) d =
          C07.negotiateContentType t.specs (o :: os) [] := by
        intro d
        rw [C07.negotiate_eq_spec, C07.negotiate_eq_spec]
        unfold C07.specChoice
        simp only
        split
        · rfl
        · rename_i hse
          cases hm : C07.firstMax (C07.candidates t.specs (o :: os)) with
          | some c => rfl
          | none =>
            exfalso
            apply hout
            refine ⟨hr, by rw [hpp]; simp, ?_, by rw [hpp]; exact firstMax_eq_none.mp hm⟩
            intro e; rw [e] at hse; simp at hse
      rw [hnd rct]

/-- `requestContentType` was set exactly for a body the gate admitted and found a consumer for. -/
theorem tRct_ne_nil_iff {pmt : Pmt} (hne : ∀ x t, pmt x = some t → t ≠ []) (api : Api) (h : ReqHead) :
    tRct pmt api h ≠ [] ↔ ∃ k, gateTyped pmt api h = .consumer k := by
  unfold tRct gateTyped typedRaw
  by_cases hb : hasBody h
  · simp only [hb, ↓reduceIte, runtimeContentType_eq]
    cases hp : pmt (effCT h) with
    | none => simp [tAfterCT, observe, GateOut.ofErr]
    | some ct =>
      have hct := hne _ _ hp
      simp only [tAfterCT, tStep]
      by_cases hv : validateContentType pmt (routeConsumes api) ct
      · simp only [hv, ↓reduceIte]
        cases hc : routeConsumer api ct with
        | none => simp [observe, GateOut.ofErr]
        | some k => simp [observe, hct]
      · simp [hv, observe, GateOut.ofErr]
  · simp [hb, observe]

/-! ### non-vacuity of the statements about the whole functions -/

def bImagePng : Bytes := [105, 109, 97, 103, 101, 47, 112, 110, 103]      -- "image/png"
def bStarStar : Bytes := [42, 47, 42]                                      -- "*/*"
/-- `Accept: image/png` -/
def exAccPng : List C07.Spec := [⟨bImagePng, ⟨1, 0, 0⟩⟩]
/-- `Accept: image/png, application/json;q=0, */*;q=0.5` -/
def exAccMixed : List C07.Spec := [⟨bImagePng, ⟨1, 0, 0⟩⟩, ⟨bJson, ⟨0, 0, 0⟩⟩, ⟨bStarStar, ⟨0, 5, 1⟩⟩]
/-- `Accept: application/json;q=0` -/
def exAccQ0 : List C07.Spec := [⟨bJson, ⟨0, 0, 0⟩⟩]

-- the F06b witness: an admitted JSON body (consumer 0), `Accept: image/png`, produces [application/json]:
-- both entry points answer 406, the binder does not run, nothing is decoded (before the repair the
-- generated entry point let it through: `old_tail_passes_in_class` applies, see below)
example : obsOfFull (typedFull tablePmt exApi exJsonReq ⟨exAccPng, [bJson], some .ok⟩) = ⟨[406], false, false, some 0, none⟩ ∧
    obsOfFull (untypedFull tablePmt exApi exJsonReq ⟨exAccPng, [bJson], some .ok⟩) = ⟨[406], false, false, some 0, none⟩ := by
  decide
example : tRct tablePmt exApi exJsonReq = bJson ∧ exAccPng ≠ [] ∧ C07.candidates exAccPng [bJson] = [] ∧
    tRespCheckOld [] (tRct tablePmt exApi exJsonReq) ⟨exAccPng, [bJson], some .ok⟩ = [] := by decide
-- the hypotheses of `typedFull_meets_spec` / `e406_iff_admits_none` are met, and the header admits nothing
example : acceptAdmits exAccPng (declaredTypes [] bJson) = false ∧ ([] : Bytes) ∉ routeProduces [] bJson ∧
    WFp [] bJson = true ∧ WFp [bTextPlain] bJson = true := by decide
-- a q=0 range never admits; a `*/*` range with q > 0 does: the binder runs and consumer 0 decodes
example : acceptAdmits exAccQ0 [bJson] = false ∧ acceptAdmits exAccMixed [bJson] = true := by decide
example : obsOfFull (typedFull tablePmt exApi exJsonReq ⟨exAccMixed, [bJson], some .ok⟩) = ⟨[], false, true, some 0, some 0⟩ := by
  decide
-- the failing binder's error comes back as it is (422), after the checks passed
example : typedFull tablePmt exApi exJsonReq ⟨exAccMixed, [bJson], some (.fail 422)⟩ = ⟨.asIs 422, true, some 0⟩ := by decide
-- … and is never reached when a check fails: 415 (gate) and 406 (format) win over it, a nil binder never runs
example : typedFull tablePmt exWildApi exJsonReq ⟨exAccMixed, [bJson], some (.fail 422)⟩ =
    ⟨.composite [.gate .unsupported], false, none⟩ := by decide
example : typedFull tablePmt exApi exJsonReq ⟨exAccQ0, [bJson], some (.fail 422)⟩ =
    ⟨.composite [.notAcceptable], false, some 0⟩ := by decide
example : typedFull tablePmt exApi exJsonReq ⟨exAccMixed, [bJson], none⟩ = ⟨.nil, false, some 0⟩ := by decide
-- an operation that declares nothing is not subjected to the check, with or without a body
example : typedFull tablePmt exApi exJsonReq ⟨exAccPng, [], some .ok⟩ = ⟨.nil, true, some 0⟩ ∧
    typedFull tablePmt exApi { exJsonReq with contentLength := 0, clHeader := [48] } ⟨exAccPng, [], some .ok⟩ = ⟨.nil, true, none⟩ := by
  decide
-- the reflective entry point reports the gate's errors in order, 415 before 500, and no 406 besides
example : (untypedFull tablePmt ⟨[bTextPlain], [], []⟩ exJsonReq ⟨exAccPng, [bJson], some .ok⟩).ret =
    .composite [.gate .unsupported, .gate .noConsumer] := by decide
-- the Spec for the whole function is not vacuous: on the F06b witness it rejects "let through"
example : SpecFull tablePmt exApi exJsonReq exAccPng [bJson] (some .ok) ⟨[], false, true, some 0, some 0⟩ = false ∧
    SpecFull tablePmt exApi exJsonReq exAccPng [bJson] (some .ok) ⟨[406], false, false, some 0, none⟩ = true ∧
    SpecFull tablePmt exApi exJsonReq exAccPng [bJson] (some .ok) ⟨[406], false, true, some 0, none⟩ = false ∧
    SpecFull tablePmt exApi exJsonReq exAccMixed [bJson] (some (.fail 422)) ⟨[422], false, true, some 0, none⟩ = false := by
  decide

end RtVerif.C06
