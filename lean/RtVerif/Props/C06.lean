import RtVerif.Model.C06
import RtVerif.Lemmas.C06
/-
  C06 — property theorems (helpers live in Lemmas/C06.lean).

  All statements are for EVERY API configuration (`consumes` list, default, registrations), EVERY
  request head and EVERY parser `pmt` satisfying `PmtOK` (what is assumed of
  `mime.ParseMediaType`: the type it returns parses to itself, is not empty and holds no `;` — each
  clause is re-checked on every harness case against the real function).  `WF api` is the
  property's own quantifier: consumes entries are spelled in lower case.

  * `untyped_meets_spec`, `typed_meets_spec`   both gates satisfy the Spec (the property as read in
                                               Model/C06.lean)
  * `typed_eq_untyped`                         T4: the two entry points give the same observable
                                               outcome (same accept/refuse, same consumer)
  * `consumer_only_for_admitted`               T1
  * `refused_415`, `refused_400`               T2 (with "neither a consumer nor the handler runs")
  * `no_body_not_checked`                      T3
  * `listed_and_registered_is_decoded`         the positive direction for types spelled in the list
  * `never_passes_without_consumer`            the nil-consumer panic is unreachable
  * `gate_ignores_method`, `gate_depends_only_on_parsed_type`
  * `spec_functional`                          the Spec pins the outcome (non-vacuity of the Spec)
  * `holds_outside_known`                      the shape DESIGN §2.2 asks for (`Known` is empty)
-/
namespace RtVerif.C06
open RtVerif Bytes

/-- The property: the reflective gate (behind `Context.BindAndValidate`) meets the Spec. -/
theorem untyped_meets_spec {pmt : Pmt} (hp : PmtOK pmt) {api : Api} (hwf : WF api = true) (h : ReqHead) :
    Spec pmt api h (gateUntyped pmt api h) = true := by
  rw [gateUntyped_eq_nf pmt api h hp.nonempty]
  exact gateNF_meets_spec hp hwf h

/-- T4 — the two binding entry points accept or refuse the same requests and pick the same
consumer. Needs only that the parser never returns an empty type: for an empty type the reflective
gate skips the consumer lookup while the typed one answers 500. -/
theorem typed_eq_untyped {pmt : Pmt} (hne : ∀ x t, pmt x = some t → t ≠ []) (api : Api) (h : ReqHead) :
    gateTyped pmt api h = gateUntyped pmt api h := by
  rw [gateTyped_eq_nf, gateUntyped_eq_nf pmt api h hne]

/-- The gate of generated servers (`Context.BindValidRequest`) meets the Spec. -/
theorem typed_meets_spec {pmt : Pmt} (hp : PmtOK pmt) {api : Api} (hwf : WF api = true) (h : ReqHead) :
    Spec pmt api h (gateTyped pmt api h) = true := by
  rw [typed_eq_untyped hp.nonempty]
  exact untyped_meets_spec hp hwf h

/-- What is seen downstream (consumer that decodes, handler) meets the Spec too. -/
theorem model_obs_meets_spec {pmt : Pmt} (hp : PmtOK pmt) {api : Api} (hwf : WF api = true) (h : ReqHead) :
    SpecObs pmt api h (modelObs (gateUntyped pmt api h)) = true := by
  unfold SpecObs modelObs
  rw [untyped_meets_spec hp hwf h]
  cases gateUntyped pmt api h <;> simp [consumerRan, handlerRan]

/-- DESIGN §2.2 shape; `Known` is empty for C06 (F06a was repaired). -/
theorem holds_outside_known {pmt : Pmt} (hp : PmtOK pmt) {api : Api} (hwf : WF api = true) (h : ReqHead)
    (_ : Known api h = none) : Spec pmt api h (gateUntyped pmt api h) = true :=
  untyped_meets_spec hp hwf h

/-- T1 — a consumer is selected only for a body-carrying request whose lower-cased, parameter-free
type is admitted by `consumes ∪ {default}` (directly or through a wildcard entry), and it is the
consumer registered for exactly that type. (No `WF` needed.) -/
theorem consumer_only_for_admitted {pmt : Pmt} (hp : PmtOK pmt) (api : Api) (h : ReqHead) (k : Nat)
    (hk : gateUntyped pmt api h = .consumer k) :
    carriesBody h = true ∧ ∃ t, mediaType pmt h = some t ∧ admitted (allConsumes api) t = true ∧
      regLookup api.registered t = some k := by
  rw [gateUntyped_eq_nf pmt api h hp.nonempty] at hk
  unfold gateNF at hk
  rw [← hasBody_eq_carries, mediaType_eq]
  by_cases hb : hasBody h
  · refine ⟨hb, ?_⟩
    simp only [hb, ↓reduceIte] at hk
    cases hx : pmt (effCT h) with
    | none => rw [hx] at hk; cases hk
    | some t =>
      rw [hx] at hk
      simp only at hk
      rw [validate_eq_admitted hp api hx] at hk
      by_cases ha : admitted (allConsumes api) t
      · simp only [ha, ↓reduceIte] at hk
        cases hc : routeConsumer api t with
        | none => rw [hc] at hk; cases hk
        | some k' =>
          rw [hc] at hk
          simp only [GateOut.consumer.injEq] at hk
          subst hk
          exact ⟨t, rfl, ha, routeConsumer_some hc⟩
      · simp [ha] at hk
  · simp [hb] at hk

/-- T2 (415) — a body-carrying request whose type is not admitted is answered 415 and neither a
consumer nor the handler runs. -/
theorem refused_415 {pmt : Pmt} (hp : PmtOK pmt) (api : Api) (h : ReqHead) (t : Bytes)
    (hb : carriesBody h = true) (ht : mediaType pmt h = some t)
    (hna : admitted (allConsumes api) t = false) :
    gateUntyped pmt api h = .e415 ∧ consumerRan (gateUntyped pmt api h) = none ∧
      handlerRan (gateUntyped pmt api h) = false := by
  have : gateUntyped pmt api h = .e415 := by
    rw [gateUntyped_eq_nf pmt api h hp.nonempty]
    rw [← hasBody_eq_carries] at hb
    rw [mediaType_eq] at ht
    unfold gateNF
    simp only [hb, ↓reduceIte, ht]
    rw [validate_eq_admitted hp api ht, hna]
    simp
  rw [this]
  exact ⟨rfl, rfl, rfl⟩

/-- T2 (400) — a body-carrying request whose Content-Type cannot be parsed is answered 400 and
neither a consumer nor the handler runs. (No hypothesis on the parser.) -/
theorem refused_400 (pmt : Pmt) (api : Api) (h : ReqHead)
    (hb : carriesBody h = true) (ht : mediaType pmt h = none) :
    gateUntyped pmt api h = .e400 ∧ gateTyped pmt api h = .e400 ∧
      consumerRan (gateUntyped pmt api h) = none ∧ handlerRan (gateUntyped pmt api h) = false := by
  rw [← hasBody_eq_carries] at hb
  rw [mediaType_eq] at ht
  have hu : gateUntyped pmt api h = .e400 := by
    unfold gateUntyped untypedRaw
    simp [hb, uStep1, runtimeContentType_eq, ht, uStep2, uStep3, observe, GateOut.ofErr]
  have ht' : gateTyped pmt api h = .e400 := by
    rw [gateTyped_eq_nf]; unfold gateNF; simp [hb, ht]
  rw [hu, ht']
  exact ⟨rfl, rfl, rfl, rfl⟩

/-- T3 — a request without a body is not subjected to the check (whatever its Content-Type, the
consumes list and the parser), no consumer decodes anything and the handler runs. -/
theorem no_body_not_checked (pmt : Pmt) (api : Api) (h : ReqHead) (hb : carriesBody h = false) :
    gateUntyped pmt api h = .skipped ∧ gateTyped pmt api h = .skipped ∧
      consumerRan (gateUntyped pmt api h) = none ∧ handlerRan (gateUntyped pmt api h) = true := by
  rw [← hasBody_eq_carries] at hb
  have hu : gateUntyped pmt api h = .skipped := by
    unfold gateUntyped untypedRaw; simp [hb, observe]
  have ht : gateTyped pmt api h = .skipped := by
    unfold gateTyped typedRaw; simp [hb, observe]
  rw [hu, ht]
  exact ⟨rfl, rfl, rfl, rfl⟩

/-- Positive direction: a body-carrying request whose type is spelled in `consumes ∪ {default}`
and registered is decoded by that registration (by both entry points). -/
theorem listed_and_registered_is_decoded {pmt : Pmt} (hp : PmtOK pmt) {api : Api} (hwf : WF api = true)
    (h : ReqHead) (t : Bytes) (k : Nat) (hb : carriesBody h = true) (ht : mediaType pmt h = some t)
    (hl : listedAsSpelled (allConsumes api) t = true) (hr : regLookup api.registered t = some k) :
    gateUntyped pmt api h = .consumer k ∧ gateTyped pmt api h = .consumer k := by
  have hadm : admitted (allConsumes api) t = true := by
    unfold admitted
    unfold listedAsSpelled at hl
    have hm : t ∈ allConsumes api := by simpa using hl
    exact List.any_eq_true.mpr ⟨t, hm, by simp [entryAdmits, equalFold]⟩
  have key : gateNF pmt api h = .consumer k := by
    rw [← hasBody_eq_carries] at hb
    rw [mediaType_eq] at ht
    unfold gateNF
    simp only [hb, ↓reduceIte, ht]
    rw [validate_eq_admitted hp api ht, hadm,
      routeConsumer_of_listed hwf (hp.nosemi _ _ ht) hl hr]
    simp
  rw [gateTyped_eq_nf, gateUntyped_eq_nf pmt api h hp.nonempty]
  exact ⟨key, key⟩

/-- Neither gate lets a body through without a consumer (which would make the binder call
`Consume` on a nil interface). -/
theorem never_passes_without_consumer {pmt : Pmt} (hne : ∀ x t, pmt x = some t → t ≠ []) (api : Api)
    (h : ReqHead) :
    gateUntyped pmt api h ≠ .passNoConsumer ∧ gateTyped pmt api h ≠ .passNoConsumer := by
  rw [gateTyped_eq_nf, gateUntyped_eq_nf pmt api h hne]
  have : gateNF pmt api h ≠ .passNoConsumer := by
    unfold gateNF
    split
    · split
      · simp
      · split
        · split <;> simp
        · simp
    · simp
  exact ⟨this, this⟩

/-- "x all methods": the gate does not look at the method. -/
theorem gate_ignores_method (pmt : Pmt) (api : Api) (h : ReqHead) (m : Bytes) :
    gateUntyped pmt api { h with method := m } = gateUntyped pmt api h ∧
      gateTyped pmt api { h with method := m } = gateTyped pmt api h := ⟨rfl, rfl⟩

/-- "ignoring parameters such as charset", case, whitespace: two requests whose headers the parser
maps to the same result, and which both carry a body (or both do not), get the same outcome. -/
theorem gate_depends_only_on_parsed_type {pmt : Pmt} (hne : ∀ x t, pmt x = some t → t ≠ []) (api : Api)
    (h h' : ReqHead) (hb : carriesBody h = carriesBody h')
    (ht : mediaType pmt h = mediaType pmt h') :
    gateUntyped pmt api h = gateUntyped pmt api h' := by
  rw [gateUntyped_eq_nf pmt api h hne, gateUntyped_eq_nf pmt api h' hne]
  rw [mediaType_eq, mediaType_eq] at ht
  rw [← hasBody_eq_carries, ← hasBody_eq_carries] at hb
  unfold gateNF
  rw [hb, ht]

/-- The Spec pins the outcome, except for an admitted registered type that is not itself spelled in
the list (admitted through a wildcard only), where 500 and the registered consumer are both accepted. -/
theorem spec_functional (pmt : Pmt) (api : Api) (h : ReqHead) (o₁ o₂ : GateOut)
    (h₁ : Spec pmt api h o₁ = true) (h₂ : Spec pmt api h o₂ = true) :
    o₁ = o₂ ∨ ∃ t, mediaType pmt h = some t ∧ listedAsSpelled (allConsumes api) t = false ∧
      (regLookup api.registered t).isSome = true := by
  unfold Spec at h₁ h₂
  by_cases hb : carriesBody h
  · simp only [hb, Bool.not_true, Bool.false_eq_true, ↓reduceIte] at h₁ h₂
    cases hm : mediaType pmt h with
    | none =>
      rw [hm] at h₁ h₂
      simp only [beq_iff_eq] at h₁ h₂
      exact Or.inl (h₁.trans h₂.symm)
    | some t =>
      rw [hm] at h₁ h₂
      simp only at h₁ h₂
      by_cases ha : admitted (allConsumes api) t
      · simp only [ha, Bool.not_true, Bool.false_eq_true, ↓reduceIte] at h₁ h₂
        cases hr : regLookup api.registered t with
        | none =>
          rw [hr] at h₁ h₂
          cases o₁ <;> cases o₂ <;> simp_all
        | some k =>
          rw [hr] at h₁ h₂
          cases hl : listedAsSpelled (allConsumes api) t with
          | false => exact Or.inr ⟨t, rfl, hl, by first | rfl | (rw [hr]; rfl)⟩
          | true =>
            rw [hl] at h₁ h₂
            cases o₁ <;> cases o₂ <;> simp_all
      · simp only [ha, Bool.not_false, ↓reduceIte, beq_iff_eq] at h₁ h₂
        exact Or.inl (h₁.trans h₂.symm)
  · simp only [hb, Bool.not_false, ↓reduceIte, beq_iff_eq] at h₁ h₂
    exact Or.inl (h₁.trans h₂.symm)

/-! ### non-vacuity: a concrete parser meeting `PmtOK`, and concrete non-trivial inputs -/

def bTextPlain : Bytes := [116, 101, 120, 116, 47, 112, 108, 97, 105, 110]          -- "text/plain"
def bTextPlainSpelled : Bytes := [84, 101, 120, 116, 47, 80, 108, 97, 105, 110, 59, 32, 99, 104, 97, 114, 115, 101, 116, 61, 117, 116, 102, 45, 56]   -- "Text/Plain; charset=utf-8"
def bJson : Bytes := [97, 112, 112, 108, 105, 99, 97, 116, 105, 111, 110, 47, 106, 115, 111, 110]               -- "application/json"
def bTextStar : Bytes := [116, 101, 120, 116, 47, 42]           -- "text/*"
def bPost : Bytes := [80, 79, 83, 84]               -- "POST"

/-- a three-line table standing for the parser -/
def tablePmt : Pmt := fun x =>
  if x == bTextPlainSpelled then some bTextPlain
  else if x == bTextPlain then some bTextPlain
  else if x == bJson then some bJson
  else none

theorem tablePmt_ok : PmtOK tablePmt := by
  have key : ∀ x t, tablePmt x = some t → t = bTextPlain ∨ t = bJson := by
    intro x t h
    unfold tablePmt at h
    split at h
    · exact Or.inl (Option.some.inj h).symm
    · split at h
      · exact Or.inl (Option.some.inj h).symm
      · split at h
        · exact Or.inr (Option.some.inj h).symm
        · cases h
  constructor
  · intro x t h; rcases key x t h with rfl | rfl <;> decide
  · intro x t h; rcases key x t h with rfl | rfl <;> decide
  · intro x t h; rcases key x t h with rfl | rfl <;> decide

/-- consumes `text/plain`; default `application/json`; registrations json (0), text/plain (1) -/
def exApi : Api := ⟨[bTextPlain], bJson, [bJson, bTextPlain]⟩
/-- consumes `text/*` only; the same registrations -/
def exWildApi : Api := ⟨[bTextStar], [], [bJson, bTextPlain]⟩
/-- POST, `Content-Type: Text/Plain; charset=utf-8`, chunked body -/
def exReq : ReqHead := ⟨bPost, [bTextPlainSpelled], -1, [], true⟩
/-- the same with a JSON label and Content-Length 7 -/
def exJsonReq : ReqHead := ⟨bPost, [bJson], 7, [55], false⟩
/-- an unparsable label -/
def exBadReq : ReqHead := ⟨bPost, [[47, 106]], 7, [55], false⟩

example : WF exApi = true ∧ WF exWildApi = true := by decide
-- T1 / the positive direction: the spelled header reaches consumer 1 by both entry points
example : gateUntyped tablePmt exApi exReq = .consumer 1 ∧ gateTyped tablePmt exApi exReq = .consumer 1 := by
  decide
example : carriesBody exReq = true ∧ mediaType tablePmt exReq = some bTextPlain ∧
    listedAsSpelled (allConsumes exApi) bTextPlain = true ∧
    regLookup exApi.registered bTextPlain = some 1 := by decide
-- the API default is part of the list: JSON is decoded by consumer 0
example : gateUntyped tablePmt exApi exJsonReq = .consumer 0 := by decide
-- T2: JSON is not admitted by `text/*` -> 415; an unparsable label -> 400
example : carriesBody exJsonReq = true ∧ mediaType tablePmt exJsonReq = some bJson ∧
    admitted (allConsumes exWildApi) bJson = false ∧
    gateUntyped tablePmt exWildApi exJsonReq = .e415 := by decide
example : carriesBody exBadReq = true ∧ mediaType tablePmt exBadReq = none ∧
    gateTyped tablePmt exApi exBadReq = .e400 := by decide
-- T3: Content-Length: 0 -> not checked although the label is not admitted
example : carriesBody { exJsonReq with contentLength := 0, clHeader := [48], streamHasData := true } = false ∧
    gateUntyped tablePmt exWildApi { exJsonReq with contentLength := 0, clHeader := [48], streamHasData := true }
      = .skipped := by decide
-- the case `spec_functional` leaves open is real: admitted through `text/*` only -> 500, and the
-- Spec accepts it
example : gateUntyped tablePmt exWildApi exReq = .e500NoConsumer ∧
    Spec tablePmt exWildApi exReq .e500NoConsumer = true ∧
    admitted (allConsumes exWildApi) bTextPlain = true := by decide
-- the Spec is not vacuous: it rejects every other outcome on that request but the registered consumer
example : Spec tablePmt exWildApi exReq .e415 = false ∧ Spec tablePmt exWildApi exReq .skipped = false ∧
    Spec tablePmt exWildApi exReq (.consumer 0) = false ∧ Spec tablePmt exApi exReq .e500NoConsumer = false := by
  decide

end RtVerif.C06
