import RtVerif.Lemmas.C11
/-
  C11 — property theorems.  `Env` (producers, http.DetectContentType, the random boundary, the
  serialisation of parts by mime/multipart) is universally quantified everywhere: nothing below
  depends on what the standard library does with the values the client code hands to it.

    T0  the regenerated facts say what the model assumes (form media types, sniffing window, how the
        window is filled and what is sniffed)
    T1  per payload kind: the bytes sent and the Content-Type header
    T2  ∀ k: every GetBody result is exactly what is subsequently sent (state machine and whole build);
        no build leaves a pipe nobody writes to as the body (the F11d repair)
    T3  the parts of the multipart document: every field value and every file exactly once, with field
        name, base file name, declared-or-sniffed type, full content; independent of map iteration
        order and of how the upload chops its reads
    S   the Spec holds for every input outside the recorded classes F11b, F11c; each class is real; the
        former class F11d (value payload under multipart/form-data) now satisfies the Spec
-/
namespace RtVerif.C11
open RtVerif Bytes

/-! ## T0 — facts -/

/-- the sniffing code fills the whole window and sniffs only the bytes it read (the F11a repair) -/
theorem facts_sniffing :
    Facts.c11SniffWindow = windowLit ∧ Facts.c11ReadCall = "io.ReadFull(fi, buf)" ∧ Facts.c11SniffArg = "buf[:size]" := by
  decide

theorem facts_mimes : Facts.c11MultipartMime = multipartLit ∧ Facts.c11URLEncodedMime = urlencodedLit := by
  decide

/-- an environment for the witnesses: every media type has a producer that writes `x`, everything
sniffs as `t`, the boundary is `B`, a document is the boundary followed by the part bodies -/
def witnessEnv : Env := ⟨fun _ => some (some [120]), fun _ => [116], [66], fun b ps => b ++ ps.flatMap (·.body)⟩

/-! ## T1 — what is sent, by payload kind -/

/-- no payload, no form data: no body, and `buildHTTP` sets no Content-Type -/
theorem nil_payload (env : Env) (i : Input) (hp : i.payload = .none) (hf : hasForm i = false)
    (hg : gatePasses env i.mediaType = true) :
    ∃ b, build env i = .built b ∧ b.header = none ∧ b.sent = .nobody ∧ b.parts = none := by
  have hc := choose_nil env i hp hf
  obtain ⟨st, gets, hb, _, _⟩ := build_of_choose env i _ hg hc (by simp)
  exact ⟨_, hb, by simp [finalHeader_nobody], rfl, rfl⟩

example : ∃ b, build ⟨fun _ => some none, fun _ => [], [], fun _ _ => []⟩
    ⟨[71, 69, 84], [97], .none, [], [], some 2⟩ = .built b ∧ b.sent = .nobody := by
  obtain ⟨b, h, _, h2, _⟩ := nil_payload ⟨fun _ => some none, fun _ => [], [], fun _ _ => []⟩
    ⟨[71, 69, 84], [97], .none, [], [], some 2⟩ rfl rfl rfl
  exact ⟨b, h, h2⟩

/-- a value: exactly the bytes the registered producer wrote, under the chosen media type — every
media type, `multipart/form-data` included (the F11d repair: no hypothesis on the media type) -/
theorem value_payload (env : Env) (i : Input) (enc : Bytes) (hp : i.payload = .value) (hf : hasForm i = false)
    (hprod : env.produce i.mediaType = some (some enc)) :
    ∃ b, build env i = .built b ∧ b.header = some i.mediaType ∧ b.sent = .bytes enc ∧ b.parts = none := by
  have hg : gatePasses env i.mediaType = true := by simp [gatePasses, hprod]
  have hc := choose_value env i enc hp hf hprod
  obtain ⟨st, gets, hb, _, _⟩ := build_of_choose env i _ hg hc (by simp)
  exact ⟨_, hb, finalHeader_mediaType i _ rfl, rfl, rfl⟩

example : ∃ b, build ⟨fun _ => some (some [123, 125]), fun _ => [], [], fun _ _ => []⟩
    ⟨[80, 85, 84], [97, 47, 98], .value, [], [], some 3⟩ = .built b ∧ b.sent = .bytes [123, 125] := by
  obtain ⟨b, h, _, h2, _⟩ := value_payload ⟨fun _ => some (some [123, 125]), fun _ => [], [], fun _ _ => []⟩
    ⟨[80, 85, 84], [97, 47, 98], .value, [], [], some 3⟩ [123, 125] rfl rfl rfl
  exact ⟨b, h, h2⟩

/-- the same under exactly `multipart/form-data`, with an auth writer asking three times -/
example : ∃ b, build ⟨fun _ => some (some [123, 125]), fun _ => [], [], fun _ _ => []⟩
    ⟨[80, 85, 84], multipartLit, .value, [], [], some 3⟩ = .built b ∧ b.sent = .bytes [123, 125] ∧
      b.gets = [[123, 125], [123, 125], [123, 125]] :=
  ⟨_, rfl, rfl, rfl⟩

/-- a producer that fails: its error is returned, nothing is sent -/
theorem value_producer_error (env : Env) (i : Input) (hp : i.payload = .value) (hf : hasForm i = false)
    (hprod : env.produce i.mediaType = some none) : build env i = .produceError := by
  have hg : gatePasses env i.mediaType = true := by simp [gatePasses, hprod]
  simp [build, hg, choose_value_error env i hp hf hprod]

example : build ⟨fun _ => some none, fun _ => [], [], fun _ _ => []⟩ ⟨[80], [97, 47, 98], .value, [], [], some 1⟩ = .produceError :=
  value_producer_error _ _ rfl rfl rfl

/-- a reader payload (io.Reader or io.ReadCloser): exactly its bytes, under the chosen media type —
whether or not, and however often, the auth writer looked at the body -/
theorem reader_payload (env : Env) (i : Input) (data : Bytes)
    (hp : i.payload = .reader data ∨ i.payload = .readCloser data) (hf : hasForm i = false)
    (hg : gatePasses env i.mediaType = true) :
    ∃ b, build env i = .built b ∧ b.header = some i.mediaType ∧ b.sent = .bytes data ∧ b.parts = none := by
  rcases hp with hp | hp
  · have hc := choose_reader env i data hp hf
    obtain ⟨st, gets, hb, _, _⟩ := build_of_choose env i _ hg hc (by simp)
    exact ⟨_, hb, finalHeader_mediaType i _ rfl, rfl, rfl⟩
  · have hc := choose_readCloser env i data hp hf
    obtain ⟨st, gets, hb, _, _⟩ := build_of_choose env i _ hg hc (by simp)
    exact ⟨_, hb, finalHeader_mediaType i _ rfl, rfl, rfl⟩

example : ∃ b, build ⟨fun _ => some none, fun _ => [], [], fun _ _ => []⟩
    ⟨[80, 85, 84], [97, 47, 98], .readCloser [1, 2, 3], [], [], some 5⟩ = .built b ∧ b.sent = .bytes [1, 2, 3] := by
  obtain ⟨b, h, _, h2, _⟩ := reader_payload ⟨fun _ => some none, fun _ => [], [], fun _ _ => []⟩
    ⟨[80, 85, 84], [97, 47, 98], .readCloser [1, 2, 3], [], [], some 5⟩ [1, 2, 3] (Or.inr rfl) rfl rfl
  exact ⟨b, h, h2⟩

/-- form fields without files, media type not `multipart/form-data`: the body is `Values.Encode()` of
the fields, under the chosen media type … -/
theorem form_urlencoded (env : Env) (i : Input) (hf : hasForm i = true) (hm : isMultipart i = false)
    (hg : gatePasses env i.mediaType = true) :
    ∃ b, build env i = .built b ∧ b.header = some i.mediaType ∧ b.sent = .bytes (encodeForm i.fields) ∧
      b.parts = none := by
  have hc := choose_urlencoded env i hf hm
  obtain ⟨st, gets, hb, _, _⟩ := build_of_choose env i _ hg hc (by simp)
  exact ⟨_, hb, finalHeader_mediaType i _ rfl, rfl, rfl⟩

example : ∃ b, build witnessEnv ⟨[80], urlencodedLit, .none, [([98], [[32], [38]]), ([97], [[61]])], [], some 2⟩ = .built b ∧
    b.sent = .bytes [97, 61, 37, 51, 68, 38, 98, 61, 43, 38, 98, 61, 37, 50, 54] := by   -- a=%3D&b=+&b=%26
  obtain ⟨b, h, _, h2, _⟩ := form_urlencoded witnessEnv
    ⟨[80], urlencodedLit, .none, [([98], [[32], [38]]), ([97], [[61]])], [], some 2⟩ rfl rfl rfl
  exact ⟨b, h, h2⟩

/-- … and that body is the URL-encoding of the fields: `url.ParseQuery` accepts it and yields, under
every name, exactly that field's values in their order (for all names and values, any bytes). -/
theorem urlencoded_body_decodes (fields : List (Bytes × List Bytes)) :
    isURLEncodingOf (encodeForm fields) fields = true :=
  encodeForm_roundtrip fields

/-- files, or the media type `multipart/form-data`: the body is the multipart document of the part
list, under a header that carries the document's own boundary -/
theorem multipart_document (env : Env) (i : Input) (hf : hasForm i = true) (hm : isMultipart i = true)
    (hg : gatePasses env i.mediaType = true) :
    ∃ b, build env i = .built b ∧ b.header = some (mangleContentType i.mediaType env.boundary) ∧
      b.sent = .bytes (env.mpDoc env.boundary (allParts env i)) ∧ b.parts = some (allParts env i) := by
  have hc := choose_multipart env i hf hm
  obtain ⟨st, gets, hb, _, _⟩ := build_of_choose env i _ hg hc (by simp)
  exact ⟨_, hb, finalHeader_nonempty i _ _ rfl (mangle_nonempty _ _), rfl, rfl⟩

example : ∃ b, build witnessEnv ⟨[80], multipartLit, .none, [([97], [[49]])], [([102], [⟨[100, 47, 120], none, [104, 105], 1⟩])], some 1⟩ = .built b ∧
    b.parts = some [⟨[97], none, none, [49]⟩, ⟨[102], some [120], some [116], [104, 105]⟩] := by
  obtain ⟨b, h, _, _, h3⟩ := multipart_document witnessEnv
    ⟨[80], multipartLit, .none, [([97], [[49]])], [([102], [⟨[100, 47, 120], none, [104, 105], 1⟩])], some 1⟩ rfl rfl rfl
  exact ⟨b, h, h3⟩

/-- unless the chosen media type is (any spelling of) the url-encoded one, that header is
`multipart/form-data; boundary=<boundary>` -/
theorem multipart_header (mt boundary : Bytes) (h : toLower mt ≠ urlencodedLit) :
    mangleContentType mt boundary = multipartHeaderLit ++ boundary ∧
      baseMediaType (mangleContentType mt boundary) = multipartLit := by
  rw [mangle_of_not_urlencoded mt boundary h]
  exact ⟨rfl, baseMediaType_multipartHeader boundary⟩

example : toLower multipartLit ≠ urlencodedLit := by decide

/-! ## T2 — what the auth writer saw is what is sent -/

/-- The closure on its own: starting from a streaming body (buffer contents `buf`, stream contents
`c`), any number `k+1` of calls all return `buf ++ c`, after which the body *is* the buffer holding
`buf ++ c`; the stream is read (and closed) exactly once. -/
theorem getBody_stream_stable (k : Nat) (buf c : Bytes) (cl : Bool) :
    ∃ st, getBodies true (k + 1) { buf := buf, body := .stream c cl } = some (st, List.replicate (k + 1) (buf ++ c)) ∧
      sentOf st = .bytes (buf ++ c) ∧ st.copied = true ∧ st.closed = cl :=
  ⟨_, getBodies_stream k buf c cl, rfl, rfl, rfl⟩

/-- without the override (`body` is nil or `r.buf`) every call returns the buffer, which is the body -/
theorem getBody_buffer_stable (k : Nat) (buf : Bytes) :
    getBodies false k { buf := buf, body := .buffer } = some ({ buf := buf, body := .buffer }, List.replicate k buf) :=
  getBodies_plain k _

/-- For every input, every environment and every number of calls: if a request is built, the auth
writer got as many results as it asked for and each is exactly the bytes the request will send. -/
theorem getBody_is_what_is_sent (env : Env) (i : Input) (b : Built) (h : build env i = .built b) :
    b.gets.length = i.auth.getD 0 ∧ ∀ g ∈ b.gets, sameAsSent b.sent g = true :=
  built_gets env i b h

example : ∃ b, build ⟨fun _ => some none, fun _ => [], [66], fun bd ps => bd ++ ps.flatMap (·.body)⟩
    ⟨[80], multipartLit, .none, [([97], [[1], [2]])], [], some 3⟩ = .built b ∧ b.gets = [[66, 1, 2], [66, 1, 2], [66, 1, 2]] :=
  ⟨_, rfl, rfl⟩

/-- For every input and every environment: the build never ends in a `GetBody()` call that does not
return, and the body of a built request is never a pipe nobody writes to — the pipe is opened only
where the multipart goroutine is started (`opensPipe`; this is what F11d violated). -/
theorem build_never_hangs (env : Env) (i : Input) :
    build env i ≠ .hang ∧ ∀ b, build env i = .built b → b.sent ≠ .never :=
  build_no_hang env i

/-! ## T3 — the parts -/

/-- `io.ReadFull` over an upload that delivers at most `chunk` bytes per `Read` (any `chunk`, `0` = no
limit) returns the first 512 bytes — the whole file when it is shorter — and leaves the rest. -/
theorem sniff_window_filled (chunk : Nat) (content : Bytes) :
    readFull chunk Facts.c11SniffWindow Facts.c11SniffWindow content = (content.take windowLit, content.drop windowLit) :=
  readFull_spec chunk _ _ content (Nat.le_refl _)

/-- The part written for an upload: field name, base of the file's name, the declared type or else
the type sniffed from its first ≤ 512 bytes, and the complete content — whatever the chunking. -/
theorem file_part (env : Env) (fn : Bytes) (f : FileIn) :
    filePart env fn f =
      ⟨fn, some (GoPath.base f.name),
       some (match f.declared with | some d => d | none => env.sniff (f.content.take windowLit)), f.content⟩ :=
  filePart_eq env fn f

/-- The goroutine writes exactly the parts the property lists: one per form-field value, one per file. -/
theorem parts_are_fields_and_files (env : Env) (i : Input) : allParts env i = expectedParts env.sniff i :=
  allParts_eq env i

/-- "exactly once": as multisets, whatever order Go's map iteration delivers fields and files in. -/
theorem parts_order_independent (env : Env) (i j : Input) (hfields : i.fields.Perm j.fields) (hfiles : i.files.Perm j.files) :
    (allParts env i).Perm (allParts env j) := by
  unfold allParts fieldParts fileParts
  exact List.Perm.append (hfields.flatMap_right _) (hfiles.flatMap_right _)

example : (allParts witnessEnv ⟨[], [], .none, [([97], [[1]]), ([98], [[2]])], [], none⟩).Perm
    (allParts witnessEnv ⟨[], [], .none, [([98], [[2]]), ([97], [[1]])], [], none⟩) :=
  parts_order_independent _ _ _ (List.Perm.swap _ _ _) (List.Perm.refl _)

theorem parts_length (env : Env) (i : Input) :
    (allParts env i).length = (i.fields.map (·.2.length)).sum + (i.files.map (·.2.length)).sum := by
  simp [allParts, fieldParts, fileParts, List.length_flatMap]

theorem field_value_is_a_part (env : Env) (i : Input) (n v : Bytes) (vs : List Bytes)
    (h : (n, vs) ∈ i.fields) (hv : v ∈ vs) : (⟨n, none, none, v⟩ : Part) ∈ allParts env i := by
  simp only [allParts, fieldParts, List.mem_append, List.mem_flatMap, List.mem_map]
  exact Or.inl ⟨(n, vs), h, v, hv, rfl⟩

theorem file_is_a_part (env : Env) (i : Input) (n : Bytes) (f : FileIn) (fs : List FileIn)
    (h : (n, fs) ∈ i.files) (hf : f ∈ fs) : expectedFilePart env.sniff n f ∈ allParts env i := by
  rw [allParts_eq]
  simp only [expectedParts, List.mem_append, List.mem_flatMap, List.mem_map]
  exact Or.inr ⟨(n, fs), h, f, hf, rfl⟩

/-- Byte level, relative to the one thing assumed of mime/multipart — that some reader `parse` inverts
its writer: the bytes sent parse, with the boundary announced in the header, into exactly the
required parts (every field value and every file once). -/
theorem multipart_bytes_decode (env : Env) (parse : Bytes → Bytes → Option (List Part))
    (hinv : ∀ bd ps, parse bd (env.mpDoc bd ps) = some ps)
    (i : Input) (hf : hasForm i = true) (hm : isMultipart i = true) (hg : gatePasses env i.mediaType = true) :
    ∃ b bytes, build env i = .built b ∧ b.sent = .bytes bytes ∧
      b.header = some (mangleContentType i.mediaType env.boundary) ∧
      ∃ ps, parse env.boundary bytes = some ps ∧ ps.Perm (expectedParts env.sniff i) := by
  obtain ⟨b, hb, hh, hs, _⟩ := multipart_document env i hf hm hg
  exact ⟨b, _, hb, hs, hh, _, hinv _ _, by rw [allParts_eq]⟩

/-- "base file name": a name `dir/file` (any directory part) is sent as `file` … -/
theorem base_removes_directories (d f : Bytes) (hf : GoPath.slash ∉ f) (hne : f ≠ []) :
    GoPath.base (d ++ GoPath.slash :: f) = f :=
  base_dir_file d f hf hne

/-- … and a name without directories as it is (backslashes and quotes are ordinary bytes). -/
theorem base_of_plain_name (f : Bytes) (hf : GoPath.slash ∉ f) (hne : f ≠ []) : GoPath.base f = f :=
  base_plain f hf hne

example : GoPath.base [100, 105, 114, 47, 115, 117, 98, 47, 113, 34, 117, 92, 116] = [113, 34, 117, 92, 116] :=
  base_removes_directories [100, 105, 114, 47, 115, 117, 98] [113, 34, 117, 92, 116] (by decide) (by decide)

/-- `escapeQuotes` (request.go) is undone by mime's quoted-string reader: a field or file name with
quotes and backslashes (no CR/LF) comes back byte for byte, and the rest of the header line is intact. -/
theorem escapeQuotes_round_trip (s rest : Bytes) (h : ∀ c ∈ s, c ≠ 13 ∧ c ≠ 10) :
    unquote (escapeQuotes s ++ 34 :: rest) = some (s, rest) :=
  unquote_escapeQuotes s rest h

example : unquote (escapeQuotes [67, 58, 92, 100, 34, 120] ++ 34 :: [59]) = some ([67, 58, 92, 100, 34, 120], [59]) :=
  escapeQuotes_round_trip _ _ (by decide)

/-! ## S — the Spec -/

example : known witnessEnv ⟨[80], multipartLit, .none, [([97], [[49]])], [([102], [⟨[100, 47, 120], none, [104, 105], 1⟩])], some 2⟩ = none := by
  decide

example : known witnessEnv ⟨[80], [97, 47, 98], .readCloser [1, 2], [], [], some 3⟩ = none := by decide

/-- The property holds for every input outside the recorded classes, for every environment. -/
theorem spec_holds_outside_known (env : Env) (i : Input) (hk : known env i = none) :
    specOk env.sniff (env.produce i.mediaType) i (resultOf (build env i)) = true := by
  cases hg : gatePasses env i.mediaType
  · -- the gate refuses the media type: nothing is sent, and nothing is registered for it
    rw [build_gate_error env i hg, gate_fails_unregistered env _ hg]
    unfold specOk
    cases kindOf i <;> simp [resultOf, failed]
  · cases hkind : kindOf i with
    | mixed => simp [specOk, hkind]
    | nil =>
      obtain ⟨hp, hf⟩ := kindOf_nil i hkind
      obtain ⟨b, hb, hh, hs, hps⟩ := nil_payload env i hp hf hg
      obtain ⟨hl, hall⟩ := getBody_is_what_is_sent env i b hb
      have hgets : authOk i (resultOf (.built b)) = true := by
        unfold authOk resultOf
        cases ha : i.auth with
        | none => simp [ha] at hl; simp [hl]
        | some k => simp [ha] at hl; simp [hl]; exact hall
      rw [hb]
      simp only [specOk, hkind, bodyOk, hgets]
      simp [resultOf, hs]
    | value =>
      obtain ⟨hp, hf⟩ := kindOf_value i hkind
      cases hprod : env.produce i.mediaType with
      | none => simp [specOk, hkind]
      | some e =>
        cases e with
        | none =>
          rw [value_producer_error env i hp hf hprod]
          simp [specOk, hkind, resultOf, failed]
        | some enc =>
          obtain ⟨b, hb, hh, hs, hps⟩ := value_payload env i enc hp hf hprod
          obtain ⟨hl, hall⟩ := getBody_is_what_is_sent env i b hb
          have hgets : authOk i (resultOf (.built b)) = true := by
            unfold authOk resultOf
            cases ha : i.auth with
            | none => simp [ha] at hl; simp [hl]
            | some k => simp [ha] at hl; simp [hl]; exact hall
          rw [hb]
          simp only [specOk, hkind, bodyOk, hgets]
          simp [resultOf, hs, hps, hh, headerIs]
    | reader data =>
      obtain ⟨hp, hf⟩ := kindOf_reader i data hkind
      obtain ⟨b, hb, hh, hs, hps⟩ := reader_payload env i data hp hf hg
      obtain ⟨hl, hall⟩ := getBody_is_what_is_sent env i b hb
      have hgets : authOk i (resultOf (.built b)) = true := by
        unfold authOk resultOf
        cases ha : i.auth with
        | none => simp [ha] at hl; simp [hl]
        | some k => simp [ha] at hl; simp [hl]; exact hall
      rw [hb]
      simp only [specOk, hkind, bodyOk, hgets]
      simp [resultOf, hs, hps, hh, headerIs]
    | formOnly =>
      obtain ⟨hp, hf, hfiles⟩ := kindOf_formOnly i hkind
      by_cases hmt : i.mediaType = multipartLit
      · -- multipart/form-data: a multipart document of the field values
        have hm : isMultipart i = true := by simp [isMultipart, facts_multipart, hmt]
        obtain ⟨b, hb, hh, hs, hps⟩ := multipart_document env i hf hm hg
        obtain ⟨hl, hall⟩ := getBody_is_what_is_sent env i b hb
        have hgets : authOk i (resultOf (.built b)) = true := by
          unfold authOk resultOf
          cases ha : i.auth with
          | none => simp [ha] at hl; simp [hl]
          | some k => simp [ha] at hl; simp [hl]; exact hall
        have hhd := multipart_header i.mediaType env.boundary (by rw [hmt]; decide)
        rw [hb]
        simp only [specOk, hkind, bodyOk, hgets]
        simp [resultOf, hs, hps, hh, multipartShape, urlencodedShape, headerNames, hhd.2, allParts_eq, isPerm_refl]
      · -- otherwise url-encoded; outside F11c the media type names that encoding
        have hm : isMultipart i = false := by
          simp only [isMultipart, hfiles, facts_multipart]
          simpa using fun h => hmt h.symm
        have hbase : baseMediaType i.mediaType = urlencodedLit := by
          simp only [known, hkind] at hk
          by_cases hb : baseMediaType i.mediaType = urlencodedLit
          · exact hb
          · exfalso
            have hreg : (env.produce i.mediaType).isSome = true := by
              simp only [gatePasses, facts_multipart, facts_urlencoded, Bool.or_eq_true, beq_iff_eq] at hg
              rcases hg with (hg | hg) | hg
              · exact hg
              · exact absurd hg hmt
              · rw [hg] at hb; exact absurd baseMediaType_urlencoded hb
            simp [hmt, hb, hreg] at hk
        obtain ⟨b, hb, hh, hs, hps⟩ := form_urlencoded env i hf hm hg
        obtain ⟨hl, hall⟩ := getBody_is_what_is_sent env i b hb
        have hgets : authOk i (resultOf (.built b)) = true := by
          unfold authOk resultOf
          cases ha : i.auth with
          | none => simp [ha] at hl; simp [hl]
          | some k => simp [ha] at hl; simp [hl]; exact hall
        rw [hb]
        simp only [specOk, hkind, bodyOk, hgets]
        simp [resultOf, hs, hps, hh, urlencodedShape, headerNames, hbase, encodeForm_roundtrip]
    | withFiles =>
      obtain ⟨hp, hf, hfiles⟩ := kindOf_withFiles i hkind
      have hm : isMultipart i = true := by simp [isMultipart, hfiles]
      have hlow : toLower i.mediaType ≠ urlencodedLit := by
        intro h
        simp [known, hkind, h] at hk
      obtain ⟨b, hb, hh, hs, hps⟩ := multipart_document env i hf hm hg
      obtain ⟨hl, hall⟩ := getBody_is_what_is_sent env i b hb
      have hgets : authOk i (resultOf (.built b)) = true := by
        unfold authOk resultOf
        cases ha : i.auth with
        | none => simp [ha] at hl; simp [hl]
        | some k => simp [ha] at hl; simp [hl]; exact hall
      have hhd := multipart_header i.mediaType env.boundary hlow
      rw [hb]
      simp only [specOk, hkind, bodyOk, hgets]
      simp [resultOf, hs, hps, hh, multipartShape, headerNames, hhd.2, allParts_eq, isPerm_refl]

/-! ## the recorded findings are real (in the model; the corpus replays them on the code) -/

/-- one upload `a` = "hi" under field `f`, media type application/x-www-form-urlencoded -/
def witnessF11b : Input := ⟨[80, 79, 83, 84], urlencodedLit, .none, [], [([102], [⟨[97], none, [104, 105], 0⟩])], none⟩
/-- one field `a=1`, media type `a/b` (registered) -/
def witnessF11c : Input := ⟨[80, 79, 83, 84], [97, 47, 98], .none, [([97], [[49]])], [], none⟩
/-- the former F11d witness: a value payload under multipart/form-data (registered), with and without
GetBody calls -/
def witnessF11d (auth : Option Nat) : Input := ⟨[80, 79, 83, 84], multipartLit, .value, [], [], auth⟩

theorem finding_F11b_real :
    known witnessEnv witnessF11b = some .F11b ∧
      specOk witnessEnv.sniff (witnessEnv.produce witnessF11b.mediaType) witnessF11b (resultOf (build witnessEnv witnessF11b)) = false := by
  decide

theorem finding_F11c_real :
    known witnessEnv witnessF11c = some .F11c ∧
      specOk witnessEnv.sniff (witnessEnv.produce witnessF11c.mediaType) witnessF11c (resultOf (build witnessEnv witnessF11c)) = false := by
  decide

/-- Regression of F11d on the repaired code: the former witness is outside every recorded class, the
request is built, what is sent is the producer's output (`x`) under `multipart/form-data`, every
GetBody result — any number of calls — is that output, and the Spec holds. -/
theorem finding_F11d_repaired (auth : Option Nat) :
    known witnessEnv (witnessF11d auth) = none ∧
      (∃ b, build witnessEnv (witnessF11d auth) = .built b ∧ b.header = some multipartLit ∧ b.sent = .bytes [120] ∧
        b.gets.length = auth.getD 0 ∧ ∀ g ∈ b.gets, g = [120]) ∧
      specOk witnessEnv.sniff (witnessEnv.produce (witnessF11d auth).mediaType) (witnessF11d auth)
        (resultOf (build witnessEnv (witnessF11d auth))) = true := by
  have hk : known witnessEnv (witnessF11d auth) = none := rfl
  refine ⟨hk, ?_, spec_holds_outside_known _ _ hk⟩
  obtain ⟨b, hb, hh, hs, _⟩ := value_payload witnessEnv (witnessF11d auth) [120] rfl rfl rfl
  obtain ⟨hl, hall⟩ := getBody_is_what_is_sent _ _ b hb
  refine ⟨b, hb, hh, hs, hl, ?_⟩
  intro g hg
  have := hall g hg
  rw [hs] at this
  simpa [sameAsSent] using this

end RtVerif.C11
