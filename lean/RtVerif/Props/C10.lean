import RtVerif.Model.C10
import RtVerif.Lemmas.C10
/-
  C10 — property theorems.

  The code substitutes placeholders by a *sequential* `strings.ReplaceAll` over the parameter map
  in whatever order Go iterates it.  For every well-formed pattern (brace-delimited placeholders,
  not nested) and brace-free parameter names this sequential fold is shown equal to the
  simultaneous, order-free substitution `substAll` — hence independent of the order, never
  re-substituting a value, and unable to add a separator, query or fragment.
-/
namespace RtVerif.C10
open RtVerif Bytes

/-- one turn of the loop, seen on a token -/
def substStep (t : Tok) (kv : Bytes × Bytes) : Tok := subst1 kv.1 (GoURL.pathEscape kv.2) t

/-- fold of the per-parameter token maps -/
def substToksSeq (params : List (Bytes × Bytes)) (toks : List Tok) : List Tok :=
  params.foldl (fun ts kv => ts.map (fun t => substStep t kv)) toks

/-- Names that `substSeq` can be trusted with: no `{`/`}` inside (the property's placeholders). -/
def NamesOk (params : List (Bytes × Bytes)) : Prop := ∀ kv ∈ params, braceFree kv.1 = true

theorem substSeq_render (params : List (Bytes × Bytes)) (toks : List Tok)
    (hn : NamesOk params) (hw : WFToks toks) :
    substSeq params (render toks) = render (substToksSeq params toks) := by
  induction params generalizing toks with
  | nil => rfl
  | cons kv ps ih =>
    have hkv := hn kv List.mem_cons_self
    have hps : NamesOk ps := fun x hx => hn x (List.mem_cons_of_mem _ hx)
    simp only [substSeq, substToksSeq, List.foldl_cons, substOne]
    rw [replaceAll_render _ _ _ hkv hw]
    exact ih _ hps (wf_subst1 _ _ (braceFree_pathEscape _) _ hw)

theorem substStep_lit (b : Bytes) (kv : Bytes × Bytes) : substStep (.lit b) kv = .lit b := rfl

theorem substStep_ph (n : Bytes) (kv : Bytes × Bytes) :
    substStep (.ph n) kv = if (n == kv.1) = true then .lit (GoURL.pathEscape kv.2) else .ph n := rfl

theorem fold_substStep_lit (params : List (Bytes × Bytes)) (b : Bytes) :
    params.foldl substStep (.lit b) = .lit b := by
  induction params with
  | nil => rfl
  | cons x xs ih => rw [List.foldl_cons, substStep_lit, ih]

/-- what the loop does to one token: the FIRST parameter with the placeholder's name wins, later
ones find nothing left to replace (a value is never re-substituted) -/
theorem fold_substStep (params : List (Bytes × Bytes)) (t : Tok) :
    params.foldl substStep t = substTok params t := by
  cases t with
  | lit b => rw [fold_substStep_lit]; rfl
  | ph n =>
    induction params with
    | nil => simp [substTok, lookupParam]
    | cons kv ps ih =>
      rw [List.foldl_cons, substStep_ph]
      by_cases h : n = kv.1
      · subst h
        simp only [beq_self_eq_true, ↓reduceIte, substTok, lookupParam, List.find?_cons_of_pos,
          Option.map_some]
        exact fold_substStep_lit _ _
      · have h1 : (n == kv.1) = false := by simpa using h
        have h2 : (kv.1 == n) = false := by
          simp only [beq_eq_false_iff_ne, ne_eq]; exact fun e => h e.symm
        simp only [h1, Bool.false_eq_true, ↓reduceIte]
        rw [ih]
        simp [substTok, lookupParam, List.find?_cons, h2]

theorem substToksSeq_eq_map (params : List (Bytes × Bytes)) (toks : List Tok) :
    substToksSeq params toks = toks.map (substTok params) := by
  have hfold : ∀ (ps : List (Bytes × Bytes)) (ts : List Tok),
      ps.foldl (fun ts kv => ts.map (fun t => substStep t kv)) ts =
        ts.map (fun t => ps.foldl substStep t) := by
    intro ps
    induction ps with
    | nil => intro ts; simp
    | cons kv ps ih => intro ts; simp only [List.foldl_cons]; rw [ih]; simp
  unfold substToksSeq
  rw [hfold]
  apply List.map_congr_left
  intro t _
  exact fold_substStep params t

/-- **T1/T2**: for a well-formed pattern and brace-free names, the code's sequential replacement
loop computes the simultaneous substitution — whatever the order of the parameter list. -/
theorem substSeq_eq_substAll (params : List (Bytes × Bytes)) (toks : List Tok)
    (hn : NamesOk params) (hw : WFToks toks) :
    substSeq params (render toks) = substAll params toks := by
  rw [substSeq_render params toks hn hw, substToksSeq_eq_map]; rfl

theorem lookupParam_perm {ps ps' : List (Bytes × Bytes)} (hp : ps.Perm ps')
    (hd : (ps.map (·.1)).Nodup) (n : Bytes) : lookupParam ps n = lookupParam ps' n := by
  induction hp with
  | nil => rfl
  | cons x _ ih =>
    simp only [List.map_cons, List.nodup_cons] at hd
    simp only [lookupParam, List.find?_cons]
    split
    · rfl
    · exact ih hd.2
  | swap x y l =>
    simp only [List.map_cons, List.nodup_cons, List.mem_cons, not_or] at hd
    simp only [lookupParam, List.find?_cons]
    by_cases hx : (x.1 == n) = true
    · by_cases hy : (y.1 == n) = true
      · simp only [beq_iff_eq] at hx hy
        exact absurd (hy.trans hx.symm) hd.1.1
      · simp [hx, hy]
    · by_cases hy : (y.1 == n) = true <;> simp [hx, hy]
  | trans h1 h2 ih1 ih2 =>
    rw [ih1 hd]
    apply ih2
    exact (h1.map (·.1)).nodup_iff.mp hd

/-- **T2 (order-independence)**: the result does not depend on the order in which the parameters
were set (Go's map iteration order), for distinct brace-free names and a well-formed pattern. -/
theorem substSeq_perm (ps ps' : List (Bytes × Bytes)) (toks : List Tok) (hp : ps.Perm ps')
    (hd : (ps.map (·.1)).Nodup) (hn : NamesOk ps) (hw : WFToks toks) :
    substSeq ps (render toks) = substSeq ps' (render toks) := by
  have hn' : NamesOk ps' := fun kv hkv => hn kv (hp.mem_iff.mpr hkv)
  rw [substSeq_eq_substAll ps toks hn hw, substSeq_eq_substAll ps' toks hn' hw]
  unfold substAll
  congr 1
  apply List.map_congr_left
  intro t _
  cases t with
  | lit b => rfl
  | ph n => simp only [substTok, lookupParam_perm hp hd n]

example : (placeholder [105, 100]) = [123, 105, 100, 125] ∧ braceFree [105, 100] = true := by decide

/-! ### shape: a value can never add a separator, a query or a fragment -/

def countSlash (b : Bytes) : Nat := b.count 47

def litSlashes : List Tok → Nat
  | [] => 0
  | .lit b :: r => countSlash b + litSlashes r
  | .ph _ :: r => litSlashes r

def allSubstituted (params : List (Bytes × Bytes)) (toks : List Tok) : Prop :=
  ∀ n, Tok.ph n ∈ toks → (lookupParam params n).isSome = true

theorem countSlash_pathEscape (v : Bytes) : countSlash (GoURL.pathEscape v) = 0 := by
  unfold countSlash
  rw [List.count_eq_zero]
  intro h
  exact (GoURL.pathEscape_no_special v 47 h).1 rfl

/-- **T1 (shape)**: when every placeholder has a value, the built path has exactly the pattern's
separators: `/` occurs as often as in the pattern's static text. -/
theorem substAll_slashes (params : List (Bytes × Bytes)) (toks : List Tok)
    (h : allSubstituted params toks) : countSlash (substAll params toks) = litSlashes toks := by
  induction toks with
  | nil => rfl
  | cons t ts ih =>
    have hts : allSubstituted params ts := fun n hn => h n (List.mem_cons_of_mem _ hn)
    cases t with
    | lit b =>
      simp only [substAll, List.map_cons, substTok, render, litSlashes, countSlash, List.count_append] at ih ⊢
      rw [ih hts]
    | ph n =>
      have hs := h n List.mem_cons_self
      cases hv : lookupParam params n with
      | none => rw [hv] at hs; cases hs
      | some v =>
        simp only [substAll, List.map_cons, substTok, hv, render, litSlashes, countSlash,
          List.count_append] at ih ⊢
        have := countSlash_pathEscape v
        simp only [countSlash] at this
        rw [this, ih hts]; simp

/-- no byte of a substituted value is `?`, `#`, `/`, `{`, `}` or a space -/
theorem value_adds_nothing_special (v : Bytes) :
    ∀ c ∈ GoURL.pathEscape v, c ≠ 47 ∧ c ≠ 63 ∧ c ≠ 35 ∧ c ≠ 123 ∧ c ≠ 125 ∧ c ≠ 32 :=
  GoURL.pathEscape_no_special v

/-- **T3**: a trailing slash of the pattern is kept. -/
theorem trailing_slash_kept (joined pp : Bytes) (params : List (Bytes × Bytes))
    (h : keepsSlash pp = true) : (urlPath joined pp params).getLast? = some 47 := by
  simp [urlPath, h]

/-! ### T5: https is chosen whenever it is among several offered schemes -/

theorem selectScheme_https (schemes : List Bytes) (h2 : 2 ≤ schemes.length)
    (hm : https ∈ schemes) : selectScheme schemes = https := by
  cases schemes with
  | nil => simp at h2
  | cons s rest =>
    simp only [selectScheme]
    by_cases hs : s = https
    · simp [hs]
    · have hr : rest.isEmpty = false := by
        cases rest with
        | nil => simp at h2
        | cons _ _ => rfl
      have : (s != https) = true := by simpa using hs
      have hc : (s :: rest).contains https = true := by
        rw [List.contains_eq_mem]; simpa using hm
      rw [this, hr, hc]; rfl

theorem selectScheme_nil_iff (schemes : List Bytes) (hne : ∀ s ∈ schemes, s ≠ []) :
    selectScheme schemes = [] ↔ schemes = [] := by
  cases schemes with
  | nil => simp [selectScheme]
  | cons s rest =>
    simp only [selectScheme, reduceCtorEq, iff_false]
    split
    · decide
    · exact hne s List.mem_cons_self

/-- the runtime's own scheme list decides when it is non-empty, else the operation's, else http -/
theorem pickScheme_spec (rs os : List Bytes) :
    (rs.length ≥ 2 → https ∈ rs → pickScheme rs os = https) ∧
    (rs = [] → os.length ≥ 2 → https ∈ os → pickScheme rs os = https) ∧
    (rs = [] → os = [] → pickScheme rs os = http) := by
  refine ⟨?_, ?_, ?_⟩
  · intro h2 hm
    simp only [pickScheme, selectScheme_https rs h2 hm]
    rfl
  · intro hr h2 hm
    subst hr
    have h0 : selectScheme [] = [] := rfl
    simp only [pickScheme, h0, List.isEmpty_nil, Bool.not_true, Bool.false_eq_true,
      ↓reduceIte, selectScheme_https os h2 hm]
    rfl
  · intro hr ho
    subst hr; subst ho
    rfl


/-! ### T4: query precedence — caller over pattern over base path -/

theorem get_set (vs : Values) (k k' : Bytes) (v : List Bytes) :
    (vs.set k v).get k' = if k == k' then some v else vs.get k' := by
  unfold Values.set Values.get Values.del
  induction vs with
  | nil =>
    simp only [List.filter_nil, List.nil_append, List.find?_cons, List.find?_nil]
    split <;> simp_all
  | cons x xs ih =>
    simp only [List.filter_cons]
    by_cases hx : (x.1 != k) = true
    · simp only [hx, ↓reduceIte, List.cons_append, List.find?_cons]
      by_cases hxk : (x.1 == k') = true
      · have : (k == k') = false := by
          simp only [bne_iff_ne, ne_eq, beq_iff_eq] at hx hxk
          simp only [beq_eq_false_iff_ne, ne_eq]
          intro h; exact hx (hxk.trans h.symm)
        simp [hxk, this]
      · simp only [hxk, Bool.false_eq_true]
        exact ih
    · have hxk : x.1 = k := by simpa using hx
      simp only [hx, Bool.false_eq_true, ↓reduceIte, List.find?_cons]
      rw [ih]
      by_cases hkk : (k == k') = true
      · simp [hkk]
      · have : (x.1 == k') = false := by rw [hxk]; simpa using hkk
        simp [hkk, this]

theorem get_cons (kv : Bytes × List Bytes) (vs : Values) (k : Bytes) :
    Values.get (kv :: vs) k = if kv.1 == k then some kv.2 else Values.get vs k := by
  unfold Values.get
  simp only [List.find?_cons]
  split <;> simp_all

theorem get_none_of_not_mem (vs : Values) (k : Bytes) (h : k ∉ vs.map (·.1)) : Values.get vs k = none := by
  induction vs with
  | nil => rfl
  | cons x xs ih =>
    simp only [List.map_cons, List.mem_cons, not_or] at h
    rw [get_cons]
    have : (x.1 == k) = false := by
      simp only [beq_eq_false_iff_ne, ne_eq]; exact fun e => h.1 e.symm
    simp only [this, Bool.false_eq_true, ↓reduceIte]
    exact ih h.2

theorem staticQuery_get (b p : Values) (hp : (p.map (·.1)).Nodup) (k : Bytes) :
    (staticQuery b p).get k = (Values.get p k).or (Values.get b k) := by
  unfold staticQuery
  induction p generalizing b with
  | nil => simp [Values.get]
  | cons kv ps ih =>
    simp only [List.map_cons, List.nodup_cons] at hp
    simp only [List.foldl_cons]
    rw [ih _ hp.2, get_set, get_cons]
    by_cases hk : (kv.1 == k) = true
    · have hk' : kv.1 = k := by simpa using hk
      have : Values.get ps k = none := get_none_of_not_mem ps k (by rw [← hk']; exact hp.1)
      simp [hk, this]
    · simp [hk]

theorem finalFold_get (s acc : Values) (k : Bytes) :
    (s.foldl (fun acc kv => if (acc.get kv.1).isSome then acc else acc.set kv.1 kv.2) acc).get k =
      (Values.get acc k).or (Values.get s k) := by
  induction s generalizing acc with
  | nil => simp [Values.get]
  | cons kv ss ih =>
    simp only [List.foldl_cons]
    rw [ih, get_cons]
    by_cases hs : (Values.get acc kv.1).isSome = true
    · simp only [hs, ↓reduceIte]
      by_cases hk : (kv.1 == k) = true
      · have hk' : kv.1 = k := by simpa using hk
        rw [hk'] at hs
        cases hg : Values.get acc k with
        | none => rw [hg] at hs; cases hs
        | some v => simp
      · simp [hk]
    · simp only [hs, Bool.false_eq_true, ↓reduceIte]
      rw [get_set]
      by_cases hk : (kv.1 == k) = true
      · have hk' : kv.1 = k := by simpa using hk
        have hn : Values.get acc k = none := by
          rw [hk'] at hs
          cases hg : Values.get acc k with
          | none => rfl
          | some v => rw [hg] at hs; simp at hs
        simp [hk, hn]
      · simp [hk]

/-- **T4**: for every name, the final query carries the caller's values if the caller set the
name, else the pattern's static values, else the base path's — and nothing else is lost.
(`pattern`'s keys are distinct: it is a Go map.) -/
theorem query_precedence (base pattern caller : Values) (hp : (pattern.map (·.1)).Nodup) (k : Bytes) :
    (finalQuery base pattern caller).get k =
      (Values.get caller k).or ((Values.get pattern k).or (Values.get base k)) := by
  unfold finalQuery
  rw [finalFold_get, staticQuery_get base pattern hp]

example : (finalQuery [([97], [[49]])] [([97], [[50]]), ([98], [[51]])] [([98], [[52]])]).get [97] = some [[50]] ∧
    (finalQuery [([97], [[49]])] [([97], [[50]]), ([98], [[51]])] [([98], [[52]])]).get [98] = some [[52]] := by
  decide

end RtVerif.C10
