import RtVerif.Model.C10
import RtVerif.Lemmas.C10
import RtVerif.Lemmas.C10URL
import RtVerif.Lemmas.GoURLParse
/-
  C10 — property theorems.

  The code substitutes placeholders by a *sequential* `strings.ReplaceAll` over the parameter map
  in whatever order Go iterates it.  For every well-formed pattern (brace-delimited placeholders,
  not nested) and brace-free parameter names this sequential fold is shown equal to the
  simultaneous, order-free substitution `substAll` — hence independent of the order, never
  re-substituting a value, and unable to add a separator, query or fragment.
-/
namespace RtVerif.C10
open RtVerif Bytes

/-- one turn of the loop, seen on a token -/
def substStep (t : Tok) (kv : Bytes × Bytes) : Tok := subst1 kv.1 (GoURL.pathEscape kv.2) t

/-- fold of the per-parameter token maps -/
def substToksSeq (params : List (Bytes × Bytes)) (toks : List Tok) : List Tok :=
  params.foldl (fun ts kv => ts.map (fun t => substStep t kv)) toks

/-  `NamesOk params` (Lemmas/C10.lean): no `{`/`}` inside a parameter name (the property's placeholders). -/

theorem substSeq_render (params : List (Bytes × Bytes)) (toks : List Tok)
    (hn : NamesOk params) (hw : WFToks toks) :
    substSeq params (render toks) = render (substToksSeq params toks) := by
  induction params generalizing toks with
  | nil => rfl
  | cons kv ps ih =>
    have hkv := hn kv List.mem_cons_self
    have hps : NamesOk ps := fun x hx => hn x (List.mem_cons_of_mem _ hx)
    simp only [substSeq, substToksSeq, List.foldl_cons, substOne]
    rw [replaceAll_render _ _ _ hkv hw]
    exact ih _ hps (wf_subst1 _ _ (braceFree_pathEscape _) _ hw)

theorem substStep_lit (b : Bytes) (kv : Bytes × Bytes) : substStep (.lit b) kv = .lit b := rfl

theorem substStep_ph (n : Bytes) (kv : Bytes × Bytes) :
    substStep (.ph n) kv = if (n == kv.1) = true then .lit (GoURL.pathEscape kv.2) else .ph n := rfl

theorem fold_substStep_lit (params : List (Bytes × Bytes)) (b : Bytes) :
    params.foldl substStep (.lit b) = .lit b := by
  induction params with
  | nil => rfl
  | cons x xs ih => rw [List.foldl_cons, substStep_lit, ih]

/-- what the loop does to one token: the FIRST parameter with the placeholder's name wins, later
ones find nothing left to replace (a value is never re-substituted) -/
theorem fold_substStep (params : List (Bytes × Bytes)) (t : Tok) :
    params.foldl substStep t = substTok params t := by
  cases t with
  | lit b => rw [fold_substStep_lit]; rfl
  | ph n =>
    induction params with
    | nil => simp [substTok, lookupParam]
    | cons kv ps ih =>
      rw [List.foldl_cons, substStep_ph]
      by_cases h : n = kv.1
      · subst h
        simp only [beq_self_eq_true, ↓reduceIte, substTok, lookupParam, List.find?_cons_of_pos,
          Option.map_some]
        exact fold_substStep_lit _ _
      · have h1 : (n == kv.1) = false := by simpa using h
        have h2 : (kv.1 == n) = false := by
          simp only [beq_eq_false_iff_ne, ne_eq]; exact fun e => h e.symm
        simp only [h1, Bool.false_eq_true, ↓reduceIte]
        rw [ih]
        simp [substTok, lookupParam, List.find?_cons, h2]

theorem substToksSeq_eq_map (params : List (Bytes × Bytes)) (toks : List Tok) :
    substToksSeq params toks = toks.map (substTok params) := by
  have hfold : ∀ (ps : List (Bytes × Bytes)) (ts : List Tok),
      ps.foldl (fun ts kv => ts.map (fun t => substStep t kv)) ts =
        ts.map (fun t => ps.foldl substStep t) := by
    intro ps
    induction ps with
    | nil => intro ts; simp
    | cons kv ps ih => intro ts; simp only [List.foldl_cons]; rw [ih]; simp
  unfold substToksSeq
  rw [hfold]
  apply List.map_congr_left
  intro t _
  exact fold_substStep params t

/-- **T1/T2**: for a well-formed pattern and brace-free names, the code's sequential replacement
loop computes the simultaneous substitution — whatever the order of the parameter list. -/
theorem substSeq_eq_substAll (params : List (Bytes × Bytes)) (toks : List Tok)
    (hn : NamesOk params) (hw : WFToks toks) :
    substSeq params (render toks) = substAll params toks := by
  rw [substSeq_render params toks hn hw, substToksSeq_eq_map]; rfl

theorem lookupParam_perm {ps ps' : List (Bytes × Bytes)} (hp : ps.Perm ps')
    (hd : (ps.map (·.1)).Nodup) (n : Bytes) : lookupParam ps n = lookupParam ps' n := by
  induction hp with
  | nil => rfl
  | cons x _ ih =>
    simp only [List.map_cons, List.nodup_cons] at hd
    simp only [lookupParam, List.find?_cons]
    split
    · rfl
    · exact ih hd.2
  | swap x y l =>
    simp only [List.map_cons, List.nodup_cons, List.mem_cons, not_or] at hd
    simp only [lookupParam, List.find?_cons]
    by_cases hx : (x.1 == n) = true
    · by_cases hy : (y.1 == n) = true
      · simp only [beq_iff_eq] at hx hy
        exact absurd (hy.trans hx.symm) hd.1.1
      · simp [hx, hy]
    · by_cases hy : (y.1 == n) = true <;> simp [hx, hy]
  | trans h1 h2 ih1 ih2 =>
    rw [ih1 hd]
    apply ih2
    exact (h1.map (·.1)).nodup_iff.mp hd

/-- **T2 (order-independence)**: the result does not depend on the order in which the parameters
were set (Go's map iteration order), for distinct brace-free names and a well-formed pattern. -/
theorem substSeq_perm (ps ps' : List (Bytes × Bytes)) (toks : List Tok) (hp : ps.Perm ps')
    (hd : (ps.map (·.1)).Nodup) (hn : NamesOk ps) (hw : WFToks toks) :
    substSeq ps (render toks) = substSeq ps' (render toks) := by
  have hn' : NamesOk ps' := fun kv hkv => hn kv (hp.mem_iff.mpr hkv)
  rw [substSeq_eq_substAll ps toks hn hw, substSeq_eq_substAll ps' toks hn' hw]
  unfold substAll
  congr 1
  apply List.map_congr_left
  intro t _
  cases t with
  | lit b => rfl
  | ph n => simp only [substTok, lookupParam_perm hp hd n]

example : (placeholder [105, 100]) = [123, 105, 100, 125] ∧ braceFree [105, 100] = true := by decide

/-! ### shape: a value can never add a separator, a query or a fragment -/

def countSlash (b : Bytes) : Nat := b.count 47

def litSlashes : List Tok → Nat
  | [] => 0
  | .lit b :: r => countSlash b + litSlashes r
  | .ph _ :: r => litSlashes r

def allSubstituted (params : List (Bytes × Bytes)) (toks : List Tok) : Prop :=
  ∀ n, Tok.ph n ∈ toks → (lookupParam params n).isSome = true

theorem countSlash_pathEscape (v : Bytes) : countSlash (GoURL.pathEscape v) = 0 := by
  unfold countSlash
  rw [List.count_eq_zero]
  intro h
  exact (GoURL.pathEscape_no_special v 47 h).1 rfl

/-- **T1 (shape)**: when every placeholder has a value, the built path has exactly the pattern's
separators: `/` occurs as often as in the pattern's static text. -/
theorem substAll_slashes (params : List (Bytes × Bytes)) (toks : List Tok)
    (h : allSubstituted params toks) : countSlash (substAll params toks) = litSlashes toks := by
  induction toks with
  | nil => rfl
  | cons t ts ih =>
    have hts : allSubstituted params ts := fun n hn => h n (List.mem_cons_of_mem _ hn)
    cases t with
    | lit b =>
      simp only [substAll, List.map_cons, substTok, render, litSlashes, countSlash, List.count_append] at ih ⊢
      rw [ih hts]
    | ph n =>
      have hs := h n List.mem_cons_self
      cases hv : lookupParam params n with
      | none => rw [hv] at hs; cases hs
      | some v =>
        simp only [substAll, List.map_cons, substTok, hv, render, litSlashes, countSlash,
          List.count_append] at ih ⊢
        have := countSlash_pathEscape v
        simp only [countSlash] at this
        rw [this, ih hts]; simp

/-- no byte of a substituted value is `?`, `#`, `/`, `{`, `}` or a space -/
theorem value_adds_nothing_special (v : Bytes) :
    ∀ c ∈ GoURL.pathEscape v, c ≠ 47 ∧ c ≠ 63 ∧ c ≠ 35 ∧ c ≠ 123 ∧ c ≠ 125 ∧ c ≠ 32 :=
  GoURL.pathEscape_no_special v

/-- **T3**: a trailing slash of the pattern is kept. -/
theorem trailing_slash_kept (joined pp : Bytes) (params : List (Bytes × Bytes))
    (h : keepsSlash pp = true) : (urlPath joined pp params).getLast? = some 47 := by
  simp [urlPath, h]

/-! ### T5: https is chosen whenever it is among several offered schemes -/

theorem selectScheme_https (schemes : List Bytes) (h2 : 2 ≤ schemes.length)
    (hm : https ∈ schemes) : selectScheme schemes = https := by
  cases schemes with
  | nil => simp at h2
  | cons s rest =>
    simp only [selectScheme]
    by_cases hs : s = https
    · simp [hs]
    · have hr : rest.isEmpty = false := by
        cases rest with
        | nil => simp at h2
        | cons _ _ => rfl
      have : (s != https) = true := by simpa using hs
      have hc : (s :: rest).contains https = true := by
        rw [List.contains_eq_mem]; simpa using hm
      rw [this, hr, hc]; rfl

theorem selectScheme_nil_iff (schemes : List Bytes) (hne : ∀ s ∈ schemes, s ≠ []) :
    selectScheme schemes = [] ↔ schemes = [] := by
  cases schemes with
  | nil => simp [selectScheme]
  | cons s rest =>
    simp only [selectScheme, reduceCtorEq, iff_false]
    split
    · decide
    · exact hne s List.mem_cons_self

/-- the runtime's own scheme list decides when it is non-empty, else the operation's, else http -/
theorem pickScheme_spec (rs os : List Bytes) :
    (rs.length ≥ 2 → https ∈ rs → pickScheme rs os = https) ∧
    (rs = [] → os.length ≥ 2 → https ∈ os → pickScheme rs os = https) ∧
    (rs = [] → os = [] → pickScheme rs os = http) := by
  refine ⟨?_, ?_, ?_⟩
  · intro h2 hm
    simp only [pickScheme, selectScheme_https rs h2 hm]
    rfl
  · intro hr h2 hm
    subst hr
    have h0 : selectScheme [] = [] := rfl
    simp only [pickScheme, h0, List.isEmpty_nil, Bool.not_true, Bool.false_eq_true,
      ↓reduceIte, selectScheme_https os h2 hm]
    rfl
  · intro hr ho
    subst hr; subst ho
    rfl


/-! ### T4: query precedence — caller over pattern over base path -/

theorem get_set (vs : Values) (k k' : Bytes) (v : List Bytes) :
    (vs.set k v).get k' = if k == k' then some v else vs.get k' := by
  unfold Values.set Values.get Values.del
  induction vs with
  | nil =>
    simp only [List.filter_nil, List.nil_append, List.find?_cons, List.find?_nil]
    split <;> simp_all
  | cons x xs ih =>
    simp only [List.filter_cons]
    by_cases hx : (x.1 != k) = true
    · simp only [hx, ↓reduceIte, List.cons_append, List.find?_cons]
      by_cases hxk : (x.1 == k') = true
      · have : (k == k') = false := by
          simp only [bne_iff_ne, ne_eq, beq_iff_eq] at hx hxk
          simp only [beq_eq_false_iff_ne, ne_eq]
          intro h; exact hx (hxk.trans h.symm)
        simp [hxk, this]
      · simp only [hxk, Bool.false_eq_true]
        exact ih
    · have hxk : x.1 = k := by simpa using hx
      simp only [hx, Bool.false_eq_true, ↓reduceIte, List.find?_cons]
      rw [ih]
      by_cases hkk : (k == k') = true
      · simp [hkk]
      · have : (x.1 == k') = false := by rw [hxk]; simpa using hkk
        simp [hkk, this]

theorem get_cons (kv : Bytes × List Bytes) (vs : Values) (k : Bytes) :
    Values.get (kv :: vs) k = if kv.1 == k then some kv.2 else Values.get vs k := by
  unfold Values.get
  simp only [List.find?_cons]
  split <;> simp_all

theorem get_none_of_not_mem (vs : Values) (k : Bytes) (h : k ∉ vs.map (·.1)) : Values.get vs k = none := by
  induction vs with
  | nil => rfl
  | cons x xs ih =>
    simp only [List.map_cons, List.mem_cons, not_or] at h
    rw [get_cons]
    have : (x.1 == k) = false := by
      simp only [beq_eq_false_iff_ne, ne_eq]; exact fun e => h.1 e.symm
    simp only [this, Bool.false_eq_true, ↓reduceIte]
    exact ih h.2

theorem staticQuery_get (b p : Values) (hp : (p.map (·.1)).Nodup) (k : Bytes) :
    (staticQuery b p).get k = (Values.get p k).or (Values.get b k) := by
  unfold staticQuery
  induction p generalizing b with
  | nil => simp [Values.get]
  | cons kv ps ih =>
    simp only [List.map_cons, List.nodup_cons] at hp
    simp only [List.foldl_cons]
    rw [ih _ hp.2, get_set, get_cons]
    by_cases hk : (kv.1 == k) = true
    · have hk' : kv.1 = k := by simpa using hk
      have : Values.get ps k = none := get_none_of_not_mem ps k (by rw [← hk']; exact hp.1)
      simp [hk, this]
    · simp [hk]

theorem finalFold_get (s acc : Values) (k : Bytes) :
    (s.foldl (fun acc kv => if (acc.get kv.1).isSome then acc else acc.set kv.1 kv.2) acc).get k =
      (Values.get acc k).or (Values.get s k) := by
  induction s generalizing acc with
  | nil => simp [Values.get]
  | cons kv ss ih =>
    simp only [List.foldl_cons]
    rw [ih, get_cons]
    by_cases hs : (Values.get acc kv.1).isSome = true
    · simp only [hs, ↓reduceIte]
      by_cases hk : (kv.1 == k) = true
      · have hk' : kv.1 = k := by simpa using hk
        rw [hk'] at hs
        cases hg : Values.get acc k with
        | none => rw [hg] at hs; cases hs
        | some v => simp
      · simp [hk]
    · simp only [hs, Bool.false_eq_true, ↓reduceIte]
      rw [get_set]
      by_cases hk : (kv.1 == k) = true
      · have hk' : kv.1 = k := by simpa using hk
        have hn : Values.get acc k = none := by
          rw [hk'] at hs
          cases hg : Values.get acc k with
          | none => rfl
          | some v => rw [hg] at hs; simp at hs
        simp [hk, hn]
      · simp [hk]

/-- **T4**: for every name, the final query carries the caller's values if the caller set the
name, else the pattern's static values, else the base path's — and nothing else is lost.
(`pattern`'s keys are distinct: it is a Go map.) -/
theorem query_precedence (base pattern caller : Values) (hp : (pattern.map (·.1)).Nodup) (k : Bytes) :
    (finalQuery base pattern caller).get k =
      (Values.get caller k).or ((Values.get pattern k).or (Values.get base k)) := by
  unfold finalQuery
  rw [finalFold_get, staticQuery_get base pattern hp]

example : (finalQuery [([97], [[49]])] [([97], [[50]]), ([98], [[51]])] [([98], [[52]])]).get [97] = some [[50]] ∧
    (finalQuery [([97], [[49]])] [([97], [[50]]), ([98], [[51]])] [([98], [[52]])]).get [98] = some [[52]] := by
  decide


/-! ## End to end: the URL of the request (`build`)

`path.Join`, the re-parse of the built string by `http.NewRequest`, `URL.EscapedPath()` and
`Values.Encode` are inside the model now (`GoPath.join`, `GoURLParse.parse`, `GoURLParse.escapedPath`,
`GoQuery.encode`).  A pattern is given by its segments: `patternOf psegs trailing` is
`/s₁/…/sₙ` (+ `/`), every `sᵢ` a list of tokens (static text and `{name}` placeholders); a base path
by its static segments: `basePathOf bs`. -/

/-  The hypotheses of the end-to-end theorems are collected in `PathOk params bs psegs`
    (RtVerif/Lemmas/C10URL.lean):
      names        parameter names are brace-free
      base_normal  the base path is clean: its segments are ordinary ones (non-empty, not `.`/`..`, no `/`)
      base_static  … of static text without braces and without `%`
      seg_normal   every segment of the pattern, as written, is an ordinary one (so static text and
                   placeholder names hold no `/`)
      seg_wf       well-formed tokens: no brace inside static text or a name
      seg_static   static text of the pattern holds no `%` (a path template is not percent-encoded)
      all_subst    every placeholder has a value
      nonempty     the pattern has at least one segment
    `f10a_pathOk` and `example_pathOk` below show concrete inputs that meet them. -/

/-- **`path.Join` inside the model (general form)**: for a clean rooted base path and ANY non-empty
pattern path, the joined path is what `Clean`'s stack machine makes of the pattern's segments on top
of the base path's: empty segments (duplicate slashes) and `.` are dropped, `..` pops, everything else
— a `{name}` placeholder in particular, which holds no `/` and is neither `.` nor `..` — is kept. -/
theorem join_clean_base (bs : List Bytes) (hbs : ∀ b ∈ bs, GoPath.Normal b) (pp : Bytes) (hpp : pp ≠ []) :
    GoPath.join (basePathOf bs) pp =
      GoPath.render true (((GoPath.segs pp).foldl (GoPath.step true) bs.reverse).reverse) :=
  join_base_general bs hbs pp hpp

/-- a segment that holds a placeholder is an ordinary segment as soon as it holds no `/` -/
theorem placeholder_segment_normal (a b n : Bytes) (h : GoPath.slash ∉ a ++ placeholder n ++ b) :
    GoPath.Normal (a ++ placeholder n ++ b) := by
  have hmem : lbrace ∈ a ++ placeholder n ++ b := by simp [placeholder]
  refine ⟨?_, ?_, ?_, h⟩
  · intro h0; rw [h0] at hmem; cases hmem
  · intro h0; rw [h0] at hmem; revert hmem; decide
  · intro h0; rw [h0] at hmem; revert hmem; decide

/-- **`path.Join` inside the model (patterns made of ordinary segments)**: the joined path is the
base path's segments followed by the pattern's, separated by single slashes, placeholders untouched;
a trailing slash of the pattern is dropped by `Join` (and reinstated afterwards by `keepsSlash`). -/
theorem join_pattern (bs : List Bytes) (hbs : ∀ b ∈ bs, GoPath.Normal b) (psegs : List (List Tok))
    (hps : ∀ s ∈ psegs, GoPath.Normal (render s)) (hne : psegs ≠ []) (trailing : Bool) :
    GoPath.join (basePathOf bs) (patternOf psegs trailing) = joinRooted (bs ++ psegs.map render) ∧
      keepsSlash (patternOf psegs trailing) = trailing :=
  ⟨join_base_pattern bs hbs psegs hps hne trailing, keepsSlash_patternOf psegs hps hne trailing⟩

example : GoPath.join (basePathOf [[97, 112, 105]]) (patternOf [[.lit [112]], [.ph [105, 100]]] true) =
    [47, 97, 112, 105, 47, 112, 47, 123, 105, 100, 125] := by decide

/-- **the string handed to `http.NewRequest`**: `/` + the segments of base path and pattern, every
placeholder replaced by its escaped value, + the pattern's trailing slash — whatever the order of the
parameter list. -/
theorem builtPath_eq {params : List (Bytes × Bytes)} {bs : List Bytes} {psegs : List (List Tok)}
    (h : PathOk params bs psegs) (trailing : Bool) (bu pu : GoURLParse.URL)
    (hb : bu.path = basePathOf bs) (hp : pu.path = patternOf psegs trailing) :
    builtPath bu pu params =
      joinRooted ((allSegs bs psegs).map (encodeSeg params)) ++ slashIf trailing := by
  unfold builtPath urlPath
  rw [hb, hp, join_base_pattern bs h.base_normal psegs h.seg_normal h.nonempty trailing,
    keepsSlash_patternOf psegs h.seg_normal h.nonempty trailing, ← allSegs_render, ← render_toksOf,
    substSeq_eq_substAll params _ h.names (wf_toksOf _ (allSegs_wf h)), substAll_toksOf]
  rfl

/-- **T1′ (the request URL carries exactly the pattern's segments)**.  Outside the two known classes
(F10a: the built string starts with `//`; F10b: it holds a byte net/url does not accept in a path),
`http.NewRequest`'s `url.Parse` of the built string succeeds and finds no scheme, no authority, no
query and no fragment; `EscapedPath()` is the built string itself; and the decoded `Path` is `/` +
the static segments and, in the place of every placeholder, the supplied VALUE — any bytes. -/
theorem request_path_exact {params : List (Bytes × Bytes)} {bs : List Bytes} {psegs : List (List Tok)}
    (h : PathOk params bs psegs) (trailing : Bool) (bu pu : GoURLParse.URL)
    (hb : bu.path = basePathOf bs) (hp : pu.path = patternOf psegs trailing)
    (ha : f10a (builtPath bu pu params) = false) (hv : f10b (builtPath bu pu params) = false) :
    ∃ rp, GoURLParse.parse (builtPath bu pu params) =
        some { path := joinRooted ((allSegs bs psegs).map (decodeSeg params)) ++ slashIf trailing, rawPath := rp } ∧
      GoURLParse.escapedPath
        { path := joinRooted ((allSegs bs psegs).map (decodeSeg params)) ++ slashIf trailing, rawPath := rp } =
        builtPath bu pu params := by
  have heq := builtPath_eq h trailing bu pu hb hp
  have hu := unescape_built params (allSegs bs psegs) (allSegs_tokOk h) trailing
  obtain ⟨s, r, hsr⟩ := List.exists_cons_of_ne_nil (allSegs_ne_nil h)
  have hhead : ∃ t, builtPath bu pu params = GoURLParse.slash :: t := by
    rw [heq, hsr, List.map_cons, joinRooted_cons]; exact ⟨_, rfl⟩
  obtain ⟨t, ht⟩ := hhead
  rw [← heq, ht] at hu
  rw [ht] at ha hv ⊢
  have hv' : GoURLParse.validEncoded (GoURLParse.slash :: t) = true := by
    simpa [f10b] using hv
  exact GoURLParse.parse_rooted t _ hv' ha hu


/-! ### the same, read segment by segment -/

/-- **T1′, segment by segment**: split at `/`, the escaped path of the request has exactly the
segments of base path and pattern (after the empty one before the leading slash, and an empty one
after a kept trailing slash), and each of them decodes (`PathUnescape`) to the static text with the
supplied values in the place of the placeholders: a value never adds or removes a segment. -/
theorem request_segments {params : List (Bytes × Bytes)} {bs : List Bytes} {psegs : List (List Tok)}
    (h : PathOk params bs psegs) (trailing : Bool) (bu pu : GoURLParse.URL)
    (hb : bu.path = basePathOf bs) (hp : pu.path = patternOf psegs trailing) :
    GoPath.segs (builtPath bu pu params) =
      [] :: ((allSegs bs psegs).map (encodeSeg params) ++ if trailing then [[]] else []) ∧
    ∀ s ∈ allSegs bs psegs, GoURL.pathUnescape (encodeSeg params s) = some (decodeSeg params s) := by
  refine ⟨?_, ?_⟩
  · rw [builtPath_eq h trailing bu pu hb hp]
    exact segs_joinRooted _ (allSegs_enc_noslash h) trailing
  · intro s hs
    have := unescape_encodeSeg params s (allSegs_tokOk h s hs) []
    simpa [GoURL.pathUnescape, GoURL.unescape] using this


/-! ### F10a: the known finding is real in the model, and its exact class -/

/-- **F10a, exact class**: `http.NewRequest` reads an authority out of the built string exactly when
the base path has no segment (`/`), the first segment of the pattern is empty once the values are in
(it consists of placeholders whose values are all empty), and it is followed by a segment that is not
empty itself, or by an empty last segment, or by nothing but a kept trailing slash. -/
theorem f10a_class {params : List (Bytes × Bytes)} {bs : List Bytes} {psegs : List (List Tok)}
    (h : PathOk params bs psegs) (trailing : Bool) (bu pu : GoURLParse.URL)
    (hb : bu.path = basePathOf bs) (hp : pu.path = patternOf psegs trailing) :
    f10a (builtPath bu pu params) = true ↔
      bs = [] ∧ ∃ s₁ rest, psegs = s₁ :: rest ∧ decodeSeg params s₁ = [] ∧
        (match rest with
         | [] => trailing = true
         | s₂ :: rest' => ¬ (decodeSeg params s₂ = [] ∧ (rest' ≠ [] ∨ trailing = true))) := by
  rw [builtPath_eq h trailing bu pu hb hp, f10a, authority_iff _ (allSegs_enc_noslash h) trailing]
  cases bs with
  | cons b bs' =>
    have hb0 : b ≠ [] := (h.base_normal b List.mem_cons_self).1
    simp [allSegs, encodeSeg, encodeTok, hb0]
  | nil =>
    simp only [allSegs, List.map_nil, List.nil_append, true_and]
    constructor
    · rintro ⟨r, hr, hm⟩
      cases psegs with
      | nil => simp at hr
      | cons s₁ rest =>
        simp only [List.map_cons, List.cons.injEq] at hr
        refine ⟨s₁, rest, rfl, (encodeSeg_eq_nil params s₁).mp hr.1, ?_⟩
        obtain ⟨_, rfl⟩ := hr
        cases rest with
        | nil => simpa using hm
        | cons s₂ rest' =>
          simp only [List.map_cons, encodeSeg_eq_nil, ne_eq, List.map_eq_nil_iff] at hm
          simpa using hm
    · rintro ⟨s₁, rest, rfl, h1, hm⟩
      refine ⟨rest.map (encodeSeg params), by simp [(encodeSeg_eq_nil params s₁).mpr h1], ?_⟩
      cases rest with
      | nil => simpa using hm
      | cons s₂ rest' =>
        simp only [List.map_cons, encodeSeg_eq_nil, ne_eq, List.map_eq_nil_iff]
        simpa using hm

/-- the pattern `/{a}/pets` with `a = ""` on the base path `/` meets the hypotheses -/
theorem f10a_pathOk : PathOk [([97], [])] [] [[.ph [97]], [.lit [112, 101, 116, 115]]] where
  names := by intro kv hkv; simp at hkv; subst hkv; decide
  base_normal := by intro b hb; cases hb
  base_static := by intro b hb; cases hb
  seg_normal := by
    intro s hs
    simp only [List.mem_cons, List.not_mem_nil, or_false] at hs
    rcases hs with rfl | rfl <;> (refine ⟨?_, ?_, ?_, ?_⟩ <;> decide)
  seg_wf := by
    intro s hs t ht
    simp only [List.mem_cons, List.not_mem_nil, or_false] at hs
    rcases hs with rfl | rfl <;> (simp only [List.mem_cons, List.not_mem_nil, or_false] at ht; subst ht; decide)
  seg_static := by
    intro s hs b hb
    simp only [List.mem_cons, List.not_mem_nil, or_false] at hs
    rcases hs with rfl | rfl <;> simp at hb
    subst hb; decide
  all_subst := by
    intro s hs n hn
    simp only [List.mem_cons, List.not_mem_nil, or_false] at hs
    rcases hs with rfl | rfl <;> simp at hn
    subst hn; decide
  nonempty := by simp

/-- **F10a is real in the model**: for the base path `/`, the pattern `/{a}/pets` and `a = ""`, the
string handed to `http.NewRequest` is `//pets`; `url.Parse` reads `pets` as the HOST and the path of
the request is empty (the runtime then overwrites the host with its own: the request goes to the
root of the API). -/
theorem f10a_witness :
    builtPath { path := [47] } { path := [47, 123, 97, 125, 47, 112, 101, 116, 115] } [([97], [])] =
        [47, 47, 112, 101, 116, 115] ∧
      GoURLParse.parse [47, 47, 112, 101, 116, 115] = some { host := [112, 101, 116, 115] } ∧
      GoURLParse.escapedPath { host := [112, 101, 116, 115] } = [] ∧
      f10a [47, 47, 112, 101, 116, 115] = true := by
  refine ⟨?_, by decide, by decide, by decide⟩
  rw [builtPath_eq f10a_pathOk false _ _ (by decide) (by decide)]
  decide


/-! ### F10b: exact class -/

/-- **F10b, exact class**: once every placeholder has a value, the built string holds a byte net/url
does not accept in an encoded path exactly when the STATIC text of base path or pattern holds one
(`validEncodedByte` lists the accepted bytes: unreserved characters, `%`, and `! $ & ' ( ) * + , ; = : @ [ ]`
and `/`): values can never cause it. -/
theorem f10b_class {params : List (Bytes × Bytes)} {bs : List Bytes} {psegs : List (List Tok)}
    (h : PathOk params bs psegs) (trailing : Bool) (bu pu : GoURLParse.URL)
    (hb : bu.path = basePathOf bs) (hp : pu.path = patternOf psegs trailing) :
    f10b (builtPath bu pu params) = true ↔
      ∃ s ∈ allSegs bs psegs, ∃ b, Tok.lit b ∈ s ∧ ∃ c ∈ b, GoURLParse.validEncodedByte c = false := by
  rw [builtPath_eq h trailing bu pu hb hp]
  constructor
  · intro hf
    apply Classical.byContradiction
    intro hno
    have hall : ∀ s ∈ allSegs bs psegs, ∀ b, Tok.lit b ∈ s → ∀ c ∈ b, GoURLParse.validEncodedByte c = true := by
      intro s hs b hbs c hc
      cases hvc : GoURLParse.validEncodedByte c with
      | true => rfl
      | false => exact absurd ⟨s, hs, b, hbs, c, hc, hvc⟩ hno
    have : GoURLParse.validEncoded (joinRooted ((allSegs bs psegs).map (encodeSeg params)) ++ slashIf trailing) = true := by
      simp only [GoURLParse.validEncoded, List.all_eq_true, List.mem_append]
      rintro c (hc | hc)
      · rcases mem_joinRooted.mp hc with ⟨_, rfl⟩ | ⟨x, hx, hcx⟩
        · decide
        · obtain ⟨s, hs, rfl⟩ := List.mem_map.mp hx
          simp only [encodeSeg, List.mem_flatMap] at hcx
          obtain ⟨t, ht, hct⟩ := hcx
          refine valid_encodeTok params t ?_ ?_ c hct
          · intro b hb'; subst hb'; exact hall s hs b ht
          · intro n hn; subst hn
            have := allSegs_tokOk h s hs _ ht
            exact this
      · exact valid_slashIf trailing c hc
    simp [f10b, this] at hf
  · rintro ⟨s, hs, b, hbs, c, hc, hvc⟩
    have hmem : c ∈ joinRooted ((allSegs bs psegs).map (encodeSeg params)) ++ slashIf trailing := by
      apply List.mem_append_left
      apply mem_joinRooted.mpr
      right
      refine ⟨encodeSeg params s, List.mem_map.mpr ⟨s, hs, rfl⟩, ?_⟩
      simp only [encodeSeg, List.mem_flatMap]
      exact ⟨.lit b, hbs, hc⟩
    simp only [f10b, Bool.not_eq_eq_eq_not, Bool.not_true]
    cases hva : GoURLParse.validEncoded (joinRooted ((allSegs bs psegs).map (encodeSeg params)) ++ slashIf trailing) with
    | false => rfl
    | true =>
      simp only [GoURLParse.validEncoded, List.all_eq_true] at hva
      rw [hva c hmem] at hvc; cases hvc

/-- static text made of bytes `validEncoded` accepts is never in the F10b class -/
theorem not_f10b_of_valid_static {params : List (Bytes × Bytes)} {bs : List Bytes} {psegs : List (List Tok)}
    (h : PathOk params bs psegs) (trailing : Bool) (bu pu : GoURLParse.URL)
    (hb : bu.path = basePathOf bs) (hp : pu.path = patternOf psegs trailing)
    (hst : ∀ s ∈ allSegs bs psegs, ∀ b, Tok.lit b ∈ s → ∀ c ∈ b, GoURLParse.validEncodedByte c = true) :
    f10b (builtPath bu pu params) = false := by
  cases hf : f10b (builtPath bu pu params) with
  | false => rfl
  | true =>
    obtain ⟨s, hs, b, hbs, c, hc, hvc⟩ := (f10b_class h trailing bu pu hb hp).mp hf
    rw [hst s hs b hbs c hc] at hvc
    cases hvc

/-- static text made of bytes that `escape(·, encodePath)` leaves alone is never in the F10b class -/
theorem not_f10b_of_plain_static {params : List (Bytes × Bytes)} {bs : List Bytes} {psegs : List (List Tok)}
    (h : PathOk params bs psegs) (trailing : Bool) (bu pu : GoURLParse.URL)
    (hb : bu.path = basePathOf bs) (hp : pu.path = patternOf psegs trailing)
    (hst : ∀ s ∈ allSegs bs psegs, ∀ b, Tok.lit b ∈ s → ∀ c ∈ b, GoURLParse.shouldEscape .path c = false) :
    f10b (builtPath bu pu params) = false := by
  cases hf : f10b (builtPath bu pu params) with
  | false => rfl
  | true =>
    obtain ⟨s, hs, b, hbs, c, hc, hvc⟩ := (f10b_class h trailing bu pu hb hp).mp hf
    rw [GoURLParse.plain_valid c (hst s hs b hbs c hc)] at hvc
    cases hvc

/-! ### T4′: the query on the wire -/

/-- what a key of a `url.Values` transmits: its values when there is at least one -/
def transmitted : Option (List Bytes) → Option (List Bytes)
  | some (v :: r) => some (v :: r)
  | _ => none

/-- **T4′**: `RawQuery` is `Values.Encode` of the merged parameters, and `url.ParseQuery` reads it
back without error as exactly the map "caller over pattern over base path" (a key set without any
value is not transmitted) — any bytes as keys and values. -/
theorem rawQuery_round_trip (base pattern caller : Values) (hp : (pattern.map (·.1)).Nodup)
    (hc : (caller.map (·.1)).Nodup) :
    (GoQuery.parseQuery (GoQuery.encode (finalQuery base pattern caller))).ok = true ∧
    ∀ k, Values.get (GoQuery.parseQuery (GoQuery.encode (finalQuery base pattern caller))).values k =
      transmitted ((Values.get caller k).or ((Values.get pattern k).or (Values.get base k))) := by
  have hd := finalQuery_nodup base pattern caller hc
  obtain ⟨h1, h2⟩ := GoQuery.parse_encode (finalQuery base pattern caller) hd
  refine ⟨h1, fun k => ?_⟩
  rw [get_eq, h2 k, ← get_eq, query_precedence base pattern caller hp k]
  rfl

/-! ### the whole request URL -/

/-- **End to end (`build` = `Runtime.CreateHttpRequest`)**: for a base path and a pattern that
`url.Parse` reads as a clean rooted path / a pattern of ordinary segments (each possibly with a
query), every placeholder supplied, and outside the known classes F10a and F10b, the request is
built; its URL has the runtime's scheme and host, no user info, no opaque part, no fragment; its
`EscapedPath()` is `/` + the segments with the ESCAPED values, its `Path` the same with the values
themselves; its `RawQuery` is the encoded merge of the three query sources and parses back to
"caller over pattern over base path". -/
theorem build_exact {params : List (Bytes × Bytes)} {bs : List Bytes} {psegs : List (List Tok)}
    (h : PathOk params bs psegs) (trailing : Bool) (basePath pattern : Bytes) (bu pu : GoURLParse.URL)
    (hpb : GoURLParse.parse basePath = some bu) (hpp : GoURLParse.parse pattern = some pu)
    (hb : bu.path = basePathOf bs) (hp : pu.path = patternOf psegs trailing)
    (ha : f10a (builtPath bu pu params) = false) (hv : f10b (builtPath bu pu params) = false)
    (caller : Values) (hc : (caller.map (·.1)).Nodup) (scheme host : Bytes) :
    ∃ u, build basePath pattern params caller scheme host = some u ∧
      u.scheme = scheme ∧ u.host = host ∧ u.user = none ∧ u.opaq = [] ∧ u.fragment = [] ∧ u.forceQuery = false ∧
      GoURLParse.escapedPath u = joinRooted ((allSegs bs psegs).map (encodeSeg params)) ++ slashIf trailing ∧
      u.path = joinRooted ((allSegs bs psegs).map (decodeSeg params)) ++ slashIf trailing ∧
      u.rawQuery = GoQuery.encode (finalQuery (queryOf bu) (queryOf pu) caller) ∧
      (GoQuery.parseQuery u.rawQuery).ok = true ∧
      ∀ k, Values.get (GoQuery.parseQuery u.rawQuery).values k =
        transmitted ((Values.get caller k).or ((Values.get (queryOf pu) k).or (Values.get (queryOf bu) k))) := by
  obtain ⟨rp, hparse, hesc⟩ := request_path_exact h trailing bu pu hb hp ha hv
  obtain ⟨hq1, hq2⟩ := rawQuery_round_trip (queryOf bu) (queryOf pu) caller (parseQuery_nodup _) hc
  have hbuild : build basePath pattern params caller scheme host =
      some (finishURL { path := joinRooted ((allSegs bs psegs).map (decodeSeg params)) ++ slashIf trailing, rawPath := rp }
        bu pu caller scheme host) := by
    simp only [build, hpb, hpp, hparse]
  refine ⟨_, hbuild, rfl, rfl, rfl, rfl, rfl, rfl, ?_, rfl, rfl, hq1, hq2⟩
  rw [← builtPath_eq h trailing bu pu hb hp, ← hesc]
  rfl


/-- **End to end, from the strings the runtime holds**: the parse hypotheses of `build_exact` are
discharged for every base path `/b₁/…/bₘ[?query]` (clean, rooted — what `client.New` leaves — with
static segments of valid path bytes) and every pattern `/s₁/…/sₙ[/][?query]` of ordinary segments
whose static text consists of valid path bytes and whose placeholder names hold no `% ? #` or control
byte; the queries are arbitrary bytes without `#` and control bytes.  With valid static bytes the
class F10b is empty (`f10b_class`), so only F10a is excluded. -/
theorem build_exact_plain {params : List (Bytes × Bytes)} {bs : List Bytes} {psegs : List (List Tok)}
    (h : PathOk params bs psegs) (trailing : Bool) (bq pq : Bytes)
    (hbq : ∀ c ∈ bq, c ≠ 35 ∧ (c < 32 || c == 127) = false)
    (hpq : ∀ c ∈ pq, c ≠ 35 ∧ (c < 32 || c == 127) = false)
    (hst : ∀ s ∈ allSegs bs psegs, ∀ b, Tok.lit b ∈ s → ∀ c ∈ b, GoURLParse.validEncodedByte c = true)
    (hnm : ∀ s ∈ psegs, ∀ n, Tok.ph n ∈ s → ∀ c ∈ n, GoURLParse.PlainByte c)
    (ha : f10a (joinRooted ((allSegs bs psegs).map (encodeSeg params)) ++ slashIf trailing) = false)
    (caller : Values) (hc : (caller.map (·.1)).Nodup) (scheme host : Bytes) :
    ∃ u, build (basePathOf bs ++ GoURLParse.withQuery bq) (patternOf psegs trailing ++ GoURLParse.withQuery pq)
        params caller scheme host = some u ∧
      u.scheme = scheme ∧ u.host = host ∧ u.user = none ∧ u.opaq = [] ∧ u.fragment = [] ∧ u.forceQuery = false ∧
      GoURLParse.escapedPath u = joinRooted ((allSegs bs psegs).map (encodeSeg params)) ++ slashIf trailing ∧
      u.path = joinRooted ((allSegs bs psegs).map (decodeSeg params)) ++ slashIf trailing ∧
      (GoQuery.parseQuery u.rawQuery).ok = true ∧
      ∀ k, Values.get (GoQuery.parseQuery u.rawQuery).values k =
        transmitted ((Values.get caller k).or ((Values.get (GoQuery.parseQuery pq).values k).or
          (Values.get (GoQuery.parseQuery bq).values k))) := by
  have hstb : ∀ b ∈ bs, ∀ c ∈ b, GoURLParse.validEncodedByte c = true := by
    intro b hb c hcb
    exact hst [Tok.lit b] (by simp [allSegs]; exact Or.inl hb) b List.mem_cons_self c hcb
  have hstp : ∀ s ∈ psegs, ∀ b, Tok.lit b ∈ s → ∀ c ∈ b, GoURLParse.validEncodedByte c = true := by
    intro s hs b hb c hcb
    exact hst s (by simp [allSegs]; exact Or.inr hs) b hb c hcb
  obtain ⟨tb, hbe, hbp, hba⟩ := basePath_plain h hstb
  obtain ⟨tp, hpe, hpp, hpa⟩ := pattern_plain h trailing hstp hnm
  have hparseB := GoURLParse.parse_plain tb bq hbp hba hbq
  have hparseP := GoURLParse.parse_plain tp pq hpp hpa hpq
  rw [← hbe] at hparseB
  rw [← hpe] at hparseP
  obtain ⟨bu, hB, hbpath, hbquery⟩ : ∃ bu, GoURLParse.parse (basePathOf bs ++ GoURLParse.withQuery bq) = some bu ∧
      bu.path = basePathOf bs ∧ queryOf bu = (GoQuery.parseQuery bq).values := ⟨_, hparseB, rfl, rfl⟩
  obtain ⟨pu, hP, hppath, hpquery⟩ : ∃ pu, GoURLParse.parse (patternOf psegs trailing ++ GoURLParse.withQuery pq) = some pu ∧
      pu.path = patternOf psegs trailing ∧ queryOf pu = (GoQuery.parseQuery pq).values := ⟨_, hparseP, rfl, rfl⟩
  have hbuilt := builtPath_eq h trailing bu pu hbpath hppath
  have hv := not_f10b_of_valid_static h trailing bu pu hbpath hppath hst
  obtain ⟨u, h1, h2, h3, h4, h5, h6, h7, h8, h9, _, h11, h12⟩ :=
    build_exact h trailing _ _ bu pu hB hP hbpath hppath (by rw [hbuilt]; exact ha) hv caller hc scheme host
  rw [hbquery, hpquery] at h12
  exact ⟨u, h1, h2, h3, h4, h5, h6, h7, h8, h9, h11, h12⟩

/-- base path `/api`, pattern `/pets/{id}`, `id = "a/b"` meet the hypotheses -/
theorem example_pathOk : PathOk [([105, 100], [97, 47, 98])] [[97, 112, 105]] [[.lit [112, 101, 116, 115]], [.ph [105, 100]]] where
  names := by intro kv hkv; simp at hkv; subst hkv; decide
  base_normal := by
    intro b hb; simp only [List.mem_cons, List.not_mem_nil, or_false] at hb; subst hb
    refine ⟨?_, ?_, ?_, ?_⟩ <;> decide
  base_static := by
    intro b hb; simp only [List.mem_cons, List.not_mem_nil, or_false] at hb; subst hb
    refine ⟨?_, ?_⟩ <;> decide
  seg_normal := by
    intro s hs
    simp only [List.mem_cons, List.not_mem_nil, or_false] at hs
    rcases hs with rfl | rfl <;> (refine ⟨?_, ?_, ?_, ?_⟩ <;> decide)
  seg_wf := by
    intro s hs t ht
    simp only [List.mem_cons, List.not_mem_nil, or_false] at hs
    rcases hs with rfl | rfl <;> (simp only [List.mem_cons, List.not_mem_nil, or_false] at ht; subst ht; decide)
  seg_static := by
    intro s hs b hb
    simp only [List.mem_cons, List.not_mem_nil, or_false] at hs
    rcases hs with rfl | rfl <;> simp at hb
    subst hb; decide
  all_subst := by
    intro s hs n hn
    simp only [List.mem_cons, List.not_mem_nil, or_false] at hs
    rcases hs with rfl | rfl <;> simp at hn
    subst hn; decide
  nonempty := by simp

/-- `CreateHttpRequest` for base path `/api?x=1`, pattern `/pets/{id}?y=2`, `id = "a/b"` and the
caller's `x=9`: the request goes to `/api/pets/a%2Fb?x=9&y=2`, and its decoded path is `/api/pets/a/b`. -/
example : ∃ u, build [47, 97, 112, 105, 63, 120, 61, 49] [47, 112, 101, 116, 115, 47, 123, 105, 100, 125, 63, 121, 61, 50]
      [([105, 100], [97, 47, 98])] [([120], [[57]])] http [104] = some u ∧
    GoURLParse.escapedPath u = [47, 97, 112, 105, 47, 112, 101, 116, 115, 47, 97, 37, 50, 70, 98] ∧
    u.path = [47, 97, 112, 105, 47, 112, 101, 116, 115, 47, 97, 47, 98] ∧
    u.rawQuery = [120, 61, 57, 38, 121, 61, 50] := by
  have hb : GoURLParse.parse [47, 97, 112, 105, 63, 120, 61, 49] = some { path := [47, 97, 112, 105], rawQuery := [120, 61, 49] } := by decide
  have hp : GoURLParse.parse [47, 112, 101, 116, 115, 47, 123, 105, 100, 125, 63, 121, 61, 50] =
      some { path := [47, 112, 101, 116, 115, 47, 123, 105, 100, 125], rawPath := [47, 112, 101, 116, 115, 47, 123, 105, 100, 125], rawQuery := [121, 61, 50] } := by decide
  have hbp := builtPath_eq example_pathOk false { path := [47, 97, 112, 105], rawQuery := [120, 61, 49] }
    { path := [47, 112, 101, 116, 115, 47, 123, 105, 100, 125], rawPath := [47, 112, 101, 116, 115, 47, 123, 105, 100, 125], rawQuery := [121, 61, 50] }
    (by decide) (by decide)
  obtain ⟨u, h1, _, _, _, _, _, _, h2, h3, h4, _⟩ := build_exact example_pathOk false _ _ _ _ hb hp (by decide) (by decide)
    (by rw [hbp]; decide) (by rw [hbp]; decide) [([120], [[57]])] (by decide) http [104]
  refine ⟨u, h1, ?_, ?_, ?_⟩
  · rw [h2]; decide
  · rw [h3]; decide
  · rw [h4]; decide


/-- the same request through `build_exact_plain`: nothing is assumed about `url.Parse` -/
example : ∃ u, build (basePathOf [[97, 112, 105]] ++ GoURLParse.withQuery [120, 61, 49])
      (patternOf [[.lit [112, 101, 116, 115]], [.ph [105, 100]]] false ++ GoURLParse.withQuery [121, 61, 50])
      [([105, 100], [97, 47, 98])] [([120], [[57]])] http [104] = some u ∧
    GoURLParse.escapedPath u = [47, 97, 112, 105, 47, 112, 101, 116, 115, 47, 97, 37, 50, 70, 98] ∧
    u.path = [47, 97, 112, 105, 47, 112, 101, 116, 115, 47, 97, 47, 98] := by
  have hst : ∀ s ∈ allSegs [[97, 112, 105]] [[.lit [112, 101, 116, 115]], [.ph [105, 100]]], ∀ b, Tok.lit b ∈ s →
      ∀ c ∈ b, GoURLParse.validEncodedByte c = true := by
    intro s hs b hb
    simp only [allSegs, List.map_cons, List.map_nil, List.cons_append, List.nil_append, List.mem_cons,
      List.not_mem_nil, or_false] at hs
    rcases hs with rfl | rfl | rfl <;> simp at hb <;> subst hb <;> decide
  have hnm : ∀ s ∈ [[Tok.lit [112, 101, 116, 115]], [Tok.ph [105, 100]]], ∀ n, Tok.ph n ∈ s →
      ∀ c ∈ n, GoURLParse.PlainByte c := by
    intro s hs n hn
    simp only [List.mem_cons, List.not_mem_nil, or_false] at hs
    rcases hs with rfl | rfl <;> simp at hn
    subst hn
    intro c hc
    simp only [List.mem_cons, List.not_mem_nil, or_false] at hc
    rcases hc with rfl | rfl <;> (refine ⟨?_, ?_, ?_, ?_⟩ <;> decide)
  obtain ⟨u, h1, _, _, _, _, _, _, h2, h3, _⟩ := build_exact_plain example_pathOk false [120, 61, 49] [121, 61, 50]
    (by decide) (by decide) hst hnm (by decide) [([120], [[57]])] (by decide) http [104]
  refine ⟨u, h1, ?_, ?_⟩
  · rw [h2]; decide
  · rw [h3]; decide

/-- `client.New` roots the base path and changes nothing else: a rooted base path (with whatever query
it carries) is held as given, and the result is always rooted. -/
theorem clientNew_base_path (b : Bytes) :
    (clientNewBasePath b).head? = some 47 ∧
    (b.head? = some 47 → clientNewBasePath b = b) ∧
    (b.head? ≠ some 47 → clientNewBasePath b = 47 :: b) ∧
    clientNewBasePath (clientNewBasePath b) = clientNewBasePath b := by
  unfold clientNewBasePath
  by_cases h : b.head? = some 47 <;> simp [h]

-- "api?x=//" is held as "/api?x=//" (the query text is not cleaned), "/a//b/" as given
example : clientNewBasePath [97, 112, 105, 63, 120, 61, 47, 47] = [47, 97, 112, 105, 63, 120, 61, 47, 47] ∧
    clientNewBasePath [47, 97, 47, 47, 98, 47] = [47, 97, 47, 47, 98, 47] := by decide

end RtVerif.C10
