import RtVerif.Lemmas.C14
import RtVerif.Base.GoURL
/-
  C14 — property theorems (all inputs, no bounds).

  Vocabulary: `pipeline i cb` = the client builds the request for input `i` (parameters already
  written, the operation's writer `i.op`, the runtime's default `i.dflt`), the transport hands it over,
  the server authenticator `i.srv` is called with parameter kind `i.pk` and application callback `cb`.
  `specOk` is the Spec of RtVerif/Model/C14.lean, written from the property text.
-/
namespace RtVerif.C14
open RtVerif Bytes

/-! ## the shared base64 library -/

/-- `DecodeString (EncodeToString b) = b` for every byte string, std and URL alphabets. -/
theorem base64_roundtrip (url : Bool) (b : Bytes) : Base64.decode url (Base64.encode url b) = some b :=
  Base64.decode_encode url b

/-- support for the transport assumption on query strings and urlencoded bodies: every name and value
(any bytes) survives `url.QueryEscape` followed by `url.QueryUnescape` -/
theorem query_component_roundtrip (s : Bytes) : GoURL.queryUnescape (GoURL.queryEscape s) = some s :=
  GoURL.unescape_escape true s

/-! ## the model meets the Spec -/

/-- MAIN: for every request, writer configuration, authenticator, parameter kind and callback, what the
modelled client/transport/server pipeline does satisfies the Spec (client half: the effective writers'
credentials — and nothing else — are carried at their places, per the default rule; server half: the
callback gets exactly the carried credential and the required scopes, 'not applicable' exactly when
none is carried, principal and error are the callback's). -/
theorem pipeline_meets_spec (i : Input) (cb : Callback) : specOk i cb (pipeline i cb) = true :=
  pipeline_spec i cb

/-- The server half holds for EVERY request view net/http can produce (not only client-built ones). -/
theorem server_meets_spec (srv : Server) (pk : ParamKind) (cb : Callback) (v : View) (hwf : v.wf = true) :
    match serve srv pk cb v with
    | .out o => specServer srv pk cb v o = true
    | .panic => specScopes srv pk = none :=
  serve_spec srv pk cb v hwf

example : View.wf { auth := [([66, 101, 97, 114, 101, 114, 32, 116] : Bytes)], keyHdr := [], keyQuery := [], tokQuery := [], tokBody := [([98] : Bytes)],
                    ctype := sMultipart } = true := by decide

/-! ## round trips, spelled out -/

/-- Basic: any user without ':' and ANY password (colons, non-ASCII, empty) reach the callback exactly,
whatever else the parameters had put into the request, for all four `BasicAuth*` variants and both
accepted parameter kinds. -/
theorem basic_roundtrip (pre : CReq) (dflt : Option Writer) (u p : Bytes) (hu : u.contains 58 = false)
    (realm : Option Bytes) (ctx : Bool) (pk : ParamKind) (hpk : pk ≠ .other) (cb : Callback) :
    ∃ v, pipeline ⟨pre, some (.atom (.basic u p)), dflt, .basic realm ctx, pk⟩ cb =
      .done v (.out { applies := true, principal := (cb [u, p] []).1, err := (cb [u, p] []).2,
                      called := some ([u, p], []),
                      failedBasic := if (cb [u, p] []).2 then realmOf realm else [] }) := by
  refine ⟨observe (.basic realm ctx) { pre with header := setKey pre.header authKey (basicValue u p) }, ?_⟩
  simp only [pipeline, authenticate, applyWriter, applyAtom]
  have hv : get1 ((observe (.basic realm ctx) { pre with header := setKey pre.header authKey (basicValue u p) }).auth)
      = basicValue u p := by
    simp [observe, transport, values_setKey_same, basicValue_trim, get1]
  have hparse : parseBasicAuth (basicValue u p) = some (u, p) := by
    rw [parseBasicAuth_eq_carried]; exact carriedBasic_basicValue u p hu
  cases pk with
  | other => exact absurd rfl hpk
  | plain => simp only [serve, serveBasic, hv, hparse]
  | scopedReq s => simp only [serve, serveBasic, hv, hparse]

example : ([117, 115, 195, 169, 114] : Bytes).contains 58 = false := by decide

/-- the header value `client.BasicAuth` writes is recovered by `http.Request.BasicAuth` -/
theorem basic_value_recovered (u p : Bytes) (hu : u.contains 58 = false) :
    parseBasicAuth (basicValue u p) = some (u, p) := by
  rw [parseBasicAuth_eq_carried]; exact carriedBasic_basicValue u p hu

/-- what the Spec means by "the request carries a Basic credential (u, p)": the Authorization value is
`Basic␠` in any letter case followed by the base64 (std alphabet, padded; CR/LF ignored, as Go does) of
`u:p`, where `u` is everything before the first colon -/
theorem basic_credential_meaning (a u p : Bytes) :
    carriedBasic a = some (u, p) ↔
      ∃ scheme enc, a = scheme ++ enc ∧ equalFold scheme [66, 97, 115, 105, 99, 32] = true ∧
        Base64.decode false enc = some (u ++ 58 :: p) ∧ u.contains 58 = false :=
  carriedBasic_iff' a u p

/-- outside the quantifier: with a ':' in the user name the split moves to the first colon -/
theorem basic_colon_in_user_splits_early :
    parseBasicAuth (basicValue [97, 58, 98] [99]) = some ([97], [98, 58, 99]) := by decide

/-- API key in a header: a non-empty value without surrounding whitespace reaches the callback exactly
when the server's key name has the same canonical form as the client's (in particular: the same
valid field name in any letter case, `apikey_header_name_case`), for `header` in any case on the
server side. -/
theorem apikey_header_roundtrip (pre : CReq) (dflt : Option Writer) (n n' inn' v : Bytes)
    (hn : canon n' = canon n) (hin : (toLower inn' == sHeader) = true)
    (hv : v ≠ []) (hf : fieldValue v = true) (ctx : Bool) (pk : ParamKind) (hpk : pk ≠ .other) (cb : Callback) :
    ∃ w, pipeline ⟨pre, some (.atom (.apiKey n false v)), dflt, .apiKey n' inn' ctx, pk⟩ cb =
      .done w (.out { applies := true, principal := (cb [v] []).1, err := (cb [v] []).2, called := some ([v], []) }) := by
  refine ⟨observe (.apiKey n' inn' ctx) { pre with header := setKey pre.header (canon n) v }, ?_⟩
  simp only [pipeline, authenticate, applyWriter, applyAtom]
  have hk : get1 ((observe (.apiKey n' inn' ctx) { pre with header := setKey pre.header (canon n) v }).keyHdr) = v := by
    simp [observe, transport, hn, values_setKey_same, trimOWS_of_fieldValue v hf, get1]
  have hne : v.isEmpty = false := by cases v with | nil => exact absurd rfl hv | cons _ _ => rfl
  cases pk with
  | other => exact absurd rfl hpk
  | plain => simp only [serve, inHeader_eq, hin, ↓reduceIte, serveApiKey, hk, hne, Bool.false_eq_true]
  | scopedReq s => simp only [serve, inHeader_eq, hin, ↓reduceIte, serveApiKey, hk, hne, Bool.false_eq_true]

example : canon ([120, 45, 97, 112, 105, 45, 75, 69, 89] : Bytes) = canon ([88, 45, 65, 112, 105, 45, 75, 101, 121] : Bytes) ∧ (toLower ([72, 101, 97, 100, 101, 114] : Bytes) == sHeader) = true ∧
    fieldValue ([107, 32, 49] : Bytes) = true := by decide

/-- valid header field names that differ only in letter case have the same canonical form -/
theorem apikey_header_name_case (a b : Bytes) (ha : a.all isTokenByte = true) (h : equalFold a b = true) :
    canon a = canon b := canon_equalFold a b ha h

example : ([120, 45, 97, 112, 105, 45, 107, 101, 121] : Bytes).all isTokenByte = true ∧ equalFold ([120, 45, 97, 112, 105, 45, 107, 101, 121] : Bytes) ([88, 45, 65, 80, 73, 45, 75, 101, 121] : Bytes) = true := by decide

/-- API key in the query: any non-empty value (any bytes) reaches the callback exactly when the server
looks the same parameter name up. -/
theorem apikey_query_roundtrip (pre : CReq) (dflt : Option Writer) (n inn' v : Bytes)
    (hin : (toLower inn' == sQuery) = true) (hv : v ≠ []) (ctx : Bool) (pk : ParamKind) (hpk : pk ≠ .other)
    (cb : Callback) :
    ∃ w, pipeline ⟨pre, some (.atom (.apiKey n true v)), dflt, .apiKey n inn' ctx, pk⟩ cb =
      .done w (.out { applies := true, principal := (cb [v] []).1, err := (cb [v] []).2, called := some ([v], []) }) := by
  refine ⟨observe (.apiKey n inn' ctx) { pre with query := setKey pre.query n v }, ?_⟩
  simp only [pipeline, authenticate, applyWriter, applyAtom]
  have hk : get1 ((observe (.apiKey n inn' ctx) { pre with query := setKey pre.query n v }).keyQuery) = v := by
    simp [observe, transport, values_setKey_same, get1]
  have hne : v.isEmpty = false := by cases v with | nil => exact absurd rfl hv | cons _ _ => rfl
  have hnh : (toLower inn' == sHeader) = false := by
    have e : toLower inn' = sQuery := by simpa using hin
    rw [e]; decide
  cases pk with
  | other => exact absurd rfl hpk
  | plain => simp only [serve, inHeader_eq, inQuery_eq, hin, hnh, ↓reduceIte, serveApiKey, hk, hne, Bool.false_eq_true]
  | scopedReq s => simp only [serve, inHeader_eq, inQuery_eq, hin, hnh, ↓reduceIte, serveApiKey, hk, hne, Bool.false_eq_true]

/-- Bearer: a non-empty token without surrounding whitespace written by `BearerToken` reaches the callback
exactly, together with the required scopes unchanged — whatever `access_token` the query or the form
body also carry (header precedence through the whole pipeline). -/
theorem bearer_roundtrip (pre : CReq) (dflt : Option Writer) (t name : Bytes) (ht : t ≠ []) (hf : fieldValue t = true)
    (ctx : Bool) (scopes : List Bytes) (cb : Callback) :
    ∃ v, pipeline ⟨pre, some (.atom (.bearer t)), dflt, .bearer name ctx, .scopedReq scopes⟩ cb =
      .done v (.out { applies := true, principal := (cb [t] scopes).1, err := (cb [t] scopes).2,
                      called := some ([t], scopes), oauthName := name }) := by
  refine ⟨observe (.bearer name ctx) { pre with header := setKey pre.header authKey (bearerValue t) }, ?_⟩
  simp only [pipeline, authenticate, applyWriter, applyAtom]
  have hv : get1 ((observe (.bearer name ctx) { pre with header := setKey pre.header authKey (bearerValue t) }).auth)
      = bearerValue t := by
    simp [observe, transport, values_setKey_same, bearerValue_trim t ht hf, get1]
  have hh : bearerFromHeader ctx (bearerValue t) = t := by
    simp [bearerFromHeader, bearerPrefix_eq, clientBearerPrefix_eq, bearerValue_eq, hasPrefix]
  have hne : t.isEmpty = false := by cases t with | nil => exact absurd rfl ht | cons _ _ => rfl
  simp only [serve, serveBearer, bearerToken, tokenAfterQuery, hv, hh, hne, Bool.false_and, Bool.false_eq_true, ↓reduceIte]

example : fieldValue ([97, 32, 98, 32, 32, 99, 195, 169] : Bytes) = true := by decide

/-! ## 'not applicable' exactly when no credential; the principal is the callback's; scopes -/

/-- `applies = false` ⇔ the request carries no credential of the authenticator's kind (for every
view; parameter kinds the property speaks about). -/
theorem not_applicable_iff_no_credential (srv : Server) (pk : ParamKind) (cb : Callback) (v : View) (o : SOut)
    (hwf : v.wf = true) (hpk : (specScopes srv pk).isSome = true) (hs : serve srv pk cb v = .out o) :
    o.applies = false ↔ specCred srv v = none := by
  have h := serve_spec srv pk cb v hwf
  rw [hs] at h
  simp only [specServer, Bool.and_eq_true] at h
  obtain ⟨_, h2⟩ := h
  cases hsc : specScopes srv pk with
  | none => rw [hsc] at hpk; cases hpk
  | some sc =>
    rw [hsc] at h2
    cases hc : specCred srv v with
    | none => rw [hc] at h2; simp at h2; simp [h2.1]
    | some cred => rw [hc] at h2; simp at h2; simp [h2.1]

example : (specScopes (.bearer [] false) (.scopedReq [[97]])).isSome = true := by decide

/-- The authenticator never returns a principal (or error) other than the callback's: either the
callback was not called and the result is (false, nil, nil), or it was called once with `(a, s)` and
the result is (true, its principal, its error). -/
theorem principal_is_callbacks (srv : Server) (pk : ParamKind) (cb : Callback) (v : View) (o : SOut)
    (hs : serve srv pk cb v = .out o) :
    (o.called = none ∧ o.applies = false ∧ o.principal = [] ∧ o.err = false) ∨
    (∃ a s, o.called = some (a, s) ∧ o.applies = true ∧ o.principal = (cb a s).1 ∧ o.err = (cb a s).2) := by
  have na : (notApplicable.called = none ∧ notApplicable.applies = false ∧ notApplicable.principal = [] ∧
      notApplicable.err = false) := ⟨rfl, rfl, rfl, rfl⟩
  cases srv with
  | basic r c =>
    have key : ∀ realm, (serveBasic realm cb v).called = none ∧ (serveBasic realm cb v).applies = false ∧
        (serveBasic realm cb v).principal = [] ∧ (serveBasic realm cb v).err = false ∨
        ∃ a s, (serveBasic realm cb v).called = some (a, s) ∧ (serveBasic realm cb v).applies = true ∧
          (serveBasic realm cb v).principal = (cb a s).1 ∧ (serveBasic realm cb v).err = (cb a s).2 := by
      intro realm
      unfold serveBasic
      cases parseBasicAuth (get1 v.auth) with
      | none => left; exact ⟨rfl, rfl, rfl, rfl⟩
      | some up => right; exact ⟨[up.1, up.2], [], rfl, rfl, rfl, rfl⟩
    cases pk <;> simp only [serve, SrvResult.out.injEq] at hs <;> subst hs
    · exact key _
    · exact key _
    · left; exact na
  | apiKey n inn c =>
    have key : ∀ b, (serveApiKey b cb v).called = none ∧ (serveApiKey b cb v).applies = false ∧
        (serveApiKey b cb v).principal = [] ∧ (serveApiKey b cb v).err = false ∨
        ∃ a s, (serveApiKey b cb v).called = some (a, s) ∧ (serveApiKey b cb v).applies = true ∧
          (serveApiKey b cb v).principal = (cb a s).1 ∧ (serveApiKey b cb v).err = (cb a s).2 := by
      intro b
      simp only [serveApiKey]
      by_cases h : (if b = true then get1 v.keyHdr else get1 v.keyQuery).isEmpty = true
      · left; rw [if_pos h]; exact na
      · right; rw [if_neg h]; exact ⟨_, _, rfl, rfl, rfl, rfl⟩
    simp only [serve] at hs
    split at hs
    · cases pk <;> simp only [SrvResult.out.injEq] at hs <;> subst hs
      · exact key _
      · exact key _
      · left; exact na
    · split at hs
      · cases pk <;> simp only [SrvResult.out.injEq] at hs <;> subst hs
        · exact key _
        · exact key _
        · left; exact na
      · cases hs
  | bearer n c =>
    cases pk <;> simp only [serve, SrvResult.out.injEq] at hs <;> subst hs
    · left; exact na
    · unfold serveBearer
      split
      · left; exact na
      · right; exact ⟨_, _, rfl, rfl, rfl, rfl⟩
    · left; exact na

/-- The required scopes of the operation are handed to the callback unchanged. -/
theorem scopes_unchanged (name : Bytes) (ctx : Bool) (scopes : List Bytes) (cb : Callback) (v : View) (o : SOut)
    (a s : List Bytes) (hs : serve (.bearer name ctx) (.scopedReq scopes) cb v = .out o)
    (hc : o.called = some (a, s)) : s = scopes := by
  simp only [serve, SrvResult.out.injEq] at hs
  subst hs
  unfold serveBearer at hc
  split at hc
  · cases hc
  · simp only [Option.some.injEq, Prod.mk.injEq] at hc; exact hc.2.symm

/-! ## bearer precedence -/

/-- the token the modelled `BearerAuth`/`BearerAuthCtx` settle on is the one named by the property's
precedence rule (`specBearer`: header, else query, else form body) -/
theorem bearer_token_precedence (ctx : Bool) (v : View) (hwf : v.wf = true) :
    (if (bearerToken ctx v).isEmpty then none else some (bearerToken ctx v)) = specBearer v :=
  bearerToken_spec ctx v hwf

/-- 1. a Bearer credential in the Authorization header wins over everything else -/
theorem bearer_header_first (v : View) (t : Bytes) (h : carriedBearer (get1 v.auth) = some t) : specBearer v = some t := by
  simp [specBearer, h, firstSome]

/-- 2. without one, a non-empty `access_token` query parameter wins over the form body -/
theorem bearer_query_second (v : View) (t : Bytes) (h : carriedBearer (get1 v.auth) = none)
    (hq : nonEmptyFirst v.tokQuery = some t) : specBearer v = some t := by
  simp [specBearer, h, hq, firstSome]

/-- 3. without either, the form body's `access_token` (urlencoded or multipart) is the token; if that is
missing too the request carries no bearer credential -/
theorem bearer_form_third (v : View) (h : carriedBearer (get1 v.auth) = none) (hq : nonEmptyFirst v.tokQuery = none) :
    specBearer v = nonEmptyFirst v.tokBody := by
  simp only [specBearer, h, hq, firstSome]
  cases nonEmptyFirst v.tokBody <;> rfl

/-- other schemes in `Authorization` (anything not starting with `Bearer␠`, e.g. `Basic …`, and also the
lower-case spelling `bearer …`) carry no bearer credential: the lookup moves on to query and form -/
theorem bearer_other_scheme_ignored (ctx : Bool) (h : Bytes) (hp : hasPrefix h [66, 101, 97, 114, 101, 114, 32] = false) :
    carriedBearer h = none ∧ bearerFromHeader ctx h = [] := by
  constructor
  · simp only [carriedBearer, hasPrefix] at hp ⊢; simp [hp]
  · simp only [bearerFromHeader, bearerPrefix_eq, clientBearerPrefix_eq, hp, Bool.false_eq_true, ↓reduceIte]

example : hasPrefix ([66, 97, 115, 105, 99, 32, 100, 84, 112, 119] : Bytes) [66, 101, 97, 114, 101, 114, 32] = false ∧
    hasPrefix ([98, 101, 97, 114, 101, 114, 32, 97, 98, 99] : Bytes) [66, 101, 97, 114, 101, 114, 32] = false := by decide

/-- F14a (repaired in the code by reading `PostFormValue`): under the `FormValue` reading (mode 1) an
empty `access_token` in the query hides the token of a multipart body — the Spec's token is not found. -/
theorem formValue_reading_misses_multipart_token :
    ∃ v : View, v.wf = true ∧ specBearer v = some [116] ∧ formLookup 1 v = [] ∧ formLookup 0 v = [116] :=
  ⟨{ auth := [], keyHdr := [], keyQuery := [], tokQuery := [[]], tokBody := [[116]], ctype := sMultipart }, by decide⟩

/-! ## the default credential -/

/-- an operation with a writer of its own (even `PassThroughAuth`) never gets the default -/
theorem own_writer_excludes_default (w : Writer) (dflt : Option Writer) (r : CReq) :
    authenticate (some w) dflt r = applyWriter r w := rfl

/-- no writer of its own and no (non-empty) Authorization header set by the parameters: the default applies -/
theorem default_applied (d : Writer) (r : CReq) (h : get1 (values r.header sAuthorization) = []) :
    authenticate none (some d) r = applyWriter r d := by
  simp [authenticate, authKey_eq, h]

/-- an Authorization header already set: the default steps aside and the request is left as it is -/
theorem default_skipped (d : Writer) (r : CReq) (h : get1 (values r.header sAuthorization) ≠ []) :
    authenticate none (some d) r = some r := by
  simp [authenticate, authKey_eq, h]

/-- no default configured: nothing is added -/
theorem no_default_nothing_added (r : CReq) : authenticate none none r = some r := rfl

/-- the Spec's default rule, as an equivalence: the default's writers are the ones in effect iff the
operation has none of its own and no Authorization header is set (for a default that writes anything) -/
theorem default_in_effect_iff (pre : CReq) (op : Option Writer) (d : Writer) (srv : Server) (pk : ParamKind)
    (hd : d.atoms ≠ []) (hop : ∀ w, op = some w → w.atoms ≠ d.atoms) :
    specEffective ⟨pre, op, some d, srv, pk⟩ = d.atoms ↔
      (op = none ∧ nonEmptyFirst (values pre.header sAuthorization) = none) := by
  cases op with
  | some w =>
    simp only [specEffective, reduceCtorEq, false_and, iff_false]
    exact hop w rfl
  | none =>
    simp only [specEffective, true_and]
    cases h : nonEmptyFirst (values pre.header sAuthorization) with
    | none => simp
    | some x => simp only [Option.isSome_some, ↓reduceIte, reduceCtorEq, iff_false]; exact fun e => hd e.symm

example : (Writer.atom (.bearer [116])).atoms ≠ [] := by decide

end RtVerif.C14
