import RtVerif.Model.C05DA
import RtVerif.Lemmas.C05DALookup
import RtVerif.Lemmas.C05DAAccept
/-
  C05DA — property theorems: the BASE/CHECK double array refines the trie model of C05.

  * `build_repr`      — whatever `Router.Build` (model `routerBuild`, with the concrete `findBase`)
                         accepts, the arrays it leaves represent the implicit trie of the sorted
                         parameterised records (`Repr`, the Prop form of the decidable check `reprB`
                         the driver applies to the REAL arrays; `checked_arrays_refine`);
  * `lookup_refines`  — on ANY arrays that represent a trie node, `doubleArray.lookup` (greedy walk,
                         then BACKTRACKING) returns what the DFS `C05.look` returns, never panics, never
                         runs out of fuel (this part is independent of how the arrays were allocated);
  * `router_refines`, `router_refines'` — `Router.Build` + `Router.Lookup` on the arrays =
                         `C05.build` + `C05.lookup` on the trie: same value, same parameter names and
                         texts, same miss; what the array `Build` accepts the trie `Build` accepts
                         (`trie_accepts`);
  * `routerBuild_total`, `routerBuild_outcomes`, `build_errors_agree` — the fuel of the model
                         (`findBase` loop, recursion of `build`) is never exhausted, no Go panic and no
                         "not sorted" error is reachable; the two `Build`s refuse the same tables;
  * `lookup_spec_da`, `lookup_total_da`, `lookup_arity_da`, `route_perm_da` — the C05 property
                         theorems, transferred to the array level.

  The invariants behind `build_repr` (Lemmas/C05DABuild*.lean): an element is allocated iff it is
  the root or carries a CHECK (`Alloc`; what the repaired `isFree` tests), unallocated elements are
  untouched, the CHECK `c` of an element `s` names a BASE `s xor c` that is in `usedBase`
  (`Inv.owner`); `findBase` returns a BASE outside `usedBase` whose sibling places are all unused
  (`findBase_spec`), so that CHECK at `BASE(parent) xor c` is `c` exactly for the children of
  `parent`; a `build` call writes to its own element and to unallocated ones only (`Ext`), which
  keeps finished subtrees intact (`ReprOn.stable`).
-/
namespace RtVerif.C05DA
open RtVerif Bytes
open RtVerif.C05 (Rec cParam cWild cTerm cSep sortRecs leafOf weight look NulFree)

/-- **The arrays `Router.Build` leaves represent the trie** of the sorted parameterised records, and
the node table is no longer the initial one. -/
theorem build_repr (recs : List (Bytes × Nat)) (rt : Router) (t : C05.Table)
    (hda : routerBuild recs = .ok rt) (hb : C05.build recs = .ok t) (hne : t.params ≠ []) :
    Repr rt.bc rt.node rootIndex t.params ∧ 1 < rt.node.size := by
  obtain ⟨_, hpar, hbad⟩ := C05.build_ok hb
  obtain ⟨_, hlen, st, hst, rfl⟩ := routerBuild_ok hda
  have hpne : C05.paramRecs recs ≠ [] := by
    intro hnil; apply hne; rw [hpar, hnil]; rfl
  have hgood : Good (C05.paramRecs recs) :=
    ⟨hpne, nulFree_paramRecs hbad, Or.inr (termAll_paramRecs hbad)⟩
  have hfresh : FreshEl (el St.new.bc rootIndex) := by
    rw [el_of_ge (by simp [St.new, rootIndex])]; exact ⟨rfl, rfl, rfl⟩
  obtain ⟨_, _, hrepr, hnlt, _⟩ := build_spec _ _ _ _ _ hst hgood inv_new (Or.inl rfl) hfresh
    (by simp only [St.new, bound]; unfold maxSize at hlen; simp; omega)
  rw [hpar]
  exact ⟨hrepr.toRepr, by simpa [St.new] using hnlt⟩

/-- **Refinement of `lookup`** (independent of the allocator): on arrays that represent the trie
node `rs` at the element `idx`, `doubleArray.lookup` returns the leaf (names, value) and the
parameter texts the DFS returns, or misses when the DFS misses; no panic, no fuel exhaustion. -/
theorem lookup_refines (bc : BC) (node : Array (Option Node)) (fuel : Nat) (rs : List Rec) (idx : Nat)
    (path : Bytes) (vals : List Bytes) (hR : Repr bc node idx rs) (hT : TermAll rs)
    (hf : weight rs < fuel) :
    lookupF bc node fuel path vals idx =
      match look rs path vals with
      | some f => .found (some ⟨f.r.names, f.r.val⟩) f.vals
      | none => .miss := by
  rw [lookupF_spec bc node fuel rs idx path vals hR hT hf]
  cases look rs path vals <;> rfl

/-- The decidable check the driver applies to the REAL arrays (read through the hook
`Router.VerifDump`) is sufficient: arrays that pass it — however they were allocated — answer every
lookup as the trie does. -/
theorem checked_arrays_refine (bc : BC) (node : Array (Option Node)) (f fuel : Nat) (rs : List Rec)
    (path : Bytes) (hchk : reprB bc node f rootIndex rs = true) (hT : TermAll rs) (hf : weight rs < fuel) :
    lookupF bc node fuel path [] rootIndex =
      match look rs path [] with
      | some r => .found (some ⟨r.r.names, r.r.val⟩) r.vals
      | none => .miss :=
  lookup_refines bc node fuel rs rootIndex path [] (reprB_sound bc node f rootIndex rs hchk) hT hf

/-- **Refinement of the router**: for every record list both `Build`s accept and every path, the
double-array router answers exactly as the trie router: the same value with the same parameter names
and texts, or the same miss. -/
theorem router_refines (recs : List (Bytes × Nat)) (rt : Router) (t : C05.Table) (path : Bytes)
    (hda : routerBuild recs = .ok rt) (hb : C05.build recs = .ok t) :
    routerLookup rt path = ofC05 (C05.lookup t path) := by
  obtain ⟨hst, hpar, hbad⟩ := C05.build_ok hb
  by_cases hne : t.params = []
  · -- no parameterised record: the arrays are the initial ones
    obtain ⟨_, _, st, hbuild, rfl⟩ := routerBuild_ok hda
    have hp : C05.paramRecs recs = [] := by
      rw [hpar] at hne
      cases hx : C05.paramRecs recs with
      | nil => rfl
      | cons x xs =>
        have : x ∈ sortRecs (C05.paramRecs recs) := C05.mem_sortRecs.mpr (by rw [hx]; exact List.mem_cons_self)
        rw [hne] at this; cases this
    rw [hp] at hbuild
    have hf : buildFuel recs = 0 + 1 := by unfold buildFuel; rw [hp]; rfl
    rw [hf, build_nil] at hbuild
    simp only [Except.ok.injEq] at hbuild
    subst hbuild
    unfold routerLookup C05.lookup
    rw [hst]
    cases C05.staticLookup (recs.filter fun kv => !C05.isParamKey kv.1) path with
    | some v => rfl
    | none =>
      simp only
      rw [hne, look_nil]
      rfl
  · obtain ⟨hrepr, hnode⟩ := build_repr recs rt t hda hb hne
    obtain ⟨_, _, st, _, hrt⟩ := routerBuild_ok hda
    have hT : TermAll t.params := by
      intro r hr
      rw [hpar, C05.mem_sortRecs] at hr
      exact termAll_paramRecs hbad r hr
    have hfuel : weight t.params < rt.fuel := by
      rw [hrt]
      show weight t.params < buildFuel recs
      rw [hpar, C05.weight_sortRecs]; unfold buildFuel; omega
    have hstat : rt.statics = t.statics := by rw [hrt, hst]
    unfold routerLookup
    rw [hstat]
    cases hs : C05.staticLookup t.statics path with
    | some v => simp only [C05.lookup, hs, ofC05]
    | none =>
      simp only
      have hn1 : (rt.node.size == 1) = false := by simp; omega
      rw [hn1]
      simp only [Bool.false_eq_true, ↓reduceIte]
      rw [lookupF_spec rt.bc rt.node rt.fuel t.params rootIndex path [] hrepr hT hfuel]
      cases hl : look t.params path [] with
      | none => simp only [ofLook, C05.lookup, hs, hl, ofC05]
      | some f =>
        have hlk : C05.lookup t path = .found f.r.val f.r.names f.vals := by
          simp only [C05.lookup, hs, hl]
        have har := C05.lookup_arity recs t path _ _ _ hb hlk
        simp only [ofLook, hlk, ofC05]
        rw [if_neg (by omega), har, List.take_length]

/-- **Totality of the array `Build`** (the fuel of the model suffices, no Go panic is reachable):
whatever the trie model accepts, `Router.Build` on the arrays accepts too — `findBase` terminates,
`build` terminates, `makeSiblings` never reports an unsorted table, no index is out of range, no name is
reported duplicated — unless it refuses the table for its size (more than `MaxSize` records, or a
BASE beyond `MaxSize`). -/
theorem routerBuild_total (recs : List (Bytes × Nat)) (t : C05.Table) (hb : C05.build recs = .ok t) :
    (∃ rt, routerBuild recs = .ok rt) ∨ routerBuild recs = .error .tooManyRecords ∨
      routerBuild recs = .error .tooManyElems := by
  obtain ⟨hbad0, hdup0⟩ := c05_build_ok' hb
  obtain ⟨_, _, hbad⟩ := C05.build_ok hb
  unfold routerBuild
  rw [hbad0]
  simp only [Bool.false_eq_true, ↓reduceIte]
  by_cases hlen : (C05.paramRecs recs).length > maxSize
  · rw [if_pos hlen]
    exact Or.inr (Or.inl rfl)
  · rw [if_neg hlen]
    by_cases hp : C05.paramRecs recs = []
    · have hf : buildFuel recs = 0 + 1 := by unfold buildFuel; rw [hp]; rfl
      rw [hp, hf, build_nil]
      exact Or.inl ⟨_, rfl⟩
    · have hgood : Good (C05.paramRecs recs) :=
        ⟨hp, nulFree_paramRecs hbad, Or.inr (termAll_paramRecs hbad)⟩
      have := build_total True (buildFuel recs) (C05.paramRecs recs) rootIndex St.new hgood
        (by unfold buildFuel; omega)
        (by
          intro hk
          exfalso
          cases hx : C05.paramRecs recs with
          | nil => exact hp hx
          | cons x xs =>
            have hm : x ∈ C05.paramRecs recs := by rw [hx]; exact List.mem_cons_self
            exact (termAll_paramRecs hbad x hm).ne_nil (hk x hm))
        (by
          intro _ r hr
          unfold buildFuel at hr
          rw [← C05.weight_sortRecs] at hr
          have := List.any_eq_false.mp hdup0 r hr
          simpa using this)
      rcases this with ⟨st', h', _⟩ | h' | ⟨hd, _⟩
      · rw [h']; exact Or.inl ⟨_, rfl⟩
      · rw [h']; exact Or.inr (Or.inr rfl)
      · exact absurd trivial hd

/-- **Every outcome of the array `Build` is one the Go code can produce without crashing**, for
ALL record lists: a router, or one of its four errors; the model's `panic`, `fuel` and the
"BUG: routing table hasn't been sorted" outcomes are unreachable. -/
theorem routerBuild_outcomes (recs : List (Bytes × Nat)) :
    (∃ rt, routerBuild recs = .ok rt) ∨ routerBuild recs = .error .reserved ∨
      routerBuild recs = .error .tooManyRecords ∨ routerBuild recs = .error .tooManyElems ∨
      routerBuild recs = .error .dupName := by
  unfold routerBuild
  by_cases hbad0 : ((recs.filter fun kv => C05.isParamKey kv.1).any (fun kv => C05.isBadKey kv.1)) = true
  · rw [if_pos hbad0]; exact Or.inr (Or.inl rfl)
  · rw [if_neg hbad0]
    have hbad := bad_false_iff.mp (by simpa using hbad0)
    by_cases hlen : (C05.paramRecs recs).length > maxSize
    · rw [if_pos hlen]; exact Or.inr (Or.inr (Or.inl rfl))
    · rw [if_neg hlen]
      by_cases hp : C05.paramRecs recs = []
      · have hf : buildFuel recs = 0 + 1 := by unfold buildFuel; rw [hp]; rfl
        rw [hp, hf, build_nil]
        exact Or.inl ⟨_, rfl⟩
      · have hgood : Good (C05.paramRecs recs) :=
          ⟨hp, nulFree_paramRecs hbad, Or.inr (termAll_paramRecs hbad)⟩
        have := build_total False (buildFuel recs) (C05.paramRecs recs) rootIndex St.new hgood
          (by unfold buildFuel; omega)
          (by
            intro hk
            exfalso
            cases hx : C05.paramRecs recs with
            | nil => exact hp hx
            | cons x xs =>
              have hm : x ∈ C05.paramRecs recs := by rw [hx]; exact List.mem_cons_self
              exact (termAll_paramRecs hbad x hm).ne_nil (hk x hm))
          (fun d => d.elim)
        rcases this with ⟨st', h', _⟩ | h' | ⟨_, h'⟩
        · rw [h']; exact Or.inl ⟨_, rfl⟩
        · rw [h']; exact Or.inr (Or.inr (Or.inr (Or.inl rfl)))
        · rw [h']; exact Or.inr (Or.inr (Or.inr (Or.inr rfl)))

/-- **What the array `Build` accepts, the trie `Build` accepts**: `makeNode` has refused every
duplicated parameter name `C05.build` scans for. -/
theorem trie_accepts (recs : List (Bytes × Nat)) (rt : Router) (hda : routerBuild recs = .ok rt) :
    ∃ t, C05.build recs = .ok t := by
  obtain ⟨hbad0, hlen, st, hst, _⟩ := routerBuild_ok hda
  have hbad := bad_false_iff.mp hbad0
  have hclean : ((C05.leaves (weight (sortRecs (C05.paramRecs recs)) + 1) (sortRecs (C05.paramRecs recs))).any
      (fun r => C05.hasDup r.names)) = false := by
    rw [List.any_eq_false]
    intro r hr
    by_cases hp : C05.paramRecs recs = []
    · rw [hp] at hr
      have : sortRecs [] = [] := rfl
      rw [this, leaves_nil] at hr; cases hr
    · have hgood : Good (C05.paramRecs recs) :=
        ⟨hp, nulFree_paramRecs hbad, Or.inr (termAll_paramRecs hbad)⟩
      have hfresh : FreshEl (el St.new.bc rootIndex) := by
        rw [el_of_ge (by simp [St.new, rootIndex])]; exact ⟨rfl, rfl, rfl⟩
      obtain ⟨_, _, hrepr, _, _⟩ := build_spec _ _ _ _ _ hst hgood inv_new (Or.inl rfl) hfresh
        (by simp only [St.new, bound]; unfold maxSize at hlen; simp; omega)
      have hN : NulFree (sortRecs (C05.paramRecs recs)) := fun r hr =>
        nulFree_paramRecs hbad r (C05.mem_sortRecs.mp hr)
      have := hrepr.leaves_clean hN _ r hr
      simp [this]
  refine ⟨⟨recs.filter fun kv => !C05.isParamKey kv.1, sortRecs (C05.paramRecs recs)⟩, ?_⟩
  unfold C05.build
  rw [hbad0]
  simp only [Bool.false_eq_true, ↓reduceIte, hclean]

/-- **The refinement, from the array side alone**: for every record list the array `Build` accepts
there is the trie table `C05.build` makes of it, and on every path the array router answers as the
trie router. -/
theorem router_refines' (recs : List (Bytes × Nat)) (rt : Router) (hda : routerBuild recs = .ok rt) :
    ∃ t, C05.build recs = .ok t ∧ ∀ path, routerLookup rt path = ofC05 (C05.lookup t path) := by
  obtain ⟨t, hb⟩ := trie_accepts recs rt hda
  exact ⟨t, hb, fun path => router_refines recs rt t path hda hb⟩

/-- the two `Build`s refuse the same tables for the same reason (sizes apart) -/
theorem build_errors_agree (recs : List (Bytes × Nat)) :
    (routerBuild recs = .error .reserved ↔ C05.build recs = .errReserved) ∧
    (routerBuild recs = .error .dupName → C05.build recs = .errDupName) := by
  have hres : routerBuild recs = .error .reserved ↔ C05.build recs = .errReserved := by
    unfold routerBuild C05.build
    by_cases hbad0 : ((recs.filter fun kv => C05.isParamKey kv.1).any (fun kv => C05.isBadKey kv.1)) = true
    · simp only [hbad0, ↓reduceIte]
    · simp only [hbad0, Bool.false_eq_true, ↓reduceIte]
      constructor
      · intro h
        split at h
        · cases h
        · split at h
          · rename_i e he
            -- `build` never answers "reserved"
            exfalso
            simp only [Except.error.injEq] at h
            subst h
            have hbad := bad_false_iff.mp (by simpa using hbad0)
            by_cases hp : C05.paramRecs recs = []
            · have hf : buildFuel recs = 0 + 1 := by unfold buildFuel; rw [hp]; rfl
              rw [hp, hf, build_nil] at he; cases he
            · have hgood : Good (C05.paramRecs recs) :=
                ⟨hp, nulFree_paramRecs hbad, Or.inr (termAll_paramRecs hbad)⟩
              have := build_total False (buildFuel recs) (C05.paramRecs recs) rootIndex St.new hgood
                (by unfold buildFuel; omega)
                (by
                  intro hk
                  exfalso
                  cases hx : C05.paramRecs recs with
                  | nil => exact hp hx
                  | cons x xs =>
                    have hm : x ∈ C05.paramRecs recs := by rw [hx]; exact List.mem_cons_self
                    exact (termAll_paramRecs hbad x hm).ne_nil (hk x hm))
                (fun d => d.elim)
              rcases this with ⟨st', h', _⟩ | h' | ⟨_, h'⟩ <;> rw [he] at h' <;> cases h'
          · cases h
      · intro h
        split at h <;> cases h
  refine ⟨hres, ?_⟩
  intro hdup
  cases hb : C05.build recs with
  | errDupName => rfl
  | errReserved => rw [hres.mpr hb] at hdup; cases hdup
  | ok t =>
    rcases routerBuild_total recs t hb with ⟨rt, h⟩ | h | h <;> rw [h] at hdup <;> cases hdup

/-! ## the C05 property theorems, at the double-array level -/

/-- `C05.lookup_spec` for the double-array router: its answer satisfies the very predicate
`specLookup` (sound, complete for non-empty texts, static first, literal < parameter < wildcard). -/
theorem lookup_spec_da (recs : List (Bytes × Nat)) (rt : Router) (t : C05.Table) (path : Bytes)
    (hda : routerBuild recs = .ok rt) (hb : C05.build recs = .ok t) :
    ∃ o, routerLookup rt path = ofC05 o ∧ C05.specLookup recs path o = true :=
  ⟨C05.lookup t path, router_refines recs rt t path hda hb, C05.lookup_spec recs t path hb⟩

/-- no index out of range in `Router.Lookup`'s name-filling loop, no nil node, no panic at all:
the double-array router returns `found` or `notFound` -/
theorem lookup_total_da (recs : List (Bytes × Nat)) (rt : Router) (t : C05.Table) (path : Bytes)
    (hda : routerBuild recs = .ok rt) (hb : C05.build recs = .ok t) :
    routerLookup rt path ≠ .panic ∧ routerLookup rt path ≠ .fuel := by
  rw [router_refines recs rt t path hda hb]
  cases C05.lookup t path <;> simp [ofC05]

/-- as many values as names -/
theorem lookup_arity_da (recs : List (Bytes × Nat)) (rt : Router) (t : C05.Table) (path : Bytes)
    (v : Nat) (names vals : List Bytes)
    (hda : routerBuild recs = .ok rt) (hb : C05.build recs = .ok t)
    (h : routerLookup rt path = .found v names vals) : vals.length = names.length := by
  rw [router_refines recs rt t path hda hb] at h
  cases hl : C05.lookup t path with
  | notFound => rw [hl] at h; cases h
  | found v' names' vals' =>
    rw [hl] at h
    simp only [ofC05, Out.found.injEq] at h
    obtain ⟨_, rfl, rfl⟩ := h
    exact C05.lookup_arity recs t path _ _ _ hb hl

/-- order independence (C05 T6) at the double-array level: for records with pairwise distinct keys,
two permutations that both `Build`s accept give routers that answer every path alike (although the
arrays themselves may differ). -/
theorem route_perm_da (recs recs' : List (Bytes × Nat)) (rt rt' : Router) (t t' : C05.Table)
    (path : Bytes) (hp : recs.Perm recs') (hnd : (recs.map (·.1)).Nodup)
    (hda : routerBuild recs = .ok rt) (hb : C05.build recs = .ok t)
    (hda' : routerBuild recs' = .ok rt') (hb' : C05.build recs' = .ok t') :
    routerLookup rt path = routerLookup rt' path := by
  rw [router_refines recs rt t path hda hb, router_refines recs' rt' t' path hda' hb']
  have := C05.route_perm recs recs' path hp hnd
  unfold C05.route at this
  rw [hb, hb'] at this
  simp only [Sum.inl.injEq] at this
  rw [this]

/-! ## the constants and one-line helpers of router.go the model transcribes (regenerated facts) -/

/-- The layout of `baseCheck` (22 bits of BASE above 2 flag bits above 8 bits of CHECK), `MaxSize`,
`rootIndex`, and the bodies of `nextIndex`, `isFree`, `IsEmpty`, `Base`, `Check`, `IsSingleParam`,
`IsWildcardParam`, `IsAnyParam` are what `Elem.encode`, `maxSize`, `rootIndex`, `nextIndex`, `isFree`,
`Elem.isEmpty`, … were written from: a change of any of them in router.go breaks this theorem. -/
theorem code_facts :
    Facts.dencoFlagsBits = 10 ∧ Facts.dencoCheckBits = 8 ∧ Facts.dencoMaxSize = maxSize ∧
    Facts.dencoRootIndex = rootIndex ∧ Facts.dencoParamTypeSingle = 256 ∧
    Facts.dencoParamTypeWildcard = 512 ∧ Facts.dencoParamTypeAny = 768 ∧
    -- base ^ int(c)
    Facts.dencoNextIndexExpr = [98, 97, 115, 101, 32, 94, 32, 105, 110, 116, 40, 99, 41] ∧
    -- i != rootIndex && da.bc[i].IsEmpty()
    Facts.dencoIsFreeExpr = [105, 32, 33, 61, 32, 114, 111, 111, 116, 73, 110, 100, 101, 120, 32, 38, 38, 32,
      100, 97, 46, 98, 99, 91, 105, 93, 46, 73, 115, 69, 109, 112, 116, 121, 40, 41] ∧
    -- bc&0xfffffcff == 0
    Facts.dencoIsEmptyExpr = [98, 99, 38, 48, 120, 102, 102, 102, 102, 102, 99, 102, 102, 32, 61, 61, 32, 48] ∧
    -- int(bc >> flagsBits)
    Facts.dencoBaseExpr = [105, 110, 116, 40, 98, 99, 32, 62, 62, 32, 102, 108, 97, 103, 115, 66, 105, 116, 115, 41] ∧
    -- byte(bc)
    Facts.dencoCheckExpr = [98, 121, 116, 101, 40, 98, 99, 41] ∧
    -- bc&paramTypeSingle == paramTypeSingle
    Facts.dencoIsSingleExpr = [98, 99, 38, 112, 97, 114, 97, 109, 84, 121, 112, 101, 83, 105, 110, 103, 108, 101,
      32, 61, 61, 32, 112, 97, 114, 97, 109, 84, 121, 112, 101, 83, 105, 110, 103, 108, 101] ∧
    -- bc&paramTypeWildcard == paramTypeWildcard
    Facts.dencoIsWildcardExpr = [98, 99, 38, 112, 97, 114, 97, 109, 84, 121, 112, 101, 87, 105, 108, 100, 99, 97,
      114, 100, 32, 61, 61, 32, 112, 97, 114, 97, 109, 84, 121, 112, 101, 87, 105, 108, 100, 99, 97, 114, 100] ∧
    -- bc&paramTypeAny != 0
    Facts.dencoIsAnyExpr = [98, 99, 38, 112, 97, 114, 97, 109, 84, 121, 112, 101, 65, 110, 121, 32, 33, 61, 32, 48] := by
  decide

/-! ## non-vacuity: a concrete table meets the hypotheses (evaluated by the kernel; larger tables
are evaluated by the compiled driver on every run: the tags `elems…` of the evidence) -/

/-- "/:a" (value 0) and the static "/b" (value 1) -/
def exRecs : List (Bytes × Nat) := [([47, 58, 97], 0), ([47, 98], 1)]

set_option maxRecDepth 100000 in
example : (match routerBuild exRecs with | .ok _ => true | .error _ => false) = true := by decide

set_option maxRecDepth 100000 in
example : (match C05.build exRecs with | .ok _ => true | _ => false) = true := by decide

set_option maxRecDepth 100000 in
example : (match routerBuild exRecs with
    | .ok rt =>
      routerLookup rt [47, 120] == .found 0 [[97]] [[120]] &&
      routerLookup rt [47, 98] == .found 1 [] [] &&
      routerLookup rt [47] == .notFound
    | _ => false) = true := by decide

end RtVerif.C05DA
