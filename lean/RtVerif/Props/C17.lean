import RtVerif.Lemmas.C17
/-
  C17 — "Probing a request for a body never loses, reorders or fabricates body bytes."

  Property theorems. `g : Scenario` is an arbitrary request (any body bytes, any terminal, any
  per-call schedule of the underlying stream, any ContentLength / Content-Length header, body
  scripted / http.NoBody / nil), `ops` an arbitrary history of `HasBody | Read k | Close | Drain k`.
  The only hypotheses used are the ones named in the Spec: `okRuns g.sched` (runs of zero-length
  reads shorter than bufio's limit of 100) and, for the value of the answer, `lenWF g`.
-/
namespace RtVerif.C17
open RtVerif Bytes _root_.RtVerif.Stream

/-! ## Ties to the code -/

/-- The hand model of `bufio.Reader` uses the constants of the installed Go. -/
theorem bufio_facts :
    bufSize = Facts.bufioDefaultBufSize ∧ maxEmpty = Facts.bufioMaxConsecutiveEmptyReads :=
  ⟨rfl, rfl⟩

/-- The model treats a nil `*peekingReader` as an empty body for `Read` and `Close` alike: both
methods carry the nil-receiver guard (F17a repair). -/
theorem nil_guards_present :
    Facts.peekingCloseNilGuard = true ∧ Facts.peekingReadNilGuard = true := ⟨rfl, rfl⟩

/-- A scenario meeting the hypotheses used below: a 5-byte body delivered as 2+1+2 bytes with
zero-length reads in between, error terminal delivered together with the last bytes, no length
declared. -/
def sample : Scenario :=
  { kind := .src, data := [1, 2, 3, 4, 5], term := .user 4, together := true,
    sched := [0, 2, 0, 0, 1], cerr := some (.user 3), cl := 0, hdr := [] }

/-! ## Main theorem: every history of the model is accepted by the Spec -/

/-- For all requests, stream behaviours and histories, the trace of the model satisfies the Spec
(bytes, terminal, answers, close accounting, reads after close). -/
theorem model_meets_spec (g : Scenario) (ops : List Op) :
    specTrace g ops (model g ops).1 (model g ops).2 = true := by
  unfold specTrace
  cases hok : okRuns g.sched with
  | false => rfl
  | true =>
    have h := run_sim (g := g) ops g.req (sim_init g hok)
    have hc := sim_closes _ h.2
    show (!true || ((specGo g { rest := g.sData } ops (runOps g.req ops).1).1 &&
      specCloses g (specGo g { rest := g.sData } ops (runOps g.req ops).1).2
        (reportedCloses g (runOps g.req ops).2))) = true
    rw [h.1, hc]; rfl

/-! ## The answer -/

/-- "The answer is true exactly when a positive length is declared or, no length being declared, at
least one byte can be read." -/
theorem answer_iff (g : Scenario) (hok : okRuns g.sched = true) (hwf : lenWF g = true) :
    (hasBody g.req).1 = true ↔
      (∃ n, declared g = some n ∧ 0 < n) ∨ (declared g = none ∧ g.sData ≠ []) := by
  have h := (step_has g.req (sim_init g hok)).1
  have h : (!lenWF g || (hasBody g.req).1 == specAnswer g { rest := g.sData }) = true := h
  rw [hwf] at h
  simp only [Bool.not_true, Bool.false_or, beq_iff_eq] at h
  rw [h]
  unfold specAnswer
  cases hd : declared g with
  | none => simp
  | some n => simp

example : ∃ g, okRuns g.sched = true ∧ lenWF g = true ∧ g.sData ≠ [] ∧ declared g = none :=
  ⟨{ kind := .src, data := [1, 2, 3], term := .user 4, together := true, sched := [0, 2, 0, 0, 1],
     cerr := none, cl := -1, hdr := [] }, by decide⟩
example : ∃ g, okRuns g.sched = true ∧ lenWF g = true ∧ declared g = some 12 :=
  ⟨{ kind := .src, data := [1, 2, 3], term := .eof, together := false, sched := [],
     cerr := none, cl := 12, hdr := [49, 50] }, by decide⟩

/-- The code's own reading of "declared" coincides with the text's on well-formed requests: what
the two length checks decide. -/
theorem declared_characterisation (g : Scenario) (hwf : lenWF g = true) :
    (0 < g.cl → ∃ n, declared g = some n ∧ 0 < n) ∧
    (¬ 0 < g.cl → g.hdr.isEmpty = false → ∃ n, declared g = some n ∧ ¬ 0 < n) ∧
    (¬ 0 < g.cl → g.hdr.isEmpty = true → declared g = none) :=
  declared_of_fast hwf

/-- "Asking again gives the same answer": at any point of any history, any number of consecutive
probes all return the same value (no assumption on the length fields). -/
theorem probes_agree (g : Scenario) (hok : okRuns g.sched = true) (ops : List Op) (m : Nat) :
    ∃ a, (runOps (runOps g.req ops).2 (List.replicate m .hasBody)).1 = List.replicate m (.has a) := by
  have h := (run_sim (g := g) ops g.req (sim_init g hok)).2
  generalize (specGo g { rest := g.sData } ops (runOps g.req ops).1).2 = t at h
  generalize (runOps g.req ops).2 = r at h
  refine ⟨modelAnswer g t, ?_⟩
  induction m generalizing r with
  | zero => rfl
  | succ m ih =>
    rw [List.replicate_succ, runOps_cons, List.replicate_succ]
    have hv := has_value r h
    have hs := (step_has r h).2
    have : (specStep g t .hasBody (step r .hasBody).1).2 = t := rfl
    rw [this] at hs
    rw [ih _ hs]
    show Out.has (hasBody r).1 :: _ = _
    rw [hv]

example : okRuns sample.sched = true := by decide

/-! ## Integrity of the byte stream -/

/-- "Afterwards the request body yields exactly the original byte sequence followed by the original
terminal condition, for any chunking": after ANY history of probes and reads (any number of
probes, any read-buffer sizes, any schedule of the underlying stream), reading until an error
returns the remaining bytes and then the original terminal — all the bytes handed out, in order,
are exactly the original bytes. -/
theorem integrity (g : Scenario) (hok : okRuns g.sched = true) (hsrc : g.kind = .src)
    (ops : List Op) (hnc : ∀ op ∈ ops, op ≠ .close) (k : Nat) (hk : 0 < k) :
    ∃ d, (model g (ops ++ [.drain k])).1 = (model g ops).1 ++ [.dr d (some g.term) false] ∧
      delivered (model g ops).1 ++ d = g.data := by
  have h := run_sim (g := g) ops g.req (sim_init g hok)
  have hd := specGo_delivered ops (runOps g.req ops).1 { rest := g.sData } hnc rfl h.1
  have hdata : g.sData = g.data := by simp [Scenario.sData, hsrc]
  have hterm : g.sTerm = g.term := by simp [Scenario.sTerm, hsrc]
  show ∃ d, (runOps g.req (ops ++ [.drain k])).1 = (runOps g.req ops).1 ++ [.dr d (some g.term) false] ∧
    delivered (runOps g.req ops).1 ++ d = g.data
  rw [runOps_append]
  generalize (specGo g { rest := g.sData } ops (runOps g.req ops).1).2 = t at h hd
  generalize (runOps g.req ops).2 = r at h
  obtain ⟨_, hs⟩ := h
  obtain ⟨hcl, hhdr, hlim, hb⟩ := hs
  cases hbody : r.body with
  | none => rw [hbody] at hb; rw [hsrc] at hb; cases hb.1
  | some b =>
    rw [hbody] at hb
    rcases hb.2 with ho | hc
    · have hmu : (towerSem b.depth).mu b.st < r.limit := by have := ho.mu; omega
      have hdr := (tower_drain_open b.depth b.st k r.limit ho.inv hk hmu).1
      refine ⟨t.rest, ?_, by rw [hd.2, hdata]⟩
      show (runOps g.req ops).1 ++ [(step r (.drain k)).1] = _
      congr 1
      simp only [step, hbody, drainOp, hdr, ho.content, ho.trm, hterm]
    · have := hc.tclosed; rw [hd.1] at this; cases this

example : ∃ (g : Scenario) (ops : List Op), okRuns g.sched = true ∧ g.kind = .src ∧
    (∀ op ∈ ops, op ≠ .close) ∧ ops = [.hasBody, .read 2, .hasBody, .read 0, .hasBody] :=
  ⟨{ kind := .src, data := [1, 2, 3, 4, 5], term := .user 4, together := true, sched := [0, 2, 0, 0, 1],
     cerr := none, cl := 0, hdr := [] }, _, by decide, rfl, by decide, rfl⟩

/-- The special case of the statement as worded: probe any number of times, then drain. -/
theorem probes_then_drain (g : Scenario) (hok : okRuns g.sched = true) (hsrc : g.kind = .src)
    (m k : Nat) (hk : 0 < k) :
    ∃ a, (model g (List.replicate m .hasBody ++ [.drain k])).1 =
      List.replicate m (.has a) ++ [.dr g.data (some g.term) false] := by
  obtain ⟨a, ha⟩ := probes_agree g hok [] m
  have ha : (model g (List.replicate m .hasBody)).1 = List.replicate m (.has a) := ha
  obtain ⟨d, h1, h2⟩ := integrity g hok hsrc (List.replicate m .hasBody)
    (by intro op hop; rw [List.mem_replicate] at hop; rw [hop.2]; intro h; cases h) k hk
  refine ⟨a, ?_⟩
  rw [ha, delivered_replicate_has, List.nil_append] at h2
  rw [h1, ha, h2]

example : okRuns sample.sched = true ∧ sample.kind = .src ∧ 0 < 3 := by decide

/-! ## Close -/

/-- "Closing the body closes the underlying stream exactly once": once a probe has wrapped the body
(no length declared), however many `Close` calls a history contains, and whatever else it does, the
underlying stream is closed once if there is a `Close`, and not at all otherwise. -/
theorem close_once (g : Scenario) (hok : okRuns g.sched = true) (hsrc : g.kind = .src)
    (hcl : ¬ 0 < g.cl) (hh : g.hdr = []) (ops : List Op) :
    (model g (.hasBody :: ops)).2 = if ops.contains .close then 1 else 0 := by
  have h := run_sim (g := g) (.hasBody :: ops) g.req (sim_init g hok)
  have hc := sim_closes _ h.2
  show reportedCloses g (runOps g.req (.hasBody :: ops)).2 = _
  simp only [specCloses, hsrc, bne_self_eq_false, Bool.false_or, beq_iff_eq] at hc
  rw [hc]
  rw [runOps_cons, specGo_cons]
  -- after the first probe the body is a wrapper of depth 1
  have hb : ∃ b, (step g.req .hasBody).2.body = some b ∧ 1 ≤ b.depth := by
    show ∃ b, (hasBody g.req).2.body = some b ∧ _
    unfold hasBody
    have h1 : ¬ 0 < g.req.cl := hcl
    have h2 : (!g.req.hdr.isEmpty) = false := by show (!g.hdr.isEmpty) = false; rw [hh]; rfl
    simp only [h1, if_false, h2, Bool.false_eq_true]
    simp only [Scenario.req, hsrc]
    exact ⟨_, rfl, Nat.le_refl _⟩
  obtain ⟨b, hb, hd⟩ := hb
  have hw := run_wrapped (g := g) ops (step g.req .hasBody).2
    (specStep g { rest := g.sData } .hasBody (step g.req .hasBody).1).2 b hb hd
  show (specGo g _ ops _).2.directs + (if (specGo g _ ops _).2.lib = true then 1 else 0) = _
  rw [hw.1, hw.2]
  show 0 + (if (false || ops.contains .close) = true then 1 else 0) = _
  simp

example : ∃ g : Scenario, okRuns g.sched = true ∧ g.kind = .src ∧ ¬ 0 < g.cl ∧ g.hdr = [] :=
  ⟨{ kind := .src, data := [7, 8], term := .eof, together := false, sched := [1, 0, 1],
     cerr := some (.user 3), cl := -1, hdr := [] }, by decide⟩

/-- "Reads after close fail rather than returning stale data": after a `Close` anywhere in a
history, and whatever happens in between (further probes included), a `Read` returns no data, and
an error when its buffer is not empty. -/
theorem read_after_close (g : Scenario) (hok : okRuns g.sched = true) (hsrc : g.kind = .src)
    (ops1 ops2 : List Op) (k : Nat) :
    ∃ e, (model g (ops1 ++ .close :: (ops2 ++ [.read k]))).1 =
        (model g (ops1 ++ .close :: ops2)).1 ++ [.rd [] e] ∧ (0 < k → e ≠ none) := by
  have hassoc : ops1 ++ Op.close :: (ops2 ++ [.read k]) = (ops1 ++ Op.close :: ops2) ++ [.read k] := by simp
  rw [hassoc]
  show ∃ e, (runOps g.req ((ops1 ++ Op.close :: ops2) ++ [.read k])).1 =
    (runOps g.req (ops1 ++ Op.close :: ops2)).1 ++ [.rd [] e] ∧ _
  rw [runOps_append]
  -- the tracker is closed at the end of `ops1 ++ close :: ops2`
  have h := run_sim (g := g) (ops1 ++ Op.close :: ops2) g.req (sim_init g hok)
  have hclosed : (specGo g { rest := g.sData } (ops1 ++ Op.close :: ops2)
      (runOps g.req (ops1 ++ Op.close :: ops2)).1).2.closed = true := by
    rw [runOps_append, specGo_append _ _ _ _ _ (runOps_length _ _).symm, runOps_cons, specGo_cons]
    apply specGo_closed
    have h1 := (run_sim (g := g) ops1 g.req (sim_init g hok)).2
    generalize (specGo g { rest := g.sData } ops1 (runOps g.req ops1).1).2 = t1 at h1 ⊢
    generalize (runOps g.req ops1).2 = r1 at h1 ⊢
    obtain ⟨_, _, _, hb⟩ := h1
    cases hbody : r1.body with
    | none => rw [hbody] at hb; rw [hsrc] at hb; cases hb.1
    | some b => simp [step, hbody, closeOp, specStep]
  generalize (specGo g { rest := g.sData } (ops1 ++ Op.close :: ops2)
    (runOps g.req (ops1 ++ Op.close :: ops2)).1).2 = t at h hclosed
  generalize (runOps g.req (ops1 ++ Op.close :: ops2)).2 = r at h
  obtain ⟨_, _, _, _, hb⟩ := h
  cases hbody : r.body with
  | none => rw [hbody] at hb; rw [hsrc] at hb; cases hb.1
  | some b =>
    rw [hbody] at hb
    rcases hb.2 with ho | hc
    · have := ho.tclosed; rw [hclosed] at this; cases this
    · obtain ⟨h1, h2, _⟩ := tower_read_dead b.depth b.st k hc.dead
      refine ⟨((tower b.depth).read b.st k).1.2, ?_, h2⟩
      show _ ++ [(step r (.read k)).1] = _
      simp only [step, hbody, readOp, h1]

example : okRuns sample.sched = true ∧ sample.kind = .src := by decide

/-! ## F17a (repaired): a request without body -/

/-- `HasBody` on a nil body stores a typed-nil `*peekingReader`; closing, reading, closing again and
probing again all work on it (before the repair the first `Close` dereferenced nil). -/
theorem nil_body_probe_then_close :
    model { kind := .nilpr, data := [], term := .eof, together := false, sched := [], cerr := none,
            cl := 0, hdr := [] } [.hasBody, .close, .read 5, .close, .hasBody, .close, .close] =
      ([.has false, .cl none false, .rd [] (some .eof), .cl none false, .has false,
        .cl none false, .cl (some .already) false], 0) := by
  decide

end RtVerif.C17
