import RtVerif.Lemmas.C17
/-
  C17 — "Probing a request for a body never loses, reorders or fabricates body bytes."

  Property theorems. `g : Scenario` is an arbitrary request (any body bytes, any terminal, any
  per-call schedule of the underlying stream, any ContentLength / Content-Length header, body
  scripted / http.NoBody / nil), `ops` an arbitrary history of `HasBody | Read k | Close | Drain k`.
  The only hypotheses used are the ones named in the Spec: `okRuns g.sched` (runs of zero-length
  reads shorter than bufio's limit of 100) and, for the value of the answer, `lenWF g`.
-/
namespace RtVerif.C17
open RtVerif Bytes _root_.RtVerif.Stream

/-! ## Ties to the code -/

/-- The hand model of `bufio.Reader` uses the constants of the installed Go. -/
theorem bufio_facts :
    bufSize = Facts.bufioDefaultBufSize ∧ maxEmpty = Facts.bufioMaxConsecutiveEmptyReads :=
  ⟨rfl, rfl⟩

/-- The model treats a nil `*peekingReader` as an empty body for `Read` and `Close` alike: both
methods carry the nil-receiver guard (F17a repair). -/
theorem nil_guards_present :
    Facts.peekingCloseNilGuard = true ∧ Facts.peekingReadNilGuard = true := ⟨rfl, rfl⟩

/-- A scenario meeting the hypotheses used below: a 5-byte body delivered as 2+1+2 bytes with
zero-length reads in between, error terminal delivered together with the last bytes, no length
declared. -/
def sample : Scenario :=
  { kind := .src, data := [1, 2, 3, 4, 5], term := .user 4, together := true,
    sched := [0, 2, 0, 0, 1], cerr := some (.user 3), cl := 0, hdr := [] }

/-! ## Main theorem: every history of the model is accepted by the Spec -/

/-- For all requests, stream behaviours and histories, the trace of the model satisfies the Spec
(bytes, terminal, answers, no direct close once a probe took the body over, close accounting, reads
after close, no read reaching the closed underlying stream). -/
theorem model_meets_spec (g : Scenario) (ops : List Op) :
    specTrace g ops (model g ops).1 (model g ops).2.1 (model g ops).2.2 = true := by
  unfold specTrace
  cases hok : okRuns g.sched with
  | false => rfl
  | true =>
    have h := run_init g hok ops
    have hc := sim_closes _ h.2
    have hl := sim_late _ h.2
    show (!true || ((specGo g { rest := g.sData } ops (runOps g.req ops).1).1 &&
      specCloses g (specGo g { rest := g.sData } ops (runOps g.req ops).1).2
        (reportedCloses g (runOps g.req ops).2) &&
      specLate g (specGo g { rest := g.sData } ops (runOps g.req ops).1).2
        (reportedLate g (runOps g.req ops).2))) = true
    rw [h.1, hc, hl]; rfl

/-! ## The answer -/

/-- "The answer is true exactly when a positive length is declared or, no length being declared, at
least one byte can be read." -/
theorem answer_iff (g : Scenario) (hok : okRuns g.sched = true) (hwf : lenWF g = true) :
    (hasBody g.req).1 = true ↔
      (∃ n, declared g = some n ∧ 0 < n) ∨ (declared g = none ∧ g.sData ≠ []) := by
  have h := (step_has g.req (sim_init g hok)).1
  have h : (!lenWF g || (hasBody g.req).1 == specAnswer g { rest := g.sData }) = true := h
  rw [hwf] at h
  simp only [Bool.not_true, Bool.false_or, beq_iff_eq] at h
  rw [h]
  unfold specAnswer
  cases hd : declared g with
  | none => simp
  | some n => simp

example : ∃ g, okRuns g.sched = true ∧ lenWF g = true ∧ g.sData ≠ [] ∧ declared g = none :=
  ⟨{ kind := .src, data := [1, 2, 3], term := .user 4, together := true, sched := [0, 2, 0, 0, 1],
     cerr := none, cl := -1, hdr := [] }, by decide⟩
example : ∃ g, okRuns g.sched = true ∧ lenWF g = true ∧ declared g = some 12 :=
  ⟨{ kind := .src, data := [1, 2, 3], term := .eof, together := false, sched := [],
     cerr := none, cl := 12, hdr := [49, 50] }, by decide⟩

/-- The code's own reading of "declared" coincides with the text's on well-formed requests: what
the two length checks decide. -/
theorem declared_characterisation (g : Scenario) (hwf : lenWF g = true) :
    (0 < g.cl → ∃ n, declared g = some n ∧ 0 < n) ∧
    (¬ 0 < g.cl → g.hdr.isEmpty = false → ∃ n, declared g = some n ∧ ¬ 0 < n) ∧
    (¬ 0 < g.cl → g.hdr.isEmpty = true → declared g = none) :=
  declared_of_fast hwf

/-- "Asking again gives the same answer": at any point of any history, any number of consecutive
probes all return the same value (no assumption on the length fields). -/
theorem probes_agree (g : Scenario) (hok : okRuns g.sched = true) (ops : List Op) (m : Nat) :
    ∃ a, (runOps (runOps g.req ops).2 (List.replicate m .hasBody)).1 = List.replicate m (.has a) := by
  have h := (run_init g hok ops).2
  generalize (specGo g { rest := g.sData } ops (runOps g.req ops).1).2 = t at h
  generalize (runOps g.req ops).2 = r at h
  refine ⟨modelAnswer g t, ?_⟩
  -- a probe changes nothing in the tracker that the answer depends on
  suffices H : ∀ (t' : Track) (r : Req), Sim g t' r → modelAnswer g t' = modelAnswer g t →
      (runOps r (List.replicate m .hasBody)).1 = List.replicate m (.has (modelAnswer g t)) from
    H t r h rfl
  induction m with
  | zero => intro _ _ _ _; rfl
  | succ m ih =>
    intro t' r h ha
    rw [List.replicate_succ, runOps_cons, List.replicate_succ]
    have hv := has_value r h
    have hs := (step_has r h).2
    rw [ih _ _ hs ha]
    show Out.has (hasBody r).1 :: _ = _
    rw [hv, ha]

example : okRuns sample.sched = true := by decide

/-! ## Integrity of the byte stream -/

/-- "Afterwards the request body yields exactly the original byte sequence followed by the original
terminal condition, for any chunking": after ANY history of probes and reads (any number of
probes, any read-buffer sizes, any schedule of the underlying stream), reading until an error
returns the remaining bytes and then the original terminal — all the bytes handed out, in order,
are exactly the original bytes. -/
theorem integrity (g : Scenario) (hok : okRuns g.sched = true) (hsrc : g.kind = .src)
    (ops : List Op) (hnc : ∀ op ∈ ops, op ≠ .close) (k : Nat) (hk : 0 < k) :
    ∃ d, (model g (ops ++ [.drain k])).1 = (model g ops).1 ++ [.dr d (some g.term) false] ∧
      delivered (model g ops).1 ++ d = g.data := by
  have h := run_init g hok ops
  have hd := specGo_delivered ops (runOps g.req ops).1 { rest := g.sData } hnc rfl h.1
  have hdata : g.sData = g.data := by simp [Scenario.sData, hsrc]
  have hterm : g.sTerm = g.term := by simp [Scenario.sTerm, hsrc]
  show ∃ d, (runOps g.req (ops ++ [.drain k])).1 = (runOps g.req ops).1 ++ [.dr d (some g.term) false] ∧
    delivered (runOps g.req ops).1 ++ d = g.data
  rw [runOps_append]
  generalize (specGo g { rest := g.sData } ops (runOps g.req ops).1).2 = t at h hd
  generalize (runOps g.req ops).2 = r at h
  obtain ⟨_, hs⟩ := h
  obtain ⟨hcl, hhdr, hlim, hb⟩ := hs
  cases hbody : r.body with
  | none => rw [hbody] at hb; rw [hsrc] at hb; cases hb.1
  | some b =>
    rw [hbody] at hb
    rcases hb.2 with ho | hc
    · have hmu : (towerSem b.depth).mu b.st < r.limit := by have := ho.mu; omega
      have hdr := (tower_drain_open b.depth b.st k r.limit ho.inv hk hmu).1
      refine ⟨t.rest, ?_, by rw [hd.2, hdata]⟩
      show (runOps g.req ops).1 ++ [(step r (.drain k)).1] = _
      congr 1
      simp only [step, hbody, drainOp, hdr, ho.content, ho.trm, hterm]
    · have := hc.tclosed; rw [hd.1] at this; cases this

example : ∃ (g : Scenario) (ops : List Op), okRuns g.sched = true ∧ g.kind = .src ∧
    (∀ op ∈ ops, op ≠ .close) ∧ ops = [.hasBody, .read 2, .hasBody, .read 0, .hasBody] :=
  ⟨{ kind := .src, data := [1, 2, 3, 4, 5], term := .user 4, together := true, sched := [0, 2, 0, 0, 1],
     cerr := none, cl := 0, hdr := [] }, _, by decide, rfl, by decide, rfl⟩

/-- The special case of the statement as worded: probe any number of times, then drain. -/
theorem probes_then_drain (g : Scenario) (hok : okRuns g.sched = true) (hsrc : g.kind = .src)
    (m k : Nat) (hk : 0 < k) :
    ∃ a, (model g (List.replicate m .hasBody ++ [.drain k])).1 =
      List.replicate m (.has a) ++ [.dr g.data (some g.term) false] := by
  obtain ⟨a, ha⟩ := probes_agree g hok [] m
  have ha : (model g (List.replicate m .hasBody)).1 = List.replicate m (.has a) := ha
  obtain ⟨d, h1, h2⟩ := integrity g hok hsrc (List.replicate m .hasBody)
    (by intro op hop; rw [List.mem_replicate] at hop; rw [hop.2]; intro h; cases h) k hk
  refine ⟨a, ?_⟩
  rw [ha, delivered_replicate_has, List.nil_append] at h2
  rw [h1, ha, h2]

example : okRuns sample.sched = true ∧ sample.kind = .src ∧ 0 < 3 := by decide

/-! ## Close -/

/-- "Closing the body closes the underlying stream exactly once": once a probe has wrapped the body
(no length declared), however many `Close` calls a history contains, and whatever else it does, the
underlying stream is closed once if there is a `Close`, and not at all otherwise. -/
theorem close_once (g : Scenario) (hok : okRuns g.sched = true) (hsrc : g.kind = .src)
    (hcl : ¬ 0 < g.cl) (hh : g.hdr = []) (ops : List Op) :
    (model g (.hasBody :: ops)).2.1 = if ops.contains .close then 1 else 0 := by
  have h := run_init g hok (.hasBody :: ops)
  have hc := sim_closes _ h.2
  show reportedCloses g (runOps g.req (.hasBody :: ops)).2 = _
  simp only [specCloses, hsrc, bne_self_eq_false, Bool.false_or, beq_iff_eq] at hc
  rw [hc]
  rw [runOps_cons, specGo_cons]
  -- after the first probe the body is a wrapper of depth 1
  have hb : ∃ b, (step g.req .hasBody).2.body = some b ∧ 1 ≤ b.depth := by
    show ∃ b, (hasBody g.req).2.body = some b ∧ _
    unfold hasBody
    have h1 : ¬ 0 < g.req.cl := hcl
    have h2 : (!g.req.hdr.isEmpty) = false := by show (!g.hdr.isEmpty) = false; rw [hh]; rfl
    simp only [h1, if_false, h2, Bool.false_eq_true]
    simp only [Scenario.req, hsrc]
    exact ⟨_, rfl, Nat.le_refl _⟩
  obtain ⟨b, hb, hd⟩ := hb
  have hw := run_wrapped (g := g) ops (step g.req .hasBody).2
    (specStep g { rest := g.sData } .hasBody (step g.req .hasBody).1).2 b hb hd
  show (specGo g _ ops _).2.directs + (if (specGo g _ ops _).2.lib = true then 1 else 0) = _
  rw [hw.1, hw.2]
  show 0 + (if (false || ops.contains .close) = true then 1 else 0) = _
  simp

example : ∃ g : Scenario, okRuns g.sched = true ∧ g.kind = .src ∧ ¬ 0 < g.cl ∧ g.hdr = [] :=
  ⟨{ kind := .src, data := [7, 8], term := .eof, together := false, sched := [1, 0, 1],
     cerr := some (.user 3), cl := -1, hdr := [] }, by decide⟩

/-! ## The body after asking is the library's

Every history that contains a probe is `ops1 ++ HasBody :: ops2` with `ops1` free of probes; what
happens in `ops1` is between the caller and its own stream. -/

/-- On requests as net/http produces them, "no `Content-Length` header and `ContentLength ≤ 0`" is
the text's "no length being declared". -/
theorem undeclared_iff (g : Scenario) (hwf : lenWF g = true) :
    undeclared g = true ↔ declared g = none := by
  obtain ⟨d1, d2, d3⟩ := declared_of_fast hwf
  unfold undeclared
  constructor
  · intro h
    simp only [Bool.and_eq_true, Bool.not_eq_true', decide_eq_false_iff_not] at h
    exact d3 h.2 h.1
  · intro h
    by_cases hc : 0 < g.cl
    · obtain ⟨n, hn, _⟩ := d1 hc; rw [hn] at h; cases h
    · cases hh : g.hdr.isEmpty with
      | true => simp [hc]
      | false => obtain ⟨n, hn, _⟩ := d2 hc hh; rw [hn] at h; cases h

/-- "Closing the body closes the underlying stream exactly once", for the body as it is after
asking: whatever the caller did to its own stream before the first probe (`ops1`), all the `Close`
calls that follow the probe — with any reads, drains and further probes in between — close the
underlying stream once if there is one, and not at all otherwise. -/
theorem after_probe_closes_once (g : Scenario) (hok : okRuns g.sched = true) (hsrc : g.kind = .src)
    (hu : undeclared g = true) (ops1 ops2 : List Op) (h1 : ∀ op ∈ ops1, op ≠ .hasBody) :
    (model g (ops1 ++ .hasBody :: ops2)).2.1 =
      ops1.count .close + (if ops2.contains .close then 1 else 0) := by
  have h := run_init g hok (ops1 ++ .hasBody :: ops2)
  have hc := sim_closes _ h.2
  simp only [specCloses, hsrc, bne_self_eq_false, Bool.false_or, beq_iff_eq] at hc
  show reportedCloses g (runOps g.req (ops1 ++ .hasBody :: ops2)).2 = _
  rw [hc, runOps_append, specGo_append _ _ _ _ _ (runOps_length _ _).symm, runOps_cons, specGo_cons]
  obtain ⟨b0, hb0, hd0, hk0⟩ := req_body_src hsrc
  obtain ⟨_, hdir, hlib⟩ := run_unwrapped (g := g) ops1 g.req { rest := g.sData } b0 hb0 hd0 hk0 h1
  obtain ⟨b2, hb2, hd2⟩ := probe_wraps _ (run_init g hok ops1).2 (takesOver_of hsrc hu)
  have hw := run_wrapped (g := g) ops2 _
    (specStep g (specGo g { rest := g.sData } ops1 (runOps g.req ops1).1).2 .hasBody
      (step (runOps g.req ops1).2 .hasBody).1).2 b2 hb2 hd2
  have ha := specStep_acct_other (g := g) (specGo g { rest := g.sData } ops1 (runOps g.req ops1).1).2
    .hasBody (step (runOps g.req ops1).2 .hasBody).1 (by intro h; cases h)
  show (specGo g _ ops2 _).2.directs + (if (specGo g _ ops2 _).2.lib = true then 1 else 0) = _
  rw [hw.1, hw.2, ha.1, ha.2, hdir, hlib]
  simp

example : ∃ (g : Scenario) (ops1 : List Op), okRuns g.sched = true ∧ g.kind = .src ∧
    undeclared g = true ∧ (∀ op ∈ ops1, op ≠ .hasBody) ∧ ops1 = [.read 1, .close, .read 2] :=
  ⟨{ kind := .src, data := [], term := .eof, together := false, sched := [0, 0], cerr := none,
     cl := -1, hdr := [] }, _, by decide, rfl, by decide, by decide, rfl⟩

/-- The instance the text is about — an empty body, probed, closed twice, read: one close of the
underlying stream, and the read is answered without asking the stream. -/
theorem empty_body_probe_close_close_read :
    model { kind := .src, data := [], term := .eof, together := false, sched := [], cerr := none,
            cl := 0, hdr := [] } [.hasBody, .close, .close, .read 8] =
      ([.has false, .cl none false, .cl (some .already) false, .rd [] (some .ueof)], 1, 0) := by
  decide

/-- The same for a probe at ANY position of a history (earlier probes and closes included): the
`Close` calls that follow it close the underlying stream at most once more, and not at all when
there is none. -/
theorem after_any_probe_at_most_once (g : Scenario) (hok : okRuns g.sched = true)
    (hsrc : g.kind = .src) (hu : undeclared g = true) (ops1 ops2 : List Op) :
    (model g (ops1 ++ [.hasBody])).2.1 ≤ (model g (ops1 ++ .hasBody :: ops2)).2.1 ∧
    (model g (ops1 ++ .hasBody :: ops2)).2.1 ≤ (model g (ops1 ++ [.hasBody])).2.1 + 1 ∧
    (ops2.contains .close = false →
      (model g (ops1 ++ .hasBody :: ops2)).2.1 = (model g (ops1 ++ [.hasBody])).2.1) := by
  have hassoc : ops1 ++ Op.hasBody :: ops2 = (ops1 ++ [.hasBody]) ++ ops2 := by simp
  have hm := run_init g hok (ops1 ++ [.hasBody])
  have hf := run_init g hok ((ops1 ++ [.hasBody]) ++ ops2)
  have cm := sim_closes _ hm.2
  have cf := sim_closes _ hf.2
  simp only [specCloses, hsrc, bne_self_eq_false, Bool.false_or, beq_iff_eq] at cm cf
  rw [hassoc]
  show reportedCloses g (runOps g.req (ops1 ++ [.hasBody])).2 ≤
      reportedCloses g (runOps g.req ((ops1 ++ [.hasBody]) ++ ops2)).2 ∧
    reportedCloses g (runOps g.req ((ops1 ++ [.hasBody]) ++ ops2)).2 ≤
      reportedCloses g (runOps g.req (ops1 ++ [.hasBody])).2 + 1 ∧
    (ops2.contains .close = false → reportedCloses g (runOps g.req ((ops1 ++ [.hasBody]) ++ ops2)).2 =
      reportedCloses g (runOps g.req (ops1 ++ [.hasBody])).2)
  rw [cm, cf, runOps_append g.req (ops1 ++ [Op.hasBody]) ops2,
    specGo_append _ _ _ _ _ (runOps_length _ _).symm]
  -- the body after the probe is a peeking layer
  have hwr : ∃ b, (runOps g.req (ops1 ++ [.hasBody])).2.body = some b ∧ 1 ≤ b.depth := by
    rw [runOps_append]
    exact probe_wraps _ (run_init g hok ops1).2 (takesOver_of hsrc hu)
  obtain ⟨b, hb, hd⟩ := hwr
  have hw := run_wrapped (g := g) ops2 (runOps g.req (ops1 ++ [.hasBody])).2
    (specGo g { rest := g.sData } (ops1 ++ [.hasBody]) (runOps g.req (ops1 ++ [.hasBody])).1).2 b hb hd
  show _ ≤ (specGo g _ ops2 _).2.directs + (if (specGo g _ ops2 _).2.lib = true then 1 else 0) ∧
    (specGo g _ ops2 _).2.directs + (if (specGo g _ ops2 _).2.lib = true then 1 else 0) ≤ _ ∧
    (_ → (specGo g _ ops2 _).2.directs + (if (specGo g _ ops2 _).2.lib = true then 1 else 0) = _)
  rw [hw.1, hw.2]
  generalize (specGo g { rest := g.sData } (ops1 ++ [.hasBody]) (runOps g.req (ops1 ++ [.hasBody])).1).2 = t
  cases t.lib <;> cases ops2.contains .close <;> simp

example : okRuns sample.sched = true ∧ sample.kind = .src ∧ undeclared sample = true := by decide

/-- After a probe took the body over, no `Close` of the history lands directly on the caller's
stream: every one goes through the library's body (any request kind with a body, any position of
the probe). -/
theorem after_probe_no_direct_close (g : Scenario) (hok : okRuns g.sched = true)
    (hu : takesOver g = true) (ops1 ops2 : List Op) :
    ∃ outs2, (model g (ops1 ++ .hasBody :: ops2)).1 = (model g (ops1 ++ [.hasBody])).1 ++ outs2 ∧
      outs2.length = ops2.length ∧ ∀ e, Out.cl e true ∉ outs2 := by
  have hassoc : ops1 ++ Op.hasBody :: ops2 = (ops1 ++ [.hasBody]) ++ ops2 := by simp
  rw [hassoc]
  show ∃ outs2, (runOps g.req ((ops1 ++ [.hasBody]) ++ ops2)).1 =
    (runOps g.req (ops1 ++ [.hasBody])).1 ++ outs2 ∧ _
  rw [runOps_append g.req (ops1 ++ [Op.hasBody]) ops2]
  have hwr : ∃ b, (runOps g.req (ops1 ++ [.hasBody])).2.body = some b ∧ 1 ≤ b.depth := by
    rw [runOps_append]
    exact probe_wraps _ (run_init g hok ops1).2 hu
  obtain ⟨b, hb, hd⟩ := hwr
  exact ⟨_, rfl, runOps_length _ _, run_wrapped_outs ops2 _ b hb hd⟩

example : ∃ g : Scenario, okRuns g.sched = true ∧ takesOver g = true ∧ g.kind = .nobody :=
  ⟨{ kind := .nobody, data := [], term := .eof, together := false, sched := [], cerr := none,
     cl := 0, hdr := [] }, by decide⟩

/-- "Reads after close … rather than returning stale data", at the underlying stream: when every
`Close` of a history comes after a probe, no `Read` ever reaches the underlying stream after it
was closed — the library's body answers them itself. -/
theorem no_read_reaches_closed_stream (g : Scenario) (hok : okRuns g.sched = true)
    (hsrc : g.kind = .src) (hu : undeclared g = true) (ops1 ops2 : List Op)
    (h1 : ∀ op ∈ ops1, op ≠ .close) :
    (model g (ops1 ++ .hasBody :: ops2)).2.2 = 0 := by
  have h := run_init g hok (ops1 ++ .hasBody :: ops2)
  have hl := sim_late _ h.2
  simp only [specLate, hsrc, bne_self_eq_false, Bool.false_or, Bool.or_eq_true, bne_iff_ne, ne_eq,
    beq_iff_eq] at hl
  show reportedLate g (runOps g.req (ops1 ++ .hasBody :: ops2)).2 = 0
  rcases hl with hl | hl
  · exfalso; apply hl
    rw [runOps_append, specGo_append _ _ _ _ _ (runOps_length _ _).symm, runOps_cons, specGo_cons]
    obtain ⟨b2, hb2, hd2⟩ := probe_wraps _ (run_init g hok ops1).2 (takesOver_of hsrc hu)
    have hw := run_wrapped (g := g) ops2 _
      (specStep g (specGo g { rest := g.sData } ops1 (runOps g.req ops1).1).2 .hasBody
        (step (runOps g.req ops1).2 .hasBody).1).2 b2 hb2 hd2
    have ha := specStep_acct_other (g := g) (specGo g { rest := g.sData } ops1 (runOps g.req ops1).1).2
      .hasBody (step (runOps g.req ops1).2 .hasBody).1 (by intro h; cases h)
    have hn := specGo_noclose (g := g) ops1 (runOps g.req ops1).1 { rest := g.sData } h1
    show (specGo g _ ops2 _).2.directs = 0
    rw [hw.1, ha.1, hn.1]
  · exact hl

example : ∃ (g : Scenario) (ops1 : List Op), okRuns g.sched = true ∧ g.kind = .src ∧
    undeclared g = true ∧ (∀ op ∈ ops1, op ≠ .close) ∧ ops1 = [.read 1, .hasBody, .drain 2] :=
  ⟨{ kind := .src, data := [9], term := .user 2, together := true, sched := [0], cerr := some (.user 1),
     cl := 0, hdr := [] }, _, by decide, rfl, by decide, by decide, rfl⟩

/-! ## The Spec is not satisfied by leaving the caller's stream in place

What a `HasBody` that installs its wrapper only when the probe finds content does on an empty body
(`h,c,c` and `h,c,r8`: the request still holds the caller's stream). -/

def emptySrc : Scenario :=
  { kind := .src, data := [], term := .eof, together := false, sched := [], cerr := none, cl := 0, hdr := [] }

/-- Two closes reported as direct after the probe, the underlying stream closed twice: rejected. -/
theorem spec_rejects_unwrapped_double_close :
    specTrace emptySrc [.hasBody, .close, .close]
      [.has false, .cl none true, .cl none true] 2 0 = false := by decide

/-- Already the first direct close after the probe is rejected, whatever the counters say. -/
theorem spec_rejects_direct_close_after_probe :
    specTrace emptySrc [.hasBody, .close] [.has false, .cl none true] 1 0 = false := by decide

/-- Two closes through a body that forwards both to the underlying stream: rejected by the count. -/
theorem spec_rejects_forwarded_double_close :
    specTrace emptySrc [.hasBody, .close, .close]
      [.has false, .cl none false, .cl none false] 2 0 = false := by decide

/-- A read after close that fails, but only because it reached the closed underlying stream:
rejected by the late-read counter (and accepted when the library answers it itself). -/
theorem spec_rejects_read_reaching_closed_stream :
    specTrace emptySrc [.hasBody, .close, .read 8]
      [.has false, .cl none false, .rd [] (some .srcClosed)] 1 1 = false ∧
    specTrace emptySrc [.hasBody, .close, .read 8]
      [.has false, .cl none false, .rd [] (some .ueof)] 1 0 = true := by decide

/-- A direct close BEFORE any probe stays the caller's own, and is accepted as before. -/
theorem spec_accepts_direct_close_before_probe :
    specTrace emptySrc [.close, .hasBody, .close]
      [.cl none true, .has false, .cl none false] 2 1 = true := by decide

/-- "Reads after close fail rather than returning stale data": after a `Close` anywhere in a
history, and whatever happens in between (further probes included), a `Read` returns no data, and
an error when its buffer is not empty. -/
theorem read_after_close (g : Scenario) (hok : okRuns g.sched = true) (hsrc : g.kind = .src)
    (ops1 ops2 : List Op) (k : Nat) :
    ∃ e, (model g (ops1 ++ .close :: (ops2 ++ [.read k]))).1 =
        (model g (ops1 ++ .close :: ops2)).1 ++ [.rd [] e] ∧ (0 < k → e ≠ none) := by
  have hassoc : ops1 ++ Op.close :: (ops2 ++ [.read k]) = (ops1 ++ Op.close :: ops2) ++ [.read k] := by simp
  rw [hassoc]
  show ∃ e, (runOps g.req ((ops1 ++ Op.close :: ops2) ++ [.read k])).1 =
    (runOps g.req (ops1 ++ Op.close :: ops2)).1 ++ [.rd [] e] ∧ _
  rw [runOps_append]
  -- the tracker is closed at the end of `ops1 ++ close :: ops2`
  have h := run_init g hok (ops1 ++ Op.close :: ops2)
  have hclosed : (specGo g { rest := g.sData } (ops1 ++ Op.close :: ops2)
      (runOps g.req (ops1 ++ Op.close :: ops2)).1).2.closed = true := by
    rw [runOps_append, specGo_append _ _ _ _ _ (runOps_length _ _).symm, runOps_cons, specGo_cons]
    apply specGo_closed
    have h1 := (run_init g hok ops1).2
    generalize (specGo g { rest := g.sData } ops1 (runOps g.req ops1).1).2 = t1 at h1 ⊢
    generalize (runOps g.req ops1).2 = r1 at h1 ⊢
    obtain ⟨_, _, _, hb⟩ := h1
    cases hbody : r1.body with
    | none => rw [hbody] at hb; rw [hsrc] at hb; cases hb.1
    | some b => simp [step, hbody, closeOp, specStep]
  generalize (specGo g { rest := g.sData } (ops1 ++ Op.close :: ops2)
    (runOps g.req (ops1 ++ Op.close :: ops2)).1).2 = t at h hclosed
  generalize (runOps g.req (ops1 ++ Op.close :: ops2)).2 = r at h
  obtain ⟨_, _, _, _, hb⟩ := h
  cases hbody : r.body with
  | none => rw [hbody] at hb; rw [hsrc] at hb; cases hb.1
  | some b =>
    rw [hbody] at hb
    rcases hb.2 with ho | hc
    · have := ho.tclosed; rw [hclosed] at this; cases this
    · obtain ⟨h1, h2, _⟩ := tower_read_dead b.depth b.st k hc.dead
      refine ⟨((tower b.depth).read b.st k).1.2, ?_, h2⟩
      show _ ++ [(step r (.read k)).1] = _
      simp only [step, hbody, readOp, h1]

example : okRuns sample.sched = true ∧ sample.kind = .src := by decide

/-! ## F17a (repaired): a request without body -/

/-- `HasBody` on a nil body stores a typed-nil `*peekingReader`; closing, reading, closing again and
probing again all work on it (before the repair the first `Close` dereferenced nil). -/
theorem nil_body_probe_then_close :
    model { kind := .nilpr, data := [], term := .eof, together := false, sched := [], cerr := none,
            cl := 0, hdr := [] } [.hasBody, .close, .read 5, .close, .hasBody, .close, .close] =
      ([.has false, .cl none false, .rd [] (some .eof), .cl none false, .has false,
        .cl none false, .cl (some .already) false], 0, 0) := by
  decide

end RtVerif.C17
