import RtVerif.Model.C20
import RtVerif.Lemmas.GoPath
import RtVerif.Lemmas.C20
/-
  C20 — property theorems (helpers in Lemmas/C20.lean, path algebra in Lemmas/GoPath.lean).

  Interception.  `spec_mw_*`, `ui_mw_*`: a middleware answers exactly the requests whose cleaned
  path is its document path; every other request reaches `next` as it was received, or is answered
  404 when there is no `next`.  `spec_mw_meets_spec` / `ui_mw_meets_spec`: the model satisfies the
  Spec predicates the driver evaluates on the real code's observations, for every option
  combination, request and method.

  Agreement.  `handler_spec_path_agrees`: for every absolute spec location (absolute URL or
  absolute path, non-empty document name) the composed API handler serves the document at
  `clean` of the location's path; `page_refers_to_served_document`: the page names that location
  and a request for the location's path is answered with the document;
  `operations_stay_reachable`: requests whose cleaned path is neither document path arrive at the
  router unmodified.  `handler_meets_spec` packages this as the Spec predicate.

  Escaping.  html/template is external; `ui_pages_use_html_template` is the obligation over the
  regenerated import table, `interception_conditions_pinned` / `document_path_expressions_pinned`
  pin the source expressions the model transcribes.
-/
namespace RtVerif.C20
open RtVerif Bytes GoPath

/-! ## Obligations over regenerated facts -/

/-- Every UI page (Redoc, RapiDoc, SwaggerUI, OAuth2 callback) is rendered with `html/template`
and nothing else (regenerated import table; the escaping itself is html/template's). -/
theorem ui_pages_use_html_template :
    Facts.c20TemplateImports.length = 4 ∧
      ∀ f ∈ Facts.c20TemplateImports, f.2 = ["html/template"] := by decide

/-- The interception test in `serveUI` and in `Spec` is the exact comparison the model makes. -/
theorem interception_conditions_pinned :
    Facts.c20ServeUICond = "path.Clean(r.URL.Path) == pth" ∧
      Facts.c20SpecCond = "path.Clean(r.URL.Path) == pth" := by decide

/-- The document paths are computed by the expressions the model transcribes. -/
theorem document_path_expressions_pinned :
    Facts.c20PthExprs =
      [("Redoc", "path.Join(opts.BasePath, opts.Path)"),
       ("RapiDoc", "path.Join(opts.BasePath, opts.Path)"),
       ("SwaggerUI", "path.Join(opts.BasePath, opts.Path)"),
       ("SwaggerUIOAuth2Callback", "opts.OAuthCallbackURL"),
       ("Spec", "path.Join(basePath, o.Path, o.Document)")] := by decide

/-- The document is served as JSON, pages as HTML. -/
theorem content_types_pinned : ctJSON = jsonCT ∧ ctHTML = htmlCT := ⟨ctJSON_eq, ctHTML_eq⟩

/-- The default UI spec URL is the default location of the spec middleware: `/` + default document
(so that the two middlewares agree when no option is given). -/
theorem default_locations_agree :
    Facts.c20DocsURL = slash :: Facts.c20SpecDocument ∧ Facts.c20SpecPath = [] := by decide

/-! ## Path algebra the middlewares rest on (proved in Lemmas/GoPath.lean for all byte strings;
restated here so that the audit of this module lists them) -/

/-- `path.Clean` is idempotent: a document path computed by `path.Join` is matched by a request
for that very path. -/
theorem gopath_clean_idem (p : Bytes) : clean (clean p) = clean p := clean_idem p

/-- `path.Clean` keeps rootedness and never returns the empty string. -/
theorem gopath_clean_rooted_nonempty (p : Bytes) :
    isRooted (clean p) = isRooted p ∧ clean p ≠ [] := ⟨clean_rooted p, clean_ne_nil p⟩

/-- Shape of a cleaned path: split at `/` it is an initial empty segment exactly when rooted, then
`k` segments `..` (`k = 0` when rooted) and ordinary segments — none empty, none `.`; or just
`/` resp. `.`; and it ends in `/` only if it is `/`. -/
theorem gopath_clean_shape (p : Bytes) :
    (∃ (k : Nat) (ns : List Bytes), (∀ s ∈ ns, Normal s) ∧ (isRooted p = true → k = 0) ∧
      segs (clean p) =
        (if isRooted p then [[]] else []) ++
          (if List.replicate k dotdot ++ ns = [] then (if isRooted p then [[]] else [dot])
           else List.replicate k dotdot ++ ns)) ∧
      (clean p ≠ [slash] → (clean p).getLast? ≠ some slash) :=
  ⟨segs_clean p, clean_no_trailing_slash p⟩

/-- `path.Join` of non-empty parts, and `Join ∘ Split`. -/
theorem gopath_join_split (a b p : Bytes) :
    (a ≠ [] → b ≠ [] → join a b = clean (a ++ slash :: b)) ∧
      (p ≠ [] → join (split p).1 (split p).2 = clean p) :=
  ⟨join_eq_clean a b, join_split' p⟩

example : clean [47, 97, 47, 46, 46, 47, 46, 46, 47, 98, 47, 46, 47, 99, 47, 47] = [47, 98, 47, 99] := by
  decide  -- /a/../../b/./c// ↦ /b/c

/-! ## The spec middleware -/

/-- A request whose cleaned path is the document path is answered with exactly the spec bytes. -/
theorem spec_mw_answers (bp b : Bytes) (next : Option Handler) (opts : List SpecOption) (r : Req)
    (h : clean r.path = specDocPath bp opts) : specMW bp b next opts r = .spec b := by
  simp [specMW, h]

/-- Any other request is handed to `next` exactly as received… -/
theorem spec_mw_passes_on (bp b : Bytes) (n : Handler) (opts : List SpecOption) (r : Req)
    (h : clean r.path ≠ specDocPath bp opts) : specMW bp b (some n) opts r = n r := by
  simp [specMW, h]

/-- …or answered 404 when there is no `next`. -/
theorem spec_mw_not_found (bp b : Bytes) (opts : List SpecOption) (r : Req)
    (h : clean r.path ≠ specDocPath bp opts) :
    specMW bp b none opts r = .notFound ctSpec404 := by
  simp [specMW, h]

/-- With a recording `next`: answered by the middleware iff the cleaned path is the document
path, and the method plays no role. -/
theorem spec_mw_iff (bp b : Bytes) (opts : List SpecOption) (r : Req) :
    (specMW bp b (some terminal) opts r = .spec b ↔ clean r.path = specDocPath bp opts) ∧
      (clean r.path ≠ specDocPath bp opts → specMW bp b (some terminal) opts r = .next r) := by
  constructor
  · constructor
    · intro h
      by_cases hc : clean r.path = specDocPath bp opts
      · exact hc
      · rw [spec_mw_passes_on bp b terminal opts r hc] at h
        simp [terminal] at h
    · exact spec_mw_answers bp b _ opts r
  · intro hc
    rw [spec_mw_passes_on bp b terminal opts r hc]
    rfl

example : specMW [] [123, 125] (some terminal) [] ⟨[71, 69, 84], Facts.c20DocsURL ++ [47, 46]⟩
    = .spec [123, 125] := by decide

/-- The model meets the Spec predicate of stream `S`: all base paths, options, bodies, requests. -/
theorem spec_mw_meets_spec (bp b : Bytes) (opts : List SpecOption) (hasNext : Bool) (r : Req) :
    specSpec bp opts b hasNext r
      (obsOf (specMW bp b (if hasNext then some terminal else none) opts r)) = true := by
  unfold specSpec specRule
  rw [cfgSpecPath_eq]
  by_cases hc : clean r.path = specDocPath bp opts
  · simp [spec_mw_answers bp b _ opts r hc, hc, obsOf, ctJSON_eq]
  · cases hasNext with
    | true => simp [spec_mw_passes_on bp b terminal opts r hc, hc, obsOf, terminal]
    | false => simp [spec_mw_not_found bp b opts r hc, hc, obsOf]

/-! ## The UI middlewares -/

theorem ui_mw_answers (k : Kind) (o : Opts) (next : Option Handler) (r : Req)
    (h : clean r.path = uiDocPath k (ensureDefaults k o)) :
    uiMW k o next r = .page ⟨k, ensureDefaults k o⟩ := by
  simp [uiMW, serveUI, h]

theorem ui_mw_passes_on (k : Kind) (o : Opts) (n : Handler) (r : Req)
    (h : clean r.path ≠ uiDocPath k (ensureDefaults k o)) : uiMW k o (some n) r = n r := by
  simp [uiMW, serveUI, h]

theorem ui_mw_not_found (k : Kind) (o : Opts) (r : Req)
    (h : clean r.path ≠ uiDocPath k (ensureDefaults k o)) :
    uiMW k o none r = .notFound ctUI404 := by
  simp [uiMW, serveUI, h]

/-- Redoc, RapiDoc, SwaggerUI and the OAuth2 callback answer iff the cleaned path is the document
path; everything else reaches the recording `next` unchanged. -/
theorem ui_mw_iff (k : Kind) (o : Opts) (r : Req) :
    ((∃ p, uiMW k o (some terminal) r = .page p) ↔
        clean r.path = uiDocPath k (ensureDefaults k o)) ∧
      (clean r.path ≠ uiDocPath k (ensureDefaults k o) → uiMW k o (some terminal) r = .next r) := by
  constructor
  · constructor
    · rintro ⟨p, h⟩
      by_cases hc : clean r.path = uiDocPath k (ensureDefaults k o)
      · exact hc
      · rw [ui_mw_passes_on k o terminal r hc] at h
        simp [terminal] at h
    · intro hc
      exact ⟨_, ui_mw_answers k o _ r hc⟩
  · intro hc
    rw [ui_mw_passes_on k o terminal r hc]
    rfl

example : uiMW .swaggerui { basePath := [47, 97, 47] } (some terminal)
    ⟨[80, 85, 84], [47, 47, 97, 47, 46, 47, 100, 111, 99, 115, 47]⟩
      = .page ⟨.swaggerui, ensureDefaults .swaggerui { basePath := [47, 97, 47] }⟩ := by decide

/-- The model meets the Spec predicate of stream `M`: all kinds, options, requests. -/
theorem ui_mw_meets_spec (k : Kind) (o : Opts) (hasNext : Bool) (r : Req) :
    specUI k o hasNext r (obsOf (uiMW k o (if hasNext then some terminal else none) r)) = true := by
  unfold specUI specRule
  rw [cfgUIPath_eq]
  by_cases hc : clean r.path = uiDocPath k (ensureDefaults k o)
  · simp [ui_mw_answers k o _ r hc, hc, obsOf, ctHTML_eq]
  · cases hasNext with
    | true => simp [ui_mw_passes_on k o terminal r hc, hc, obsOf, terminal]
    | false => simp [ui_mw_not_found k o r hc, hc, obsOf]

/-- A document path is always a cleaned path or empty, so a request for the document path itself
is answered (except for an un-cleaned custom OAuth2 callback URL, which is used verbatim). -/
theorem ui_doc_path_is_clean (k : Kind) (hk : k ≠ .oauth2) (o : Opts) :
    clean (uiDocPath k (ensureDefaults k o)) = uiDocPath k (ensureDefaults k o) := by
  have key : ∀ a b : Bytes, a ≠ [] → clean (join a b) = join a b := by
    intro a b ha
    have : joinRaw [a, b] ≠ [] := by
      by_cases hb : b = [] <;> simp [joinRaw, ha, hb]
    simp only [join, joinList, this, if_false]
    exact clean_idem _
  have hb : (ensureDefaults k o).basePath ≠ [] := by
    cases k <;> simp [ensureDefaults, commonDefaults, orDefault] <;> split <;> simp_all [rootB]
  cases k with
  | oauth2 => exact absurd rfl hk
  | redoc => exact key _ _ hb
  | rapidoc => exact key _ _ hb
  | swaggerui => exact key _ _ hb

/-! ## The API handlers -/

/-- `Spec(dir, …, WithSpecDocument(file))` for `(dir, file) = path.Split(q)` serves at `clean q`. -/
theorem specDocPath_of_split (q : Bytes) (hr : isRooted q = true) (hf : (split q).2 ≠ []) :
    specDocPath (if (split q).1 = dot then [] else (split q).1) [.document (split q).2]
      = clean q := by
  obtain ⟨d, hd⟩ := split_of_rooted hr
  have hnd : (split q).1 ≠ dot := by rw [hd]; exact snoc_slash_ne_dot d
  have hne : (split q).1 ≠ [] := by rw [hd]; exact snoc_ne_nil d
  rw [if_neg hnd]
  have hdoc : specOptionsWithDefaults [.document (split q).2]
      = ⟨Facts.c20SpecPath, (split q).2⟩ := by
    simp [specOptionsWithDefaults, SpecOption.apply, hf, defaultSpecOpts]
  simp only [specDocPath, hdoc, hne, if_false, specPath_default_nil]
  rw [join3_nil_mid]
  exact join_split q hf

/-- **UI and spec URL agree.**  If the effective spec location is absolute (absolute URL or
absolute path whose last element is not empty) with URL path `p`, the composed handler serves the
spec document at `clean p` — whatever the API base path, UI path, title and flavour. -/
theorem handler_spec_path_agrees (cb ti : Bytes) (opts : List UIOption) (p : Bytes)
    (h : locPath (effectiveLoc opts) = some p) :
    handlerSpecPath urlPath cb ti opts = clean p := by
  unfold handlerSpecPath uiOptionsForHandler
  simp only
  rw [specURL_ctx]
  by_cases hu : (uiOptionsWithDefaults opts).specURL = []
  · -- no spec URL configured: the page names the default location
    have hl : effectiveLoc opts = Facts.c20DocsURL := by simp [effectiveLoc, orDefault, hu]
    rw [hl] at h
    have hd := default_loc_agrees
    rw [h] at hd
    simp only [Option.map_some, Option.some.injEq] at hd
    rw [hu, urlPath_nil, hd]
    rfl
  · have hl : effectiveLoc opts = (uiOptionsWithDefaults opts).specURL := by
      simp [effectiveLoc, orDefault, hu]
    rw [hl] at h
    unfold locPath at h
    split at h
    · rename_i q hq
      split at h
      · rename_i hc
        simp only [Option.some.injEq] at h
        subst h
        simp only [Bool.and_eq_true, decide_eq_true_eq] at hc
        obtain ⟨⟨_, hr⟩, hf⟩ := hc
        rw [hq]
        exact specDocPath_of_split q hr hf
      · exact absurd h (by simp)
    · exact absurd h (by simp)

example : locPath [104, 116, 116, 112, 115, 58, 47, 47, 104, 47, 118, 49, 47, 97, 46, 106]
    = some [47, 118, 49, 47, 97, 46, 106] := by decide   -- https://h/v1/a.j ↦ /v1/a.j

example : locPath [47, 115, 47, 46, 46, 47, 97, 37, 50, 48, 98, 46, 106, 63, 120, 35, 102]
    = some [47, 115, 47, 46, 46, 47, 97, 32, 98, 46, 106] := by decide   -- /s/../a%20b.j?x#f

/-- `wantedSpecPath` (the Spec's) is the handler's spec path. -/
theorem wantedSpecPath_eq (cb ti : Bytes) (opts : List UIOption) :
    wantedSpecPath cb ti opts = handlerSpecPath urlPath cb ti opts := by
  unfold wantedSpecPath
  cases h : locPath (effectiveLoc opts) with
  | none => rfl
  | some p => exact (handler_spec_path_agrees cb ti opts p h).symm

theorem apiHandler_unfold (k : Kind) (cb ti raw : Bytes) (opts : List UIOption) (router : Handler)
    (r : Req) :
    apiHandler k cb ti raw opts router r =
      if clean r.path = handlerSpecPath urlPath cb ti opts then .spec raw
      else if clean r.path = handlerUIPath k cb ti opts then
        .page ⟨k, handlerUIOpts k cb ti opts⟩
      else router r := by
  rfl

/-- **The page references the very document served.**  For an absolute location with path `p`:
a request for `p` (any method; also any path that cleans to `clean p`) is answered with exactly
the raw spec, and every page the handler serves names the configured location. -/
theorem page_refers_to_served_document (k : Kind) (cb ti raw : Bytes) (opts : List UIOption)
    (router : Handler) (p : Bytes) (h : locPath (effectiveLoc opts) = some p) :
    (∀ m, apiHandler k cb ti raw opts router ⟨m, p⟩ = .spec raw) ∧
      (∀ r pg, apiHandler k cb ti raw opts router r = .page pg →
        router r ≠ .page pg → pg.opts.specURL = effectiveLoc opts) := by
  constructor
  · intro m
    rw [apiHandler_unfold]
    simp [handler_spec_path_agrees cb ti opts p h]
  · intro r pg hpg hr
    rw [apiHandler_unfold] at hpg
    split at hpg
    · exact absurd hpg (by simp)
    · split at hpg
      · simp only [Answer.page.injEq] at hpg
        subst hpg
        exact handlerUIOpts_specURL k cb ti opts
      · exact absurd hpg hr

/-- **API operations other than the two document paths remain reachable**: such a request arrives
at the router exactly as received (method, path). -/
theorem operations_stay_reachable (k : Kind) (cb ti raw : Bytes) (opts : List UIOption)
    (router : Handler) (r : Req)
    (h1 : clean r.path ≠ handlerSpecPath urlPath cb ti opts)
    (h2 : clean r.path ≠ handlerUIPath k cb ti opts) :
    apiHandler k cb ti raw opts router r = router r := by
  rw [apiHandler_unfold]
  simp [h1, h2]

example : apiHandler .redoc [47, 97] [84] [123, 125] [] terminal ⟨[71, 69, 84], [47, 97, 47, 112]⟩
    = .next ⟨[71, 69, 84], [47, 97, 47, 112]⟩ := by decide

/-- The model of the three API handlers meets the Spec predicate of stream `H`. -/
theorem handler_meets_spec (k : Kind) (hk : k ≠ .oauth2) (cb ti raw : Bytes)
    (opts : List UIOption) (r : Req) :
    specHandler cb ti opts r (hobsOf raw (apiHandler k cb ti raw opts terminal r)) = true := by
  unfold specHandler
  rw [wantedSpecPath_eq, ← handlerUIPath_eq k hk cb ti opts, apiHandler_unfold]
  by_cases h1 : clean r.path = handlerSpecPath urlPath cb ti opts
  · simp only [if_pos h1]
    simp [hobsOf, ctJSON_eq]
  · by_cases h2 : clean r.path = handlerUIPath k cb ti opts
    · simp only [if_neg h1, if_pos h2]
      simp [hobsOf, ctHTML_eq, handlerUIOpts_specURL]
    · simp only [if_neg h1, if_neg h2]
      simp [hobsOf, terminal]

/-- **Option values are escaped, once**: the page a UI middleware serves carries the title option (the
default title when none is given) — stream `M`'s title clause holds of the model. -/
theorem ui_mw_page_title (k : Kind) (o : Opts) (next : Option Handler) (r : Req) (p : Page)
    (hnext : ∀ n, next = some n → ∀ q, n r ≠ .page q)
    (h : uiMW k o next r = .page p) : p.opts.title = wantedTitle o.title := by
  unfold uiMW serveUI at h
  by_cases hc : clean r.path = uiDocPath k (ensureDefaults k o)
  · simp only [if_pos hc] at h
    cases h
    cases k <;> simp [ensureDefaults, commonDefaults, wantedTitle]
  · simp only [if_neg hc] at h
    cases next with
    | none => simp at h
    | some n => exact absurd h (hnext n rfl p)

example : (ensureDefaults .redoc { title := [60, 98, 62] }).title = wantedTitle [60, 98, 62] := by decide

theorem handlerUIOpts_title (k : Kind) (cb ti : Bytes) (opts : List UIOption) :
    (handlerUIOpts k cb ti opts).title = handlerTitle cb ti opts := by
  cases k <;> simp [handlerUIOpts, handlerTitle, ensureDefaults, commonDefaults, toFlavour, wantedTitle]

/-- The composed handler's page shows the API's title, or the title option: stream `H`'s title clause
holds of the model. -/
theorem handler_meets_title_spec (k : Kind) (cb ti raw : Bytes) (opts : List UIOption) (r : Req) :
    specHandlerTitle cb ti opts (hobsOf raw (apiHandler k cb ti raw opts terminal r)) = true := by
  have hsu : (wSpec == wUI) = false := by decide
  have hnu : (wNext == wUI) = false := by decide
  unfold specHandlerTitle
  rw [apiHandler_unfold]
  by_cases h1 : clean r.path = handlerSpecPath urlPath cb ti opts
  · simp [if_pos h1, hobsOf, hsu]
  · by_cases h2 : clean r.path = handlerUIPath k cb ti opts
    · simp only [if_neg h1, if_pos h2]
      simp [hobsOf, handlerUIOpts_title]
    · simp only [if_neg h1, if_neg h2]
      simp [hobsOf, terminal, hnu]

/-! ## What `url.Parse` does with a plain absolute path -/

/-- bytes that `url.Parse` neither splits at, decodes nor rejects -/
abbrev PlainPathByte (c : UInt8) : Prop := c ≠ 35 ∧ c ≠ 63 ∧ c ≠ 37 ∧ isCTL c = false

/-- An absolute path `/x…` (second byte not `/`) of plain bytes is its own URL path: `url.Parse`
neither splits, decodes nor rejects it, so the handler serves the spec at `clean` of the string
the page shows. -/
theorem urlPath_abs_path (c : UInt8) (rest : Bytes) (hc : c ≠ slash)
    (hp : ∀ x ∈ slash :: c :: rest, PlainPathByte x) :
    urlPath (slash :: c :: rest) = .ok (slash :: c :: rest) := by
  have h35 : beforeB 35 (slash :: c :: rest) = slash :: c :: rest :=
    takeWhile_all _ _ (fun x hx => by simpa using (hp x hx).1)
  have h63 : beforeB 63 (slash :: c :: rest) = slash :: c :: rest :=
    takeWhile_all _ _ (fun x hx => by simpa using (hp x hx).2.1)
  have hfrag : afterB 35 (slash :: c :: rest) = [] := by
    unfold afterB
    rw [dropWhile_all _ _ (fun x hx => by simpa using (hp x hx).1)]
    rfl
  have hctl : (slash :: c :: rest).any isCTL = false := by
    rw [List.any_eq_false]
    intro x hx
    simp [(hp x hx).2.2.2]
  have hesc : unescapePath (slash :: c :: rest) = some (slash :: c :: rest) :=
    unescapePath_plain _ (fun x hx => (hp x hx).2.2.1)
  have hscan : schemeScan 0 (slash :: c :: rest) = .noScheme := by
    simp [schemeScan, slash, isAlpha, isDigit]
  have hpre : ([slash, slash] : Bytes).isPrefixOf (slash :: c :: rest) = false := by
    have : (slash == c) = false := by simpa using fun e => hc e.symm
    simp [List.isPrefixOf, this]
  have hrest : parseRest false (slash :: c :: rest) = .ok (slash :: c :: rest) := by
    simp [parseRest, isRooted, hpre, hesc]
  have hne : (slash :: c :: rest) ≠ [42] := by simp
  unfold urlPath parseNoFrag
  rw [h35, hfrag]
  simp only [hctl, hne, hscan, h63, hrest, Bool.false_eq_true, if_false]
  rfl

example : urlPath [47, 97, 47, 98, 46, 106] = .ok [47, 97, 47, 98, 46, 106] :=
  urlPath_abs_path 97 [47, 98, 46, 106] (by decide) (by decide)

/-- Consequence for plain absolute paths: the page shows `loc`, the document is served at
`clean loc`. -/
theorem plain_abs_path_served_at_clean (cb ti : Bytes) (opts : List UIOption) (c : UInt8)
    (rest : Bytes) (hc : c ≠ slash) (hp : ∀ x ∈ slash :: c :: rest, PlainPathByte x)
    (hloc : effectiveLoc opts = slash :: c :: rest) (hdoc : (split (slash :: c :: rest)).2 ≠ []) :
    handlerSpecPath urlPath cb ti opts = clean (effectiveLoc opts) := by
  rw [hloc]
  apply handler_spec_path_agrees
  rw [hloc]
  simp [locPath, urlPath_abs_path c rest hc hp, isRooted, hdoc]

/-- An absolute URL `scheme://host/path` with a plain path: `url.Parse(..).Path` is the path. -/
theorem urlPath_abs_url (scheme host : Bytes) (rest : Bytes) (hs : scheme ≠ [])
    (hsa : ∀ x ∈ scheme, isAlpha x = true) (hh : ∀ x ∈ host, isHostByte x = true)
    (hp : ∀ x ∈ slash :: rest, PlainPathByte x) :
    urlPath (scheme ++ 58 :: slash :: slash :: (host ++ slash :: rest)) = .ok (slash :: rest) := by
  have hall : ∀ x ∈ scheme ++ 58 :: slash :: slash :: (host ++ slash :: rest),
      x ≠ 35 ∧ x ≠ 63 ∧ isCTL x = false := by
    intro x hx
    simp only [List.mem_append, List.mem_cons] at hx
    rcases hx with h | h | h | h | h | h | h
    · exact ⟨(alpha_plain x (hsa x h)).1, (alpha_plain x (hsa x h)).2.1, (alpha_plain x (hsa x h)).2.2.1⟩
    · subst h; decide
    · subst h; decide
    · subst h; decide
    · exact ⟨(host_plain x (hh x h)).1, (host_plain x (hh x h)).2.1, (host_plain x (hh x h)).2.2.1⟩
    · subst h; decide
    · have := hp x (List.mem_cons_of_mem _ h)
      exact ⟨this.1, this.2.1, this.2.2.2⟩
  have hall2 : ∀ x ∈ slash :: slash :: (host ++ slash :: rest), x ≠ 63 := by
    intro x hx
    exact (hall x (by simp only [List.mem_append]; exact Or.inr (List.mem_cons_of_mem _ hx))).2.1
  have h35 := takeWhile_all (· ≠ (35 : UInt8)) _ (fun x hx => by simpa using (hall x hx).1)
  have hfrag : afterB 35 (scheme ++ 58 :: slash :: slash :: (host ++ slash :: rest)) = [] := by
    unfold afterB
    rw [dropWhile_all _ _ (fun x hx => by simpa using (hall x hx).1)]
    rfl
  have hctl : (scheme ++ 58 :: slash :: slash :: (host ++ slash :: rest)).any isCTL = false := by
    rw [List.any_eq_false]
    intro x hx
    simp [(hall x hx).2.2]
  have hlen : 0 < scheme.length := List.length_pos_iff.mpr hs
  have hscan := schemeScan_alpha scheme (slash :: slash :: (host ++ slash :: rest)) hsa 0 (by omega)
  have hdrop : (scheme ++ 58 :: slash :: slash :: (host ++ slash :: rest)).drop (0 + scheme.length + 1)
      = slash :: slash :: (host ++ slash :: rest) := by
    simp [List.drop_append]
  have h63 := takeWhile_all (· ≠ (63 : UInt8)) _ (fun x hx => by simpa using hall2 x hx)
  have hne : scheme ++ 58 :: slash :: slash :: (host ++ slash :: rest) ≠ [42] := by
    cases scheme with
    | nil => exact absurd rfl hs
    | cons a t => cases t <;> simp
  have hauth : beforeB slash (host ++ slash :: rest) = host :=
    takeWhile_append_stop _ host slash rest
      (fun x hx => by simpa using (host_plain x (hh x hx)).2.2.2) (by simp)
  have hsimple : simpleAuthority host = true := by
    simp [simpleAuthority, takeWhile_all isHostByte host hh]
  have hesc : unescapePath (slash :: rest) = some (slash :: rest) :=
    unescapePath_plain _ (fun x hx => (hp x hx).2.2.1)
  have hrest : parseRest true (slash :: slash :: (host ++ slash :: rest)) = .ok (slash :: rest) := by
    simp [parseRest, isRooted, List.isPrefixOf, hauth, hsimple, hesc]
  unfold urlPath parseNoFrag
  unfold beforeB at h35 h63 ⊢
  rw [h35, hfrag]
  simp only [hctl, hne, hscan, hdrop, h63, hrest, Bool.false_eq_true, if_false]
  rfl

example : urlPath [104, 116, 116, 112, 115, 58, 47, 47, 104, 46, 105, 111, 47, 118, 49, 47, 97, 46, 106]
    = .ok [47, 118, 49, 47, 97, 46, 106] :=
  urlPath_abs_url [104, 116, 116, 112, 115] [104, 46, 105, 111] [118, 49, 47, 97, 46, 106]
    (by decide) (by decide) (by decide) (by decide)

/-- Consequence for absolute URLs: the document is served at `clean` of the URL's path. -/
theorem abs_url_served_at_clean_path (cb ti : Bytes) (opts : List UIOption)
    (scheme host rest : Bytes) (hs : scheme ≠ [])
    (hsa : ∀ x ∈ scheme, isAlpha x = true) (hh : ∀ x ∈ host, isHostByte x = true)
    (hp : ∀ x ∈ slash :: rest, PlainPathByte x)
    (hloc : effectiveLoc opts = scheme ++ 58 :: slash :: slash :: (host ++ slash :: rest))
    (hdoc : (split (slash :: rest)).2 ≠ []) :
    handlerSpecPath urlPath cb ti opts = clean (slash :: rest) := by
  apply handler_spec_path_agrees
  rw [hloc]
  have hsch : hasScheme (scheme ++ 58 :: slash :: slash :: (host ++ slash :: rest)) = true := by
    have hall : ∀ x ∈ scheme ++ 58 :: slash :: slash :: (host ++ slash :: rest), x ≠ 35 := by
      intro x hx
      simp only [List.mem_append, List.mem_cons] at hx
      rcases hx with h | h | h | h | h | h | h
      · exact (alpha_plain x (hsa x h)).1
      · subst h; decide
      · subst h; decide
      · subst h; decide
      · exact (host_plain x (hh x h)).1
      · subst h; decide
      · exact (hp x (List.mem_cons_of_mem _ h)).1
    have h35 := takeWhile_all (· ≠ (35 : UInt8)) _ (fun x hx => by simpa using hall x hx)
    unfold hasScheme beforeB
    rw [h35, schemeScan_alpha scheme _ hsa 0
      (by have := List.length_pos_iff.mpr hs; omega)]
  simp [locPath, urlPath_abs_url scheme host rest hs hsa hh hp, hsch, isRooted, hdoc]

/-- Not proved as theorems (covered by stream `U` and the `decide` examples above): what
`url.Parse` yields for locations with a port, a query, a fragment or percent escapes.  The
agreement theorem `handler_spec_path_agrees` does not depend on it: it is stated for whatever
path the URL model yields. -/
def FullStatement_urlPath_general : Prop :=
  ∀ (scheme host port p q f : Bytes), scheme ≠ [] → (∀ x ∈ scheme, isAlpha x = true) →
    (∀ x ∈ host, isHostByte x = true) → (∀ x ∈ port, isDigit x = true) → isRooted p = true →
    (∀ x ∈ p, x ≠ 35 ∧ x ≠ 63 ∧ isCTL x = false) → (∀ x ∈ q, x ≠ 35 ∧ isCTL x = false) →
    (∃ p', unescapePath p = some p') → (unescapePath f).isSome →
    urlPath (scheme ++ [58, 47, 47] ++ host ++ 58 :: port ++ p ++ 63 :: q ++ 35 :: f)
      = (match unescapePath p with | some p' => .ok p' | none => .err)

end RtVerif.C20
