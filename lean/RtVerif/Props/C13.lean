import RtVerif.Model.C13
import RtVerif.Lemmas.C13
/-
  C13 — property theorems (helpers live in Lemmas/C13.lean).

  Proved, for ALL registries, header sets, defaults, status codes, bodies and per-call options:
  * the hand-transcribed Go parser recognises exactly the declarative media types (`parse_eq_mediaTypeOf`);
  * the consumer handed to the reader is the one registered for the media type, else the catch-all,
    else the call fails with a message quoting the content type — never another consumer;
    parameters and letter case play no part; an absent/empty header means the default media type;
  * the reader's view of the response is the response (adapter = identity);
  * per-operation client and context win over the transport's;
  * `submit_meets_spec`: the whole Submit model satisfies `specOk`;
  * concurrency, on the model: for every schedule of any number of calls each call's local state is
    what it would be alone (`noninterference`), the shared client is created once and never changes
    afterwards (`client_memoised`), and a completed call holds the result of the sequential
    `submit` on the response to ITS OWN request (`completed_call_result`).

  NOT proved (runtime facts no Lean model exhibits): absence of data races in the Go memory model
  and the atomicity of `sync.Once` — see `FullStatement` / `full_statement_partial` at the end; the
  harness supports them with a `-race` build running concurrent first calls.
-/
namespace RtVerif.C13
open RtVerif Bytes

/-! ### the parser model and the declarative media type agree -/

/-- `mime.checkMediaTypeDisposition` accepts exactly `token` and `token "/" token`. -/
theorem checkMediaType_none_iff (m : Bytes) : checkMediaType m = none ↔ wellFormedType m = true := by
  unfold checkMediaType consumeToken wellFormedType
  have happ : m.takeWhile isTokenChar ++ m.dropWhile isTokenChar = m := List.takeWhile_append_dropWhile
  have hall : (m.takeWhile isTokenChar).all isTokenChar = true := List.all_takeWhile
  have hhead := dropWhile_head isTokenChar m
  by_cases ht : (m.takeWhile isTokenChar).isEmpty = true
  · -- no leading token: error; and neither `m` nor what precedes a slash is a token
    simp only [ht, if_true]
    simp only [List.isEmpty_iff] at ht
    constructor
    · intro h; cases h
    · intro h
      exfalso
      simp only [Bool.or_eq_true, Bool.and_eq_true] at h
      cases hd : m with
      | nil => rcases h with h | ⟨h, _⟩ <;> simp [hd, isToken, beforeByte] at h
      | cons c r =>
        have hc : isTokenChar c = false := by
          rw [hd] at ht
          simp only [List.takeWhile_cons] at ht
          by_cases e : isTokenChar c = true
          · simp [e] at ht
          · simpa using e
        rcases h with h | ⟨h, _⟩
        · rw [hd] at h
          have := not_token_of_mem (s := c :: r) (c := c) (by simp) hc
          rw [this] at h; cases h
        · rw [hd] at h
          unfold beforeByte at h
          simp only [List.takeWhile_cons] at h
          by_cases e : (c != 47) = true
          · simp only [e, if_true] at h
            have := not_token_of_mem (s := c :: List.takeWhile (fun x => x != 47) r) (c := c) (by simp) hc
            rw [this] at h; cases h
          · simp [e, isToken] at h
  · simp only [ht, if_false, Bool.false_eq_true]
    simp only [List.isEmpty_iff] at ht
    cases hr : m.dropWhile isTokenChar with
    | nil =>
      -- all of `m` is one token
      simp only
      have : isToken m = true := (isToken_iff_span m).2 ⟨ht, hr⟩
      simp [this]
    | cons c rest =>
      simp only
      have hc : isTokenChar c = false := hhead c (by rw [hr]; simp)
      have hm : m = m.takeWhile isTokenChar ++ c :: rest := by rw [← hr]; exact happ.symm
      have hnot : isToken m = false := by
        apply not_token_of_mem (c := c) _ hc
        rw [hm]; simp
      have hns := all_token_no_slash hall
      by_cases e : c = 47
      · subst e
        simp only [bne_self_eq_false, Bool.false_eq_true, if_false]
        have hb : beforeByte m 47 = m.takeWhile isTokenChar := by
          unfold beforeByte
          conv => lhs; rw [hm]
          exact takeWhile_append_stop _ _ _ hns (by simp)
        have ha : afterByte m 47 = rest := by
          unfold afterByte
          conv => lhs; rw [hm]
          rw [dropWhile_append_stop _ _ _ hns (by simp)]
          rfl
        have htok : isToken (m.takeWhile isTokenChar) = true := by
          unfold isToken; simp [hall, ht]
        rw [checkSubtype_none_iff, hnot, hb, ha, htok]
        simp
      · have e' : (c != 47) = true := by simpa using e
        simp only [e', if_true]
        constructor
        · intro h; cases h
        · intro h
          exfalso
          rw [hnot] at h
          simp only [Bool.false_or, Bool.and_eq_true] at h
          -- what precedes the first slash contains `c`, which is no token character
          have hsub : c ∈ beforeByte m 47 := by
            unfold beforeByte
            rw [hm]
            have : (m.takeWhile isTokenChar ++ c :: rest) = (m.takeWhile isTokenChar ++ [c]) ++ rest := by simp
            rw [this]
            have hall2 : (m.takeWhile isTokenChar ++ [c]).all (· != 47) = true := by
              simp [List.all_append, hns, e']
            have hpre : (m.takeWhile isTokenChar ++ [c]) <+: List.takeWhile (· != 47) ((m.takeWhile isTokenChar ++ [c]) ++ rest) := by
              clear hm this
              generalize (m.takeWhile isTokenChar ++ [c]) = a at hall2
              induction a with
              | nil => exact List.nil_prefix
              | cons y ys ih =>
                simp only [List.all_cons, Bool.and_eq_true] at hall2
                simp only [List.cons_append, List.takeWhile_cons, hall2.1, if_true]
                exact List.cons_prefix_cons.2 ⟨rfl, ih hall2.2⟩
            exact hpre.subset (by simp)
          have := not_token_of_mem hsub hc
          rw [this] at h
          exact absurd h.1 (by simp)

/-- The transcription of Go's `mime.ParseMediaType` (on the part before `;`) yields exactly the
declarative media type of the Spec, and fails exactly when there is none. -/
theorem parse_eq_mediaTypeOf (ct : Bytes) :
    (match parseMediaType (beforeByte ct 59) with | .ok mt => some mt | .error _ => none) = mediaTypeOf ct := by
  unfold parseMediaType mediaTypeOf
  cases h : checkMediaType (trimSpace (toLower (beforeByte ct 59))) with
  | none =>
    have := (checkMediaType_none_iff _).1 h
    simp [this]
  | some e =>
    have : wellFormedType (trimSpace (toLower (beforeByte ct 59))) = false := by
      rw [Bool.eq_false_iff]; intro hw
      have := (checkMediaType_none_iff _).2 hw
      rw [this] at h; cases h
    simp [this]

/-! ### selection of the consumer -/

/-- The model's selection is the Spec's: the registered consumer, else the catch-all, else a
failure whose message names the content type. All registries (any consumer type), all values. -/
theorem select_eq_expected {κ : Type} (reg : Bytes → Option κ) (ct : Bytes) :
    match expected reg ct with
    | .consumer c => selectConsumer reg ct = .ok c
    | .failNaming => ∃ msg, selectConsumer reg ct = .error msg ∧ names ct msg = true := by
  unfold expected selectConsumer fallback
  rw [← parse_eq_mediaTypeOf, fallbackKey_eq]
  cases parseMediaType (beforeByte ct 59) with
  | ok mt =>
    simp only [Option.bind_some]
    cases reg mt with
    | some c => rfl
    | none =>
      cases reg catchAll with
      | some c => rfl
      | none => exact ⟨_, rfl, names_noConsumer ct⟩
  | error e =>
    simp only [Option.bind_none]
    cases reg catchAll with
    | some c => rfl
    | none => exact ⟨_, rfl, names_parseErr ct e⟩

/-- a consumer registered for the media type is the one handed over -/
theorem registered_consumer_wins {κ : Type} (reg : Bytes → Option κ) (ct mt : Bytes) (c : κ)
    (hmt : mediaTypeOf ct = some mt) (hreg : reg mt = some c) : selectConsumer reg ct = .ok c := by
  have := select_eq_expected reg ct
  unfold expected at this
  simpa [hmt, hreg] using this

example : selectConsumer (regOfKeys [[97, 47, 98], catchAll]) [65, 47, 66, 59, 32, 120] = .ok [97, 47, 98] := by
  rfl  -- `A/B; x` with consumers for `a/b` and `*/*`

/-- no consumer for the media type (or no media type at all): the catch-all, if registered -/
theorem catch_all_otherwise {κ : Type} (reg : Bytes → Option κ) (ct : Bytes) (c : κ)
    (hnone : (mediaTypeOf ct).bind reg = none) (hall : reg catchAll = some c) :
    selectConsumer reg ct = .ok c := by
  have := select_eq_expected reg ct
  unfold expected at this
  simpa [hnone, hall] using this

example : selectConsumer (regOfKeys [[97, 47, 98], catchAll]) [59, 59] = .ok catchAll := by
  rfl  -- `;;` shows no media type

/-- neither: the call fails and the message names the content type -/
theorem fails_naming_content_type {κ : Type} (reg : Bytes → Option κ) (ct : Bytes)
    (hnone : (mediaTypeOf ct).bind reg = none) (hall : reg catchAll = none) :
    ∃ msg, selectConsumer reg ct = .error msg ∧ names ct msg = true := by
  have := select_eq_expected reg ct
  unfold expected at this
  simpa [hnone, hall] using this

example : (mediaTypeOf [120, 47, 121]).bind (regOfKeys [[97, 47, 98]]) = none ∧ regOfKeys [[97, 47, 98]] catchAll = none := by
  decide

/-- NEVER a different consumer: whatever consumer Submit hands to the reader is the one registered
for the response's media type, or — only when none is — the catch-all. -/
theorem never_a_different_consumer {κ : Type} (reg : Bytes → Option κ) (ct : Bytes) (c : κ)
    (h : selectConsumer reg ct = .ok c) :
    (∃ mt, mediaTypeOf ct = some mt ∧ reg mt = some c) ∨
    ((mediaTypeOf ct).bind reg = none ∧ reg catchAll = some c) := by
  have hs := select_eq_expected reg ct
  unfold expected at hs
  cases hm : mediaTypeOf ct with
  | none =>
    rw [hm] at hs
    simp only [Option.bind_none] at hs
    right
    cases ha : reg catchAll with
    | none => rw [ha] at hs; obtain ⟨msg, e, _⟩ := hs; rw [e] at h; cases h
    | some c' => rw [ha] at hs; simp only at hs; rw [hs] at h; cases h; exact ⟨rfl, rfl⟩
  | some mt =>
    rw [hm] at hs
    simp only [Option.bind_some] at hs
    cases hr : reg mt with
    | some c' =>
      rw [hr] at hs; simp only at hs; rw [hs] at h; cases h
      exact Or.inl ⟨mt, rfl, hr⟩
    | none =>
      rw [hr] at hs
      right
      cases ha : reg catchAll with
      | none => rw [ha] at hs; obtain ⟨msg, e, _⟩ := hs; rw [e] at h; cases h
      | some c' => rw [ha] at hs; simp only at hs; rw [hs] at h; cases h; exact ⟨by simp [hr], rfl⟩

/-- the call fails only when there is nothing to hand over, and then it names the content type -/
theorem error_only_without_consumer {κ : Type} (reg : Bytes → Option κ) (ct msg : Bytes)
    (h : selectConsumer reg ct = .error msg) :
    (mediaTypeOf ct).bind reg = none ∧ reg catchAll = none ∧ names ct msg = true := by
  have hs := select_eq_expected reg ct
  unfold expected at hs
  cases hb : (mediaTypeOf ct).bind reg with
  | some c => rw [hb] at hs; simp only at hs; rw [hs] at h; cases h
  | none =>
    rw [hb] at hs
    cases ha : reg catchAll with
    | some c => rw [ha] at hs; simp only at hs; rw [hs] at h; cases h
    | none =>
      rw [ha] at hs
      obtain ⟨m, e, hn⟩ := hs
      rw [e] at h; cases h
      exact ⟨rfl, rfl, hn⟩

/-! ### parameters and letter case play no part; absent header -/

/-- Parameters are ignored: values that agree in front of the first `;` select alike. -/
theorem parameters_ignored {κ : Type} (reg : Bytes → Option κ) (ct ct' : Bytes)
    (h : beforeByte ct 59 = beforeByte ct' 59) : expected reg ct = expected reg ct' := by
  unfold expected mediaTypeOf; rw [h]

/-- in particular anything may follow the `;` — well-formed, malformed or duplicate parameters -/
theorem any_parameters {κ : Type} (reg : Bytes → Option κ) (m params : Bytes)
    (hm : m.all (· != 59) = true) : expected reg (m ++ 59 :: params) = expected reg m := by
  apply parameters_ignored
  unfold beforeByte
  rw [takeWhile_append_stop _ _ _ hm (by simp), takeWhile_of_all _ _ hm]

example : ([116, 47, 112] : Bytes).all (· != 59) = true := by decide

/-- Letter case of the header value plays no part. -/
theorem case_insensitive_lower (ct : Bytes) : mediaTypeOf (toLower ct) = mediaTypeOf ct := by
  unfold mediaTypeOf
  rw [toLower_beforeSemi, toLower_idem]

theorem case_insensitive_upper (ct : Bytes) : mediaTypeOf (toUpper ct) = mediaTypeOf ct := by
  unfold mediaTypeOf
  have : beforeByte (toUpper ct) 59 = toUpper (beforeByte ct 59) := by
    unfold beforeByte toUpper
    rw [List.takeWhile_map]
    congr 2
    funext b
    exact toUpperB_ne_semi b
  rw [this, toLower_toUpper]

/-- Header absent (no line whose name is `Content-Type` in any letter case): the default media type. -/
theorem absent_header_uses_default (h : Headers) (dflt : Bytes)
    (habs : ∀ e ∈ h, equalFold e.1 contentTypeName = false) : contentTypeOf h dflt = dflt := by
  rw [contentType_eq_spec]
  unfold specContentType
  have : (h.filter fun e => equalFold e.1 contentTypeName) = [] := by
    rw [List.filter_eq_nil_iff]
    intro a ha
    simp [habs a ha]
  rw [this]; rfl

example : ∀ e ∈ ([([88, 45, 65], [49])] : Headers), equalFold e.1 contentTypeName = false := by decide

/-! ### the adapter is the identity -/

/-- What the reader sees through `Code/Message/GetHeader/GetHeaders/Body` is the response: status
code, status text, for every name all the values sent under that name (letter case of the name
aside) in order, and the body bytes — whatever the configuration and the per-call options. -/
theorem adapter_is_identity (r : Resp) (qs : List Bytes) :
    adapterView r qs =
      ⟨r.code, r.status,
       qs.map (fun q => ((r.headers.filter fun e => equalFold e.1 q).map (·.2)).headD []),
       qs.map (fun q => (r.headers.filter fun e => equalFold e.1 q).map (·.2)), r.body⟩ := rfl

/-- and the reader is handed that view whenever it is called at all -/
theorem reader_sees_response {κ : Type} (cfg : Cfg κ) (op : Op) (resp : Resp) (c : κ) (v : View) (e : Bool)
    (h : (submit cfg op resp).out = .read c v e) : v = adapterView resp op.queries ∧ e = op.readerErr := by
  unfold submit finish at h
  split at h
  · cases h
  · split at h
    · cases h
    · simp only [Outcome.read.injEq] at h
      exact ⟨h.2.1.symm, h.2.2.symm⟩

/-! ### per-operation client and context take precedence -/

theorem op_client_wins {κ : Type} (cfg : Cfg κ) (op : Op) (resp : Resp) (h : op.client = true) :
    (submit cfg op resp).client = .op := by
  unfold submit
  rw [finish_client, chooseClient_eq_spec]
  simp [specClient, h]

theorem transport_client_otherwise {κ : Type} (cfg : Cfg κ) (op : Op) (resp : Resp) (h : op.client = false) :
    (submit cfg op resp).client = (if cfg.preset then .preset else .rt) := by
  unfold submit
  rw [finish_client, chooseClient_eq_spec]
  simp [specClient, h]

theorem op_context_wins {κ : Type} (cfg : Cfg κ) (op : Op) (resp : Resp) (h : op.ctx ≠ .absent) :
    (submit cfg op resp).ctx = .op := by
  rw [result_ctx, chooseCtx_eq_spec]
  simp [specCtx, h]

theorem transport_context_otherwise {κ : Type} (cfg : Cfg κ) (op : Op) (resp : Resp)
    (h : op.ctx = .absent) (h' : cfg.rtCtx ≠ .absent) : (submit cfg op resp).ctx = .rt := by
  rw [result_ctx, chooseCtx_eq_spec]
  simp [specCtx, h, h']

/-- a cancelled per-operation context stops the call whatever the transport's context is … -/
theorem cancelled_op_context_governs {κ : Type} (cfg : Cfg κ) (op : Op) (resp : Resp)
    (h : op.ctx = .cancelled) : (submit cfg op resp).out = .transportError := by
  rw [submit_out]
  simp [specCtx, h]

/-- … and a live one shields the call from a cancelled transport context -/
theorem live_op_context_governs {κ : Type} (cfg : Cfg κ) (op : Op) (resp : Resp)
    (h : op.ctx = .live) : (submit cfg op resp).out ≠ .transportError := by
  rw [submit_out]
  have hl : ((specCtx cfg op).2 == CtxState.cancelled) = false := by simp [specCtx, h]
  rw [hl]
  simp only [Bool.false_eq_true, if_false]
  cases selectConsumer cfg.reg (specContentType resp.headers cfg.dflt) <;> simp

example : (submit (κ := Bytes) ⟨[], regOfKeys [catchAll], false, .cancelled, false⟩
    ⟨false, .live, 30, false, [], 0⟩ ⟨200, [], [], []⟩).out ≠ .transportError := by decide

/-! ### the whole of Submit meets the Spec -/

/-- **Main theorem.** For every configuration (default media type, consumer registry of any kind,
preset or lazily created client, transport context), every per-call option set and every response
(status, header set, body), the outcome of the Submit model satisfies the property's Spec: right
client and context; and unless the governing context is already cancelled, the reader gets the
registered consumer, else the catch-all, with the response unchanged and its own result returned,
else the call fails naming the content type. -/
theorem submit_meets_spec {κ : Type} [DecidableEq κ] (cfg : Cfg κ) (op : Op) (resp : Resp) :
    specOk cfg op resp (submit cfg op resp) = true := by
  unfold specOk
  have hcl : (submit cfg op resp).client = specClient cfg op := by
    unfold submit; rw [finish_client, chooseClient_eq_spec]
  have hcx : (submit cfg op resp).ctx = (specCtx cfg op).1 := by
    rw [result_ctx, chooseCtx_eq_spec]
  rw [hcl, hcx, submit_out]
  simp only [beq_self_eq_true, Bool.true_and]
  split
  · simp
  · have hs := select_eq_expected cfg.reg (specContentType resp.headers cfg.dflt)
    cases he : expected cfg.reg (specContentType resp.headers cfg.dflt) with
    | consumer c =>
      rw [he] at hs
      simp only at hs
      rw [hs]
      simp only [adapter_is_identity, beq_self_eq_true]
    | failNaming =>
      rw [he] at hs
      obtain ⟨msg, e, hn⟩ := hs
      rw [e]
      exact hn

/-! ### concurrency (on the model) -/

/-- **Non-interference.** Take any family of fresh calls on one Runtime (any number, indexed by
ℕ) and ANY schedule of their steps. The local state of call `i` afterwards — chosen client,
chosen context, response received, result — is exactly what it is when call `i` runs alone for
the same number of its own steps. No other call's request, response or options enter into it. -/
theorem noninterference {κ : Type} (cfg : Cfg κ) (net : Op → Resp) (sh₀ : Shared)
    (cs : Nat → Call κ) (hfresh : ∀ j, (cs j).pc = 0) (sched : List Nat) (i : Nat) :
    (runSched cfg net sched (sh₀, cs)).2 i =
      (runSched cfg net (List.replicate (sched.count i) i) (sh₀, cs)).2 i := by
  rw [runSched_proj cfg net sh₀ sched sh₀ cs (inv_init sh₀ cs hfresh) i,
      runSched_proj cfg net sh₀ _ sh₀ cs (inv_init sh₀ cs hfresh) i, List.count_replicate_self]

example : ∀ j, ((fun n => Call.fresh (κ := Bytes) ⟨false, .absent, 30, false, [], n⟩) j).pc = 0 := fun _ => rfl

/-- **The shared client is memoised.** Whatever the schedule, `r.client` is either still what the
constructor left there or the one memoised value — the preset client, else the one built from
`r.Transport` — and it is that value from the moment any call is past its `clientOnce.Do`:
created at most once, never replaced, the same for every call. -/
theorem client_memoised {κ : Type} (cfg : Cfg κ) (net : Op → Resp) (sh₀ : Shared)
    (cs : Nat → Call κ) (hfresh : ∀ j, (cs j).pc = 0) (sched : List Nat) :
    ((runSched cfg net sched (sh₀, cs)).1.client = sh₀.client ∨
      (runSched cfg net sched (sh₀, cs)).1.client = some (sh₀.client.getD .rt)) ∧
    ∀ j, 2 ≤ ((runSched cfg net sched (sh₀, cs)).2 j).pc →
      (runSched cfg net sched (sh₀, cs)).1.client = some (sh₀.client.getD .rt) :=
  runSched_inv cfg net sh₀ sched sh₀ cs (inv_init sh₀ cs hfresh)

/-- **Each caller receives the response to its own request.** Once call `i` has been scheduled
for all its six steps (in any interleaving with any other calls), its result is the sequential
`submit` applied to ITS operation and to the wire's response to ITS request, under the
configuration the Runtime was built with. -/
theorem completed_call_result {κ : Type} (cfg : Cfg κ) (net : Op → Resp)
    (ops : Nat → Op) (sched : List Nat) (i : Nat) (hdone : 6 ≤ sched.count i) :
    ((runSched cfg net sched (Shared.init cfg, fun j => Call.fresh (ops j))).2 i).result =
      some (submit cfg (ops i) (net (ops i))) := by
  rw [runSched_proj cfg net (Shared.init cfg) sched _ _ (inv_init _ _ (fun _ => rfl)) i]
  obtain ⟨k, hk⟩ : ∃ k, sched.count i = 6 + k := ⟨sched.count i - 6, by omega⟩
  rw [hk, iter_add]
  have h6 : iter (lstep cfg net ((Shared.init cfg).client.getD .rt)) 6 (Call.fresh (κ := κ) (ops i)) =
      { op := ops i, pc := 6, ctx := some (chooseCtx (ops i).ctx cfg.rtCtx),
        client := some (chooseClient (ops i).client (sharedClient cfg.preset)),
        resp := some (net (ops i)),
        result := some (submit cfg (ops i) (net (ops i))) } := by
    simp only [iter, lstep, step, Call.fresh, Shared.init, submit, chooseClient, sharedClient]
    cases (ops i).client <;> cases cfg.preset <;> rfl
  rw [h6, iter_fixed _ _ (lstep_done cfg net _ _ (Nat.le_refl 6))]

example : 6 ≤ ([0, 1, 0, 1, 1, 0, 0, 1, 1, 0, 0, 1] : List Nat).count 1 := by decide

/-- …hence it satisfies the Spec of its own call, whatever the other calls did. -/
theorem concurrent_calls_meet_spec {κ : Type} [DecidableEq κ] (cfg : Cfg κ) (net : Op → Resp)
    (ops : Nat → Op) (sched : List Nat) (i : Nat) (hdone : 6 ≤ sched.count i) :
    ∃ r, ((runSched cfg net sched (Shared.init cfg, fun j => Call.fresh (ops j))).2 i).result = some r ∧
      specOk cfg (ops i) (net (ops i)) r = true :=
  ⟨_, completed_call_result cfg net ops sched i hdone, submit_meets_spec cfg (ops i) (net (ops i))⟩

/-! ### the full statement, and the part of it that is proved -/

/-- everything the property says about one call -/
def SequentialPart : Prop :=
  ∀ (κ : Type) [DecidableEq κ] (cfg : Cfg κ) (op : Op) (resp : Resp),
    specOk cfg op resp (submit cfg op resp) = true

/-- "each caller receiving the response to its own request", for all interleavings of any number
of calls, first (client-initialising) calls included — on the step model with `sync.Once` atomic -/
def InterleavingPart : Prop :=
  ∀ (κ : Type) [DecidableEq κ] (cfg : Cfg κ) (net : Op → Resp) (ops : Nat → Op) (sched : List Nat) (i : Nat),
    6 ≤ sched.count i →
    ((runSched cfg net sched (Shared.init cfg, fun j => Call.fresh (ops j))).2 i).result =
      some (submit cfg (ops i) (net (ops i)))

/-- The property in full. `DataRaceFree` stands for: "in every execution of N goroutines calling
Submit on one Runtime, at any GOMAXPROCS, no two conflicting memory accesses are unordered by the
Go memory model's happens-before" — a fact about the compiled program and the Go runtime
(`sync.Once`, `net/http`'s client and transport, map reads) that this model does not represent.
It is a parameter here precisely because nothing in Lean proves it. -/
def FullStatement (DataRaceFree : Prop) : Prop :=
  SequentialPart ∧ InterleavingPart ∧ DataRaceFree

/-- What is proved of `FullStatement`: everything except `DataRaceFree`. Missing: data-race
freedom itself (supported, not proved, by the `-race` build of the harness running concurrent
first calls with per-call tokens) and the atomicity of `sync.Once` (assumed by `step`). -/
theorem full_statement_partial : SequentialPart ∧ InterleavingPart :=
  ⟨fun _ _ cfg op resp => submit_meets_spec cfg op resp,
   fun _ _ cfg net ops sched i h => completed_call_result cfg net ops sched i h⟩

/-! ### `%q` is injective: the error message names *that* content type and no other -/

def unhex (c : UInt8) : UInt8 := if c < 58 then c - 48 else c - 87

/-- reads one quoted byte off the front of a `%q` body -/
def unq1 : Bytes → Option (UInt8 × Bytes)
  | [] => none
  | c :: r =>
    if c != 92 then some (c, r)
    else match r with
      | [] => none
      | e :: r' =>
        if e == 120 then
          match r' with
          | h1 :: h2 :: r'' => some (unhex h1 * 16 + unhex h2, r'')
          | _ => none
        else if e == 97 then some (7, r') else if e == 98 then some (8, r')
        else if e == 102 then some (12, r') else if e == 110 then some (10, r')
        else if e == 114 then some (13, r') else if e == 116 then some (9, r')
        else if e == 118 then some (11, r') else some (e, r')

theorem hex_round_nat : ∀ n, n < 256 →
    unhex (hexLow ((UInt8.ofNat n).toNat / 16)) * 16 + unhex (hexLow ((UInt8.ofNat n).toNat % 16)) = UInt8.ofNat n := by
  decide +kernel

theorem hex_round (b : UInt8) :
    unhex (hexLow (b.toNat / 16)) * 16 + unhex (hexLow (b.toNat % 16)) = b := by
  have h := hex_round_nat b.toNat b.toNat_lt
  simpa using h

theorem unq1_quoteByte : ∀ (b : UInt8) (rest : Bytes), unq1 (quoteByte b ++ rest) = some (b, rest) := by
  intro b rest
  have hx := hex_round b
  unfold quoteByte
  split
  · rename_i h; have : b = 34 := by simpa using h
    subst this; rfl
  split
  · rename_i h; have : b = 92 := by simpa using h
    subst this; rfl
  split
  · rename_i h1 h2 _
    have : (b != 92) = true := by simpa using h2
    simp [unq1, this]
  split
  · rename_i h; have : b = 7 := by simpa using h
    subst this; rfl
  split
  · rename_i h; have : b = 8 := by simpa using h
    subst this; rfl
  split
  · rename_i h; have : b = 12 := by simpa using h
    subst this; rfl
  split
  · rename_i h; have : b = 10 := by simpa using h
    subst this; rfl
  split
  · rename_i h; have : b = 13 := by simpa using h
    subst this; rfl
  split
  · rename_i h; have : b = 9 := by simpa using h
    subst this; rfl
  split
  · rename_i h; have : b = 11 := by simpa using h
    subst this; rfl
  · simp [unq1, hx]

theorem quoteBody_injective (a b : Bytes) (h : a.flatMap quoteByte = b.flatMap quoteByte) : a = b := by
  induction a generalizing b with
  | nil =>
    cases b with
    | nil => rfl
    | cons y ys =>
      have := unq1_quoteByte y (ys.flatMap quoteByte)
      simp only [List.flatMap_nil, List.flatMap_cons] at h
      rw [← h] at this; simp [unq1] at this
  | cons x xs ih =>
    cases b with
    | nil =>
      have := unq1_quoteByte x (xs.flatMap quoteByte)
      simp only [List.flatMap_nil, List.flatMap_cons] at h
      rw [h] at this; simp [unq1] at this
    | cons y ys =>
      have hx := unq1_quoteByte x (xs.flatMap quoteByte)
      have hy := unq1_quoteByte y (ys.flatMap quoteByte)
      simp only [List.flatMap_cons] at h
      rw [h, hy] at hx
      simp only [Option.some.injEq, Prod.mk.injEq] at hx
      rw [hx.1, ih ys hx.2.symm]

theorem goQuote_injective (a b : Bytes) (h : goQuote a = goQuote b) : a = b := by
  unfold goQuote at h
  exact quoteBody_injective a b (List.append_cancel_left (List.append_cancel_right h))

/-- Two "no consumer" messages are equal only for equal content types: the message names the very
content type of the response. -/
theorem noConsumerMsg_injective (a b : Bytes) (h : noConsumerMsg a = noConsumerMsg b) : a = b :=
  goQuote_injective a b (List.append_cancel_left h)


end RtVerif.C13
