import RtVerif.Lemmas.C03Main
import RtVerif.Lemmas.C03X
/-
  C03 — property theorems (the axiom audit counts exactly the theorems of this file).

  T1  integers of every declared width: value iff the last text is a literal `[+-]?[0-9]+` in range,
      otherwise 422 (code 601) — including the boundary literals ±2^(w-1).
  T2  the absent / empty / default / required / allowEmptyValue decision table, scalars and arrays.
  T3  arrays: items = splitByFormat of the last value (csv/ssv/tsv/pipes) or all repeated values
      (multi, query/formData only); every item converted like a scalar; first failing item → 422.
  T4  totality: no declaration the regenerated `typeForSchema` table allows makes `bind` panic.
  T5  header parameters are looked up case-insensitively.
  The theorems about `number`, registered formats and validations are parametric in the external
  functions (`parseFloatFor` hand model, `Ext` graph): see `C03_partial` at the end.

  Deepening (Model/C03X.lean):
  TF1-TF5  `type: file` and form requests part by part: the last file part of the declared name with its
      whole content and header; missing → 422 (required) / the zero file; file parts are not texts and
      texts are not files; no panic; text parameters of a form refine `C03_holds_outside_known`.
  TS1-TS6  struct targets: the width and sign of the FIELD decide what is accepted (never truncated or
      wrapped), the declared `int32` range by the validator; pointer fields (nil / pointer to the value,
      validated through the pointer); field lookup by exact exported name; no panic for any field kind;
      the map-target model is the struct-target model at the kind `typeForSchema` picks.
  C03S_holds_outside_known  the refinement theorem for struct targets, outside F03d, F03e, F03h, F03i.
  TM1-TM3  several parameters of one operation (Model/C03M.lean): the multi-parameter bind is the product of
      the single binds (independence), so the Spec lifts parameter by parameter and to the operation (the
      handler runs iff every parameter is bound; otherwise 422, justified by some parameter's Spec).
-/
namespace RtVerif.C03
open RtVerif Bytes

/-! ## witnesses used by the non-vacuity examples (definitions, not theorems) -/

def exDecl (name : Bytes) (loc : Loc) (ty format : String) : Decl :=
  { name := name, loc := loc, ty := ty, format := format, itemsTy := "", itemsFormat := "", cf := "",
    required := false, allowEmpty := false, default := none, valid := [], ext := none }

/-- `limit` -/
def nLimit : Bytes := [108, 105, 109, 105, 116]
/-- `x-rate` / `X-RATE` -/
def nXRateLower : Bytes := [120, 45, 114, 97, 116, 101]
def nXRateUpper : Bytes := [88, 45, 82, 65, 84, 69]

/-! ## T1 — integers -/

/-- `typeForSchema` (regenerated table) gives every integer format the Go type of that width. -/
theorem T1_integer_kind (ext : Option Ext) (fmt : String) :
    scalarKind ext "integer" fmt = some (.int (widthOf fmt)) := by
  by_cases h8 : fmt = "int8"
  · subst h8; rfl
  by_cases h16 : fmt = "int16"
  · subst h16; rfl
  by_cases h32 : fmt = "int32"
  · subst h32; rfl
  by_cases h64 : fmt = "int64"
  · subst h64; rfl
  have e8 : ("int8" == fmt) = false := by simp only [beq_eq_false_iff_ne, ne_eq]; exact fun e => h8 e.symm
  have e16 : ("int16" == fmt) = false := by simp only [beq_eq_false_iff_ne, ne_eq]; exact fun e => h16 e.symm
  have e32 : ("int32" == fmt) = false := by simp only [beq_eq_false_iff_ne, ne_eq]; exact fun e => h32 e.symm
  have e64 : ("int64" == fmt) = false := by simp only [beq_eq_false_iff_ne, ne_eq]; exact fun e => h64 e.symm
  have hw : widthOf fmt = 64 := by simp [widthOf, h8, h16, h32]
  rw [hw]
  simp only [scalarKind, lookupTable, Facts.c03TypeTable, List.find?, e8, e16, e32, e64]
  by_cases hs : ("*" == fmt) = true
  · simp [hs, skindOfGo]
  · simp [hs, skindOfGo]

/-- **T1.** An `integer` parameter (any format) whose key is present with a non-empty last text `t`:
the handler receives `v` of the declared width iff `t` is a literal `[+-]?[0-9]+` denoting `v` within
that width; every other text is answered 422 (invalid type) naming the parameter. -/
theorem T1_integer_binding (d : Decl) (r : Req) (vs : List Bytes) (hv : Bool) (t : Bytes)
    (hty : d.ty = "integer") (hval : d.valid = [])
    (hg : getOK d r = (vs, true, hv)) (ht : lastOr vs = t) (hne : t ≠ []) :
    (∀ v, bind d r = .value (.scalar (.int (widthOf d.format) v)) ↔
        Num.IntLit t v ∧ Num.fitsInt (widthOf d.format) v) ∧
    ((¬ ∃ v, Num.IntLit t v ∧ Num.fitsInt (widthOf d.format) v) → bind d r = .e422 601) := by
  have hk : typeForSchema d = some (.scalar (.int (widthOf d.format))) := by
    simp [typeForSchema, hty, T1_integer_kind]
  have hw : 1 ≤ widthOf d.format ∧ widthOf d.format ≤ 64 := by
    rcases widthOf_mem d.format with h | h | h | h <;> rw [h] <;> decide
  have hte : t.isEmpty = false := by cases t with | nil => exact (hne rfl).elim | cons _ _ => rfl
  have hset : ∀ dv, setFieldValue d (.int (widthOf d.format)) dv t true = convertInt (widthOf d.format) t := by
    intro dv
    simp [setFieldValue, requiredFails, hte, int_handled, convertText]
  obtain ⟨hiff, herr⟩ := convertInt_iff (widthOf d.format) hw t
  have hraw : bindRaw d r = itemOut (convertInt (widthOf d.format) t) := by
    simp only [bindRaw, hk, bindScalar, hg, ht, hset]
  constructor
  · intro v
    rw [← hiff v]
    unfold bind
    rw [hraw]
    cases hc : convertInt (widthOf d.format) t with
    | err c => simp [itemOut, validated]
    | ok x =>
      obtain ⟨v0, rfl⟩ := convertInt_shape hc
      simp [itemOut, validated, validate, validateScalar, hval]
  · intro hno
    unfold bind
    rw [hraw, herr hno]
    rfl

/-- **T1, boundaries.** For every width the greatest and least literals are bound, their neighbours
outside are rejected (the texts are the decimal renderings of ±2^(w-1) and the values next to them). -/
theorem T1_boundaries (w : Nat) (hw : w = 8 ∨ w = 16 ∨ w = 32 ∨ w = 64) :
    convertText none (.int w) (Num.formatInt (2 ^ (w - 1) - 1)) = .ok (.int w (2 ^ (w - 1) - 1)) ∧
    convertText none (.int w) (Num.formatInt (2 ^ (w - 1))) = .err 601 ∧
    convertText none (.int w) (Num.formatInt (-(2 ^ (w - 1)))) = .ok (.int w (-(2 ^ (w - 1)))) ∧
    convertText none (.int w) (Num.formatInt (-(2 ^ (w - 1)) - 1)) = .err 601 := by
  rcases hw with rfl | rfl | rfl | rfl <;> decide

/-- **T1, every value.** The decimal rendering of any integer of the declared width is bound to that
integer (so every value of the type is reachable, not only the boundaries). -/
theorem T1_decimal_rendering (ext : Option Ext) (w : Nat) (hw : w = 8 ∨ w = 16 ∨ w = 32 ∨ w = 64) (v : Int)
    (hf : Num.fitsInt w v) : convertText ext (.int w) (Num.formatInt v) = .ok (.int w v) := by
  have hw' : 1 ≤ w ∧ w ≤ 64 := by rcases hw with rfl | rfl | rfl | rfl <;> decide
  exact ((convertInt_iff w hw' (Num.formatInt v)).1 v).2 ⟨Num.formatInt_lit v, hf⟩

/-- non-vacuity of T1's hypotheses: `?limit=1&limit=-128` on an `int8` query parameter -/
example :
    getOK (exDecl nLimit .query "integer" "int8") ⟨nLimit, some [[49], [45, 49, 50, 56]]⟩
        = ([[49], [45, 49, 50, 56]], true, true) ∧
    bind (exDecl nLimit .query "integer" "int8") ⟨nLimit, some [[49], [45, 49, 50, 56]]⟩
        = .value (.scalar (.int 8 (-128))) := by
  decide

/-! ## T2 — the absent / empty / default / required / allowEmptyValue table -/

/-- **T2, scalars.** `dv` is the declared default (`d.default` when it is a scalar). Rows:
absent → default, else 422-required when required, else the zero value;
present but empty → default, else 422-required when required without allowEmptyValue, else zero;
present and non-empty → the text is converted, whatever required/default/allowEmptyValue say. -/
theorem T2_scalar_table (d : Decl) (k : SKind) (dv : Option DefScalar) (t : Bytes)
    (hk : k.handled = true) (hnr : ∀ b n, k ≠ .reg b n) (hd : d.default.isSome = dv.isSome) :
    (setFieldValue d k dv [] false =
      match dv with
      | some x => defaultScalar d.ext k x
      | none => if d.required then .err 602 else .ok (zeroScalar k)) ∧
    (setFieldValue d k dv [] true =
      match dv with
      | some x => defaultScalar d.ext k x
      | none => if d.required && !d.allowEmpty then .err 602 else .ok (zeroScalar k)) ∧
    (t ≠ [] → setFieldValue d k dv t true = convertText d.ext k t) := by
  have hnone : d.default.isNone = !dv.isSome := by
    rw [← hd]; cases d.default <;> rfl
  have hreg : k.isReg = false := by
    cases k <;> first | rfl | (rename_i b n; exact (hnr b n rfl).elim)
  have hempty : emptyNoDefault d.ext k = .ok (zeroScalar k) := by
    cases k <;> first | rfl | (rename_i b n; exact (hnr b n rfl).elim)
  refine ⟨?_, ?_, ?_⟩
  · cases dv with
    | some x => simp [setFieldValue, requiredFails, hnone, hk, emptyValue]
    | none =>
      cases hr : d.required <;> simp [setFieldValue, requiredFails, hnone, hk, emptyValue, hempty, hr]
  · cases dv with
    | some x => simp [setFieldValue, requiredFails, hnone, hk, emptyValue]
    | none =>
      cases hr : d.required <;> cases ha : d.allowEmpty <;>
        simp [setFieldValue, requiredFails, hnone, hk, emptyValue, hempty, hr, ha]
  · intro hne
    have hte : t.isEmpty = false := by cases t with | nil => exact (hne rfl).elim | cons _ _ => rfl
    simp [setFieldValue, requiredFails, hte, hk]

example : (SKind.int 32).handled = true ∧ (∀ b n, SKind.int 32 ≠ .reg b n) := by
  constructor
  · decide
  · intro b n h; cases h

/-- **T2, arrays.** No item at all (`data = []`: key absent, value empty, or only separators/blanks):
the declared default (item by item), else 422-required, else the empty list. -/
theorem T2_array_table (d : Decl) (k : SKind) (hk : k.handled = true) :
    (d.default = none →
      setSliceFieldValue d k [] false = (if d.required then .e422 602 else .value (.list (tagOf k) [])) ∧
      setSliceFieldValue d k [] true =
        (if d.required && !d.allowEmpty then .e422 602 else .value (.list (tagOf k) []))) ∧
    (∀ items, d.default = some (.arr items) → ∀ hasKey,
      setSliceFieldValue d k [] hasKey = listOut k (items.map (defaultScalar d.ext k))) := by
  constructor
  · intro hdn
    constructor
    · cases hr : d.required <;> simp [setSliceFieldValue, sliceRequiredFails, sliceDefault, hdn, hr]
    · cases hr : d.required <;> cases ha : d.allowEmpty <;>
        simp [setSliceFieldValue, sliceRequiredFails, sliceDefault, hdn, hr, ha]
  · intro items hdi hasKey
    have hitem : ∀ it, setFieldValue d k (some it) [] true = defaultScalar d.ext k it := by
      intro it
      simp [setFieldValue, requiredFails, hdi, hk, emptyValue]
    simp [setSliceFieldValue, sliceRequiredFails, sliceDefault, hdi, hitem]

/-! ## T3 — arrays -/

/-- **T3, splitting.** `swag.SplitByFormat` is: split the text on the separator of the collection
format, trim every piece, drop the empty ones; nothing for the empty text and for `multi`. -/
theorem T3_split (data : Bytes) (cf : String) :
    splitByFormat data cf =
      match sepOf cf with
      | some sep => if data = [] then [] else ((splitByte sep data).map trimSpace).filter (fun x => !x.isEmpty)
      | none => [] := splitByFormat_eq data cf

/-- the separators -/
theorem T3_separators :
    sepOf "" = some 44 ∧ sepOf "csv" = some 44 ∧ sepOf "ssv" = some 32 ∧ sepOf "tsv" = some 9 ∧
    sepOf "pipes" = some 124 ∧ sepOf "multi" = none := by decide

/-- **T3, items.** Non-empty items are converted one by one like scalar texts; the array is bound
iff every item converts, otherwise the answer is the 422 of the first failing item. -/
theorem T3_items (d : Decl) (k : SKind) (data : List Bytes) (hk : k.handled = true ∨ k.isReg = true)
    (hne : data ≠ []) (hitems : ∀ t ∈ data, t ≠ []) :
    setSliceFieldValue d k data true = listOut k (data.map (convertText d.ext k)) := by
  have hh : (!k.handled && !k.isReg) = false := by
    rcases hk with h | h <;> simp [h]
  have hmap : data.map (fun t => setFieldValue d k none t true) = data.map (convertText d.ext k) := by
    apply List.map_congr_left
    intro t ht
    have hte : t.isEmpty = false := by
      cases t with | nil => exact (hitems [] ht rfl).elim | cons _ _ => rfl
    simp [setFieldValue, requiredFails, hte, hh]
  have hreq : sliceRequiredFails d true data = false := by
    cases data with
    | nil => exact (hne rfl).elim
    | cons t r =>
      have : t ≠ [] := hitems t (List.mem_cons_self ..)
      cases r with
      | nil => simp [sliceRequiredFails, this]
      | cons _ _ => simp [sliceRequiredFails]
  have hde : data.isEmpty = false := by cases data with | nil => exact (hne rfl).elim | cons _ _ => rfl
  simp [setSliceFieldValue, hreq, hde, hmap]

/-- the items produced by splitting are never empty, so `T3_items` applies to them -/
theorem T3_split_nonempty (data : Bytes) (cf : String) : ∀ t ∈ splitByFormat data cf, t ≠ [] := by
  intro t ht
  rw [T3_split] at ht
  split at ht
  · split at ht
    · cases ht
    · simp only [List.mem_filter, List.mem_map] at ht
      intro e; subst e; simp at ht
  · cases ht

/-- **T3, which texts.** For an array declaration: with a separator format the items come from the
LAST value sent; with `multi` (query and formData only) every repeated value is an item; `multi` in a
header or path is answered 422 naming the parameter. -/
theorem T3_array_source (d : Decl) (r : Req) (k : SKind) (hk : typeForSchema d = some (.slice k)) :
    bindRaw d r =
      if d.cf == "multi" then
        (if allowsMulti d.loc then setSliceFieldValue d k (getOK d r).1 (getOK d r).2.1 else .e422 601)
      else if (getOK d r).2.2 then
        setSliceFieldValue d k (splitByFormat (lastOr (getOK d r).1) d.cf) (getOK d r).2.1
      else setSliceFieldValue d k [] (getOK d r).2.1 := by
  unfold bindRaw
  rw [hk]
  simp only [bindSlice]
  by_cases hm : (d.cf == "multi") = true
  · by_cases ha : allowsMulti d.loc = true <;> simp [hm, ha]
  · by_cases hv : (getOK d r).2.2 = true <;> simp [hm, hv]

/-- **T3, integer arrays.** Every item must be an in-range literal: the list of values is bound iff the
items are literals denoting exactly those values, in order. -/
theorem T3_integer_items (ext : Option Ext) (w : Nat) (hw : 1 ≤ w ∧ w ≤ 64) (data : List Bytes) (vs : List Scalar) :
    listOut (.int w) (data.map (convertText ext (.int w))) = .value (.list (tagOf (.int w)) vs) ↔
      ItemsDenote w data vs := by
  rw [listOut_value_iff]
  induction data generalizing vs with
  | nil =>
    cases vs with
    | nil => exact ⟨fun _ => .nil, fun _ => rfl⟩
    | cons _ _ => exact ⟨fun h => (by cases h), fun h => (by cases h)⟩
  | cons t r ih =>
    cases vs with
    | nil => exact ⟨fun h => (by cases h), fun h => (by cases h)⟩
    | cons s ss =>
      simp only [List.map_cons, List.cons.injEq, convertText]
      constructor
      · intro ⟨h1, h2⟩
        obtain ⟨v, rfl⟩ := convertInt_shape (w := w) (t := t) h1
        obtain ⟨hlit, hf⟩ := ((convertInt_iff w hw t).1 v).1 h1
        exact .cons hlit hf ((ih ss).1 h2)
      · intro h
        cases h with
        | cons hlit hf hr =>
          exact ⟨((convertInt_iff w hw t).1 _).2 ⟨hlit, hf⟩, (ih _).2 hr⟩

example : listOut (.int 8) ([[49], [43, 50]].map (convertText none (.int 8))) =
    .value (.list (tagOf (.int 8)) [.int 8 1, .int 8 2]) := by decide

/-! ## T4 — totality -/

/-- every (type, format) the description language allows for a non-body, non-file parameter has a Go
type in the regenerated `typeForSchema` table -/
theorem T4_table_total (ext : Option Ext) (ty fmt : String) (k : SKind)
    (h : specSKind ext ty fmt = some k) : scalarKind ext ty fmt = some k := by
  unfold specSKind at h
  by_cases hb : ty = "boolean"
  · subst hb
    simp only [beq_self_eq_true, if_true, Option.some.injEq] at h
    subst h
    simp only [scalarKind, lookupTable, Facts.c03TypeTable, List.find?]
    by_cases hs : ("*" == fmt) = true <;> simp [hs, skindOfGo]
  by_cases hi : ty = "integer"
  · subst hi
    simp only [show ("integer" == "boolean") = false by decide, Bool.false_eq_true, if_false,
      beq_self_eq_true, if_true, Option.some.injEq] at h
    subst h
    have := T1_integer_kind ext fmt
    simp only [widthOf] at this
    simpa [beq_iff_eq] using this
  by_cases hn : ty = "number"
  · subst hn
    simp only [show ("number" == "boolean") = false by decide, show ("number" == "integer") = false by decide,
      Bool.false_eq_true, if_false, beq_self_eq_true, if_true, Option.some.injEq] at h
    subst h
    by_cases hf : fmt = "float"
    · subst hf; rfl
    by_cases hd : fmt = "double"
    · subst hd; rfl
    have ef : ("float" == fmt) = false := by simp only [beq_eq_false_iff_ne, ne_eq]; exact fun e => hf e.symm
    have ed : ("double" == fmt) = false := by simp only [beq_eq_false_iff_ne, ne_eq]; exact fun e => hd e.symm
    have ef' : (fmt == "float") = false := by simp only [beq_eq_false_iff_ne, ne_eq]; exact hf
    simp only [scalarKind, lookupTable, Facts.c03TypeTable, List.find?, ef, ed, ef']
    by_cases hs : ("*" == fmt) = true <;> simp [hs, skindOfGo]
  by_cases hs : ty = "string"
  · subst hs
    simp only [show ("string" == "boolean") = false by decide, show ("string" == "integer") = false by decide,
      show ("string" == "number") = false by decide, Bool.false_eq_true, if_false, beq_self_eq_true, if_true] at h
    simp only [scalarKind, lookupTable, Facts.c03TypeTable, List.find?]
    by_cases hst : ("*" == fmt) = true
    · simp only [hst]
      cases ext <;> simp_all
    · simp only [hst]
      cases ext <;> simp_all
  · have e1 : (ty == "boolean") = false := by simp only [beq_eq_false_iff_ne, ne_eq]; exact hb
    have e2 : (ty == "integer") = false := by simp only [beq_eq_false_iff_ne, ne_eq]; exact hi
    have e3 : (ty == "number") = false := by simp only [beq_eq_false_iff_ne, ne_eq]; exact hn
    have e4 : (ty == "string") = false := by simp only [beq_eq_false_iff_ne, ne_eq]; exact hs
    simp [e1, e2, e3, e4] at h

/-- the Go type agrees with the declared type as the property reads it -/
theorem T4_kind_agrees (d : Decl) (k : Kind) (h : specKind d = some k) : typeForSchema d = some k := by
  unfold specKind at h
  unfold typeForSchema
  by_cases ha : (d.ty == "array") = true
  · simp only [ha, if_true] at h ⊢
    cases hs : specSKind d.ext d.itemsTy d.itemsFormat with
    | none => rw [hs] at h; cases h
    | some sk =>
      rw [hs] at h
      have ht : lookupTable Facts.c03TypeTable "array" "*" = some "slice" := by decide
      simp only [ht, T4_table_total _ _ _ _ hs]
      exact h
  · simp only [ha, Bool.false_eq_true, if_false] at h ⊢
    cases hs : specSKind d.ext d.ty d.format with
    | none => rw [hs] at h; cases h
    | some sk =>
      rw [hs] at h
      simp only [T4_table_total _ _ _ _ hs]
      exact h

/-- **T4.** Binding never panics for a declaration the description language allows (boolean, integer,
number, string — any format, registered or not — and arrays of those), whatever the request. -/
theorem T4_no_panic (d : Decl) (r : Req) (hk : (specKind d).isSome = true) : ∀ why, bind d r ≠ .panic why := by
  intro why
  obtain ⟨k, hk⟩ := Option.isSome_iff_exists.1 hk
  have ht := T4_kind_agrees d k hk
  have hlist : ∀ sk l, listOut sk l ≠ .panic why := by
    intro sk l; unfold listOut; split <;> simp
  have hs : ∀ sk data hasKey, setSliceFieldValue d sk data hasKey ≠ .panic why := by
    intro sk data hasKey
    unfold setSliceFieldValue
    split
    · simp
    · split
      · unfold sliceDefault
        split
        · exact hlist _ _
        · simp
        · simp
      · exact hlist _ _
  have hraw : bindRaw d r ≠ .panic why := by
    unfold bindRaw
    rw [ht]
    cases k with
    | scalar sk =>
      simp only [bindScalar]
      cases setFieldValue d sk (scalarDefault d) (lastOr (getOK d r).1) (getOK d r).2.1 <;> simp [itemOut]
    | slice sk =>
      simp only [bindSlice]
      split
      · split
        · simp
        · exact hs _ _ _
      · split
        · exact hs _ _ _
        · exact hs _ _ _
  unfold bind validated
  split
  · split <;> simp
  · rename_i o hnv
    exact hraw

/-- a declaration `type: number` without format is one of them (F03a, repaired): -/
example : (specKind (exDecl nLimit .query "number" "")).isSome = true := by decide

/-! ## T5 — header names are case-insensitive -/

/-- **T5.** For a header parameter the values the client sent under a name that equals the declared
name up to ASCII case are the ones the binder finds — and no others. -/
theorem T5_header_case_insensitive (d : Decl) (r : Req) (vs : List Bytes)
    (hl : d.loc = .header) (hv : r.values = some vs)
    (hn : d.name.all isTokenChar = true) (hk : r.key.all isTokenChar = true) :
    (equalFold d.name r.key = true → getOK d r = (vs, true, !vs.isEmpty)) ∧
    (equalFold d.name r.key = false → getOK d r = ([], false, false)) := by
  have hfact : Facts.c03HeaderLookupCanonical = true := by decide
  have hiff := canonHeader_eq_iff r.key d.name hk hn
  have hsym : equalFold r.key d.name = equalFold d.name r.key := by
    unfold equalFold
    cases h1 : (toLower r.key == toLower d.name) <;> cases h2 : (toLower d.name == toLower r.key) <;>
      simp_all
  constructor
  · intro he
    have : canonHeader r.key = canonHeader d.name := hiff.2 (hsym ▸ he)
    simp [getOK, hv, storedKey, lookupKey, hl, hfact, this]
  · intro he
    have : canonHeader r.key ≠ canonHeader d.name := by
      intro e
      have := hiff.1 e
      rw [hsym, he] at this; cases this
    simp [getOK, hv, storedKey, lookupKey, hl, hfact, this]

/-- `x-rate` declared in lower case, sent as `X-RATE` (F03c, repaired) -/
example :
    nXRateLower.all isTokenChar = true ∧ nXRateUpper.all isTokenChar = true ∧
    equalFold nXRateLower nXRateUpper = true ∧
    bind (exDecl nXRateLower .header "integer" "int32") ⟨nXRateUpper, some [[53]]⟩ = .value (.scalar (.int 32 5)) := by
  decide

/-! ## The refinement theorem -/

/-- **C03.** For every well-formed declaration (`Decl.wf`: a type the description language allows, a
well-typed default, `multi` only in query/formData, header names that are tokens; the external strfmt
graph unmarshals the empty text and named string types render as their text) and every request
(`Req.wf`: a sent key has a value, a route holds one value per path parameter), outside the two
recorded finding classes (F03d number texts, F03e boolean texts): the model's `bind` yields exactly
what the Spec — written from the property text — expects: the denoted value (last occurrence / split
or repeated items / declared default / zero value), or 422 naming the parameter, and never a panic. -/
theorem C03_holds_outside_known (d : Decl) (r : Req) (hd : d.wf = true) (hr : Req.wf d r = true)
    (hk : known d r = none) : specOk d r (bind d r) = true := by
  obtain ⟨g1, g2, g3, _⟩ := getOK_spec d r hd hr
  have hd0 := hd
  unfold Decl.wf at hd
  simp only [Bool.and_eq_true] at hd
  obtain ⟨⟨hext, _⟩, h3⟩ := hd
  have hext : extOk d.ext = true := hext
  unfold specOk specExpect bind
  cases hsk : specKind d with
  | none => rw [hsk] at h3; cases h3
  | some K =>
    rw [hsk] at h3
    have hty := T4_kind_agrees d K hsk
    unfold bindRaw
    rw [hty]
    cases K with
    | scalar k =>
      obtain ⟨harr, hspec⟩ := specKind_scalar hsk
      have hkc := specSKind_cases _ _ _ _ hspec
      have hdef : d.default = none ∨ ∃ dv, d.default = some (.scalar dv) := by
        cases hdd : d.default with
        | none => exact .inl rfl
        | some x =>
          cases x with
          | scalar dv => exact .inr ⟨dv, rfl⟩
          | arr _ => rw [hdd] at h3; simp at h3
      have hkn : textKnown k (lastOr ((specTexts d r).getD [])) = none := by
        have hdk : declaredSKind d = some k := by simp [declaredSKind, hsk]
        simp only [known, hdk, convertedTexts, harr, Bool.false_eq_true, if_false, List.findSome?_cons,
          List.findSome?_nil] at hk
        rw [g1] at hk
        cases htk : textKnown k (lastOr ((specTexts d r).getD [])) with
        | none => rfl
        | some x => rw [htk] at hk; cases hk
      simp only [bindScalar, g1, g2]
      exact scalar_main d k (specTexts d r) hkc hext hdef hkn
    | slice k =>
      obtain ⟨harr, hspec⟩ := specKind_slice hsk
      have hkc := specSKind_cases _ _ _ _ hspec
      simp only [Bool.and_eq_true, Bool.or_eq_true, bne_iff_ne, ne_eq] at h3
      obtain ⟨⟨_, hmulti⟩, hdd⟩ := h3
      have hdef : d.default = none ∨ ∃ ds, d.default = some (.arr ds) := by
        cases hd1 : d.default with
        | none => exact .inl rfl
        | some x =>
          cases x with
          | arr ds => exact .inr ⟨ds, rfl⟩
          | scalar _ => rw [hd1] at hdd; simp at hdd
      have hdk : declaredSKind d = some k := by simp [declaredSKind, hsk]
      simp only [known, hdk, convertedTexts, harr, if_true] at hk
      have hall : ∀ t ∈ (if (d.cf == "multi") = true then (getOK d r).1
          else splitByFormat (lastOr (getOK d r).1) d.cf), textKnown k t = none := by
        intro t ht
        exact (List.findSome?_eq_none_iff.1 hk) t ht
      by_cases hm : (d.cf == "multi") = true
      · have hallow : allowsMulti d.loc = true := by
          rcases hmulti with h | h
          · exact (h (by simpa using hm)).elim
          · exact h
        simp only [hm, hallow, Bool.not_true, Bool.and_false, Bool.false_eq_true, if_false, if_true, bindSlice]
        rw [g2]
        simp only [hm, if_true] at hall
        apply slice_main d k (specTexts d r) (getOK d r).1 hkc hext hdef
        · simp [specItems, hm, g1]
        · intro hne
          cases hst : specTexts d r with
          | none => rw [g1, hst] at hne; exact (hne rfl).elim
          | some _ => rfl
        · exact hall
      · have hm' : (d.cf == "multi") = false := by simpa using hm
        simp only [hm', Bool.false_and, Bool.false_eq_true, if_false, bindSlice]
        simp only [hm', Bool.false_eq_true, if_false] at hall
        have hsplit := specItems_split d (specTexts d r) hm'
        rw [← g1] at hsplit
        by_cases hv : (getOK d r).2.2 = true
        · simp only [hv, Bool.not_true, Bool.false_eq_true, if_false]
          rw [g2]
          apply slice_main d k (specTexts d r) _ hkc hext hdef hsplit.symm
          · intro hne
            cases hst : specTexts d r with
            | none =>
              rw [g1, hst] at hne
              exact (hne (by simp [lastOr, splitByFormat])).elim
            | some _ => rfl
          · exact hall
        · have hv' : (getOK d r).2.2 = false := by simpa using hv
          simp only [hv', Bool.not_false, if_true]
          rw [g2]
          have hnil : specItems d (specTexts d r) = [] := by
            rw [hsplit, g3 hv']; simp [splitByFormat]
          apply slice_main d k (specTexts d r) [] hkc hext hdef hnil.symm
          · intro hne; exact (hne rfl).elim
          · intro t ht; cases ht

/-- non-vacuity: the witness of T1's example meets `Decl.wf`, `Req.wf` and lies outside the finding classes -/
example :
    (exDecl nLimit .query "integer" "int8").wf = true ∧
    Req.wf (exDecl nLimit .query "integer" "int8") ⟨nLimit, some [[49], [45, 49, 50, 56]]⟩ = true ∧
    known (exDecl nLimit .query "integer" "int8") ⟨nLimit, some [[49], [45, 49, 50, 56]]⟩ = none := by
  decide

/-! ## Known findings are real in the model -/

/-- F03d: `inf` is bound to +Inf by a `number` parameter although it is no decimal literal. -/
theorem F03d_real :
    ∃ d r, d.wf = true ∧ known d r = some "F03d" ∧ specOk d r (bind d r) = false :=
  ⟨exDecl nLimit .query "number" "double", ⟨nLimit, some [[105, 110, 102]]⟩, by decide⟩

/-- F03e: `banana` is bound to `false` by a `boolean` parameter instead of being rejected. -/
theorem F03e_real :
    ∃ d r, d.wf = true ∧ known d r = some "F03e" ∧ specOk d r (bind d r) = false :=
  ⟨exDecl nLimit .query "boolean" "", ⟨nLimit, some [[98, 97, 110, 97, 110, 97]]⟩, by decide⟩

/-! ## TF — `type: file` parameters and form requests part by part -/

/-- **TF1 (the value, last occurrence).** In a multipart request whose parts are `pre ++ p :: post`, `p` a
file part (a part with a file name) under the declared name and no later file part under that name: the
handler receives a `runtime.File` with exactly `p`'s content (every byte, whatever its length), size,
file name and field name — whatever precedes it (earlier file parts of the same name included), whether
the parameter is required or not. -/
theorem TF1_last_occurrence (name : Bytes) (required : Bool) (pre post : List Part) (p : Part)
    (hn : p.name = name) (hf : p.filename ≠ [])
    (hpost : ∀ q ∈ post, ¬ (q.name = name ∧ q.filename ≠ [])) :
    bindFile name required .multipart (pre ++ p :: post) =
      .file p.filename p.content.length p.content name := by
  have hx : (fun q : Part => q.name == name && q.isFile) p = true := by
    simp [Part.isFile, hn, hf]
  have hp : ∀ q ∈ post, (fun q : Part => q.name == name && q.isFile) q = false := by
    intro q hq
    have := hpost q hq
    simp only [Part.isFile]
    by_cases h1 : q.name = name
    · have h2 : q.filename = [] := by
        apply Classical.byContradiction; intro h; exact this ⟨h1, h⟩
      simp [h2]
    · simp [h1]
  simp only [bindFile, formGate, pickFile_last, filesOf]
  rw [getLast?_filter_append _ pre post p hx hp]
  simp [hn]

example : bindFile [117] true .multipart
    ([⟨[117], [97], [1, 2]⟩, ⟨[120], [], [9]⟩] ++ ⟨[117], [98], [0, 255, 13, 10]⟩ :: [⟨[117], [], [7]⟩]) =
    .file [98] 4 [0, 255, 13, 10] [117] := by decide

/-- **TF2 (missing).** No file part under the declared name in a multipart request (text fields of that
name do not count), or a urlencoded form (which cannot carry files): a required file parameter is
answered 422 (required) and the handler does not run; an optional one is bound to the zero
`runtime.File`. -/
theorem TF2_missing (name : Bytes) (required : Bool) (mode : FormMode) (parts : List Part)
    (h : mode = .urlencoded ∨ (mode = .multipart ∧ ∀ q ∈ parts, ¬ (q.name = name ∧ q.filename ≠ []))) :
    bindFile name required mode parts = if required then .out (.e422 602) else .nilFile := by
  rcases h with rfl | ⟨rfl, hno⟩
  · simp [bindFile, formGate, missingFile_eq]
  · have : filesOf name parts = [] := by
      apply List.filter_eq_nil_iff.2
      intro q hq
      have := hno q hq
      simp only [Part.isFile]
      by_cases h1 : q.name = name
      · have h2 : q.filename = [] := by
          apply Classical.byContradiction; intro h; exact this ⟨h1, h⟩
        simp [h2]
      · simp [h1]
    simp [bindFile, formGate, pickFile_last, this, missingFile_eq]

example : bindFile [117] true .multipart [⟨[117], [], [104, 105]⟩, ⟨[85], [97], [1]⟩] = .out (.e422 602) := by decide

/-- **TF3 (Spec).** For every name, every request mode and every list of parts the model of the
`type: file` branch yields what the Spec — written from the property text — expects: the last file part
of that name with its content and header, the zero file / 422 when there is none, and for a request that
is not a parseable form an error answer without the handler; it never panics. -/
theorem TF3_file_spec (name : Bytes) (required : Bool) (mode : FormMode) (parts : List Part) :
    fileOk (specFile name required mode parts) (bindFile name required mode parts) = true := by
  cases mode with
  | multipart =>
    simp only [specFile, bindFile, formGate, pickFile_last, filesOf_eq]
    cases hl : (parts.filter (fun p => p.name == name && !p.filename.isEmpty)).getLast? with
    | none => cases required <;> simp [fileOk, missingFile_eq, isE422]
    | some p => simp [fileOk]
  | urlencoded => cases required <;> simp [specFile, bindFile, formGate, fileOk, missingFile_eq, isE422]
  | truncated => simp [specFile, bindFile, formGate, fileOk]
  | nobody => simp [specFile, bindFile, formGate, fileOk]
  | other => simp [specFile, bindFile, formGate, fileOk]

/-- never a panic, for any request -/
theorem TF3_file_no_panic (name : Bytes) (required : Bool) (mode : FormMode) (parts : List Part) (why : String) :
    bindFile name required mode parts ≠ .out (.panic why) := by
  intro h
  have := TF3_file_spec name required mode parts
  rw [h] at this
  cases specFile name required mode parts <;> simp [fileOk] at this

/-- **TF4 (file parts are not texts).** For a text parameter of a multipart request the file parts do
not count: the outcome is that of the request without them. -/
theorem TF4_text_ignores_file_parts (d : Decl) (parts : List Part) :
    bindFormText d .multipart parts = bindFormText d .multipart (parts.filter (fun p => !p.isFile)) := by
  have : valuesOf .multipart d.name (parts.filter (fun p => !p.isFile)) = valuesOf .multipart d.name parts := by
    simp only [valuesOf, List.filter_filter]
    congr 1
    apply List.filter_congr
    intro p _
    cases p.isFile <;> simp
  simp only [bindFormText, formGate, formReq, this]

/-- **TF5 (text parameters of a form).** For a well-formed text declaration `in: formData` and a
multipart or urlencoded request given part by part (outside the recorded classes F03d, F03e): the model
yields what the Spec expects for the texts of the TEXT parts of the declared name — the file parts of
that name are not among them. -/
theorem TF5_form_text_spec (d : Decl) (mode : FormMode) (parts : List Part)
    (hm : mode = .multipart ∨ mode = .urlencoded) (hd : d.wf = true)
    (hl : d.loc = .form ∨ d.loc = .mform) (hk : known d (formReq d mode parts) = none) :
    fileOk (specFormText d mode parts) (bindFormText d mode parts) = true := by
  have hr : Req.wf d (formReq d mode parts) = true := by
    simp only [Req.wf, formReq]
    rcases hl with h | h <;> rw [h] <;>
      by_cases he : (valuesOf mode d.name parts).isEmpty = true <;> simp_all
  have hmain := C03_holds_outside_known d (formReq d mode parts) hd hr hk
  have hto : ∀ e o, fileOk (.text e) (.out o) = okFor e o := by
    intro e o; cases o <;> cases e <;> rfl
  rcases hm with rfl | rfl
  · simp only [specFormText, bindFormText, formGate, ← formReq_spec, hto]
    exact hmain
  · simp only [specFormText, bindFormText, formGate, ← formReq_spec, hto]
    exact hmain

example : (fileTextDecl nLimit "integer" true).wf = true ∧
    known (fileTextDecl nLimit "integer" true) (formReq (fileTextDecl nLimit "integer" true) .multipart
      [⟨nLimit, [97], [55]⟩, ⟨nLimit, [], [52, 49]⟩]) = none ∧
    bindFormText (fileTextDecl nLimit "integer" true) .multipart [⟨nLimit, [97], [55]⟩, ⟨nLimit, [], [52, 49]⟩] =
      .out (.value (.scalar (.int 32 41))) := by decide

/-! ## TS — struct targets of `UntypedRequestBinder.Bind` -/

/-- **TS1 (width of a signed field).** Whatever the declared integer format: a non-empty text bound into
an `int8 … int64` / `int` field yields `v` iff the text is a literal `[+-]?[0-9]+` denoting `v` within the
FIELD's width; every other text is answered 422 — nothing is truncated or wrapped. -/
theorem TS1_signed_field (ext : Option Ext) (w' : Nat) (p : Bool) (t : Bytes)
    (hw' : w' = 8 ∨ w' = 16 ∨ w' = 32 ∨ w' = 64) :
    (∀ v, convertTextT ext (.s (.int w') p) t = .ok (.int w' v) ↔ Num.IntLit t v ∧ Num.fitsInt w' v) ∧
    ((¬ ∃ v, Num.IntLit t v ∧ Num.fitsInt w' v) → convertTextT ext (.s (.int w') p) t = .err 601) :=
  convertInt_iff w' (widths_le hw') t

/-- **TS1 (width of an unsigned field).** A text bound into a `uint8 … uint64` / `uint` field yields `n`
iff it is a string of decimal digits denoting `n < 2^bits`; every other text (a sign included) is
answered 422. -/
theorem TS1_unsigned_field (ext : Option Ext) (b : Nat) (p : Bool) (t : Bytes)
    (hb : b = 8 ∨ b = 16 ∨ b = 32 ∨ b = 64) :
    (∀ n : Nat, convertTextT ext (.uint b p) t = .ok (.int b n) ↔
        t ≠ [] ∧ (∀ c ∈ t, Num.isDigit c = true) ∧ n = Num.natOfDigits t ∧ n < 2 ^ b) ∧
    ((¬ (t ≠ [] ∧ (∀ c ∈ t, Num.isDigit c = true) ∧ Num.natOfDigits t < 2 ^ b)) →
        convertTextT ext (.uint b p) t = .err 601) := by
  have hb64 : 2 ^ b ≤ 2 ^ 64 := Nat.pow_le_pow_right (by decide) (widths_le hb).2
  simp only [convertTextT, convertUint]
  constructor
  · intro n
    cases hp : Num.parseUint10 64 t with
    | error e =>
      simp only [reduceCtorEq, false_iff]
      intro ⟨h1, h2, h3, h4⟩
      have := (Num.parseUint10_ok_iff 64 t n).2 ⟨h1, h2, h3, by omega⟩
      rw [hp] at this; cases this
    | ok m =>
      obtain ⟨h1, h2, h3, _⟩ := (Num.parseUint10_ok_iff 64 t m).1 hp
      subst h3
      by_cases hlt : Num.natOfDigits t < 2 ^ b
      · simp only [hlt, if_true, ItemOut.ok.injEq, Scalar.int.injEq, true_and]
        constructor
        · intro h
          have : Num.natOfDigits t = n := by exact_mod_cast h
          exact ⟨h1, h2, this.symm, this ▸ hlt⟩
        · intro ⟨_, _, h, _⟩; rw [h]
      · simp only [hlt, if_false, reduceCtorEq, false_iff]
        intro ⟨_, _, h, h'⟩
        rw [h] at h'; exact hlt h'
  · intro hno
    cases hp : Num.parseUint10 64 t with
    | error e => rfl
    | ok m =>
      obtain ⟨h1, h2, h3, _⟩ := (Num.parseUint10_ok_iff 64 t m).1 hp
      subst h3
      have hlt : ¬ Num.natOfDigits t < 2 ^ b := fun h => hno ⟨h1, h2, h⟩
      simp [hlt]

/-- **TS1, boundaries.** For every width of a signed field the greatest and least literals are bound,
their neighbours outside are answered 422; for every width of an unsigned field `2^b - 1` is bound,
`2^b` and `-1` are answered 422. -/
theorem TS1_boundaries (w : Nat) (hw : w = 8 ∨ w = 16 ∨ w = 32 ∨ w = 64) :
    convertTextT none (.s (.int w) false) (Num.formatInt (2 ^ (w - 1) - 1)) = .ok (.int w (2 ^ (w - 1) - 1)) ∧
    convertTextT none (.s (.int w) false) (Num.formatInt (2 ^ (w - 1))) = .err 601 ∧
    convertTextT none (.s (.int w) false) (Num.formatInt (-(2 ^ (w - 1)))) = .ok (.int w (-(2 ^ (w - 1)))) ∧
    convertTextT none (.s (.int w) false) (Num.formatInt (-(2 ^ (w - 1)) - 1)) = .err 601 ∧
    convertTextT none (.uint w false) (Num.formatInt (2 ^ w - 1)) = .ok (.int w (2 ^ w - 1)) ∧
    convertTextT none (.uint w false) (Num.formatInt (2 ^ w)) = .err 601 ∧
    convertTextT none (.uint w false) (Num.formatInt (-1)) = .err 601 := by
  rcases hw with rfl | rfl | rfl | rfl <;> decide

/-- **TS2 (the declared `int32` range).** A field wider than a declared `format: int32` does not widen
the parameter: the validator's range check answers 422 for a value outside the int32 range. (No such
check exists for `int8` / `int16`: finding F03h.) -/
theorem TS2_int32_range (d : Decl) (x : Nat) (v : Int) (hty : d.ty = "integer") (hfmt : d.format = "int32")
    (hv : ¬ Num.fitsInt 32 v) :
    validatedT d (.value (.plain (.scalar (.int x v)))) = .e422 422 ∧
    validatedT d (.value (.ptr (some (.int x v)))) = .e422 422 := by
  have hr : rangeFails d.ty d.format (.int x v) = true := by simp [rangeFails, hty, hfmt, hv]
  simp [validatedT, validateT, hr, fact_deref]

/-- `3000000000` for a parameter declared `format: int32`, in an `int64` field and behind a `*int64` -/
example : (exDecl nLimit .query "integer" "int32").ty = "integer" ∧ ¬ Num.fitsInt 32 3000000000 ∧
    validatedT (exDecl nLimit .query "integer" "int32")
      (bindRawT ⟨.s (.int 64) false, false⟩ (exDecl nLimit .query "integer" "int32")
        ⟨nLimit, some [[51, 48, 48, 48, 48, 48, 48, 48, 48, 48]]⟩) = .e422 422 := by decide

/-- **TS3 (pointer fields).** `*T`: a missing required parameter is answered 422; without text and
without default the field is the nil pointer — which the validator is not run on; otherwise the field
points to exactly what a plain field of type `T` would hold, and that value is validated. -/
theorem TS3_pointer_table (d : Decl) (k : TKind) (dflt : Option DefScalar) (text : Bytes) (hasKey : Bool) :
    (requiredFails d hasKey text = true → setPtrT d k dflt text hasKey = .e422 602) ∧
    (requiredFails d hasKey text = false → text = [] → dflt = none →
      setPtrT d k dflt text hasKey = .value (.ptr none)) ∧
    (requiredFails d hasKey text = false → (text ≠ [] ∨ dflt.isSome = true) →
      setPtrT d k dflt text hasKey = ptrOut (setFieldValueT d k dflt text hasKey)) ∧
    validatedT d (.value (.ptr none)) = .value (.ptr none) ∧
    (∀ io, validatedT d (ptrOut io) = toPtrO (validatedT d (.ofBind (itemOut io)))) := by
  have hp : "Ptr" ∈ Facts.c03SetKinds := by decide
  refine ⟨?_, ?_, ?_, ?_, fun io => validatedT_toPtr d io⟩
  · intro h; simp [setPtrT, h]
  · intro h ht hd
    subst ht; subst hd
    simp [setPtrT, h, fact_byteGuard, hp]
  · intro h hc
    have hn : (text.isEmpty && dflt.isNone) = false := by
      rcases hc with hc | hc
      · cases text with
        | nil => exact (hc rfl).elim
        | cons _ _ => rfl
      · cases dflt with
        | none => cases hc
        | some _ => simp
    simp [setPtrT, h, fact_byteGuard, hp, hn, fact_ptrDefault]
  · simp [validatedT, fact_deref]

example : validatedT (exDecl nLimit .query "integer" "int32")
    (bindRawT ⟨.s (.int 64) false, true⟩ (exDecl nLimit .query "integer" "int32") ⟨nLimit, none⟩) = .value (.ptr none) ∧
  validatedT (exDecl nLimit .query "integer" "int32")
    (bindRawT ⟨.s (.int 64) false, true⟩ (exDecl nLimit .query "integer" "int32") ⟨nLimit, some [[52, 50]]⟩) =
      .value (.ptr (some (.int 64 42))) := by decide

/-- **TS4 (field lookup).** The struct field is looked up under the key the parameter is registered
with, exactly (no case folding; the declared name plays no part): when that key names no exported field
of the struct, the answer is an error (500), nothing is bound and nothing panics. -/
theorem TS4_field_lookup (fields : List (String × Bool)) (key : String) (t : Target) (d : Decl) (r : Req)
    (h : fields.contains (key, true) = false) :
    bindInto fields key t d r = .e4xx 500 := by
  unfold bindInto lookupField
  cases hf : fields.find? (fun f => f.1 == key) with
  | none => rfl
  | some f =>
    obtain ⟨n, e⟩ := f
    have hmem := List.mem_of_find?_eq_some hf
    have hn := List.find?_some hf
    simp only [beq_iff_eq] at hn
    subst hn
    cases e with
    | false => simp [fact_unexported]
    | true =>
      have : fields.contains (n, true) = true := by simpa using hmem
      rw [this] at h; cases h

example : bindInto [("F", true)] "f" ⟨.s (.int 64) false, false⟩ (exDecl nLimit .query "integer" "") ⟨nLimit, some [[53]]⟩ = .e4xx 500 := by
  decide

/-- **TS5 (no panic).** Binding into a struct never panics — for any fields, key, field kind (the kinds
outside the `switch` included), pointer or not, any declaration and any request. -/
theorem TS5_no_panic (fields : List (String × Bool)) (key : String) (t : Target) (d : Decl) (r : Req) (why : String) :
    bindInto fields key t d r ≠ .panic why := by
  have hof : ∀ o : BindOut, (∀ w, o ≠ .panic w) → ∀ w, validatedT d (.ofBind o) ≠ .panic w := by
    intro o ho w
    cases o with
    | panic w' => exact (ho w' rfl).elim
    | e422 c => simp [TOut.ofBind, validatedT]
    | e4xx c => simp [TOut.ofBind, validatedT]
    | value v =>
      simp only [TOut.ofBind, validatedT]
      cases validateT d (.plain v) <;> simp
  have hitem : ∀ io : ItemOut, ∀ w, itemOut io ≠ .panic w := by
    intro io w; cases io <;> simp [itemOut]
  have hlist : ∀ tag l w, listOutT tag l ≠ .panic w := by
    intro tag l w; unfold listOutT; split <;> simp
  have hslice : ∀ k data hasKey w, setSliceFieldValueT d k data hasKey ≠ .panic w := by
    intro k data hasKey w
    unfold setSliceFieldValueT
    split
    · simp
    · split
      · unfold sliceDefaultT
        split
        · exact hlist _ _ _
        · simp
        · simp
      · exact hlist _ _ _
  have hbs : ∀ k w, bindSliceT d r k ≠ .panic w := by
    intro k w
    unfold bindSliceT
    split
    · split
      · simp
      · exact hslice _ _ _ _
    · split
      · exact hslice _ _ _ _
      · exact hslice _ _ _ _
  have hptr : ∀ k dflt text hasKey w, validatedT d (setPtrT d k dflt text hasKey) ≠ .panic w := by
    intro k dflt text hasKey w
    unfold setPtrT
    simp only [fact_byteGuard, Bool.not_true, Bool.and_false, Bool.false_eq_true, if_false, fact_ptrKind,
      fact_ptrDefault, Bool.false_and]
    split
    · simp [validatedT]
    · split
      · simp [validatedT, fact_deref]
      · rw [validatedT_toPtr]
        have := hof (itemOut (setFieldValueT d k dflt text hasKey)) (hitem _)
        cases hv : validatedT d (.ofBind (itemOut (setFieldValueT d k dflt text hasKey))) with
        | panic w' => exact (this w' hv).elim
        | value v => simp [toPtrO]
        | e422 c => simp [toPtrO]
        | e4xx c => simp [toPtrO]
  unfold bindInto
  split
  · simp
  · simp [fact_unexported]
  · unfold bindRawT
    split
    · exact hof _ (hbs _) why
    · split
      · exact hptr _ _ _ _ why
      · exact hof _ (hitem _) why

/-- **TS6 (one binder).** The map-target model of `Model/C03.lean` is the struct-target model at the
kind `typeForSchema` picks for the declaration: the same conversions, the same decision table. -/
theorem TS6_map_target (d : Decl) (r : Req) :
    (∀ k, typeForSchema d = some (.scalar k) → bindRawT ⟨.s k false, false⟩ d r = .ofBind (bindRaw d r)) ∧
    (∀ k, typeForSchema d = some (.slice k) → bindRawT ⟨.s k false, false⟩ d r = .ofBind (bindRaw d r)) := by
  have hh : ∀ k : SKind, (TKind.s k false).handled = k.handled := by
    intro k; cases k <;> rfl
  have hset : ∀ (k : SKind) dflt text hasKey,
      setFieldValueT d (.s k false) dflt text hasKey = setFieldValue d k dflt text hasKey := by
    intro k dflt text hasKey
    simp only [setFieldValueT, setFieldValue, hh, TKind.isReg, emptyValueT, convertTextT]
  have hslice : ∀ (k : SKind) data hasKey,
      setSliceFieldValueT d (.s k false) data hasKey = setSliceFieldValue d k data hasKey := by
    intro k data hasKey
    simp only [setSliceFieldValueT, setSliceFieldValue, sliceDefaultT, sliceDefault, hset, tagOfT]
    rfl
  constructor
  · intro k hk
    have harr : (d.ty == "array") = false := by
      unfold typeForSchema at hk
      by_cases ha : (d.ty == "array") = true
      · simp only [ha, if_true] at hk
        split at hk
        · cases hk
        · cases hs : scalarKind d.ext d.itemsTy d.itemsFormat <;> rw [hs] at hk <;> cases hk
      · simpa using ha
    simp only [bindRawT, harr, Bool.false_eq_true, if_false, hset, bindRaw, hk, bindScalar]
  · intro k hk
    have harr : (d.ty == "array") = true := by
      unfold typeForSchema at hk
      by_cases ha : (d.ty == "array") = true
      · exact ha
      · simp only [ha, Bool.false_eq_true, if_false] at hk
        cases hs : scalarKind d.ext d.ty d.format <;> rw [hs] at hk <;> cases hk
    simp only [bindRawT, harr, if_true, bindRaw, hk, bindSliceT, bindSlice, hslice]

/-! ## The refinement theorem for struct targets -/

/-- **C03 for struct targets.** For every struct whose field named by the key is exported, every field
type that can hold the declared type (`Target.wf`: integer fields of any width and sign for an integer
parameter, `float32`/`float64` for a number — `float64` only for `double` —, `bool`, `string`, the
registered strfmt type, a pointer to one of those, a slice of one of those for an array; a declared
default the field can hold), every well-formed declaration and request, outside the recorded finding
classes (F03d, F03e texts; F03h `int8`/`int16` formats narrower than the field; F03i signed literals for an
unsigned field): the model's `bindInto` yields exactly what the Spec — written from the property text —
expects: the value the declared type denotes for the last text / the items / the default, as the field
holds it; nil for a pointer field without text and default; 422 when the declared type or the field
cannot hold the text's value or a declared validation fails; and never a panic. -/
theorem C03S_holds_outside_known (fields : List (String × Bool)) (key : String) (t : Target) (d : Decl) (r : Req)
    (hf : lookupField fields key = some true) (hd : d.wf = true) (hr : Req.wf d r = true)
    (ht : t.wf d = true) (hk : knownT t d r = none) :
    specOkT fields key t d r (bindInto fields key t d r) = true := by
  have hc : fields.contains (key, true) = true := by
    unfold lookupField at hf
    cases hx : fields.find? (fun f => f.1 == key) with
    | none => rw [hx] at hf; cases hf
    | some f =>
      rw [hx] at hf
      obtain ⟨n, e⟩ := f
      simp only [Option.map_some, Option.some.injEq] at hf
      subst hf
      have hmem := List.mem_of_find?_eq_some hx
      have hn := List.find?_some hx
      simp only [beq_iff_eq] at hn
      subst hn
      simpa using hmem
  simp only [specOkT, hc, if_true, bindInto, hf]
  have hwf := ht
  unfold Target.wf at hwf
  cases hsk : specKind d with
  | none => rw [hsk] at hwf; simp at hwf
  | some K =>
    cases K with
    | scalar k => exact struct_scalar t d r k hd hr hsk ht hk
    | slice k => exact struct_slice t d r k hd hr hsk ht hk

/-- non-vacuity: a declared `int64` parameter bound into an `int8` field, `?limit=1&limit=-128` -/
example :
    lookupField [("F", true)] "F" = some true ∧
    (exDecl nLimit .query "integer" "int64").wf = true ∧
    Req.wf (exDecl nLimit .query "integer" "int64") ⟨nLimit, some [[49], [45, 49, 50, 56]]⟩ = true ∧
    Target.wf ⟨.s (.int 8) false, false⟩ (exDecl nLimit .query "integer" "int64") = true ∧
    knownT ⟨.s (.int 8) false, false⟩ (exDecl nLimit .query "integer" "int64") ⟨nLimit, some [[49], [45, 49, 50, 56]]⟩ = none ∧
    bindInto [("F", true)] "F" ⟨.s (.int 8) false, false⟩ (exDecl nLimit .query "integer" "int64")
      ⟨nLimit, some [[49], [45, 49, 50, 56]]⟩ = .value (.plain (.scalar (.int 8 (-128)))) ∧
    bindInto [("F", true)] "F" ⟨.s (.int 8) false, false⟩ (exDecl nLimit .query "integer" "int64")
      ⟨nLimit, some [[49, 50, 56]]⟩ = .e422 601 := by
  decide

/-! ## The findings of the struct targets are real in the model -/

/-- F03h: `300` for a parameter declared `format: int8`, bound into an `int64` field, is bound. -/
theorem F03h_real :
    ∃ t d r, d.wf = true ∧ Target.wf t d = true ∧ knownT t d r = some "F03h" ∧
      specOkT [("F", true)] "F" t d r (bindInto [("F", true)] "F" t d r) = false :=
  ⟨⟨.s (.int 64) false, false⟩, exDecl nLimit .query "integer" "int8", ⟨nLimit, some [[51, 48, 48]]⟩, by decide⟩

/-- F03i: `+5` for an integer parameter bound into a `uint8` field is answered 422. -/
theorem F03i_real :
    ∃ t d r, d.wf = true ∧ Target.wf t d = true ∧ knownT t d r = some "F03i" ∧
      specOkT [("F", true)] "F" t d r (bindInto [("F", true)] "F" t d r) = false :=
  ⟨⟨.uint 8 false, false⟩, exDecl nLimit .query "integer" "int32", ⟨nLimit, some [[43, 53]]⟩, by decide⟩

/-! ## TM — several parameters of one operation -/

/-- **TM1 (independence).** The parameters of an operation are bound independently: the outcome for the
`i`-th parameter is `bind` of that declaration alone, whatever the other declarations are and whatever
was sent for them; binding a longer parameter list extends the outcomes. -/
theorem TM1_independent (ps qs : List (Decl × Req)) :
    bindAll (ps ++ qs) = bindAll ps ++ bindAll qs ∧
    (bindAll ps).length = ps.length ∧
    ∀ i (h : i < ps.length), (bindAll ps)[i]? = some (bind ps[i].1 ps[i].2) := by
  refine ⟨by simp [bindAll], by simp [bindAll], ?_⟩
  intro i h
  simp [bindAll, h]

/-- **TM2 (the Spec lifts, per parameter).** For well-formed declarations and requests outside the
recorded classes, every parameter of the operation gets what its own Spec expects. -/
theorem TM2_product (ps : List (Decl × Req))
    (h : ∀ p ∈ ps, p.1.wf = true ∧ Req.wf p.1 p.2 = true ∧ known p.1 p.2 = none) :
    specAll ps (bindAll ps) = true := by
  simp only [specAll, bindAll, List.length_map, beq_self_eq_true, Bool.true_and, List.all_eq_true]
  intro po hpo
  obtain ⟨⟨d, r⟩, o⟩ := po
  have hmem := List.of_mem_zip hpo
  have ho : o = bind d r := by
    have := List.mem_iff_getElem.1 hpo
    obtain ⟨i, hi, he⟩ := this
    simp only [List.getElem_zip, List.getElem_map, Prod.mk.injEq] at he
    obtain ⟨h1, h2⟩ := he
    rw [← h2, h1]
  subst ho
  obtain ⟨h1, h2, h3⟩ := h (d, r) hmem.1
  exact C03_holds_outside_known d r h1 h2 h3

/-- **TM3 (the Spec lifts, for the operation).** Under the same hypotheses the handler runs exactly when
every parameter is bound, with the values the Specs expect; otherwise the request is answered 422, and at
least one parameter's Spec admits the rejection. It never panics. -/
theorem TM3_api (ps : List (Decl × Req))
    (h : ∀ p ∈ ps, p.1.wf = true ∧ Req.wf p.1 p.2 = true ∧ known p.1 p.2 = none) :
    specApi ps (apiOut (bindAll ps)) = true := by
  have hall := TM2_product ps h
  have hmemo : ∀ o ∈ bindAll ps, ∃ p ∈ ps, o = bind p.1 p.2 := by
    intro o ho
    simp only [bindAll, List.mem_map] at ho
    obtain ⟨p, hp, rfl⟩ := ho
    exact ⟨p, hp, rfl⟩
  have hok : ∀ p ∈ ps, specOk p.1 p.2 (bind p.1 p.2) = true := by
    intro p hp
    obtain ⟨h1, h2, h3⟩ := h p hp
    exact C03_holds_outside_known p.1 p.2 h1 h2 h3
  have hnopanic : ∀ o ∈ bindAll ps, ∀ w, o ≠ .panic w := by
    intro o ho w hc
    obtain ⟨p, hp, rfl⟩ := hmemo o ho
    have := hok p hp
    rw [hc] at this
    simp only [specOk] at this
    cases specExpect p.1 p.2 <;> simp [okFor] at this
  unfold apiOut
  cases hv : valuesOf? (bindAll ps) with
  | some vs =>
    simp only [specApi]
    rw [← valuesOf?_some _ _ hv]
    exact hall
  | none =>
    obtain ⟨o, hf, hmem, hnv⟩ := firstFailure_of_none _ hv
    obtain ⟨p, hp, rfl⟩ := hmemo o hmem
    have hshape : ∃ c, bind p.1 p.2 = .e422 c := by
      cases hb : bind p.1 p.2 with
      | value v => exact (hnv v hb).elim
      | panic w => exact (hnopanic _ hmem w hb).elim
      | e4xx st => exact (bind_not_e4xx p.1 p.2 st hb).elim
      | e422 c => exact ⟨c, rfl⟩
    obtain ⟨c, hc⟩ := hshape
    have hadm : ps.any admitsReject = true := by
      simp only [List.any_eq_true]
      refine ⟨p, hp, ?_⟩
      have := hok p hp
      rw [hc] at this
      simp only [specOk] at this
      unfold admitsReject
      cases hse : specExpect p.1 p.2 with
      | value v => rw [hse] at this; simp [okFor] at this
      | _ => rfl
    simp only
    split
    · -- a panic among the outcomes: impossible
      rename_i w hfp
      have := List.mem_of_find?_eq_some hfp
      exact (hnopanic _ this w rfl).elim
    · rw [hf, hc]
      simp [specApi, hadm]

/-- non-vacuity: `DELETE /op` with two formData parameters of one urlencoded body, `alpha=1&beta=two` -/
example :
    (∀ p ∈ [((exDecl nLimit .form "integer" "int32"), (⟨nLimit, some [[49]]⟩ : Req)),
            ((exDecl nXRateLower .form "string" ""), ⟨nXRateLower, some [[116, 119, 111]]⟩)],
        p.1.wf = true ∧ Req.wf p.1 p.2 = true ∧ known p.1 p.2 = none) ∧
    apiOut (bindAll [((exDecl nLimit .form "integer" "int32"), (⟨nLimit, some [[49]]⟩ : Req)),
            ((exDecl nXRateLower .form "string" ""), ⟨nXRateLower, some [[116, 119, 111]]⟩)]) =
      .ran [.scalar (.int 32 1), .scalar (.str [116, 119, 111])] := by
  decide

/-- The exported reader `runtime.ReadSingleValue` over `runtime.Values` yields the LAST value sent under the
name (and the empty text when there is none); `ReadCollectionValue` splits exactly that text. -/
theorem readSingle_is_last_occurrence (pairs : List (Bytes × Bytes)) (name : Bytes) :
    (∀ v, ((pairs.filter (·.1 == name)).map (·.2)).getLast? = some v → readSingle false pairs name = v) ∧
    ((pairs.filter (·.1 == name)) = [] → readSingle false pairs name = []) ∧
    (∀ cf, readCollection false pairs name cf = splitByFormat (readSingle false pairs name) cf) := by
  refine ⟨?_, ?_, fun _ => rfl⟩
  · intro v h; simp [readSingle, readSingleValues, h]
  · intro h; simp [readSingle, readSingleValues, h]

example : readSingle false [([97], [49]), ([98], [50]), ([97], [51])] [97] = [51] ∧
    readCollection false [([97], [49, 44, 50])] [97] "csv" = [[49], [50]] := by decide

end RtVerif.C03
