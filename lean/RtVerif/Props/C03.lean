import RtVerif.Lemmas.C03Main
/-
  C03 — property theorems (the axiom audit counts exactly the theorems of this file).

  T1  integers of every declared width: value iff the last text is a literal `[+-]?[0-9]+` in range,
      otherwise 422 (code 601) — including the boundary literals ±2^(w-1).
  T2  the absent / empty / default / required / allowEmptyValue decision table, scalars and arrays.
  T3  arrays: items = splitByFormat of the last value (csv/ssv/tsv/pipes) or all repeated values
      (multi, query/formData only); every item converted like a scalar; first failing item → 422.
  T4  totality: no declaration the regenerated `typeForSchema` table allows makes `bind` panic.
  T5  header parameters are looked up case-insensitively.
  The theorems about `number`, registered formats and validations are parametric in the external
  functions (`parseFloatFor` hand model, `Ext` graph): see `C03_partial` at the end.
-/
namespace RtVerif.C03
open RtVerif Bytes

/-! ## witnesses used by the non-vacuity examples (definitions, not theorems) -/

def exDecl (name : Bytes) (loc : Loc) (ty format : String) : Decl :=
  { name := name, loc := loc, ty := ty, format := format, itemsTy := "", itemsFormat := "", cf := "",
    required := false, allowEmpty := false, default := none, valid := [], ext := none }

/-- `limit` -/
def nLimit : Bytes := [108, 105, 109, 105, 116]
/-- `x-rate` / `X-RATE` -/
def nXRateLower : Bytes := [120, 45, 114, 97, 116, 101]
def nXRateUpper : Bytes := [88, 45, 82, 65, 84, 69]

/-! ## T1 — integers -/

/-- `typeForSchema` (regenerated table) gives every integer format the Go type of that width. -/
theorem T1_integer_kind (ext : Option Ext) (fmt : String) :
    scalarKind ext "integer" fmt = some (.int (widthOf fmt)) := by
  by_cases h8 : fmt = "int8"
  · subst h8; rfl
  by_cases h16 : fmt = "int16"
  · subst h16; rfl
  by_cases h32 : fmt = "int32"
  · subst h32; rfl
  by_cases h64 : fmt = "int64"
  · subst h64; rfl
  have e8 : ("int8" == fmt) = false := by simp only [beq_eq_false_iff_ne, ne_eq]; exact fun e => h8 e.symm
  have e16 : ("int16" == fmt) = false := by simp only [beq_eq_false_iff_ne, ne_eq]; exact fun e => h16 e.symm
  have e32 : ("int32" == fmt) = false := by simp only [beq_eq_false_iff_ne, ne_eq]; exact fun e => h32 e.symm
  have e64 : ("int64" == fmt) = false := by simp only [beq_eq_false_iff_ne, ne_eq]; exact fun e => h64 e.symm
  have hw : widthOf fmt = 64 := by simp [widthOf, h8, h16, h32]
  rw [hw]
  simp only [scalarKind, lookupTable, Facts.c03TypeTable, List.find?, e8, e16, e32, e64]
  by_cases hs : ("*" == fmt) = true
  · simp [hs, skindOfGo]
  · simp [hs, skindOfGo]

/-- **T1.** An `integer` parameter (any format) whose key is present with a non-empty last text `t`:
the handler receives `v` of the declared width iff `t` is a literal `[+-]?[0-9]+` denoting `v` within
that width; every other text is answered 422 (invalid type) naming the parameter. -/
theorem T1_integer_binding (d : Decl) (r : Req) (vs : List Bytes) (hv : Bool) (t : Bytes)
    (hty : d.ty = "integer") (hval : d.valid = [])
    (hg : getOK d r = (vs, true, hv)) (ht : lastOr vs = t) (hne : t ≠ []) :
    (∀ v, bind d r = .value (.scalar (.int (widthOf d.format) v)) ↔
        Num.IntLit t v ∧ Num.fitsInt (widthOf d.format) v) ∧
    ((¬ ∃ v, Num.IntLit t v ∧ Num.fitsInt (widthOf d.format) v) → bind d r = .e422 601) := by
  have hk : typeForSchema d = some (.scalar (.int (widthOf d.format))) := by
    simp [typeForSchema, hty, T1_integer_kind]
  have hw : 1 ≤ widthOf d.format ∧ widthOf d.format ≤ 64 := by
    rcases widthOf_mem d.format with h | h | h | h <;> rw [h] <;> decide
  have hte : t.isEmpty = false := by cases t with | nil => exact (hne rfl).elim | cons _ _ => rfl
  have hset : ∀ dv, setFieldValue d (.int (widthOf d.format)) dv t true = convertInt (widthOf d.format) t := by
    intro dv
    simp [setFieldValue, requiredFails, hte, int_handled, convertText]
  obtain ⟨hiff, herr⟩ := convertInt_iff (widthOf d.format) hw t
  have hraw : bindRaw d r = itemOut (convertInt (widthOf d.format) t) := by
    simp only [bindRaw, hk, bindScalar, hg, ht, hset]
  constructor
  · intro v
    rw [← hiff v]
    unfold bind
    rw [hraw]
    cases hc : convertInt (widthOf d.format) t with
    | err c => simp [itemOut, validated]
    | ok x =>
      obtain ⟨v0, rfl⟩ := convertInt_shape hc
      simp [itemOut, validated, validate, validateScalar, hval]
  · intro hno
    unfold bind
    rw [hraw, herr hno]
    rfl

/-- **T1, boundaries.** For every width the greatest and least literals are bound, their neighbours
outside are rejected (the texts are the decimal renderings of ±2^(w-1) and the values next to them). -/
theorem T1_boundaries (w : Nat) (hw : w = 8 ∨ w = 16 ∨ w = 32 ∨ w = 64) :
    convertText none (.int w) (Num.formatInt (2 ^ (w - 1) - 1)) = .ok (.int w (2 ^ (w - 1) - 1)) ∧
    convertText none (.int w) (Num.formatInt (2 ^ (w - 1))) = .err 601 ∧
    convertText none (.int w) (Num.formatInt (-(2 ^ (w - 1)))) = .ok (.int w (-(2 ^ (w - 1)))) ∧
    convertText none (.int w) (Num.formatInt (-(2 ^ (w - 1)) - 1)) = .err 601 := by
  rcases hw with rfl | rfl | rfl | rfl <;> decide

/-- **T1, every value.** The decimal rendering of any integer of the declared width is bound to that
integer (so every value of the type is reachable, not only the boundaries). -/
theorem T1_decimal_rendering (ext : Option Ext) (w : Nat) (hw : w = 8 ∨ w = 16 ∨ w = 32 ∨ w = 64) (v : Int)
    (hf : Num.fitsInt w v) : convertText ext (.int w) (Num.formatInt v) = .ok (.int w v) := by
  have hw' : 1 ≤ w ∧ w ≤ 64 := by rcases hw with rfl | rfl | rfl | rfl <;> decide
  exact ((convertInt_iff w hw' (Num.formatInt v)).1 v).2 ⟨Num.formatInt_lit v, hf⟩

/-- non-vacuity of T1's hypotheses: `?limit=1&limit=-128` on an `int8` query parameter -/
example :
    getOK (exDecl nLimit .query "integer" "int8") ⟨nLimit, some [[49], [45, 49, 50, 56]]⟩
        = ([[49], [45, 49, 50, 56]], true, true) ∧
    bind (exDecl nLimit .query "integer" "int8") ⟨nLimit, some [[49], [45, 49, 50, 56]]⟩
        = .value (.scalar (.int 8 (-128))) := by
  decide

/-! ## T2 — the absent / empty / default / required / allowEmptyValue table -/

/-- **T2, scalars.** `dv` is the declared default (`d.default` when it is a scalar). Rows:
absent → default, else 422-required when required, else the zero value;
present but empty → default, else 422-required when required without allowEmptyValue, else zero;
present and non-empty → the text is converted, whatever required/default/allowEmptyValue say. -/
theorem T2_scalar_table (d : Decl) (k : SKind) (dv : Option DefScalar) (t : Bytes)
    (hk : k.handled = true) (hnr : ∀ b n, k ≠ .reg b n) (hd : d.default.isSome = dv.isSome) :
    (setFieldValue d k dv [] false =
      match dv with
      | some x => defaultScalar d.ext k x
      | none => if d.required then .err 602 else .ok (zeroScalar k)) ∧
    (setFieldValue d k dv [] true =
      match dv with
      | some x => defaultScalar d.ext k x
      | none => if d.required && !d.allowEmpty then .err 602 else .ok (zeroScalar k)) ∧
    (t ≠ [] → setFieldValue d k dv t true = convertText d.ext k t) := by
  have hnone : d.default.isNone = !dv.isSome := by
    rw [← hd]; cases d.default <;> rfl
  have hreg : k.isReg = false := by
    cases k <;> first | rfl | (rename_i b n; exact (hnr b n rfl).elim)
  have hempty : emptyNoDefault d.ext k = .ok (zeroScalar k) := by
    cases k <;> first | rfl | (rename_i b n; exact (hnr b n rfl).elim)
  refine ⟨?_, ?_, ?_⟩
  · cases dv with
    | some x => simp [setFieldValue, requiredFails, hnone, hk, emptyValue]
    | none =>
      cases hr : d.required <;> simp [setFieldValue, requiredFails, hnone, hk, emptyValue, hempty, hr]
  · cases dv with
    | some x => simp [setFieldValue, requiredFails, hnone, hk, emptyValue]
    | none =>
      cases hr : d.required <;> cases ha : d.allowEmpty <;>
        simp [setFieldValue, requiredFails, hnone, hk, emptyValue, hempty, hr, ha]
  · intro hne
    have hte : t.isEmpty = false := by cases t with | nil => exact (hne rfl).elim | cons _ _ => rfl
    simp [setFieldValue, requiredFails, hte, hk]

example : (SKind.int 32).handled = true ∧ (∀ b n, SKind.int 32 ≠ .reg b n) := by
  constructor
  · decide
  · intro b n h; cases h

/-- **T2, arrays.** No item at all (`data = []`: key absent, value empty, or only separators/blanks):
the declared default (item by item), else 422-required, else the empty list. -/
theorem T2_array_table (d : Decl) (k : SKind) (hk : k.handled = true) :
    (d.default = none →
      setSliceFieldValue d k [] false = (if d.required then .e422 602 else .value (.list (tagOf k) [])) ∧
      setSliceFieldValue d k [] true =
        (if d.required && !d.allowEmpty then .e422 602 else .value (.list (tagOf k) []))) ∧
    (∀ items, d.default = some (.arr items) → ∀ hasKey,
      setSliceFieldValue d k [] hasKey = listOut k (items.map (defaultScalar d.ext k))) := by
  constructor
  · intro hdn
    constructor
    · cases hr : d.required <;> simp [setSliceFieldValue, sliceRequiredFails, sliceDefault, hdn, hr]
    · cases hr : d.required <;> cases ha : d.allowEmpty <;>
        simp [setSliceFieldValue, sliceRequiredFails, sliceDefault, hdn, hr, ha]
  · intro items hdi hasKey
    have hitem : ∀ it, setFieldValue d k (some it) [] true = defaultScalar d.ext k it := by
      intro it
      simp [setFieldValue, requiredFails, hdi, hk, emptyValue]
    simp [setSliceFieldValue, sliceRequiredFails, sliceDefault, hdi, hitem]

/-! ## T3 — arrays -/

/-- **T3, splitting.** `swag.SplitByFormat` is: split the text on the separator of the collection
format, trim every piece, drop the empty ones; nothing for the empty text and for `multi`. -/
theorem T3_split (data : Bytes) (cf : String) :
    splitByFormat data cf =
      match sepOf cf with
      | some sep => if data = [] then [] else ((splitByte sep data).map trimSpace).filter (fun x => !x.isEmpty)
      | none => [] := splitByFormat_eq data cf

/-- the separators -/
theorem T3_separators :
    sepOf "" = some 44 ∧ sepOf "csv" = some 44 ∧ sepOf "ssv" = some 32 ∧ sepOf "tsv" = some 9 ∧
    sepOf "pipes" = some 124 ∧ sepOf "multi" = none := by decide

/-- **T3, items.** Non-empty items are converted one by one like scalar texts; the array is bound
iff every item converts, otherwise the answer is the 422 of the first failing item. -/
theorem T3_items (d : Decl) (k : SKind) (data : List Bytes) (hk : k.handled = true ∨ k.isReg = true)
    (hne : data ≠ []) (hitems : ∀ t ∈ data, t ≠ []) :
    setSliceFieldValue d k data true = listOut k (data.map (convertText d.ext k)) := by
  have hh : (!k.handled && !k.isReg) = false := by
    rcases hk with h | h <;> simp [h]
  have hmap : data.map (fun t => setFieldValue d k none t true) = data.map (convertText d.ext k) := by
    apply List.map_congr_left
    intro t ht
    have hte : t.isEmpty = false := by
      cases t with | nil => exact (hitems [] ht rfl).elim | cons _ _ => rfl
    simp [setFieldValue, requiredFails, hte, hh]
  have hreq : sliceRequiredFails d true data = false := by
    cases data with
    | nil => exact (hne rfl).elim
    | cons t r =>
      have : t ≠ [] := hitems t (List.mem_cons_self ..)
      cases r with
      | nil => simp [sliceRequiredFails, this]
      | cons _ _ => simp [sliceRequiredFails]
  have hde : data.isEmpty = false := by cases data with | nil => exact (hne rfl).elim | cons _ _ => rfl
  simp [setSliceFieldValue, hreq, hde, hmap]

/-- the items produced by splitting are never empty, so `T3_items` applies to them -/
theorem T3_split_nonempty (data : Bytes) (cf : String) : ∀ t ∈ splitByFormat data cf, t ≠ [] := by
  intro t ht
  rw [T3_split] at ht
  split at ht
  · split at ht
    · cases ht
    · simp only [List.mem_filter, List.mem_map] at ht
      intro e; subst e; simp at ht
  · cases ht

/-- **T3, which texts.** For an array declaration: with a separator format the items come from the
LAST value sent; with `multi` (query and formData only) every repeated value is an item; `multi` in a
header or path is answered 422 naming the parameter. -/
theorem T3_array_source (d : Decl) (r : Req) (k : SKind) (hk : typeForSchema d = some (.slice k)) :
    bindRaw d r =
      if d.cf == "multi" then
        (if allowsMulti d.loc then setSliceFieldValue d k (getOK d r).1 (getOK d r).2.1 else .e422 601)
      else if (getOK d r).2.2 then
        setSliceFieldValue d k (splitByFormat (lastOr (getOK d r).1) d.cf) (getOK d r).2.1
      else setSliceFieldValue d k [] (getOK d r).2.1 := by
  unfold bindRaw
  rw [hk]
  simp only [bindSlice]
  by_cases hm : (d.cf == "multi") = true
  · by_cases ha : allowsMulti d.loc = true <;> simp [hm, ha]
  · by_cases hv : (getOK d r).2.2 = true <;> simp [hm, hv]

/-- **T3, integer arrays.** Every item must be an in-range literal: the list of values is bound iff the
items are literals denoting exactly those values, in order. -/
theorem T3_integer_items (ext : Option Ext) (w : Nat) (hw : 1 ≤ w ∧ w ≤ 64) (data : List Bytes) (vs : List Scalar) :
    listOut (.int w) (data.map (convertText ext (.int w))) = .value (.list (tagOf (.int w)) vs) ↔
      ItemsDenote w data vs := by
  rw [listOut_value_iff]
  induction data generalizing vs with
  | nil =>
    cases vs with
    | nil => exact ⟨fun _ => .nil, fun _ => rfl⟩
    | cons _ _ => exact ⟨fun h => (by cases h), fun h => (by cases h)⟩
  | cons t r ih =>
    cases vs with
    | nil => exact ⟨fun h => (by cases h), fun h => (by cases h)⟩
    | cons s ss =>
      simp only [List.map_cons, List.cons.injEq, convertText]
      constructor
      · intro ⟨h1, h2⟩
        obtain ⟨v, rfl⟩ := convertInt_shape (w := w) (t := t) h1
        obtain ⟨hlit, hf⟩ := ((convertInt_iff w hw t).1 v).1 h1
        exact .cons hlit hf ((ih ss).1 h2)
      · intro h
        cases h with
        | cons hlit hf hr =>
          exact ⟨((convertInt_iff w hw t).1 _).2 ⟨hlit, hf⟩, (ih _).2 hr⟩

example : listOut (.int 8) ([[49], [43, 50]].map (convertText none (.int 8))) =
    .value (.list (tagOf (.int 8)) [.int 8 1, .int 8 2]) := by decide

/-! ## T4 — totality -/

/-- every (type, format) the description language allows for a non-body, non-file parameter has a Go
type in the regenerated `typeForSchema` table -/
theorem T4_table_total (ext : Option Ext) (ty fmt : String) (k : SKind)
    (h : specSKind ext ty fmt = some k) : scalarKind ext ty fmt = some k := by
  unfold specSKind at h
  by_cases hb : ty = "boolean"
  · subst hb
    simp only [beq_self_eq_true, if_true, Option.some.injEq] at h
    subst h
    simp only [scalarKind, lookupTable, Facts.c03TypeTable, List.find?]
    by_cases hs : ("*" == fmt) = true <;> simp [hs, skindOfGo]
  by_cases hi : ty = "integer"
  · subst hi
    simp only [show ("integer" == "boolean") = false by decide, Bool.false_eq_true, if_false,
      beq_self_eq_true, if_true, Option.some.injEq] at h
    subst h
    have := T1_integer_kind ext fmt
    simp only [widthOf] at this
    simpa [beq_iff_eq] using this
  by_cases hn : ty = "number"
  · subst hn
    simp only [show ("number" == "boolean") = false by decide, show ("number" == "integer") = false by decide,
      Bool.false_eq_true, if_false, beq_self_eq_true, if_true, Option.some.injEq] at h
    subst h
    by_cases hf : fmt = "float"
    · subst hf; rfl
    by_cases hd : fmt = "double"
    · subst hd; rfl
    have ef : ("float" == fmt) = false := by simp only [beq_eq_false_iff_ne, ne_eq]; exact fun e => hf e.symm
    have ed : ("double" == fmt) = false := by simp only [beq_eq_false_iff_ne, ne_eq]; exact fun e => hd e.symm
    have ef' : (fmt == "float") = false := by simp only [beq_eq_false_iff_ne, ne_eq]; exact hf
    simp only [scalarKind, lookupTable, Facts.c03TypeTable, List.find?, ef, ed, ef']
    by_cases hs : ("*" == fmt) = true <;> simp [hs, skindOfGo]
  by_cases hs : ty = "string"
  · subst hs
    simp only [show ("string" == "boolean") = false by decide, show ("string" == "integer") = false by decide,
      show ("string" == "number") = false by decide, Bool.false_eq_true, if_false, beq_self_eq_true, if_true] at h
    simp only [scalarKind, lookupTable, Facts.c03TypeTable, List.find?]
    by_cases hst : ("*" == fmt) = true
    · simp only [hst]
      cases ext <;> simp_all
    · simp only [hst]
      cases ext <;> simp_all
  · have e1 : (ty == "boolean") = false := by simp only [beq_eq_false_iff_ne, ne_eq]; exact hb
    have e2 : (ty == "integer") = false := by simp only [beq_eq_false_iff_ne, ne_eq]; exact hi
    have e3 : (ty == "number") = false := by simp only [beq_eq_false_iff_ne, ne_eq]; exact hn
    have e4 : (ty == "string") = false := by simp only [beq_eq_false_iff_ne, ne_eq]; exact hs
    simp [e1, e2, e3, e4] at h

/-- the Go type agrees with the declared type as the property reads it -/
theorem T4_kind_agrees (d : Decl) (k : Kind) (h : specKind d = some k) : typeForSchema d = some k := by
  unfold specKind at h
  unfold typeForSchema
  by_cases ha : (d.ty == "array") = true
  · simp only [ha, if_true] at h ⊢
    cases hs : specSKind d.ext d.itemsTy d.itemsFormat with
    | none => rw [hs] at h; cases h
    | some sk =>
      rw [hs] at h
      have ht : lookupTable Facts.c03TypeTable "array" "*" = some "slice" := by decide
      simp only [ht, T4_table_total _ _ _ _ hs]
      exact h
  · simp only [ha, Bool.false_eq_true, if_false] at h ⊢
    cases hs : specSKind d.ext d.ty d.format with
    | none => rw [hs] at h; cases h
    | some sk =>
      rw [hs] at h
      simp only [T4_table_total _ _ _ _ hs]
      exact h

/-- **T4.** Binding never panics for a declaration the description language allows (boolean, integer,
number, string — any format, registered or not — and arrays of those), whatever the request. -/
theorem T4_no_panic (d : Decl) (r : Req) (hk : (specKind d).isSome = true) : ∀ why, bind d r ≠ .panic why := by
  intro why
  obtain ⟨k, hk⟩ := Option.isSome_iff_exists.1 hk
  have ht := T4_kind_agrees d k hk
  have hlist : ∀ sk l, listOut sk l ≠ .panic why := by
    intro sk l; unfold listOut; split <;> simp
  have hs : ∀ sk data hasKey, setSliceFieldValue d sk data hasKey ≠ .panic why := by
    intro sk data hasKey
    unfold setSliceFieldValue
    split
    · simp
    · split
      · unfold sliceDefault
        split
        · exact hlist _ _
        · simp
        · simp
      · exact hlist _ _
  have hraw : bindRaw d r ≠ .panic why := by
    unfold bindRaw
    rw [ht]
    cases k with
    | scalar sk =>
      simp only [bindScalar]
      cases setFieldValue d sk (scalarDefault d) (lastOr (getOK d r).1) (getOK d r).2.1 <;> simp [itemOut]
    | slice sk =>
      simp only [bindSlice]
      split
      · split
        · simp
        · exact hs _ _ _
      · split
        · exact hs _ _ _
        · exact hs _ _ _
  unfold bind validated
  split
  · split <;> simp
  · rename_i o hnv
    exact hraw

/-- a declaration `type: number` without format is one of them (F03a, repaired): -/
example : (specKind (exDecl nLimit .query "number" "")).isSome = true := by decide

/-! ## T5 — header names are case-insensitive -/

/-- **T5.** For a header parameter the values the client sent under a name that equals the declared
name up to ASCII case are the ones the binder finds — and no others. -/
theorem T5_header_case_insensitive (d : Decl) (r : Req) (vs : List Bytes)
    (hl : d.loc = .header) (hv : r.values = some vs)
    (hn : d.name.all isTokenChar = true) (hk : r.key.all isTokenChar = true) :
    (equalFold d.name r.key = true → getOK d r = (vs, true, !vs.isEmpty)) ∧
    (equalFold d.name r.key = false → getOK d r = ([], false, false)) := by
  have hfact : Facts.c03HeaderLookupCanonical = true := by decide
  have hiff := canonHeader_eq_iff r.key d.name hk hn
  have hsym : equalFold r.key d.name = equalFold d.name r.key := by
    unfold equalFold
    cases h1 : (toLower r.key == toLower d.name) <;> cases h2 : (toLower d.name == toLower r.key) <;>
      simp_all
  constructor
  · intro he
    have : canonHeader r.key = canonHeader d.name := hiff.2 (hsym ▸ he)
    simp [getOK, hv, storedKey, lookupKey, hl, hfact, this]
  · intro he
    have : canonHeader r.key ≠ canonHeader d.name := by
      intro e
      have := hiff.1 e
      rw [hsym, he] at this; cases this
    simp [getOK, hv, storedKey, lookupKey, hl, hfact, this]

/-- `x-rate` declared in lower case, sent as `X-RATE` (F03c, repaired) -/
example :
    nXRateLower.all isTokenChar = true ∧ nXRateUpper.all isTokenChar = true ∧
    equalFold nXRateLower nXRateUpper = true ∧
    bind (exDecl nXRateLower .header "integer" "int32") ⟨nXRateUpper, some [[53]]⟩ = .value (.scalar (.int 32 5)) := by
  decide

/-! ## The refinement theorem -/

/-- **C03.** For every well-formed declaration (`Decl.wf`: a type the description language allows, a
well-typed default, `multi` only in query/formData, header names that are tokens; the external strfmt
graph unmarshals the empty text and named string types render as their text) and every request
(`Req.wf`: a sent key has a value, a route holds one value per path parameter), outside the two
recorded finding classes (F03d number texts, F03e boolean texts): the model's `bind` yields exactly
what the Spec — written from the property text — expects: the denoted value (last occurrence / split
or repeated items / declared default / zero value), or 422 naming the parameter, and never a panic. -/
theorem C03_holds_outside_known (d : Decl) (r : Req) (hd : d.wf = true) (hr : Req.wf d r = true)
    (hk : known d r = none) : specOk d r (bind d r) = true := by
  obtain ⟨g1, g2, g3, _⟩ := getOK_spec d r hd hr
  have hd0 := hd
  unfold Decl.wf at hd
  simp only [Bool.and_eq_true] at hd
  obtain ⟨⟨hext, _⟩, h3⟩ := hd
  have hext : extOk d.ext = true := hext
  unfold specOk specExpect bind
  cases hsk : specKind d with
  | none => rw [hsk] at h3; cases h3
  | some K =>
    rw [hsk] at h3
    have hty := T4_kind_agrees d K hsk
    unfold bindRaw
    rw [hty]
    cases K with
    | scalar k =>
      obtain ⟨harr, hspec⟩ := specKind_scalar hsk
      have hkc := specSKind_cases _ _ _ _ hspec
      have hdef : d.default = none ∨ ∃ dv, d.default = some (.scalar dv) := by
        cases hdd : d.default with
        | none => exact .inl rfl
        | some x =>
          cases x with
          | scalar dv => exact .inr ⟨dv, rfl⟩
          | arr _ => rw [hdd] at h3; simp at h3
      have hkn : textKnown k (lastOr ((specTexts d r).getD [])) = none := by
        have hdk : declaredSKind d = some k := by simp [declaredSKind, hsk]
        simp only [known, hdk, convertedTexts, harr, Bool.false_eq_true, if_false, List.findSome?_cons,
          List.findSome?_nil] at hk
        rw [g1] at hk
        cases htk : textKnown k (lastOr ((specTexts d r).getD [])) with
        | none => rfl
        | some x => rw [htk] at hk; cases hk
      simp only [bindScalar, g1, g2]
      exact scalar_main d k (specTexts d r) hkc hext hdef hkn
    | slice k =>
      obtain ⟨harr, hspec⟩ := specKind_slice hsk
      have hkc := specSKind_cases _ _ _ _ hspec
      simp only [Bool.and_eq_true, Bool.or_eq_true, bne_iff_ne, ne_eq] at h3
      obtain ⟨⟨_, hmulti⟩, hdd⟩ := h3
      have hdef : d.default = none ∨ ∃ ds, d.default = some (.arr ds) := by
        cases hd1 : d.default with
        | none => exact .inl rfl
        | some x =>
          cases x with
          | arr ds => exact .inr ⟨ds, rfl⟩
          | scalar _ => rw [hd1] at hdd; simp at hdd
      have hdk : declaredSKind d = some k := by simp [declaredSKind, hsk]
      simp only [known, hdk, convertedTexts, harr, if_true] at hk
      have hall : ∀ t ∈ (if (d.cf == "multi") = true then (getOK d r).1
          else splitByFormat (lastOr (getOK d r).1) d.cf), textKnown k t = none := by
        intro t ht
        exact (List.findSome?_eq_none_iff.1 hk) t ht
      by_cases hm : (d.cf == "multi") = true
      · have hallow : allowsMulti d.loc = true := by
          rcases hmulti with h | h
          · exact (h (by simpa using hm)).elim
          · exact h
        simp only [hm, hallow, Bool.not_true, Bool.and_false, Bool.false_eq_true, if_false, if_true, bindSlice]
        rw [g2]
        simp only [hm, if_true] at hall
        apply slice_main d k (specTexts d r) (getOK d r).1 hkc hext hdef
        · simp [specItems, hm, g1]
        · intro hne
          cases hst : specTexts d r with
          | none => rw [g1, hst] at hne; exact (hne rfl).elim
          | some _ => rfl
        · exact hall
      · have hm' : (d.cf == "multi") = false := by simpa using hm
        simp only [hm', Bool.false_and, Bool.false_eq_true, if_false, bindSlice]
        simp only [hm', Bool.false_eq_true, if_false] at hall
        have hsplit := specItems_split d (specTexts d r) hm'
        rw [← g1] at hsplit
        by_cases hv : (getOK d r).2.2 = true
        · simp only [hv, Bool.not_true, Bool.false_eq_true, if_false]
          rw [g2]
          apply slice_main d k (specTexts d r) _ hkc hext hdef hsplit.symm
          · intro hne
            cases hst : specTexts d r with
            | none =>
              rw [g1, hst] at hne
              exact (hne (by simp [lastOr, splitByFormat])).elim
            | some _ => rfl
          · exact hall
        · have hv' : (getOK d r).2.2 = false := by simpa using hv
          simp only [hv', Bool.not_false, if_true]
          rw [g2]
          have hnil : specItems d (specTexts d r) = [] := by
            rw [hsplit, g3 hv']; simp [splitByFormat]
          apply slice_main d k (specTexts d r) [] hkc hext hdef hnil.symm
          · intro hne; exact (hne rfl).elim
          · intro t ht; cases ht

/-- non-vacuity: the witness of T1's example meets `Decl.wf`, `Req.wf` and lies outside the finding classes -/
example :
    (exDecl nLimit .query "integer" "int8").wf = true ∧
    Req.wf (exDecl nLimit .query "integer" "int8") ⟨nLimit, some [[49], [45, 49, 50, 56]]⟩ = true ∧
    known (exDecl nLimit .query "integer" "int8") ⟨nLimit, some [[49], [45, 49, 50, 56]]⟩ = none := by
  decide

/-! ## Known findings are real in the model -/

/-- F03d: `inf` is bound to +Inf by a `number` parameter although it is no decimal literal. -/
theorem F03d_real :
    ∃ d r, d.wf = true ∧ known d r = some "F03d" ∧ specOk d r (bind d r) = false :=
  ⟨exDecl nLimit .query "number" "double", ⟨nLimit, some [[105, 110, 102]]⟩, by decide⟩

/-- F03e: `banana` is bound to `false` by a `boolean` parameter instead of being rejected. -/
theorem F03e_real :
    ∃ d r, d.wf = true ∧ known d r = some "F03e" ∧ specOk d r (bind d r) = false :=
  ⟨exDecl nLimit .query "boolean" "", ⟨nLimit, some [[98, 97, 110, 97, 110, 97]]⟩, by decide⟩

end RtVerif.C03
