import RtVerif.Model.C02
import RtVerif.Lemmas.C02
/-
  C02 — property theorems (helpers live in Lemmas/C02.lean).

  Every theorem quantifies over ALL requirement structures `ds` (ordered lists of alternatives, each
  a list of scheme names with scopes, possibly empty), ALL built structures `bs` that are `ds` with
  the schemes of each alternative in ANY order and ANY assignment of "has a registered
  authenticator" (`Reordered ds bs`), ALL per-scheme behaviours `env`, ALL authorizers (absent, or
  any function of the principal) and all four kinds of rest-of-request.

  `spec_direct_holds` / `spec_serve_holds` say that the model satisfies the very Boolean `Spec`
  the driver evaluates on what the real code did; the other theorems spell the content out as
  propositions.
-/
namespace RtVerif.C02
open RtVerif Bytes

/-- The driver's structure check establishes the hypothesis of all theorems below: when the
structure observed in `MatchedRoute.Authenticators` equals the model's `build` put in the observed
order, it is a reordering of the declared structure. -/
theorem reorder_sound (defs reg : List Name) (ds : List DocAlt) (os : List (List Name)) (bs : List Alt)
    (h : reorder (build defs reg ds) os = some bs) : Reordered ds bs :=
  reorder_reordered defs reg ds os bs h

/-- The Spec holds of `Context.Authorize` — every structure, order, outcome vector, authorizer. -/
theorem spec_direct_holds {ds : List DocAlt} {bs : List Alt} (h : Reordered ds bs) (env : Env)
    (authz : Option Authorizer) :
    specDirect ds env authz (authorizeFresh bs env authz).1 (authorizeFresh bs env authz).2 = true := by
  rw [specDirect_reordered h]
  exact specDirect_keys bs env authz

/-- `Context.Authorize` never dereferences a nil `route.Authenticator`. -/
theorem authorize_never_panics {ds : List DocAlt} {bs : List Alt} (h : Reordered ds bs) (env : Env)
    (authz : Option Authorizer) : (authorizeFresh bs env authz).1 ≠ .panic := by
  intro hp
  have := spec_direct_holds h env authz
  rw [hp] at this
  simp [specDirect] at this

/-- What the secured handler does is decided by `Context.Authorize` alone: let through to
bind+handle, or refused with the error's status and message with neither binding nor handler. -/
theorem secure_cases {ds : List DocAlt} {bs : List Alt} (h : Reordered ds bs) (hne : bs ≠ [])
    (env : Env) (authz : Option Authorizer) (k : ReqKind) :
    (∃ p sc, (authorizeFresh bs env authz).1 = .ok p sc ∧
        secure bs env authz k = downstream k (authorizeFresh bs env authz).2)
    ∨ (∃ e, (authorizeFresh bs env authz).1 = .err e ∧
        secure bs env authz k = ⟨statusOf e, msgOf e, false, 0, (authorizeFresh bs env authz).2, false⟩) := by
  have hemp : bs.isEmpty = false := by cases bs with | nil => exact absurd rfl hne | cons _ _ => rfl
  have hnp := authorize_never_panics h env authz
  unfold secure
  simp only [hemp, Bool.false_eq_true, ↓reduceIte]
  cases hr : (authorizeFresh bs env authz).1 with
  | ok p sc => left; exact ⟨p, sc, rfl, rfl⟩
  | err e => right; exact ⟨e, rfl, rfl⟩
  | panic => exact absurd hr hnp
  | noauth =>
    unfold authorizeFresh at hr
    simp only [hemp, Bool.false_eq_true, ↓reduceIte] at hr
    unfold finish at hr
    split at hr
    · split at hr <;> cases hr
    · split at hr
      · cases hr
      · split at hr <;> cases hr

/-- The Spec holds of the served request — every structure, order, outcome vector, authorizer and
whatever else is right or wrong with the request. -/
theorem spec_serve_holds {ds : List DocAlt} {bs : List Alt} (h : Reordered ds bs) (env : Env)
    (authz : Option Authorizer) (k : ReqKind) :
    specServe ds env authz (secure bs env authz k) = true := by
  by_cases hemp : bs = []
  · subst hemp
    have : ds.isEmpty = true := by rw [isEmpty_reordered h]; rfl
    unfold specServe
    simp only [this, ↓reduceIte]
    unfold secure
    cases k <;> rfl
  · have hds : ds.isEmpty = false := by
      rw [isEmpty_reordered h]
      cases bs with | nil => exact absurd rfl hemp | cons _ _ => rfl
    have hd := spec_direct_holds h env authz
    unfold specServe
    simp only [hds, Bool.false_eq_true, ↓reduceIte]
    rcases secure_cases h hemp env authz k with ⟨p, sc, hr, hs⟩ | ⟨e, hr, hs⟩
    · rw [hr] at hd
      have hadm := admissible_of_ok hd
      rw [hs]
      cases k <;> simp [downstream, hadm]
    · rw [hr] at hd
      rw [hs]
      simp only [Bool.false_eq_true, ↓reduceIte, Bool.or_self, bne_self_eq_false, Bool.or_eq_true]
      right
      unfold specDirect at hd
      exact refusalAllowed_mono ds env authz _ _ _ (by intro e' he'; simp at he'; subst he'; simp) hd

/-- S1 (`secure_sound`): if parameter binding or the handler ran, some declared alternative is fully
satisfied — every one of its schemes was consulted and accepted, the principal is non-nil and
yielded by one of them (or the alternative is the empty one and no consulted scheme rejected) — and
the authorizer, if any, accepts that principal. -/
theorem secure_sound {ds : List DocAlt} {bs : List Alt} (h : Reordered ds bs) (hne : bs ≠ [])
    (env : Env) (authz : Option Authorizer) (k : ReqKind)
    (hran : (secure bs env authz k).handlerRan = true ∨ (secure bs env authz k).consumerCalls ≠ 0) :
    ∃ a ∈ ds, ∃ p, Satisfied env (secure bs env authz k).log a p ∧ authzAccepts authz p = true := by
  rw [← admissible_iff]
  have hd := spec_direct_holds h env authz
  rcases secure_cases h hne env authz k with ⟨p, sc, hr, hs⟩ | ⟨e, hr, hs⟩
  · rw [hr] at hd
    rw [hs]
    have : (downstream k (authorizeFresh bs env authz).2).log = (authorizeFresh bs env authz).2 := by
      cases k <;> rfl
    rw [this]
    exact admissible_of_ok hd
  · rw [hs] at hran
    simp at hran

/-- S1 for the principal and scopes handed out: they are a satisfied alternative's, and the
authorizer accepts that principal. The scopes are exactly the alternative's (as a set). -/
theorem authorize_sound {ds : List DocAlt} {bs : List Alt} (h : Reordered ds bs) (env : Env)
    (authz : Option Authorizer) (p : Option Principal) (sc : List Scope)
    (hok : (authorizeFresh bs env authz).1 = .ok p sc) :
    ∃ a ∈ ds, Satisfied env (authorizeFresh bs env authz).2 a p ∧ authzAccepts authz p = true ∧
      ∀ x, x ∈ sc ↔ ∃ s ∈ a, x ∈ s.2 := by
  have hd := spec_direct_holds h env authz
  rw [hok] at hd
  unfold specDirect at hd
  simp only [List.any_eq_true, Bool.and_eq_true, satisfiedBy_iff, sameSet_iff] at hd
  obtain ⟨a, ha, ⟨hs, hz⟩, hsc⟩ := hd
  refine ⟨a, ha, hs, hz, ?_⟩
  intro x
  rw [hsc x]
  unfold docScopes
  exact List.mem_flatMap

/-- The empty alternative admits a request only when no consulted scheme rejected. -/
theorem anonymous_only_without_rejection {ds : List DocAlt} {bs : List Alt} (h : Reordered ds bs)
    (env : Env) (authz : Option Authorizer) (sc : List Scope)
    (hok : (authorizeFresh bs env authz).1 = .ok none sc) :
    ([] : DocAlt) ∈ ds ∧ NoRejection env (authorizeFresh bs env authz).2 ∧ sc = [] := by
  obtain ⟨a, ha, hs, _, hsc⟩ := authorize_sound h env authz none sc hok
  rcases hs with ⟨rfl, _, hn⟩ | ⟨_, _, x, hx, _⟩
  · refine ⟨ha, hn, ?_⟩
    cases sc with
    | nil => rfl
    | cons y _ => exact absurd ((hsc y).mp (by simp)) (by simp)
  · cases hx

/-- S2 (`secure_refusal_status`): every refusal carries a consulted rejecting scheme's error, or 401
when no consulted scheme rejected, or the error of the authorizer (403 unless it carries its own
status) refusing the principal of a satisfied alternative; and it is served with that error's status
and message. -/
theorem secure_refusal_status {ds : List DocAlt} {bs : List Alt} (h : Reordered ds bs)
    (env : Env) (authz : Option Authorizer) (k : ReqKind) (e : Err)
    (herr : (authorizeFresh bs env authz).1 = .err e) :
    Refusal ds env authz (authorizeFresh bs env authz).2 e ∧
    (secure bs env authz k).status = statusOf e ∧ (secure bs env authz k).msg = msgOf e := by
  have hd := spec_direct_holds h env authz
  rw [herr] at hd
  unfold specDirect at hd
  simp only at hd
  refine ⟨(refusalAllowed_eq_iff ds env authz _ e).mp hd, ?_⟩
  have hne : bs ≠ [] := by
    intro hb; subst hb
    simp [authorizeFresh] at herr
  rcases secure_cases h hne env authz k with ⟨p, sc, hr, _⟩ | ⟨e', hr, hs⟩
  · rw [hr] at herr; cases herr
  · rw [hr] at herr
    cases herr
    rw [hs]
    exact ⟨rfl, rfl⟩

/-- S2, the statuses named in the text: 401 when no alternative applied, 403 for an authorizer error
without a status of its own, the error's own status otherwise. -/
theorem refusal_statuses :
    statusOf unauthenticated = 401 ∧
    (∀ m, statusOf (specAuthzErr (.plain m)) = 403) ∧
    (∀ c m, c < 600 → statusOf (specAuthzErr (.coded c m)) = c) ∧
    (∀ e, authorizerErr e = specAuthzErr e) := by
  refine ⟨rfl, fun _ => rfl, ?_, authorizerErr_eq⟩
  intro c m hc
  simp only [specAuthzErr, statusOf]
  split
  · omega
  · rfl

/-- `secure_no_bind_no_handle_on_refusal`: unless `Context.Authorize` lets the request through,
neither parameter binding (the consumer) nor the operation handler runs — whatever the rest of the
request looks like. -/
theorem secure_no_bind_no_handle_on_refusal {ds : List DocAlt} {bs : List Alt} (h : Reordered ds bs)
    (hne : bs ≠ []) (env : Env) (authz : Option Authorizer) (k : ReqKind)
    (hnot : ∀ p sc, (authorizeFresh bs env authz).1 ≠ .ok p sc) :
    (secure bs env authz k).handlerRan = false ∧ (secure bs env authz k).consumerCalls = 0 := by
  rcases secure_cases h hne env authz k with ⟨p, sc, hr, _⟩ | ⟨e, _, hs⟩
  · exact absurd hr (hnot p sc)
  · rw [hs]; exact ⟨rfl, rfl⟩

/-- The decision does not depend on the rest of the request: the same schemes are consulted and the
same verdict is reached for a good and for a broken request. -/
theorem secure_log_independent_of_request (bs : List Alt) (env : Env) (authz : Option Authorizer)
    (k k' : ReqKind) (hne : bs ≠ []) :
    (secure bs env authz k).log = (secure bs env authz k').log := by
  have hemp : bs.isEmpty = false := by cases bs with | nil => exact absurd rfl hne | cons _ _ => rfl
  unfold secure
  simp only [hemp, Bool.false_eq_true, ↓reduceIte]
  cases (authorizeFresh bs env authz).1 <;> cases k <;> cases k' <;> rfl

/-- `authorize_memo`: a second `Authorize` with the request returned by a successful first call that
produced a non-nil principal consults nothing and returns the same principal and scopes. -/
theorem authorize_memo (bs : List Alt) (env : Env) (authz : Option Authorizer) (p : Principal)
    (sc : List Scope) (_h : (authorizeFresh bs env authz).1 = .ok (some p) sc) :
    authorizeAgain bs env authz (authorizeFresh bs env authz).1 = (.ok (some p) sc, []) := by
  rw [_h]; rfl

/-- (F02a, repaired by the `fix:` commit) An alternative naming a scheme without a registered
authenticator never applies, in any order, whatever the other schemes answer. -/
theorem f02a_unregistered_alternative_fails_closed (env : Env) (a : List Req) (last : Option Principal)
    (h : ∃ s ∈ a, s.registered = false) :
    (authSchemes env last a).satisfied = false := by
  have := authSchemes_unregistered env a last h
  unfold AltRes.satisfied
  cases h1 : (authSchemes env last a).applies with
  | false => rfl
  | true =>
    cases h2 : (authSchemes env last a).err with
    | some e => rfl
    | none => exact absurd ⟨h1, h2⟩ this

/-- S2, sharper than the Spec asks: when no alternative produced a principal, the error returned is
the error of the LAST consulted scheme that rejected (401 when none did). -/
theorem refusal_is_last_rejection (bs : List Alt) (env : Env) (authz : Option Authorizer) (hne : bs ≠ [])
    (hnone : (authAll env none false bs).princ = none)
    (hrej : rejections env (authorizeFresh bs env authz).2 ≠ []) :
    ∃ e, (rejections env (authorizeFresh bs env authz).2).getLast? = some e ∧
      (authorizeFresh bs env authz).1 = .err e := by
  have hemp : bs.isEmpty = false := by cases bs with | nil => exact absurd rfl hne | cons _ _ => rfl
  have hl := authAll_last_rejection env bs none false hnone
  unfold authorizeFresh at hrej ⊢
  simp only [hemp, Bool.false_eq_true, ↓reduceIte, Option.toList_none, List.nil_append] at hrej hl ⊢
  cases hg : (rejections env (authAll env none false bs).log).getLast? with
  | none => rw [List.getLast?_eq_none_iff] at hg; exact absurd hg hrej
  | some e =>
    refine ⟨e, rfl, ?_⟩
    rw [hg] at hl
    unfold finish
    simp [hl]

/-- Not vacuous (the model does not simply refuse): if some non-empty alternative has all its
schemes registered and accepting with non-nil principals, and the authorizer (if any) accepts
every principal, a good request reaches the handler. -/
theorem secure_complete (bs : List Alt) (env : Env) (authz : Option Authorizer)
    (hsat : ∃ a ∈ bs, a ≠ [] ∧ ∀ s ∈ a, s.registered = true ∧ ∃ x, env s.name s.scopes = .accepted (some x))
    (hz : ∀ p, runAuthorizer authz p = none) :
    (secure bs env authz .good).handlerRan = true ∧ (secure bs env authz .good).status = 200 := by
  obtain ⟨a, ha, hane, hall⟩ := hsat
  have hne : bs.isEmpty = false := by cases bs with | nil => simp at ha | cons _ _ => rfl
  have hsat' : ∃ a ∈ bs, a.isEmpty = false ∧ (authSchemes env none a).satisfied = true :=
    ⟨a, ha, by cases a with | nil => exact absurd rfl hane | cons _ _ => rfl,
      authSchemes_all_accept env a none hall (fun h => absurd h hane)⟩
  obtain ⟨h1, h2, h3, h4⟩ := authAll_complete env bs none false hsat'
  obtain ⟨x, hx⟩ := Option.isSome_iff_exists.mp h2
  obtain ⟨b, hb⟩ := Option.isSome_iff_exists.mp h4
  have : (authorizeFresh bs env authz).1 = .ok (some x) (allScopes b) := by
    unfold authorizeFresh finish
    simp [hne, h1, h3, hx, hb, hz]
  unfold secure
  simp only [hne, Bool.false_eq_true, ↓reduceIte, this]
  exact ⟨rfl, rfl⟩

/-! ### documentation theorems -/

def nA : Name := [65]
def nB : Name := [66]

/-- the pre-fix loop of `RouteAuthenticator.Authenticate`: unregistered schemes were skipped -/
def authSchemesSkip (env : Env) (last : Option Principal) : List Req → AltRes
  | [] => ⟨true, last, none, true, []⟩
  | s :: rest =>
    if s.registered then
      match env s.name s.scopes with
      | .notApplicable => ⟨false, none, none, false, [s.call]⟩
      | .rejected e => ⟨true, none, some e, true, [s.call]⟩
      | .accepted p => (authSchemesSkip env p rest).logged s.call
    else authSchemesSkip env last rest

/-- F02a was real: with the pre-fix loop, `{A, B}` with B unregistered and only A's credentials is
"satisfied" although B was never consulted — and no declared alternative is `Satisfied`. -/
theorem f02a_prefix_code_witness :
    let env : Env := fun n _ => if n = nA then .accepted (some [112, 65]) else .notApplicable
    let a : Alt := [⟨nA, [], true⟩, ⟨nB, [], false⟩]
    (authSchemesSkip env none a).satisfied = true ∧
    admissible [a.map Req.key] env none (authSchemesSkip env none a).log = false := by
  decide

/-- S3 is about every order, it does NOT say the decision is the same for every order: with
`{A, B}` next to the empty alternative, A rejecting and B not applicable, the request is refused
when A is consulted first and admitted anonymously when B is. Both satisfy the Spec. -/
theorem order_can_change_decision :
    ∃ (ds : List DocAlt) (bs bs' : List Alt) (env : Env),
      Reordered ds bs ∧ Reordered ds bs' ∧
      (secure bs env none .good).handlerRan = false ∧ (secure bs' env none .good).handlerRan = true := by
  refine ⟨[[(nA, []), (nB, [])], []],
    [[⟨nA, [], true⟩, ⟨nB, [], true⟩], []], [[⟨nB, [], true⟩, ⟨nA, [], true⟩], []],
    fun n _ => if n = nA then .rejected (.plain [110, 111]) else .notApplicable, ?_, ?_, ?_, ?_⟩
  · exact .cons (by decide) (.cons (by decide) .nil)
  · exact .cons (by decide) (.cons (by decide) .nil)
  · decide
  · decide

/-! ### non-vacuity: concrete inputs meeting the hypotheses -/

def nC : Name := [67]
def exDecl : List DocAlt := [[(nA, [[115, 49]]), (nB, []), (nC, [[115, 50]])], []]
def exBuilt : List Alt := [[⟨nC, [[115, 50]], true⟩, ⟨nA, [[115, 49]], true⟩, ⟨nB, [], true⟩], []]
def exEnv : Env := fun n _ =>
  if n = nA then .accepted (some [112, 65]) else if n = nB then .accepted none
  else .accepted (some [112, 67])
def exAuthz : Option Authorizer := some fun p => if p = some [112, 67] then some (.plain [110, 111]) else none

/-- AND-of-3 in a permuted order, with an authorizer -/
example : Reordered exDecl exBuilt := .cons (by decide) (.cons (by decide) .nil)
example : exBuilt ≠ [] := by decide
/-- AND of three with a nil principal in the middle of the order: refused (401), the anonymous
alternative is then taken -/
example : (authorizeFresh exBuilt exEnv exAuthz).1 = .ok none [] := by decide
/-- the last scheme in the order gives the principal; the authorizer accepts pA -/
example : (authorizeFresh [[⟨nC, [[115, 50]], true⟩, ⟨nB, [], true⟩, ⟨nA, [[115, 49]], true⟩]] exEnv exAuthz).1
    = .ok (some [112, 65]) [[115, 50], [115, 49]] := by decide
/-- … and refuses pC with 403 -/
example : (authorizeFresh [[⟨nA, [[115, 49]], true⟩, ⟨nB, [], true⟩, ⟨nC, [[115, 50]], true⟩]] exEnv exAuthz).1
    = .err (.coded 403 [110, 111]) := by decide
example : (secure [[⟨nA, [[115, 49]], true⟩, ⟨nB, [], true⟩, ⟨nC, [[115, 50]], true⟩]] exEnv none .good).handlerRan = true := by
  decide
/-- hypotheses of `refusal_is_last_rejection`: two alternatives rejecting in turn -/
example : (authAll (fun n _ => if n = nA then .rejected (.plain [49]) else .rejected (.coded 403 [50])) none false
    [[⟨nA, [], true⟩], [⟨nB, [], true⟩]]).princ = none := by decide
/-- hypotheses of `secure_complete` -/
example : ∀ s ∈ ([⟨nA, [], true⟩, ⟨nC, [], true⟩] : Alt),
    s.registered = true ∧ ∃ x, exEnv s.name s.scopes = .accepted (some x) := by
  intro s hs
  simp only [List.mem_cons, List.not_mem_nil, or_false] at hs
  rcases hs with rfl | rfl
  · exact ⟨rfl, [112, 65], by decide⟩
  · exact ⟨rfl, [112, 67], by decide⟩
/-- an alternative with an unregistered scheme -/
example : ∃ s ∈ ([⟨nA, [], true⟩, ⟨nB, [], false⟩] : Alt), s.registered = false := ⟨⟨nB, [], false⟩, by simp, rfl⟩

end RtVerif.C02
