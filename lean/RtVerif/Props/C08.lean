import RtVerif.Model.C08
import RtVerif.Lemmas.C08
/-
  C08 — property theorems (helpers live in Lemmas/C08.lean).

  `respond` / `serve` are transcriptions of `Context.Respond` and of the handler built by
  `Context.APIHandler`; the theorems state, for every configuration, route, request, handler
  outcome and producer behaviour, what the property text demands of them, first clause by clause
  and then as "the model meets the executable Spec" (the Spec the driver applies to the real code).
-/
namespace RtVerif.C08
open RtVerif Bytes

/-! ### a handler returns a plain value for an operation with a declared success status -/

/-- Status = the declared success status, Content-Type = the negotiated type, no body for HEAD /
204, otherwise the body is exactly what the producer registered for that type (parameters ignored)
writes for the value, and that producer is the only one called. -/
theorem plain_value_response (cfg : Cfg) (produces : List Bytes) (r : Route) (req : Req)
    (enc : Bytes → ProdRes) (ebody : Bytes) (code : Nat)
    (hop : r.hasOp = true) (hs : r.success = some code) :
    (respond cfg produces (some r) req .value enc ebody).status = code ∧
    (respond cfg produces (some r) req .value enc ebody).ct = negotiated cfg produces req ∧
    ((code = 204 ∨ req.method = headB) →
      (respond cfg produces (some r) req .value enc ebody).body = [] ∧
      (respond cfg produces (some r) req .value enc ebody).calls = []) ∧
    (¬(code = 204 ∨ req.method = headB) →
      registeredFor cfg r (stripParams (negotiated cfg produces req)) = true →
      (respond cfg produces (some r) req .value enc ebody).calls =
        [(stripParams (negotiated cfg produces req), true)] ∧
      (respond cfg produces (some r) req .value enc ebody).body =
        (enc (stripParams (negotiated cfg produces req))).out) := by
  have hfmt := responseFormat_eq cfg produces req
  simp only [respond, routeHasOp, hop, if_true, respondPlainOp, hs, hfmt, lookupKey_eq]
  by_cases hc : (code == 204 || req.method == headB) = true
  · have hc' : code = 204 ∨ req.method = headB := by simpa using hc
    simp [hc, hc']
  · have hc' : ¬(code = 204 ∨ req.method = headB) := by simpa using hc
    simp only [hc, Bool.false_eq_true, if_false]
    refine ⟨?_, ?_, fun h => absurd h hc', fun _ hreg => ?_⟩
    · split <;> simp
    · split <;> simp
    · rw [registeredFor_eq, stripParams_eq] at hreg
      rw [pickProducer_of_has hreg, stripParams_eq]
      simp

/-- The negotiated type (hence the Content-Type of every handler result) is one of the operation's
produces entries or the API default — or empty when the Accept header admits none of them. -/
theorem negotiated_is_declared_or_default (cfg : Cfg) (produces : List Bytes) (req : Req)
    (hmemo : req.memo = none) :
    negotiated cfg produces req = [] ∨ negotiated cfg produces req ∈ produces ∨
      negotiated cfg produces req = cfg.dflt := by
  unfold negotiated
  rw [hmemo]
  rcases C07.specChoice_mem req.specs (produces.filter (· != cfg.dflt) ++ [cfg.dflt]) [] with h | h
  · exact Or.inl h
  · rcases List.mem_append.mp h with h | h
    · exact Or.inr (Or.inl (List.mem_filter.mp h).1)
    · exact Or.inr (Or.inr (by simpa using h))

/-! concrete inputs for the non-vacuity examples -/
def exJSON : Bytes := [97, 112, 112, 108, 105, 99, 97, 116, 105, 111, 110, 47, 106, 115, 111, 110]
def exText : Bytes := [116, 101, 120, 116, 47, 112, 108, 97, 105, 110]                         -- text/plain
def exTextCharset : Bytes := exText ++ [59, 32, 99, 104, 97, 114, 115, 101, 116, 61, 117, 116, 102, 45, 56]  -- text/plain; charset=utf-8
def exPNG : Bytes := [105, 109, 97, 103, 101, 47, 112, 110, 103]                              -- image/png
def exGET : Bytes := [71, 69, 84]
def exCfg : Cfg := ⟨exJSON, [exJSON, exText]⟩
/-- `produces: ["text/plain; charset=utf-8"]` as the router stores it (default appended) -/
def exRoute : Route := ⟨[exTextCharset, exJSON], true, some 200⟩
def exEnc (k : Bytes) : ProdRes := if k == exText then ⟨true, [104, 105]⟩ else ⟨true, [34, 104, 105, 34, 10]⟩
def exReq : Req := ⟨exGET, [], none, []⟩
/-- `Accept: image/png` -/
def exAcceptPNG : List C07.Spec := [⟨exPNG, ⟨1, 0, 0⟩⟩]

/-- F08a, repaired: `produces: text/plain; charset=utf-8` is answered by the text/plain producer,
under the negotiated header, with the declared status (hypotheses of `plain_value_response` met). -/
example :
    exRoute.hasOp = true ∧ exRoute.success = some 200 ∧ ¬(200 = 204 ∨ exReq.method = headB) ∧
    negotiated exCfg exRoute.produces exReq = exTextCharset ∧
    registeredFor exCfg exRoute (stripParams (negotiated exCfg exRoute.produces exReq)) = true ∧
    (respond exCfg exRoute.produces (some exRoute) exReq .value exEnc []).calls = [(exText, true)] ∧
    (respond exCfg exRoute.produces (some exRoute) exReq .value exEnc []).body = [104, 105] ∧
    (respond exCfg exRoute.produces (some exRoute) exReq .value exEnc []).ct = exTextCharset := by decide

/-! ### a result that knows how to write itself -/

/-- A Responder is handed the producer registered for the negotiated type (parameters ignored) —
the same one a plain value would be written with. -/
theorem responder_receives_that_producer (cfg : Cfg) (produces : List Bytes) (r : Route) (req : Req)
    (d : Data) (enc : Bytes → ProdRes) (ebody : Bytes)
    (hd : d = .custom ∨ d = .errResponder)
    (hreg : registeredFor cfg r (stripParams (negotiated cfg produces req)) = true) :
    (respond cfg produces (some r) req d enc ebody).handed = [stripParams (negotiated cfg produces req)] ∧
    (respond cfg produces (some r) req d enc ebody).ct = negotiated cfg produces req := by
  have hfmt := responseFormat_eq cfg produces req
  rw [registeredFor_eq, stripParams_eq] at hreg
  rcases hd with rfl | rfl <;>
    simp [respond, respondResponder, hfmt, pickProducer_of_has hreg, stripParams_eq]

/-- `middleware.Error(code, payload)` (`errorResp.WriteResponse`): its status, and its payload
encoded by that same producer. -/
theorem errorResp_written_by_that_producer (cfg : Cfg) (produces : List Bytes) (r : Route) (req : Req)
    (code : Nat) (enc : Bytes → ProdRes) (ebody : Bytes)
    (hreg : registeredFor cfg r (stripParams (negotiated cfg produces req)) = true) :
    (respond cfg produces (some r) req (.errorResp code) enc ebody).calls =
      [(stripParams (negotiated cfg produces req), true)] ∧
    (respond cfg produces (some r) req (.errorResp code) enc ebody).body =
      (enc (stripParams (negotiated cfg produces req))).out ∧
    (respond cfg produces (some r) req (.errorResp code) enc ebody).status = (if code > 0 then code else 500) ∧
    (respond cfg produces (some r) req (.errorResp code) enc ebody).ct = negotiated cfg produces req := by
  have hfmt := responseFormat_eq cfg produces req
  rw [registeredFor_eq, stripParams_eq] at hreg
  simp [respond, respondResponder, hfmt, pickProducer_of_has hreg, stripParams_eq]

example : registeredFor exCfg exRoute (stripParams (negotiated exCfg exRoute.produces exReq)) = true ∧
    (respond exCfg exRoute.produces (some exRoute) exReq .custom exEnc []).handed = [exText] := by decide

/-! ### errors -/

/-- An error handed to `Respond` reaches the API's error responder, exactly once and as it is, with
the JSON content type if nothing was negotiated (the negotiated type otherwise) and with the
`WWW-Authenticate` challenge when a basic authenticator marked the request. -/
theorem error_reaches_error_responder (cfg : Cfg) (produces : List Bytes) (route : Option Route) (req : Req)
    (e : ErrV) (s : Bool) (enc : Bytes → ProdRes) (ebody : Bytes) :
    (respond cfg produces route req (.error e s) enc ebody).errcalls =
      [⟨e, s, if negotiated cfg produces req == [] then jsonMime else negotiated cfg produces req,
        if req.marker != [] then challenge req.marker else []⟩] ∧
    (respond cfg produces route req (.error e s) enc ebody).www =
      (if req.marker != [] then [challenge req.marker] else []) := by
  have hfmt := responseFormat_eq cfg produces req
  simp only [respond, hfmt]
  exact ⟨respondError_errcalls _ _ _ _ _ _ rfl, respondError_www _ _ _ _ _ _⟩

/-- When the marker is set: a basic authenticator marks the request with its configured realm (the
documented default name for an empty one) exactly when the request carries no basic credentials or
the authentication function rejects them with an error. -/
theorem basicMarker_iff (realm : Bytes) (creds : Bool) (fn : AuthFn) :
    ((creds = false ∨ ∃ e, fn = .err e) → basicMarker realm creds fn = effRealm realm) ∧
    (¬(creds = false ∨ ∃ e, fn = .err e) → basicMarker realm creds fn = []) := by
  cases creds <;> cases fn <;> simp [basicMarker]

/-! ### through the API handler -/

/-- A failed basic-auth attempt (no basic credentials, or credentials the authentication function
rejects) is answered through the error responder with `WWW-Authenticate: Basic realm="<realm>"`
naming the configured realm; the handler does not run. -/
theorem failed_basic_auth_is_challenged (c : ApiCase) (enc : Bytes → ProdRes) (ebody : Bytes) (realm : Bytes)
    (hsec : c.sec = some realm) (hfail : c.creds = false ∨ ∃ e, c.fn = .err e) :
    (serve c enc ebody).www = [challenge (effRealm realm)] ∧
    (∃ call, (serve c enc ebody).errcalls = [call] ∧ call.www = challenge (effRealm realm)) ∧
    (serve c enc ebody).ran = false := by
  have hne := effRealm_ne_nil realm
  have hmark : basicMarker realm c.creds c.fn = effRealm realm :=
    (basicMarker_iff realm c.creds c.fn).1 hfail
  have hfailAuth : ∃ e s, authorize c.creds c.fn = .fail e s := by
    rcases hfail with h | ⟨e, h⟩
    · exact ⟨.api 401, false, by simp [authorize, h]⟩
    · cases hc : c.creds
      · exact ⟨.api 401, false, by simp [authorize]⟩
      · exact ⟨e, true, by simp [authorize, h]⟩
  obtain ⟨e, s, ha⟩ := hfailAuth
  have hout : serve c enc ebody = respond c.cfg c.route.produces (some c.route)
      ⟨c.method, c.specs, none, effRealm realm⟩ (.error e s) enc ebody := by
    simp only [serve, hsec, ha, hmark]
  rw [hout]
  have h := error_reaches_error_responder c.cfg c.route.produces (some c.route)
    ⟨c.method, c.specs, none, effRealm realm⟩ e s enc ebody
  have hb : (effRealm realm != []) = true := by simpa using hne
  simp only [hb, if_true] at h
  refine ⟨h.2, ⟨_, h.1, rfl⟩, ?_⟩
  simp [respond, respondError, callErrorResponder]

/-- The error the authentication function returned is the one the error responder receives. -/
theorem rejected_credentials_error_is_served (c : ApiCase) (enc : Bytes → ProdRes) (ebody : Bytes)
    (realm : Bytes) (e : ErrV) (hsec : c.sec = some realm) (hc : c.creds = true) (hfn : c.fn = .err e) :
    ∃ call, (serve c enc ebody).errcalls = [call] ∧ call.cls = e ∧ call.supplied = true ∧
      (serve c enc ebody).status = serveStatus e := by
  have h := error_reaches_error_responder c.cfg c.route.produces (some c.route)
    ⟨c.method, c.specs, none, basicMarker realm c.creds c.fn⟩ e true enc ebody
  have hout : serve c enc ebody = respond c.cfg c.route.produces (some c.route)
      ⟨c.method, c.specs, none, basicMarker realm c.creds c.fn⟩ (.error e true) enc ebody := by
    simp [serve, hsec, authorize, hc, hfn]
  rw [hout]
  exact ⟨_, h.1, rfl, rfl, by simp [respond, respondError, callErrorResponder]⟩

example :  -- absent credentials, realm "my realm" … and the empty realm falls back to "API"
    (serve ⟨exCfg, exRoute, exGET, [], some [109, 121], false, .ok, .value⟩ exEnc []).www
      = [[66, 97, 115, 105, 99, 32, 114, 101, 97, 108, 109, 61, 34, 109, 121, 34]] ∧
    (serve ⟨exCfg, exRoute, exGET, [], some [], true, .err (.api 401), .value⟩ exEnc []).www
      = [[66, 97, 115, 105, 99, 32, 114, 101, 97, 108, 109, 61, 34, 65, 80, 73, 34]] := by decide

/-- the security stage lets the request through: unprotected operation, or accepted credentials -/
def AuthPasses (c : ApiCase) : Prop := c.sec = none ∨ (c.creds = true ∧ c.fn = .ok)

/-- C07 (T6): a request whose Accept header admits none of the types its operation declares
(non-empty) is answered 406 through the error responder, and the handler does not run. -/
theorem not_acceptable_is_406 (c : ApiCase) (enc : Bytes → ProdRes) (ebody : Bytes)
    (hauth : AuthPasses c) (hne : c.route.produces ≠ [])
    (hnone : C07.specChoice c.specs c.route.produces [] = []) :
    (serve c enc ebody).status = 406 ∧ (serve c enc ebody).ran = false ∧
    (∃ call, (serve c enc ebody).errcalls = [call] ∧ call.cls = .compApi 406) := by
  have hna : notAcceptable c = true := by
    simp [notAcceptable, C07.negotiate_eq_spec, hnone, hne]
  have hout : serve c enc ebody = respond c.cfg c.route.produces (some c.route)
      ⟨c.method, c.specs, none, []⟩ (.error (.compApi 406) false) enc ebody := by
    rcases hauth with h | ⟨h1, h2⟩
    · simp [serve, h, afterAuth, hna]
    · cases hs : c.sec <;> simp [serve, hs, authorize, h1, h2, afterAuth, hna]
  rw [hout]
  have h := error_reaches_error_responder c.cfg c.route.produces (some c.route)
    ⟨c.method, c.specs, none, []⟩ (.compApi 406) false enc ebody
  refine ⟨?_, ?_, _, h.1, rfl⟩
  · simp [respond, respondError, callErrorResponder, serveStatus, asHTTPCode]
  · simp [respond, respondError, callErrorResponder]

example :  -- `Accept: image/png` against produces text/plain (+ JSON default): hypotheses met, 406
    AuthPasses ⟨exCfg, exRoute, exGET, exAcceptPNG, none, false, .ok, .value⟩ ∧ exRoute.produces ≠ [] ∧
    C07.specChoice exAcceptPNG exRoute.produces [] = [] ∧
    (serve ⟨exCfg, exRoute, exGET, exAcceptPNG, none, false, .ok, .value⟩ exEnc []).status = 406 :=
  ⟨Or.inl rfl, by decide, by decide, by decide⟩

/-- Otherwise the handler runs and its outcome goes through `Respond` (so the clauses above apply
to every request served by the API handler). -/
theorem handler_outcome_is_responded (c : ApiCase) (enc : Bytes → ProdRes) (ebody : Bytes)
    (hauth : AuthPasses c)
    (hacc : c.route.produces = [] ∨ C07.specChoice c.specs c.route.produces [] ≠ []) :
    serve c enc ebody =
      { respond c.cfg c.route.produces (some c.route) ⟨c.method, c.specs, none, []⟩ c.data enc ebody
        with ran := true } := by
  have hna : notAcceptable c = false := by
    rcases hacc with h | h
    · simp [notAcceptable, h]
    · simp [notAcceptable, C07.negotiate_eq_spec, h]
  rcases hauth with h | ⟨h1, h2⟩
  · simp [serve, h, afterAuth, hna]
  · cases hs : c.sec <;> simp [serve, hs, authorize, h1, h2, afterAuth, hna]

/-! ### the model meets the executable Spec (the one the driver applies to the real code) -/

/-- The error clause of the Spec holds for every `Respond` call that is handed an error. -/
theorem error_clause_holds (cfg : Cfg) (produces : List Bytes) (route : Option Route) (req : Req)
    (failedBasic : Option Bytes) (e : ErrV) (s : Bool) (enc : Bytes → ProdRes) (ebody : Bytes)
    (hfb : ∀ realm, failedBasic = some realm → req.marker = effRealm realm) :
    specError (negotiated cfg produces req) e s failedBasic
      (respond cfg produces route req (.error e s) enc ebody) = true := by
  obtain ⟨h1, h2⟩ := error_reaches_error_responder cfg produces route req e s enc ebody
  unfold specError
  rw [h1]
  cases failedBasic with
  | none => simp
  | some realm =>
    have hm := hfb realm rfl
    have hne : (req.marker != []) = true := by rw [hm]; simpa using effRealm_ne_nil realm
    have hch : basicRealmEq ++ goQuote (if realm == [] then Facts.defaultRealmNameB else realm) =
        challenge req.marker := by rw [hm]; rfl
    simp only [h2, hne, if_true, hch]
    simp

/-- Every `Respond` call satisfies the Spec — all configurations, routes, requests, outcomes and
producer behaviours; `failedBasic` is tied to the request by the marker the authenticator left. -/
theorem respond_meets_spec (cfg : Cfg) (produces : List Bytes) (route : Option Route) (req : Req)
    (failedBasic : Option Bytes) (d : Data) (enc : Bytes → ProdRes) (ebody : Bytes)
    (hfb : ∀ realm, failedBasic = some realm → req.marker = effRealm realm) :
    specRespond cfg produces route req failedBasic d enc (respond cfg produces route req d enc ebody) = true := by
  cases d with
  | error e s => exact error_clause_holds cfg produces route req failedBasic e s enc ebody hfb
  | value =>
    simp only [specRespond]
    cases hr : routeHasOp route with
    | none => rfl
    | some r =>
      obtain ⟨rfl, hop⟩ := routeHasOp_some hr
      cases hs : r.success with
      | none => simp only [hs]
      | some code =>
        obtain ⟨h1, h2, h3, h4⟩ := plain_value_response cfg produces r req enc ebody code hop hs
        simp only [hs, h1, h2, beq_self_eq_true, Bool.true_and]
        by_cases hc : (code == 204 || req.method == headB) = true
        · have hc' : code = 204 ∨ req.method = headB := by simpa using hc
          obtain ⟨hb, hcalls⟩ := h3 hc'
          simp [hc, hb, hcalls]
        · have hc' : ¬(code = 204 ∨ req.method = headB) := by simpa using hc
          simp only [hc, Bool.false_eq_true, if_false]
          split
          · rename_i hreg
            obtain ⟨hcalls, hb⟩ := h4 hc' hreg
            simp [hcalls, hb]
          · rfl
  | custom =>
    simp only [specRespond]
    cases route with
    | none => rfl
    | some r =>
      simp only
      split
      · rename_i hreg
        simp [(responder_receives_that_producer cfg produces r req .custom enc ebody (Or.inl rfl) hreg).1]
      · rfl
  | errResponder =>
    simp only [specRespond]
    cases route with
    | none => rfl
    | some r =>
      simp only
      split
      · rename_i hreg
        simp [(responder_receives_that_producer cfg produces r req .errResponder enc ebody (Or.inr rfl) hreg).1]
      · rfl
  | errorResp code =>
    simp only [specRespond]
    cases route with
    | none => rfl
    | some r =>
      simp only
      split
      · rename_i hreg
        simp [(errorResp_written_by_that_producer cfg produces r req code enc ebody hreg).1]
      · rfl

example :  -- the hypothesis is met by what the authenticator does: the marker it leaves
    ∀ realm, (some [109, 121] : Option Bytes) = some realm →
      (⟨exGET, [], none, basicMarker [109, 121] false .ok⟩ : Req).marker = effRealm realm := by
  intro realm h; cases h; decide

/-- The Spec's demands on a request that passed the security stage: 406 without running the handler
when nothing is acceptable, otherwise the handler ran and its outcome meets the `Respond` clauses. -/
theorem authenticated_request_meets_spec (c : ApiCase) (enc : Bytes → ProdRes) (ebody : Bytes) (hauth : AuthPasses c) :
    (if (!c.route.produces.isEmpty && C07.specChoice c.specs c.route.produces [] == []) = true then
      (serve c enc ebody).status == 406 && !(serve c enc ebody).ran &&
        specError (negotiated c.cfg c.route.produces ⟨c.method, c.specs, none, []⟩) (.compApi 406) false none
          (serve c enc ebody)
    else (serve c enc ebody).ran &&
      specRespond c.cfg c.route.produces (some c.route) ⟨c.method, c.specs, none, []⟩ none c.data enc
        (serve c enc ebody)) = true := by
  split
  · rename_i h
    have hne : c.route.produces ≠ [] := by
      intro h0; simp [h0] at h
    have hnone : C07.specChoice c.specs c.route.produces [] = [] := by
      simp only [Bool.and_eq_true, beq_iff_eq] at h; exact h.2
    obtain ⟨h1, h2, _⟩ := not_acceptable_is_406 c enc ebody hauth hne hnone
    have hna : notAcceptable c = true := by
      simp [notAcceptable, C07.negotiate_eq_spec, hnone, hne]
    have hout : serve c enc ebody = respond c.cfg c.route.produces (some c.route)
        ⟨c.method, c.specs, none, []⟩ (.error (.compApi 406) false) enc ebody := by
      rcases hauth with h | ⟨h1, h2⟩
      · simp [serve, h, afterAuth, hna]
      · cases hs : c.sec <;> simp [serve, hs, authorize, h1, h2, afterAuth, hna]
    simp only [h1, h2, beq_self_eq_true, Bool.not_false, Bool.true_and]
    rw [hout]
    exact error_clause_holds c.cfg c.route.produces (some c.route) ⟨c.method, c.specs, none, []⟩ none
      (.compApi 406) false enc ebody (fun _ h => by cases h)
  · rename_i h
    have hacc : c.route.produces = [] ∨ C07.specChoice c.specs c.route.produces [] ≠ [] := by
      by_cases h0 : c.route.produces = []
      · exact Or.inl h0
      · refine Or.inr fun h1 => h ?_
        simp [h0, h1]
    rw [handler_outcome_is_responded c enc ebody hauth hacc, specRespond_ran]
    simp only [Bool.true_and]
    exact respond_meets_spec _ _ _ _ none _ _ _ (fun _ h => by cases h)

/-- Every request served through the API handler satisfies the Spec: the challenge for failed
basic attempts, 406 without running the handler when nothing is acceptable, and the `Respond`
clauses for whatever the handler returned. -/
theorem serve_meets_spec (c : ApiCase) (enc : Bytes → ProdRes) (ebody : Bytes) :
    specServe c enc (serve c enc ebody) = true := by
  unfold specServe
  cases hsec : c.sec with
  | none =>
    have := authenticated_request_meets_spec c enc ebody (Or.inl hsec)
    simpa using this
  | some realm =>
    cases hc : c.creds with
    | false =>
      have ha : authorize c.creds c.fn = .fail (.api 401) false := by simp [authorize, hc]
      have hout := serve_of_auth_failure c enc ebody realm _ _ hsec ha
      have hm : basicMarker realm c.creds c.fn = effRealm realm :=
        (basicMarker_iff realm c.creds c.fn).1 (Or.inl hc)
      have hspec := error_clause_holds c.cfg c.route.produces (some c.route)
        ⟨c.method, c.specs, none, basicMarker realm c.creds c.fn⟩ (some realm) (.api 401) false enc ebody
        (fun r h => by cases h; exact hm)
      have hcalls := (error_reaches_error_responder c.cfg c.route.produces (some c.route)
        ⟨c.method, c.specs, none, basicMarker realm c.creds c.fn⟩ (.api 401) false enc ebody).1
      have hran := respond_error_ran c.cfg c.route.produces (some c.route)
        ⟨c.method, c.specs, none, basicMarker realm c.creds c.fn⟩ (.api 401) false enc ebody
      rw [← hout] at hspec hcalls hran
      simp only [Bool.not_false, Bool.true_and, hran, hcalls]
      exact hspec
    | true =>
      cases hfn : c.fn with
      | ok =>
        have := authenticated_request_meets_spec c enc ebody (Or.inr ⟨hc, hfn⟩)
        simpa [hc, hfn] using this
      | nilnil => simp
      | err e =>
        have ha : authorize c.creds c.fn = .fail e true := by simp [authorize, hc, hfn]
        have hout := serve_of_auth_failure c enc ebody realm _ _ hsec ha
        have hm : basicMarker realm c.creds c.fn = effRealm realm :=
          (basicMarker_iff realm c.creds c.fn).1 (Or.inr ⟨e, hfn⟩)
        have hspec := error_clause_holds c.cfg c.route.produces (some c.route)
          ⟨c.method, c.specs, none, basicMarker realm c.creds c.fn⟩ (some realm) e true enc ebody
          (fun r h => by cases h; exact hm)
        have hran := respond_error_ran c.cfg c.route.produces (some c.route)
          ⟨c.method, c.specs, none, basicMarker realm c.creds c.fn⟩ e true enc ebody
        rw [← hout] at hspec hran
        simp only [Bool.not_true, Bool.false_eq_true, if_false, hran, Bool.not_false, Bool.true_and]
        exact hspec

/-! ### the challenge names the realm: different realms, different challenges -/

theorem escapes_injective (a b : Bytes)
    (h : a.flatMap (fun x => if x == 34 || x == 92 then [92, x] else [x]) =
         b.flatMap (fun x => if x == 34 || x == 92 then [92, x] else [x])) : a = b := by
  induction a generalizing b with
  | nil =>
    cases b with
    | nil => rfl
    | cons y ys =>
      simp only [List.flatMap_nil, List.flatMap_cons] at h
      by_cases hy : (y == 34 || y == 92) = true <;> simp [hy] at h
  | cons x xs ih =>
    cases b with
    | nil =>
      simp only [List.flatMap_nil, List.flatMap_cons] at h
      by_cases hx : (x == 34 || x == 92) = true <;> simp [hx] at h
    | cons y ys =>
      simp only [List.flatMap_cons] at h
      by_cases hx : (x == 34 || x == 92) = true <;> by_cases hy : (y == 34 || y == 92) = true
      · simp only [hx, hy, if_true, List.cons_append, List.nil_append, List.cons.injEq, true_and] at h
        rw [h.1, ih ys h.2]
      · simp only [hx, hy, if_true, Bool.false_eq_true, if_false, List.cons_append, List.nil_append,
          List.cons.injEq] at h
        exact absurd (by simp [← h.1] : (y == 34 || y == 92) = true) hy
      · simp only [hx, hy, if_true, Bool.false_eq_true, if_false, List.cons_append, List.nil_append,
          List.cons.injEq] at h
        exact absurd (by simp [h.1] : (x == 34 || x == 92) = true) hx
      · simp only [hx, hy, Bool.false_eq_true, if_false, List.cons_append, List.nil_append,
          List.cons.injEq] at h
        rw [h.1, ih ys h.2]

theorem goQuote_injective (a b : Bytes) (h : goQuote a = goQuote b) : a = b := by
  unfold goQuote at h
  have h1 := List.append_cancel_left (List.append_cancel_right h)
  exact escapes_injective a b h1

/-- Two challenges are equal only for equal realms: the header *names* the realm. -/
theorem challenge_injective (a b : Bytes) (h : challenge a = challenge b) : a = b :=
  goQuote_injective a b (List.append_cancel_left h)

/-- A failed basic-auth attempt for configured realm `r1` is never answered with the challenge of a
different configured (non-empty) realm `r2`. -/
theorem challenge_distinguishes_realms (r1 r2 : Bytes) (h1 : r1 ≠ []) (h2 : r2 ≠ [])
    (h : challenge (effRealm r1) = challenge (effRealm r2)) : r1 = r2 := by
  have := challenge_injective _ _ h
  simpa [effRealm, h1, h2] using this

/-! ### the declared success status is the lowest declared 2xx code -/

theorem declaredSuccess_fold (l : List Nat) (acc : Option Nat) (m : Nat)
    (h : l.foldl (fun acc c => match acc with | none => some c | some m => some (min m c)) acc = some m) :
    (acc = some m ∨ m ∈ l) ∧ (∀ a, acc = some a → m ≤ a) ∧ ∀ c ∈ l, m ≤ c := by
  induction l generalizing acc with
  | nil => simp at h; subst h; simp
  | cons x xs ih =>
    simp only [List.foldl_cons] at h
    obtain ⟨h1, h2, h3⟩ := ih _ h
    cases acc with
    | none =>
      simp only at h1 h2
      refine ⟨Or.inr ?_, by simp, ?_⟩
      · rcases h1 with h1 | h1
        · simp at h1; simp [h1]
        · simp [h1]
      · intro c hc
        rcases List.mem_cons.mp hc with rfl | hc
        · exact h2 _ rfl
        · exact h3 c hc
    | some a =>
      simp only at h1 h2
      have hm := h2 _ rfl
      refine ⟨?_, ?_, ?_⟩
      · rcases h1 with h1 | h1
        · simp only [Option.some.injEq] at h1
          by_cases hax : a ≤ x
          · left; rw [← h1, Nat.min_eq_left hax]
          · right; rw [← h1, Nat.min_eq_right (by omega)]; simp
        · right; simp [h1]
      · intro a' ha'; cases ha'; omega
      · intro c hc
        rcases List.mem_cons.mp hc with rfl | hc
        · omega
        · exact h3 c hc

/-- `declaredSuccess` answers a declared 2xx code that no other declared 2xx code is below. -/
theorem declaredSuccess_is_lowest_2xx (codes : List Nat) (m : Nat) (h : declaredSuccess codes = some m) :
    m ∈ codes ∧ 200 ≤ m ∧ m < 300 ∧ ∀ c ∈ codes, 200 ≤ c → c < 300 → m ≤ c := by
  unfold declaredSuccess at h
  obtain ⟨h1, _, h3⟩ := declaredSuccess_fold _ none m h
  rcases h1 with h1 | h1
  · cases h1
  · have := List.mem_filter.mp h1
    simp only [Bool.and_eq_true, decide_eq_true_eq] at this
    refine ⟨this.1, this.2.1, this.2.2, fun c hc h200 h300 => h3 c ?_⟩
    exact List.mem_filter.mpr ⟨hc, by simp [h200, h300]⟩

/-- and it answers nothing exactly when no 2xx code is declared (default-only responses) -/
theorem declaredSuccess_none_iff (codes : List Nat) :
    declaredSuccess codes = none ↔ ∀ c ∈ codes, ¬(200 ≤ c ∧ c < 300) := by
  unfold declaredSuccess
  constructor
  · intro h c hc h2
    have hmem : c ∈ codes.filter fun c => 200 ≤ c && c < 300 :=
      List.mem_filter.mpr ⟨hc, by simp [h2.1, h2.2]⟩
    cases hl : (codes.filter fun c => 200 ≤ c && c < 300) with
    | nil => simp [hl] at hmem
    | cons x xs =>
      rw [hl] at h
      simp only [List.foldl_cons] at h
      have : ∀ (l : List Nat) (a : Nat), l.foldl (fun acc c => match acc with | none => some c | some m => some (min m c)) (some a) ≠ none := by
        intro l; induction l with
        | nil => simp
        | cons y ys ih => intro a; simp only [List.foldl_cons]; exact ih _
      exact this xs x h
  · intro h
    have : (codes.filter fun c => 200 ≤ c && c < 300) = [] := by
      apply List.filter_eq_nil_iff.mpr
      intro c hc; have := h c hc; simp; omega
    rw [this]; rfl

example : declaredSuccess [404, 201, 200, 500] = some 200 := by decide
example : declaredSuccess [404, 500] = none := by decide


/-! ### a client reading the challenge back recovers exactly the realm -/

/-- the body of a quoted string, read back (`esc`: the previous byte was a backslash): `\\c` stands
for `c`, a bare `"` or a trailing backslash is malformed -/
def unqGo : Bool → Bytes → Option Bytes
  | false, [] => some []
  | true, [] => none
  | true, c :: r => (unqGo false r).map (c :: ·)
  | false, c :: r =>
    if c == 92 then unqGo true r else if c == 34 then none else (unqGo false r).map (c :: ·)

def unqBody (l : Bytes) : Option Bytes := unqGo false l

/-- `"…"` read back -/
def unquote : Bytes → Option Bytes
  | [] => none
  | c :: t => if c == 34 && t.getLast? == some 34 then unqBody t.dropLast else none

/-- the realm a client reads from a `WWW-Authenticate: Basic realm="…"` value -/
def realmOfChallenge (h : Bytes) : Option Bytes :=
  if h.take basicRealmEq.length == basicRealmEq then unquote (h.drop basicRealmEq.length) else none

theorem unqBody_escapes (s : Bytes) :
    unqBody (s.flatMap (fun b => if b == 34 || b == 92 then [92, b] else [b])) = some s := by
  unfold unqBody
  induction s with
  | nil => rfl
  | cons x xs ih =>
    simp only [List.flatMap_cons]
    by_cases hx : (x == 34 || x == 92) = true
    · simp only [hx, if_true, List.cons_append, List.nil_append]
      simp only [unqGo, beq_self_eq_true, ↓reduceIte, ih, Option.map_some]
    · simp only [hx, Bool.false_eq_true, if_false, List.cons_append, List.nil_append]
      have h1 : (x == 92) = false := by
        cases h : (x == 92) <;> simp_all
      have h2 : (x == 34) = false := by
        cases h : (x == 34) <;> simp_all
      simp only [unqGo, h1, h2, Bool.false_eq_true, ↓reduceIte, ih, Option.map_some]

theorem unquote_goQuote (s : Bytes) : unquote (goQuote s) = some s := by
  unfold goQuote
  simp only [List.cons_append, List.nil_append, unquote, List.getLast?_concat, List.dropLast_concat,
    beq_self_eq_true, Bool.and_self, if_true]
  exact unqBody_escapes s

/-- **Round trip of the challenge**: whatever realm is configured (any bytes, quotes and backslashes
included), the header value the server sends reads back as exactly that realm. -/
theorem realmOfChallenge_challenge (realm : Bytes) : realmOfChallenge (challenge realm) = some realm := by
  unfold realmOfChallenge challenge
  rw [List.take_left', List.drop_left']
  · simp only [beq_self_eq_true, if_true]; exact unquote_goQuote realm
  · rfl
  · rfl

example : realmOfChallenge (challenge [97, 34, 92, 98]) = some [97, 34, 92, 98] := by decide


end RtVerif.C08
