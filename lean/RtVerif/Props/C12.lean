import RtVerif.Lemmas.C12Props
/-
  C12 — Client calls always terminate, release what they hold, and surface faults.
  Property theorems only (helpers live in Lemmas/C12*.lean).

  Part D: `drainingReadCloser` over ANY scripted body and ANY sequence of Read sizes followed by Close.
  Deadline: the decision logic of `Submit` is "the shorter of the request timeout and the caller's
  context".
  Part F: invariants over ALL executions (all interleavings of main thread, writer goroutine and
  context; all fault plans) of the call LTS.

  PARTIAL (see `FullStatement` at the end): wall-clock time and the Go scheduler are runtime facts;
  net/http's behaviour (closes the request body on every path, `Do` returns when the context ends,
  answers only after the request body was consumed) is an explicit assumption of the LTS.
-/
namespace RtVerif.C12
open RtVerif

/-! ## Part D — drainingReadCloser -/

/-- D1: whatever was read, with whatever buffer sizes, Close closes the underlying body exactly once. -/
theorem drc_closed_exactly_once (u : Under) (ks : List Nat) (h : u.Fresh) : (runD u ks).2.closes = 1 :=
  (runD_close u ks h).1

/-- D2: for ANY sequence of Read sizes followed by Close, the underlying body has been read to its
end (its terminal was returned and no byte is left) before it is closed — in particular when no Read
reported the end (then it is the drain in Close that reads it). -/
theorem drc_read_to_end_before_close (u : Under) (ks : List Nat) (h : u.Fresh) :
    (runD u ks).2.endAtClose = true ∧ (runD u ks).2.rest = [] :=
  (runD_close u ks h).2

/-- D3: the model meets the Spec of part D for every script and every read sequence. -/
theorem drc_meets_spec (u : Under) (ks : List Nat) (h : u.Fresh) :
    specD (runD u ks).1 (runD u ks).2.closes (runD u ks).2.endAtClose = true := by
  have := runD_close u ks h
  simp [specD, this.1, this.2.1]

example : Under.Fresh { rest := [1, 2, 3], term := .eof, sched := [.zero, .take 2] } := by decide

/-- D4: the wrapper is transparent: callers get exactly what the underlying body yields for the same
buffer sizes, and what they got followed by what is left is the body's data. -/
theorem drc_transparent (u : Under) (ks : List Nat) :
    (runD u ks).1 = (Under.reads u ks).2 ∧
    (runD u ks).1.flatMap (·.out) ++ (Under.reads u ks).1.rest = u.rest := by
  have := dreads_transparent Facts.c12MarkOnZero ks { u := u }
  simp only [runD, runDP]
  exact ⟨this.1, by rw [this.1]; exact reads_conserve ks u⟩

/-- D5 (F12b, repaired): a zero-length Read does not suppress the drain. -/
theorem zero_length_read_still_drains :
    (runD { rest := [1, 2, 3], term := .eof, sched := [] } [0]).2.endAtClose = true := by decide

/-- D6 (F12b was real): with the condition the code had before the fix (`err == io.EOF || n == 0`)
the same script violates the Spec — the body is closed with 3 bytes unread although no Read reported
its end. -/
theorem f12b_real_before_fix :
    ∃ u ks, u.Fresh ∧ specD (runDP true u ks).1 (runDP true u ks).2.closes (runDP true u ks).2.endAtClose = false :=
  ⟨{ rest := [1, 2, 3], term := .eof, sched := [] }, [0], by decide, by decide⟩

/-! ## The effective deadline -/

/-- T1: Submit's context logic computes "the shorter of the request timeout and the caller's
context" (zero timeout = no timeout, no deadline = +∞). -/
theorem effDeadline_is_spec (timeout : Int) (parent : Option Int) (now : Int) :
    effDeadline timeout parent now = specDeadline timeout parent now := by
  unfold effDeadline specDeadline
  rw [fact_timeout_zero]
  by_cases h : timeout = 0
  · simp [h]
  · cases parent with
    | none => simp [h]
    | some d =>
      simp only [Bool.true_and, beq_iff_eq, h, if_false]
      congr 1

/-- T2: the effective deadline is never later than either bound, and is one of them. -/
theorem effDeadline_bounds (timeout : Int) (parent : Option Int) (now e : Int)
    (h : effDeadline timeout parent now = some e) :
    (timeout ≠ 0 → e ≤ now + timeout) ∧ (∀ d, parent = some d → e ≤ d) ∧
    ((timeout ≠ 0 ∧ e = now + timeout) ∨ parent = some e) := by
  unfold effDeadline at h
  rw [fact_timeout_zero] at h
  by_cases ht : timeout = 0
  · simp [ht] at h; simp [ht, h]
  · cases parent with
    | none => simp [ht] at h; simp [ht, h]
    | some d =>
      simp [ht] at h
      subst h
      refine ⟨fun _ => Int.min_le_right _ _, fun d' hd' => by cases hd'; exact Int.min_le_left _ _, ?_⟩
      by_cases hd : d ≤ now + timeout
      · right; simp [Int.min_def, hd]
      · left; exact ⟨ht, by simp [Int.min_def, hd]⟩

example : effDeadline 30000 (some 25) 0 = some 25 := by decide
example : effDeadline 40 (some 3600000) 0 = some 40 := by decide

/-- T3: no deadline exactly when the timeout is zero and the caller's context has none. -/
theorem effDeadline_none_iff (timeout : Int) (parent : Option Int) (now : Int) :
    effDeadline timeout parent now = none ↔ timeout = 0 ∧ parent = none := by
  unfold effDeadline
  rw [fact_timeout_zero]
  by_cases ht : timeout = 0
  · simp [ht]
  · cases parent <;> simp [ht]

/-- T4: the caller's context is the operation's, else the runtime's, else Background. -/
theorem parentCtx_precedence (op rt : Ctx) :
    (op ≠ .nil → parentCtx op rt = op) ∧ (op = .nil → rt ≠ .nil → parentCtx op rt = rt) ∧
    (op = .nil → rt = .nil → (parentCtx op rt).dl = none) := by
  cases op <;> cases rt <;> simp [parentCtx, Ctx.dl]

/-- T5: by default every call has a deadline (`DefaultTimeout` is not zero). -/
theorem default_timeout_bounds_every_call (parent : Option Int) (now : Int) :
    (effDeadline (1000 * Facts.c12DefaultTimeoutSec) parent now).isSome = true := by
  have : ((1000 : Int) * Facts.c12DefaultTimeoutSec) ≠ 0 := by decide
  cases h : effDeadline (1000 * Facts.c12DefaultTimeoutSec) parent now with
  | some _ => rfl
  | none => exact absurd ((effDeadline_none_iff _ _ _).mp h).1 this

/-! ## Part F — every execution of the call LTS -/

/-- F1 (termination): every step of every thread lowers a natural-number measure — no execution of
a call is infinite; its length is bounded by `measure p (init p)`. -/
theorem every_step_lowers_the_measure (p : Plan) (hwf : p.WF) (s s' : St) (hr : Reach p s) (hs : s' ∈ succs p s) :
    measure p s' < measure p s :=
  measure_decreases (inv_reach hwf hr) hs

theorem executions_are_bounded (p : Plan) (hwf : p.WF) (l : List St) (h : Exec p (init p) l) :
    l.length ≤ measure p (init p) := by
  suffices ∀ s l, Reach p s → Exec p s l → l.length ≤ measure p s from this _ _ Reach.init h
  intro s l hr he
  induction he with
  | nil s => simp
  | cons hs _ ih =>
    have := measure_decreases (inv_reach hwf hr) hs
    have := ih (Reach.step hr hs)
    simp only [List.length_cons]; omega

/-- F2 (no deadlock, no leak): in EVERY execution, under EVERY fault plan, a state in which no thread
can move is a returned call whose writer goroutine is gone, with every file handed over closed
(exactly once), the stream payload closed, the response body closed (after being read to its end
when reuse is on), the cancel function called — or a call blocked on a silent peer under a context
that never ends (infinite effective deadline). -/
theorem quiescent_calls_have_released_everything (p : Plan) (hwf : p.WF) (s : St) (hr : Reach p s)
    (hq : succs p s = []) : Released p s ∨ Stalled p s := by
  rcases quiescent_final (inv_reach hwf hr) hq with ⟨hph, hg⟩ | hs
  · exact Or.inl (released_of_final hwf hr hph hg)
  · exact Or.inr hs

/-- F3: when the context can end (deadline or cancellation), no execution gets stuck: every maximal
execution ends in a returned call that released everything. -/
theorem bounded_context_always_returns (p : Plan) (hwf : p.WF) (hc : p.ctxEnds = true) (s : St) (hr : Reach p s)
    (hq : succs p s = []) : Released p s := by
  rcases quiescent_calls_have_released_everything p hwf s hr hq with h | h
  · exact h
  · rw [h.1] at hc; exact absurd hc (by decide)

/-- the placement of finding F12a: one upload file, authentication fails -/
def f12aPlan : Plan := { files := [{ reads := 2, fails := false }], mpMT := true, auth := .fail }

example : f12aPlan.WF ∧ f12aPlan.ctxEnds = true := by decide
/-- … on the repaired code its maximal execution returns the auth error, the goroutine is gone and
the file was closed once (before the fix: goroutine blocked forever, file never closed) -/
example : (predictSt f12aPlan).ph = .returned ∧ (predictSt f12aPlan).res = some .auth ∧
    (predictSt f12aPlan).g = .done ∧ (predictSt f12aPlan).fileCloses = 1 := by decide

/-- F4 (at return, before the goroutine settled): the moment `Submit` has returned, the pipe reader
is not open (so the writer goroutine cannot block on it: `goroutine_never_blocks_after_return`),
the stream payload and the response body are closed, the body was read to its end when reuse is on,
and the context is released. -/
theorem at_return (p : Plan) (hwf : p.WF) (s : St) (hr : Reach p s) (hph : s.ph = .returned) :
    s.pr ≠ .open ∧ (p.streamSrc.isSome = true → s.streamCloses = 1) ∧
    (s.haveResp = true → s.bodyCloses = 1 ∧ (p.reuse = true → s.endAtClose = true)) ∧
    (s.entered = true → s.released = true) ∧ s.res ≠ none := by
  have hI := inv_reach hwf hr
  refine ⟨hI.retPipe (Or.inr hph), ?_, hI.bc1 hph, hI.rel hph, ?_⟩
  · intro hs; have := hI.stream hs; simpa [hph] using this
  · intro h; exact (hI.resNone.mp h) hph

/-- F5: after the return a live writer goroutine always has a step of its own (it is never blocked
on the pipe), and it closes the files on its way out (F2). -/
theorem goroutine_never_blocks_after_return (p : Plan) (hwf : p.WF) (s : St) (hr : Reach p s)
    (hph : s.ph = .returned) (hg : s.g.alive = true) : gSteps s ≠ [] := by
  have hI := inv_reach hwf hr
  have hno := hI.retPipe (Or.inr hph)
  have hpg := hI.pipe_g
  have hcl : s.pr = .closed := by
    rcases pipe_cases s.pr with h | h | h
    · have := hpg.mp h; simp [G.alive, this] at hg
    · exact absurd h hno
    · exact h
  cases hgs : s.g with
  | idle => simp [G.alive, hgs] at hg
  | done => simp [G.alive, hgs] at hg
  | trailer => simp [gSteps, hgs, hcl]
  | run t =>
    cases t with
    | nil => simp [gSteps, hgs]
    | cons a r => cases a <;> simp [gSteps, hgs, hcl]

/-- non-vacuity of F5: right after the failed authentication `Submit` has returned while the writer
goroutine is still alive (it leaves through the closed pipe) -/
example : ∃ s, Reach f12aPlan s ∧ s.ph = .returned ∧ s.g.alive = true := by
  let s0 := init f12aPlan
  let s1 := (succs f12aPlan s0).headD s0
  let s2 := (succs f12aPlan s1).headD s1
  let s3 := (succs f12aPlan s2).headD s2
  have r1 : Reach f12aPlan s1 := Reach.step Reach.init (by decide)
  have r2 : Reach f12aPlan s2 := Reach.step r1 (by decide)
  have r3 : Reach f12aPlan s3 := Reach.step r2 (by decide)
  exact ⟨s3, r3, by decide, by decide⟩

/-- F6: `ok` only if the complete response was obtained: response headers arrived, the reader
reported no error, a reader that reads to the end saw the end of the body, no upload source
failed, the writer goroutine is gone, and every earlier stage succeeded. -/
theorem ok_only_if_complete (p : Plan) (hwf : p.WF) (s : St) (hr : Reach p s) (hok : s.res = some .none) :
    s.haveResp = true ∧ p.readerErr = false ∧ (p.readN = none → p.rterm = .eof ∧ s.bodyLeft = 0) ∧
    s.srcFailed = false ∧ s.g.alive = false ∧ rankFacts p 8 := by
  have hI := inv_reach hwf hr
  have hJ := inv2_reach hwf hr
  obtain ⟨hh, hc1, hc2⟩ := hI.okRes hok
  have hph : s.ph = .returned := by
    cases h : s.ph <;> first | rfl | (have := hI.resNone.mpr (by simp [h]); simp [hok] at this)
  refine ⟨hh, hc1, hc2, ?_, ?_, ?_⟩
  · cases hsf : s.srcFailed with
    | false => rfl
    | true => have := (hI.srcF hsf).1; simp [hh] at this
  · cases hg : s.g.alive with
    | false => rfl
    | true => have := (hI.aliveNotPast hg).2.1; simp [hh] at this
  · have := hJ.rk; simp [hph] at this; exact this hh

/-- non-vacuity of F6: a plain upload of two files with reuse on ends `ok` -/
example : (predictSt { files := [{ reads := 2, fails := false }, { reads := 0, fails := false }], form := 1, resp := .headers 2 .eof, reuse := true }).res
    = some .none := by decide

/-- F7: a failing upload source — a file of the multipart form or a stream payload — is NEVER
reported as a successful request, in no execution. -/
theorem failing_source_never_ok (p : Plan) (hwf : p.WF)
    (hf : p.files.any (·.fails) = true ∨ p.streamFails = true) (s : St) (hr : Reach p s) :
    s.res ≠ some .none := by
  intro hok
  have hI := inv_reach hwf hr
  have hJ := inv2_reach hwf hr
  obtain ⟨hh, -, -, -, hg, -⟩ := ok_only_if_complete p hwf s hr hok
  have hpast : past s = true := by simp [past, hh]
  rcases hf with hf | hf
  · have hne : p.files ≠ [] := by intro h; simp [h] at hf
    have hsw := wf_files hne
    have hscript : hasFail p.script = true := by
      have := filesScript_hasFail
      simp only [Plan.script, hasFail, List.any_append, Bool.or_eq_true]
      right; exact this _ hf
    cases hgs : s.g with
    | idle =>
      rcases hI.idleW hgs hsw with h | h
      · have := (hI.resNone.mp); simp [hok] at this
        have hph : s.ph = .returned := by
          cases hp : s.ph <;> first | rfl | (have := hI.resNone.mpr (by simp [hp]); simp [hok] at this)
        simp [pre, hph] at h
      · simp [hok] at h
    | done =>
      have := hJ.dn hgs (hJ.pw hpast hgs)
      simp [hscript] at this
    | trailer => simp [G.alive, hgs] at hg
    | run t => simp [G.alive, hgs] at hg
  · have := hJ.sf hpast; simp [hf] at this

example : ({ files := [{ reads := 2, fails := false }, { reads := 1, fails := true }], mpMT := true } : Plan).files.any (·.fails) = true := by decide

/-- F7a: with the sniffing buffer filled by `io.ReadFull` (window `w`), a source that fails within the
window fails BEFORE the part header is written: the writer's script for that file is the failing
read alone. -/
theorem readfull_failure_precedes_the_part_header (w : Nat) (s : Src) (hf : s.fails = true) (hs : s.soft = false)
    (hr : s.reads < w) :
    fileScriptW true w s = [.fail] := by
  simp [fileScriptW, hf, hs, hr]

/-- F7a': a source whose own error is `io.ErrUnexpectedEOF` passes the sniff as a short file; the
failure is met again by the copy, AFTER the part header and the sniffed prefix: it is the last action of
the file's script, never dropped. -/
theorem soft_failure_surfaces_after_the_prefix (w : Nat) (s : Src) (hf : s.fails = true) (hs : s.soft = true)
    (hr : s.reads < w) :
    fileScriptW true w s = .w :: ((if s.reads == 0 then [] else [.w]) ++ [.fail]) := by
  simp [fileScriptW, hf, hs, hr]

example : fileScript { reads := 3, fails := true, soft := true } = [.w, .w, .fail] ∧
    fileScript { reads := 0, fails := true, soft := true } = [.w, .fail] := by decide

example : fileScript { reads := 3, fails := true } = [.fail] ∧ fileScript { reads := 3, fails := false } = [.w, .w] ∧ fileScript { reads := 0, fails := false } = [.w] := by decide

/-- F7b: whichever way the sniffing buffer is filled, the script of a failing file ends with its
failing read, and the script of a healthy file has none: the writer never drops a failure and never
invents one. -/
theorem file_script_keeps_the_failure (full : Bool) (w : Nat) (s : Src) :
    (s.fails = true → (fileScriptW full w s).getLast? = some .fail) ∧
    (s.fails = false → hasFail (fileScriptW full w s) = false) := by
  constructor
  · intro hf
    simp only [fileScriptW, hf]
    (repeat' split) <;> simp_all [List.getLast?_append, List.getLast?_cons_cons, getLast?_cons_snoc]
  · intro hf
    simp only [fileScriptW, hf, hasFail]
    (repeat' split) <;> simp_all

/-- F8: faults that certainly strike are never swallowed: no execution returns `ok` under a plan
with a writer / producer / authentication / URL error, a failing source, a transport error before
the body, a peer that never answers, a reader error, or a body that does not end with EOF while
the reader reads to the end. -/
theorem certain_fault_never_ok (p : Plan) (hwf : p.WF) (hf : p.certainFault = true) (s : St) (hr : Reach p s) :
    s.res ≠ some .none := by
  intro hok
  obtain ⟨hh, hre, hrn, -, -, hrk⟩ := ok_only_if_complete p hwf s hr hok
  obtain ⟨r1, r2, r4, r5, r6, r8⟩ := hrk
  have r1 := r1 (by omega); have r2 := r2 (by omega); have r4 := r4 (by omega)
  have r5 := r5 (by omega); have r6 := r6 (by omega); have r8 := r8 (by omega)
  have hfs : p.files.any (·.fails) = false ∧ p.streamFails = false := by
    constructor
    · cases h : p.files.any (·.fails) with
      | false => rfl
      | true => exact absurd hok (failing_source_never_ok p hwf (Or.inl h) s hr)
    · cases h : p.streamFails with
      | false => rfl
      | true => exact absurd hok (failing_source_never_ok p hwf (Or.inr h) s hr)
  simp only [Plan.certainFault, Bool.or_eq_true, beq_iff_eq, bne_iff_ne, Bool.and_eq_true] at hf
  have hsf : (p.streamSrc.map (·.fails)).getD false = false := hfs.2
  rcases hf with ((((((((((h | h) | h) | h) | h) | h) | h) | h) | h) | h) | h)
  · simp [r1] at h
  · exact r4.1 h
  · exact r4.2 h
  · simp [r5] at h
  · exact r2 h
  · simp [hfs.1] at h
  · simp [hsf] at h
  · exact r6 h
  · exact r8 h
  · simp [hre] at h
  · exact h.2 (hrn h.1).1

/-! ## Model meets Spec on the executions the harness provokes -/

/-- `predict p` (what the driver compares the real run with) is the observation of a maximal
execution of the LTS. -/
theorem predict_is_a_maximal_execution (p : Plan) (hwf : p.WF) :
    Reach p (predictSt p) ∧ succs p (predictSt p) = [] :=
  predict_maximal hwf

/-- The model satisfies the Spec of a call, for EVERY well-formed plan whose context can end. -/
theorem predict_meets_spec (p : Plan) (hwf : p.WF) (hc : p.ctxEnds = true) : specF p (predict p) = true := by
  obtain ⟨hr, hq⟩ := predict_maximal hwf
  have hR := bounded_context_always_returns p hwf hc _ hr hq
  have hok : (predictSt p).res = some .none → p.certainFault = false := by
    intro hok
    cases h : p.certainFault with
    | false => rfl
    | true => exact absurd hok (certain_fault_never_ok p hwf h _ hr)
  unfold specF
  simp only [Bool.and_eq_true]
  refine ⟨⟨⟨⟨⟨⟨?_, ?_⟩, ?_⟩, ?_⟩, ?_⟩, ?_⟩, ?_⟩
  · simp [predict, obsOf]
  · simp only [predict, obsOf, Bool.or_eq_true, beq_iff_eq]
    by_cases he : (predictSt p).entered = true
    · right
      simp only [he, if_true, deadlineKind, specDeadlineKind, Plan.eff, effDeadline_is_spec]
    · left; simp [he]
  · simp only [predict, obsOf, decide_eq_true_eq, beq_iff_eq]
    intro h; simp [hok h]
  · simp only [predict, obsOf, List.all_eq_true, List.mem_map, decide_eq_true_eq]
    rintro c ⟨src, hm, rfl⟩
    have : p.files ≠ [] := by intro h; simp [h] at hm
    rw [hR.files_closed this]; decide
  · simp only [predict, obsOf]
    cases hs : p.streamSrc.isSome with
    | false => simp
    | true => simp [hR.stream_closed hs]
  · simp [predict, obsOf, hR.no_goroutine]
  · simp only [predict, obsOf]
    by_cases hh : (predictSt p).haveResp = true
    · simp only [hh, if_true, Bool.and_eq_true, decide_eq_true_eq]
      refine ⟨by rw [hR.body_closed hh]; decide, ?_⟩
      intro hre; simp [hR.body_drained hh hre]
    · simp [hh]

/-! ## The full statement, and the part of it that is proved -/

/-- everything the LTS says, for all plans and all executions -/
def LogicPart : Prop :=
  (∀ u ks, Under.Fresh u → specD (runD u ks).1 (runD u ks).2.closes (runD u ks).2.endAtClose = true) ∧
  (∀ t pa now, effDeadline t pa now = specDeadline t pa now) ∧
  (∀ p : Plan, p.WF → ∀ s, Reach p s →
    (∀ s', s' ∈ succs p s → measure p s' < measure p s) ∧
    (succs p s = [] → Released p s ∨ Stalled p s) ∧
    (s.res = some .none → p.certainFault = false))

/-- The property in full. `WallClock` stands for: "each transition of the LTS takes bounded real time
and the transition `Do returns when the context ends` happens no later than the deadline computed
by `effDeadline` (plus scheduling latency)"; `NetHTTPContract` for: "net/http closes the request
body on every path, `Client.Do` returns once the request's context is done, and delivers a response
only after the request body was consumed" — facts about the Go runtime, its scheduler and net/http
that no Lean model exhibits. They are parameters here precisely because nothing in Lean proves
them; the harness measures them (elapsed time against the observed deadline, goroutine stacks, close
counters, a real http.Transport against an httptest.Server): support, not proof. -/
def FullStatement (WallClock NetHTTPContract : Prop) : Prop := LogicPart ∧ WallClock ∧ NetHTTPContract

/-- What is proved of `FullStatement`: the logic part. Missing: the two runtime parameters. -/
theorem full_statement_partial : LogicPart :=
  ⟨drc_meets_spec, effDeadline_is_spec, fun p hwf s hr =>
    ⟨fun s' hs => every_step_lowers_the_measure p hwf s s' hr hs,
     quiescent_calls_have_released_everything p hwf s hr,
     fun hok => by
       cases h : p.certainFault with
       | false => rfl
       | true => exact absurd hok (certain_fault_never_ok p hwf h s hr)⟩⟩

end RtVerif.C12
