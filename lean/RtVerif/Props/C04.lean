import RtVerif.Model.C04
import RtVerif.Lemmas.C04
import RtVerif.Lemmas.C04Server
import RtVerif.Lemmas.C04Route
import RtVerif.Lemmas.C04Header
/-
  C04 — property theorems: round trips of the client/server COMPOSITION.

  * `path_round_trip` (T1 + T4): for an operation whose full path is a simple template (whole-segment
    placeholders, static text that travels unchanged), values that are non-empty and no dot segments,
    a table the router accepted and no rival record, the request the client builds is dispatched to
    THAT operation and its handler's binder receives, for every placeholder in template order,
    exactly the value the caller set — whatever bytes the value contains (`/ % + SP ? # : * { }`,
    non-ASCII, NUL), whatever the order of the client's parameter map, with or without a trailing
    slash in the template.  It composes C10 (`substSeq_eq_substAll`), GoURL (`unescape_escape`,
    `pathEscape_no_special`), GoPath (`kept_render`) and C05 (`lookup_spec`: completeness finds the
    route, soundness pins the reported texts, preference settles the operation).
  * `query_round_trip` (T2): `ParseQuery (Values.Encode m) = m` as key → value-list maps.
  * `header_round_trip`, `canon_idem` (T3): header names.
  * `wire_keeps_built_path`, `built_path_clean`, `noRival_single`, `client_join`: the ingredients
    that are of independent interest.
-/
namespace RtVerif.C04
open RtVerif Bytes

/-- the source is wired as the composition assumes (facts regenerated from the working tree) -/
theorem wiring_as_modelled : wiringOk = true := by decide

/-! ## T2: query and urlencoded form -/

/-- **T2 (query and urlencoded form)**: for values with pairwise distinct keys — any byte strings as
keys and values, any number of values per key, in order — what the server parses from what the
client encoded reports no error and maps every key to exactly the values set for it (a key with no
value is not transmitted). -/
theorem query_round_trip (q : Values) (hd : (q.map (·.1)).Nodup) :
    (GoQuery.parseQuery (GoQuery.encode q)).ok = true ∧
    ∀ k, GoQuery.Values.get (serverValues q) k =
      match GoQuery.Values.get q k with
      | some (v :: r) => some (v :: r)
      | _ => none :=
  GoQuery.parse_encode q hd

example : ((([([113], [[97, 32, 38], [], [61, 43, 37]]), ([], [[255]])] : Values).map (·.1)).Nodup) := by decide

/-- the binder's rules on top of it: an array (`multi`) parameter receives all the values set, in
order; a scalar parameter that was given one value receives that value -/
theorem bound_values (q : Values) (hd : (q.map (·.1)).Nodup) (k : Bytes) (vs : List Bytes)
    (hk : GoQuery.Values.get q k = some vs) :
    bindDecl (serverValues q) (k, true) = (k, vs) ∧
    (∀ v, vs = [v] → bindDecl (serverValues q) (k, false) = (k, [v])) := by
  have h := (query_round_trip q hd).2 k
  rw [hk] at h
  constructor
  · cases vs with
    | nil => simp [bindDecl, bindMulti, h]
    | cons v r => simp [bindDecl, bindMulti, h]
  · intro v hv
    subst hv
    simp [bindDecl, bindScalar, h]

/-! ## T3: header names -/

/-- **T3a**: `http.CanonicalHeaderKey` is idempotent — the key the client files a header under is
the key the wire delivers it under -/
theorem canon_idem (n : Bytes) : C14.canon (C14.canon n) = C14.canon n := canon_idem_aux n

/-- **T3b**: after `SetHeaderParam(n, v)` the server's binder finds `v` under every declared name
with the same canonical form (in particular `n` itself, in any letter case when it is a token) -/
theorem header_set_get (h : Hdr) (n v n' : Bytes) (hc : C14.canon n' = C14.canon n) :
    serverHeader (wireHeaders (clientSetHeader h (n, v))) n' = some v := header_set_get_aux h n v n' hc

/-- **T3c**: setting a header with another canonical name does not disturb it -/
theorem header_set_other (h : Hdr) (m w n : Bytes) (hne : C14.canon m ≠ C14.canon n) :
    serverHeader (wireHeaders (clientSetHeader h (m, w))) n = serverHeader (wireHeaders h) n :=
  header_set_other_aux h m w n hne

/-- **T3 (header names)**: when the caller sets headers whose names have pairwise distinct canonical
forms, the binder finds under each declared name exactly the value set for it. -/
theorem header_round_trip (pairs : List (Bytes × Bytes)) (hd : (pairs.map fun nv => C14.canon nv.1).Nodup)
    (nv : Bytes × Bytes) (hm : nv ∈ pairs) :
    serverHeader (wireHeaders (clientHeaders pairs)) nv.1 = some nv.2 :=
  header_fold pairs [] hd nv hm

example : ((([([120, 45, 114, 97, 116, 101], [55]), ([88, 45, 73, 100], [])] : List (Bytes × Bytes)).map
    fun nv => C14.canon nv.1).Nodup) := by decide

/-! ## T1 + T4: the path round trip and the selection of the operation -/

/-- `client.New` and the server join the base path and the template to the same full path (the
description's base path is empty or starts with `/`, the template starts with `/`) -/
theorem client_join (b t : Bytes) (hb : b = [] ∨ GoPath.isRooted b = true) (ht : GoPath.isRooted t = true) :
    GoPath.join (clientBase b) t = GoPath.join b t := by
  rcases hb with rfl | hb
  · cases t with
    | nil => simp [GoPath.isRooted] at ht
    | cons c t' =>
      have hc : c = 47 := by
        simp only [GoPath.isRooted, GoPath.slash] at ht; exact of_decide_eq_true ht
      subst hc
      have h1 : clientBase [] = [47] := by simp [clientBase, GoPath.isRooted, slash]
      rw [h1, GoPath.join_nil_left _ (by simp), GoPath.join_eq_clean [47] _ (by simp) (by simp)]
      have e1 := GoPath.clean_double_slash [] (47 :: t')
      have e2 := GoPath.clean_double_slash [] t'
      simp only [GoPath.slash, List.nil_append] at e1 e2
      simp only [GoPath.slash, List.cons_append, List.nil_append]
      rw [e1, e2]
  · simp [clientBase, hb]

/-- **the wire keeps the built path**: every byte of the path built for a simple template from
admissible values is one `http.NewRequest`/`Request.Write`/`http.ReadRequest` hand over unchanged -/
theorem wire_keeps_built_path (segs : List Seg) (params : List (Bytes × Bytes)) (trailing : Bool)
    (hok : segsOk true segs = true) (hv : valuesOk segs params = true) :
    wirePath (renderSegs (Seg.sub params) segs ++ (if trailing then [47] else [])) =
      renderSegs (Seg.sub params) segs ++ (if trailing then [47] else []) := by
  apply wirePath_id
  intro c hc
  rcases List.mem_append.mp hc with hc | hc
  · exact valid_render (segsWF_of_bool hok).1 (valuesOk_of_bool hv) c hc
  · cases trailing with
    | false => cases hc
    | true =>
      simp only [↓reduceIte, List.mem_cons, List.not_mem_nil, or_false] at hc
      subst hc; decide

/-- **`path.Clean` keeps the built path** (and takes a reinstated trailing slash away again): no
value can add, remove or merge a segment -/
theorem built_path_clean (segs : List Seg) (params : List (Bytes × Bytes)) (trailing : Bool)
    (hok : segsOk true segs = true) (hv : valuesOk segs params = true) :
    GoPath.clean (renderSegs (Seg.sub params) segs ++ (if trailing then [47] else [])) =
      renderSegs (Seg.sub params) segs :=
  clean_built (segsWF_of_bool hok).1 (valuesOk_of_bool hv) trailing

/-- **T1 + T4 (path values and operation selection).**  The request built by the client for
operation `i` — a simple template under the base path, every placeholder given a value that is
non-empty and no dot segment — is dispatched by the server to operation `i`, and the parameters the
router hands to the binder are the template's names, in order, each with exactly the value the
caller set. -/
theorem path_round_trip (api : C01.Api) (i : Nat) (op : C01.Op) (segs : List Seg)
    (params : List (Bytes × Bytes)) (t : C05.Table)
    (hop : api.ops[i]? = some op)
    (hbase : api.basePath = [] ∨ GoPath.isRooted api.basePath = true)
    (htmpl : GoPath.isRooted op.template = true)
    (hfp : C01.fullPath api op = renderSegs Seg.text segs)
    (hok : segsOk true segs = true)
    (hnames : C10.NamesOk params)
    (hvals : valuesOk segs params = true)
    (hbuild : C05.build (C01.recordsFor api (toUpper op.method)) = .ok t)
    (hrival : noRival api i op (GoPath.clean (wirePath (clientPath api op params))) = true) :
    serverRoute api op params = .ran i (expected segs params) := by
  obtain ⟨hw, hnd⟩ := segsWF_of_bool hok
  have hv := valuesOk_of_bool hvals
  have hbuilt : clientPath api op params =
      renderSegs (Seg.sub params) segs ++ (if C10.keepsSlash op.template then [47] else []) := by
    unfold clientPath C10.urlPath
    rw [client_join _ _ hbase htmpl]
    have : GoPath.join api.basePath op.template = C01.fullPath api op := rfl
    rw [this, hfp, substSeq_flat params segs hnames hw]
  have hwire := wire_keeps_built_path segs params (C10.keepsSlash op.template) hok hvals
  have hclean := built_path_clean segs params (C10.keepsSlash op.template) hok hvals
  rw [hbuilt, hwire, hclean] at hrival
  have hkey : C01.convert (C01.fullPath api op) = renderSegs Seg.key segs := by
    rw [hfp]; exact convert_renderSegs segs hw
  have hl := lookup_own api i op segs params t hop hkey hw hv hbuild hrival
  unfold serverRoute C01.dispatch
  simp only [hbuilt, hwire, hclean, method_known api i op hop, ↓reduceIte, lookupUnder_ok _ hbuild, hl, hop,
    hfp, collect_own segs params hw hnd hv]

/-- **the values arrive unchanged**: each placeholder's parameter is the value the caller set -/
theorem expected_value (segs : List Seg) (params : List (Bytes × Bytes)) (hvals : valuesOk segs params = true)
    (n : Bytes) (hn : n ∈ phNames segs) :
    ∃ v, C10.lookupParam params n = some v ∧ (n, v) ∈ expected segs params := by
  obtain ⟨v, hv, _⟩ := valuesOk_of_bool hvals n hn
  refine ⟨v, hv, ?_⟩
  simp only [expected, List.mem_map]
  exact ⟨n, hn, by simp [hv]⟩

/-- **no rival in a single-operation API** (non-vacuity of `hrival`; with several operations the
hypothesis is the decidable test the driver evaluates on every case) -/
theorem noRival_single (api : C01.Api) (op : C01.Op) (p : Bytes) (h : api.ops = [op]) :
    noRival api 0 op p = true := by
  simp only [noRival, List.all_eq_true, Bool.not_eq_eq_eq_not, Bool.not_true]
  intro kv hkv
  obtain ⟨op', hop', _⟩ := C01.mem_recordsFor hkv
  have : kv.2 = 0 := by
    rw [h] at hop'
    cases hk : kv.2 with
    | zero => rfl
    | succ k => rw [hk] at hop'; simp at hop'
  simp [isRival, this]

/-- non-vacuity of the remaining hypotheses of `path_round_trip`: `GET /api/pets/{id}` with the value
`a/b c%` (that `Build` accepts such a table is evaluated by the correspondence stream on every run —
`convert` and `build` are defined by well-founded recursion and do not reduce in the kernel) -/
example (t : C05.Table)
    (hb : C05.build (C01.recordsFor ⟨[47, 97, 112, 105], [⟨[103, 101, 116], [47, 112, 101, 116, 115, 47, 123, 105, 100, 125]⟩]⟩
      (toUpper [103, 101, 116])) = .ok t) :
    serverRoute ⟨[47, 97, 112, 105], [⟨[103, 101, 116], [47, 112, 101, 116, 115, 47, 123, 105, 100, 125]⟩]⟩
        ⟨[103, 101, 116], [47, 112, 101, 116, 115, 47, 123, 105, 100, 125]⟩ [([105, 100], [97, 47, 98, 32, 99, 37])] =
      .ran 0 [([105, 100], [97, 47, 98, 32, 99, 37])] :=
  path_round_trip _ 0 _ [.lit [97, 112, 105], .lit [112, 101, 116, 115], .ph [105, 100]] _ t rfl
    (Or.inr (by decide)) (by decide) (by decide) (by decide)
    (by intro kv hkv; simp at hkv; subst hkv; decide) (by decide) hb (noRival_single _ _ _ rfl)

/-! ## known finding F04b -/

/-- **F04b is real in the model**: for the template `/é/{id}` and the value `1` the client builds
`/é/1`; the wire delivers it as `/%C3%A9/1` (the raw bytes of `é` are no valid path encoding, so
net/url re-encodes the path); the router's key for the template keeps the raw bytes, and the naive
matcher — hence, by C05's soundness, the router — does not accept the delivered path for it. -/
theorem f04b_real :
    litOk [195, 169] = false ∧ litOkLoose [195, 169] = true ∧
    wirePath [47, 195, 169, 47, 49] = [47, 37, 67, 51, 37, 65, 57, 47, 49] ∧
    C01.convert [47, 195, 169, 47, 123, 105, 100, 125] = [47, 195, 169, 47, 58, 105, 100] ∧
    C05.matchKey false ([47, 195, 169, 47, 58, 105, 100] ++ [C05.cTerm]) [47, 37, 67, 51, 37, 65, 57, 47, 49] = none := by
  refine ⟨by decide, by decide, by decide, ?_, ?_⟩
  · have h := convert_placeholder [105, 100] [] (by simp) (by decide) (Or.inl rfl)
    rw [convert_cons_ne 47 _ (by decide), convert_cons_ne 195 _ (by decide), convert_cons_ne 169 _ (by decide),
      convert_cons_ne 47 _ (by decide)]
    have e : ([123, 105, 100, 125] : Bytes) = C10.placeholder [105, 100] ++ [] := rfl
    rw [e, h, convert_nil]
    rfl
  · rw [List.cons_append, C05.matchKey_lit_cons false 47 47 _ _ (by decide) (by decide) (by decide)]
    simp only [beq_self_eq_true, ↓reduceIte]
    rw [List.cons_append, C05.matchKey_lit_cons false 195 37 _ _ (by decide) (by decide) (by decide)]
    rfl
end RtVerif.C04
