def hello := "world"
