import RtVerif.Base.Bytes
import RtVerif.Base.Verdict
import RtVerif.Base.Base64
import RtVerif.Gen.Facts
/-
  C14 — Credentials written by the client are exactly those the server checks.

  Model (three stages, each a transcription of Go code):

  * client: `client.BasicAuth / APIKeyAuth / BearerToken / Compose / PassThroughAuth`
    (client/auth_info.go) acting on `client.request` (`SetHeaderParam` stores under the canonical key
    and REPLACES, `SetQueryParam` replaces), and the `DefaultAuthentication` wrapper of
    `Runtime.createHttpRequest` (client/runtime.go);
  * transport (stdlib, a hand model that is ASSUMED and differentially validated — never proved):
    header lines, query string and form body arrive as they were set (`transport`);
  * server: `security.BasicAuth* / APIKeyAuth* / BearerAuth*` with the `HttpAuthenticator` /
    `ScopedAuthenticator` adapters (security/authenticator.go) and `http.Request.BasicAuth`
    (`parseBasicAuth`, net/http/request.go) reading a `View` of the request.

  The literals both sides must agree on (`Authorization`, `Basic `, `Bearer `, `access_token`,
  the form media types, the default realm, which accessor reads the form body) are regenerated from
  the source into `Facts` on every run.
-/
namespace RtVerif.C14
open RtVerif Bytes

/-! ## multimaps as association lists -/

abbrev Pairs := List (Bytes × Bytes)

/-- all values stored under `k`, in order (`h[k]`, `url.Values[k]`) -/
def values (m : Pairs) (k : Bytes) : List Bytes := (m.filter (·.1 == k)).map (·.2)

/-- `Header.Get` / `Values.Get`: the first value or `""` -/
def get1 (l : List Bytes) : Bytes := l.headD []

/-- `m[k] = []string{v}` -/
def setKey (m : Pairs) (k v : Bytes) : Pairs := m.filter (fun e => !(e.1 == k)) ++ [(k, v)]

/-! ## `http.CanonicalHeaderKey` (net/textproto; stdlib hand model, stream K) -/

/-- `validHeaderFieldByte`: RFC 7230 token characters -/
def isTokenByte (c : UInt8) : Bool :=
  (97 ≤ c && c ≤ 122) || (65 ≤ c && c ≤ 90) || (48 ≤ c && c ≤ 57) ||
  c == 33 || c == 35 || c == 36 || c == 37 || c == 38 || c == 39 || c == 42 || c == 43 ||
  c == 45 || c == 46 || c == 94 || c == 95 || c == 96 || c == 124 || c == 126

def canonGo : Bool → Bytes → Bytes
  | _, [] => []
  | upper, c :: r => (if upper then toUpperB c else toLowerB c) :: canonGo (c == 45) r

def canon (s : Bytes) : Bytes := if s.all isTokenByte then canonGo true s else s

/-! ## constants (regenerated facts) -/

def authKey : Bytes := canon Facts.c14AuthHeader
def accessToken : Bytes := Facts.c14AccessTokenParam
def colon : UInt8 := 58

/-! ## client -/

/-- `client.request` as far as credentials are concerned. `header` keys are canonical. -/
structure CReq where
  method : Bytes
  /-- consumes media type: 0 = application/json, 1 = urlencoded form, 2 = multipart form -/
  mtype : Nat
  header : Pairs
  query : Pairs
  form : Pairs
deriving Repr, DecidableEq, BEq

inductive Atom
  | pass                                              -- PassThroughAuth
  | fail                                              -- some writer that returns an error
  | basic (u p : Bytes)                               -- BasicAuth(u, p)
  | apiKey (name : Bytes) (inQuery : Bool) (value : Bytes)  -- APIKeyAuth(name, "query"|"header", value)
  | bearer (tok : Bytes)                              -- BearerToken(tok)
deriving Repr, DecidableEq, BEq

/-- `nil` entries of `Compose` (e.g. `APIKeyAuth` with an unknown location) are `none` -/
inductive Writer
  | atom (a : Atom)
  | compose (l : List (Option Atom))
deriving Repr, DecidableEq, BEq

/-- `client.APIKeyAuth(name, in, value)`: `nil` for any other location (compared as spelled) -/
def apiKeyAuth (name inn value : Bytes) : Option Atom :=
  if inn == [113, 117, 101, 114, 121] then some (.apiKey name true value)
  else if inn == [104, 101, 97, 100, 101, 114] then some (.apiKey name false value)
  else none

/-- header value written by `client.BasicAuth` -/
def basicValue (u p : Bytes) : Bytes :=
  Facts.c14ClientBasicPrefix ++ Base64.encode false (u ++ Facts.c14ClientBasicSep ++ p)

/-- header value written by `client.BearerToken` -/
def bearerValue (t : Bytes) : Bytes := Facts.c14ClientBearerPrefix ++ t

/-- one writer acting on the request; `none` = the writer returned an error -/
def applyAtom (r : CReq) : Atom → Option CReq
  | .pass => some r
  | .fail => none
  | .basic u p => some { r with header := setKey r.header authKey (basicValue u p) }
  | .apiKey n true v => some { r with query := setKey r.query n v }
  | .apiKey n false v => some { r with header := setKey r.header (canon n) v }
  | .bearer t => some { r with header := setKey r.header authKey (bearerValue t) }

/-- `Compose`: in order, `nil` skipped, first error returned -/
def applyAtoms (r : CReq) : List (Option Atom) → Option CReq
  | [] => some r
  | none :: l => applyAtoms r l
  | some a :: l =>
    match applyAtom r a with
    | none => none
    | some r' => applyAtoms r' l

def applyWriter (r : CReq) : Writer → Option CReq
  | .atom a => applyAtom r a
  | .compose l => applyAtoms r l

/-- `createHttpRequest` + `buildHTTP` as far as authentication goes: the operation's writer, else the
default wrapped so that it steps aside when `Authorization` already has a non-empty value. -/
def authenticate (op dflt : Option Writer) (r : CReq) : Option CReq :=
  match op with
  | some w => applyWriter r w
  | none =>
    match dflt with
    | none => some r
    | some d => if get1 (values r.header authKey) != [] then some r else applyWriter r d

/-! ## transport (stdlib: `Request.Write`, `ReadRequest`, `url.Values.Encode`/`ParseQuery`,
`ParseForm`/`ParseMultipartForm`) — assumed, validated by the correspondence -/

/-- what the server-side accessors return for the request -/
structure View where
  /-- `r.Header.Values("Authorization")` -/
  auth : List Bytes
  /-- `r.Header.Values(name)` for the API key name under test -/
  keyHdr : List Bytes
  /-- `r.URL.Query()[name]` -/
  keyQuery : List Bytes
  /-- `r.URL.Query()["access_token"]` -/
  tokQuery : List Bytes
  /-- `r.PostForm["access_token"]` after `ParseMultipartForm`: the BODY's values (urlencoded body of a
  POST/PUT/PATCH, or multipart body) -/
  tokBody : List Bytes
  /-- media type of `Content-Type` (`mime.ParseMediaType`), `""` when absent or malformed -/
  ctype : Bytes
deriving Repr, DecidableEq, BEq

def isPostLike (m : Bytes) : Bool :=
  m == [80, 79, 83, 84] || m == [80, 85, 84] || m == [80, 65, 84, 67, 72]   -- POST PUT PATCH

def jsonMime : Bytes := ofStr "application/json"

/-- the Content-Type `buildHTTP` ends up with (no payload: only form fields produce a body) -/
def clientCType (r : CReq) : Bytes :=
  if r.form.isEmpty then []
  else if r.mtype == 2 then Facts.c14MultipartMime
  else if r.mtype == 1 then Facts.c14UrlencodedMime
  else [97, 112, 112, 108, 105, 99, 97, 116, 105, 111, 110, 47, 106, 115, 111, 110]

/-- the body form values net/http hands out: multipart always, urlencoded for POST/PUT/PATCH only -/
def bodyForm (r : CReq) (k : Bytes) : List Bytes :=
  if r.form.isEmpty then []
  else if r.mtype == 2 then values r.form k
  else if r.mtype == 1 && isPostLike r.method then values r.form k
  else []

/-- optional whitespace around a header field value is not part of it (RFC 7230 §3.2.4): `Request.Write`
trims it (`textproto.TrimString`), and so does the reader -/
def isOWS (c : UInt8) : Bool := c == 32 || c == 9
def trimRight (s : Bytes) : Bytes := (s.reverse.dropWhile isOWS).reverse
def trimOWS (s : Bytes) : Bytes := trimRight (s.dropWhile isOWS)

def transport (r : CReq) (keyName : Bytes) : View :=
  { auth := (values r.header authKey).map trimOWS
    keyHdr := (values r.header (canon keyName)).map trimOWS
    keyQuery := values r.query keyName
    tokQuery := values r.query accessToken
    tokBody := bodyForm r accessToken
    ctype := clientCType r }

/-! ## server -/

/-- `strings.Cut(s, ":")` -/
def cut (s : Bytes) (c : UInt8) : Option (Bytes × Bytes) :=
  if s.contains c then some (s.takeWhile (· != c), (s.dropWhile (· != c)).drop 1) else none

def basicPrefix : Bytes := [66, 97, 115, 105, 99, 32]  -- "Basic " (net/http, not go-openapi)

/-- `parseBasicAuth` (net/http/request.go) -/
def parseBasicAuth (auth : Bytes) : Option (Bytes × Bytes) :=
  if auth.length < basicPrefix.length || !(equalFold (auth.take basicPrefix.length) basicPrefix) then none
  else
    match Base64.decode false (auth.drop basicPrefix.length) with
    | none => none
    | some cs => cut cs colon

inductive ParamKind
  | plain                      -- `*http.Request`
  | scopedReq (scopes : List Bytes)  -- `*security.ScopedAuthRequest`
  | other                      -- anything else
deriving Repr, DecidableEq, BEq

inductive Server
  | basic (realm : Option Bytes) (ctx : Bool)   -- `none`: BasicAuth / BasicAuthCtx (no realm argument)
  | apiKey (name inn : Bytes) (ctx : Bool)
  | bearer (name : Bytes) (ctx : Bool)
deriving Repr, DecidableEq, BEq

/-- the application's callback: (arguments, scopes) ↦ (principal, error?) ; `[]` is the nil principal -/
abbrev Callback := List Bytes → List Bytes → Bytes × Bool

structure SOut where
  applies : Bool
  principal : Bytes
  err : Bool
  /-- what the callback received (`none`: it was not called) -/
  called : Option (List Bytes × List Bytes)
  failedBasic : Bytes := []
  oauthName : Bytes := []
deriving Repr, DecidableEq, BEq

def notApplicable : SOut := { applies := false, principal := [], err := false, called := none }

def realmOf : Option Bytes → Bytes
  | none => Facts.c14DefaultRealm
  | some r => if r.isEmpty then Facts.c14DefaultRealm else r

/-- `BasicAuthRealm` / `BasicAuthRealmCtx` inside `HttpAuthenticator` -/
def serveBasic (realm : Bytes) (cb : Callback) (v : View) : SOut :=
  match parseBasicAuth (get1 v.auth) with
  | some (u, p) =>
    { applies := true, principal := (cb [u, p] []).1, err := (cb [u, p] []).2, called := some ([u, p], []),
      failedBasic := if (cb [u, p] []).2 then realm else [] }
  | none => { notApplicable with failedBasic := realm }

/-- `APIKeyAuth` / `APIKeyAuthCtx` after the location check -/
def serveApiKey (inHeader : Bool) (cb : Callback) (v : View) : SOut :=
  let token := if inHeader then get1 v.keyHdr else get1 v.keyQuery
  if token.isEmpty then notApplicable
  else { applies := true, principal := (cb [token] []).1, err := (cb [token] []).2, called := some ([token], []) }

def srvBearerPrefix (ctx : Bool) : Bytes :=
  if ctx then Facts.c14ServerBearerPrefixCtx else Facts.c14ServerBearerPrefix

def srvFormMode (ctx : Bool) : Nat :=
  if ctx then Facts.c14ServerFormModeCtx else Facts.c14ServerFormMode

/-- `if strings.HasPrefix(hdr, prefix) { token = strings.TrimPrefix(hdr, prefix) }` -/
def bearerFromHeader (ctx : Bool) (hdr : Bytes) : Bytes :=
  if hasPrefix hdr (srvBearerPrefix ctx) then hdr.drop (srvBearerPrefix ctx).length else []

/-- `runtime.ContentType(r.Header)` media type (absent header: `DefaultMime`) -/
def serverCT (v : View) : Bytes := if v.ctype.isEmpty then Facts.c14DefaultMime else v.ctype

def isFormCT (ct : Bytes) : Bool := ct == Facts.c14UrlencodedMime || ct == Facts.c14MultipartMime

/-- the body lookup: `PostFormValue` reads the body's values; `FormValue` reads `r.Form`, in which
net/http puts a urlencoded body BEFORE the query values and a multipart body AFTER them -/
def formLookup (mode : Nat) (v : View) : Bytes :=
  if mode == 0 then get1 v.tokBody
  else if serverCT v == Facts.c14MultipartMime then get1 (v.tokQuery ++ v.tokBody)
  else get1 (v.tokBody ++ v.tokQuery)

def tokenAfterQuery (ctx : Bool) (v : View) : Bytes :=
  if (bearerFromHeader ctx (get1 v.auth)).isEmpty then get1 v.tokQuery else bearerFromHeader ctx (get1 v.auth)

/-- the token `BearerAuth` / `BearerAuthCtx` settle on (`""`: none) -/
def bearerToken (ctx : Bool) (v : View) : Bytes :=
  if (tokenAfterQuery ctx v).isEmpty && isFormCT (serverCT v) then formLookup (srvFormMode ctx) v
  else tokenAfterQuery ctx v

def serveBearer (name : Bytes) (ctx : Bool) (scopes : List Bytes) (cb : Callback) (v : View) : SOut :=
  if (bearerToken ctx v).isEmpty then notApplicable
  else
    { applies := true, principal := (cb [bearerToken ctx v] scopes).1, err := (cb [bearerToken ctx v] scopes).2,
      called := some ([bearerToken ctx v], scopes), oauthName := name }

inductive SrvResult
  | panic            -- APIKeyAuth with a location that is neither query nor header
  | out (o : SOut)
deriving Repr, DecidableEq, BEq

/-- constructing the authenticator and calling `Authenticate(params)` -/
def serve (srv : Server) (pk : ParamKind) (cb : Callback) (v : View) : SrvResult :=
  match srv with
  | .basic realm _ =>
    match pk with
    | .other => .out notApplicable
    | _ => .out (serveBasic (realmOf realm) cb v)
  | .apiKey _ inn _ =>
    if toLower inn == Facts.c14ServerInHeader then
      match pk with
      | .other => .out notApplicable
      | _ => .out (serveApiKey true cb v)
    else if toLower inn == Facts.c14ServerInQuery then
      match pk with
      | .other => .out notApplicable
      | _ => .out (serveApiKey false cb v)
    else .panic
  | .bearer name ctx =>
    match pk with
    | .scopedReq scopes => .out (serveBearer name ctx scopes cb v)
    | _ => .out notApplicable

/-! ## whole pipeline -/

structure Input where
  pre : CReq                 -- the request after the operation's parameters were written
  op : Option Writer         -- `ClientOperation.AuthInfo`
  dflt : Option Writer       -- `Runtime.DefaultAuthentication`
  srv : Server
  pk : ParamKind
deriving Repr

def Server.keyName : Server → Bytes
  | .apiKey n _ _ => n
  | _ => []

/-- the view the harness observes: API key fields only for an API key authenticator -/
def observe (srv : Server) (r : CReq) : View :=
  match srv with
  | .apiKey n _ _ => transport r n
  | _ => { transport r [] with keyHdr := [], keyQuery := [] }

inductive Outcome
  | createErr                         -- `CreateHttpRequest` returned an error
  | done (v : View) (s : SrvResult)
deriving Repr, DecidableEq, BEq

def pipeline (i : Input) (cb : Callback) : Outcome :=
  match authenticate i.op i.dflt i.pre with
  | none => .createErr
  | some r => .done (observe i.srv r) (serve i.srv i.pk cb (observe i.srv r))

/-! ## Spec (from the property text, not from the code)

"Credentials attached by the client's basic, API-key (header or query) and bearer writers are
recovered exactly by the corresponding server authenticators, which hand the application's callback
precisely the transmitted user and password or token together with the operation's required
scopes, report 'not applicable' exactly when the request carries no such credential, and never
return a principal other than the callback's. Bearer tokens are taken from the Authorization
header, else the access_token query parameter, else the form body, in that precedence, and a
transport-wide default credential is applied only when the operation has none of its own and no
Authorization header is already set."

Readings: "the X header / parameter / form field" is its FIRST value (the `Get` convention of
net/http and net/url); an empty value is no credential; a Basic credential is RFC 7617's
`Basic` (any case) SP base64(user ":" password) with the user up to the first colon; a Bearer
credential in the header is `Bearer` SP token exactly as `client.BearerToken` spells the scheme
(any other first word — including `bearer` — is "another scheme"); "the form body" is what net/http
parsed from the BODY (`PostForm`), so the query string is not part of it; "an Authorization header
is already set" means it has a non-empty first value. -/

/-! ### the property's vocabulary, spelled out (independent of the code's constants) -/

/-- "Authorization" (already in canonical header form) -/
def sAuthorization : Bytes := [65, 117, 116, 104, 111, 114, 105, 122, 97, 116, 105, 111, 110]
/-- "access_token" -/
def sAccessToken : Bytes := [97, 99, 99, 101, 115, 115, 95, 116, 111, 107, 101, 110]
/-- "header" / "query": the two API key locations -/
def sHeader : Bytes := [104, 101, 97, 100, 101, 114]
def sQuery : Bytes := [113, 117, 101, 114, 121]
/-- "application/x-www-form-urlencoded" / "multipart/form-data" -/
def sUrlencoded : Bytes := [97, 112, 112, 108, 105, 99, 97, 116, 105, 111, 110, 47, 120, 45, 119, 119, 119, 45, 102, 111, 114, 109, 45, 117, 114, 108, 101, 110, 99, 111, 100, 101, 100]
def sMultipart : Bytes := [109, 117, 108, 116, 105, 112, 97, 114, 116, 47, 102, 111, 114, 109, 45, 100, 97, 116, 97]

/-- a non-empty first value, if any -/
def nonEmptyFirst (l : List Bytes) : Option Bytes :=
  match l with
  | [] => none
  | x :: _ => if x.isEmpty then none else some x

/-- RFC 7617 credential carried by an `Authorization` value (decidable form; characterised by
`carriedBasic_iff` in Props) -/
def carriedBasic (auth : Bytes) : Option (Bytes × Bytes) :=
  if equalFold (auth.take 6) [66, 97, 115, 105, 99, 32] then
    (Base64.decode false (auth.drop 6)).bind fun cs =>
      if cs.contains 58 then some (cs.takeWhile (· != 58), (cs.dropWhile (· != 58)).drop 1) else none
  else none

/-- RFC 6750 credential carried by an `Authorization` value: `Bearer ` followed by a non-empty token -/
def carriedBearer (auth : Bytes) : Option Bytes :=
  if [66, 101, 97, 114, 101, 114, 32].isPrefixOf auth ∧ auth.length > 7 then some (auth.drop 7) else none

def firstSome {α} : List (Option α) → Option α
  | [] => none
  | some x :: _ => some x
  | none :: l => firstSome l

/-- the bearer token a request carries: header, else query, else form body -/
def specBearer (v : View) : Option Bytes :=
  firstSome [carriedBearer (get1 v.auth), nonEmptyFirst v.tokQuery, nonEmptyFirst v.tokBody]

/-- the credential "of this kind" the request carries, as the callback's argument list -/
def specCred (srv : Server) (v : View) : Option (List Bytes) :=
  match srv with
  | .basic _ _ => (carriedBasic (get1 v.auth)).map fun up => [up.1, up.2]
  | .apiKey _ inn _ =>
    (nonEmptyFirst (if toLower inn == sHeader then v.keyHdr else v.keyQuery)).map fun t => [t]
  | .bearer _ _ => (specBearer v).map fun t => [t]

/-- does the property speak about this (authenticator, parameter) pair?  `some scopes`: yes, and these
are the scopes the callback must see (`[]` for callbacks without a scopes argument) -/
def specScopes (srv : Server) (pk : ParamKind) : Option (List Bytes) :=
  match srv, pk with
  | .basic _ _, .plain => some []
  | .basic _ _, .scopedReq _ => some []
  | .apiKey _ inn _, .plain => if toLower inn == sHeader || toLower inn == sQuery then some [] else none
  | .apiKey _ inn _, .scopedReq _ => if toLower inn == sHeader || toLower inn == sQuery then some [] else none
  | .bearer _ _, .scopedReq s => some s
  | _, _ => none

/-- server half: exactly the carried credential reaches the callback, with the required scopes;
'not applicable' exactly when none is carried; the principal and error are the callback's. -/
def specServer (srv : Server) (pk : ParamKind) (cb : Callback) (v : View) (o : SOut) : Bool :=
  -- never a principal other than the callback's
  (match o.called with
   | none => !o.applies && o.principal.isEmpty && !o.err
   | some (a, s) => o.applies && o.principal == (cb a s).1 && o.err == (cb a s).2) &&
  (match specScopes srv pk with
   | none => true
   | some scopes =>
     match specCred srv v with
     | none => !o.applies && o.called == none
     | some cred => o.applies && o.called == some (cred, scopes))

/-- where a writer puts its credential: header (canonical name) or query parameter -/
inductive Place
  | hdr (k : Bytes)
  | qry (k : Bytes)
deriving Repr, DecidableEq

def Atom.place : Atom → Option Place
  | .basic _ _ => some (.hdr sAuthorization)
  | .bearer _ => some (.hdr sAuthorization)
  | .apiKey n true _ => some (.qry n)
  | .apiKey n false _ => some (.hdr (canon n))
  | _ => none

def Writer.atoms : Writer → List Atom
  | .atom a => [a]
  | .compose l => l.filterMap id

/-- the default rule: the operation's own writer if it has one; else the default, unless an
Authorization header is already set; else nothing -/
def specEffective (i : Input) : List Atom :=
  match i.op with
  | some w => w.atoms
  | none =>
    match i.dflt with
    | none => []
    | some d => if (nonEmptyFirst (values i.pre.header (sAuthorization))).isSome then [] else d.atoms

/-- the last writer aiming at a place wins (each `Set…Param` replaces) -/
def lastAt (p : Place) : List Atom → Option Atom
  | [] => none
  | a :: l =>
    match lastAt p l with
    | some b => some b
    | none => if a.place = some p then some a else none

/-- a header field value proper: no optional whitespace at either end (HTTP strips it) -/
def fieldValue (v : Bytes) : Bool :=
  match v with
  | [] => true
  | c :: _ => !(c == 32 || c == 9) && !(v.getLast?.any fun z => z == 32 || z == 9)

/-- HTTP's view of a header value that was set: surrounding optional whitespace dropped -/
def stripOWS (v : Bytes) : Bytes :=
  ((v.dropWhile fun c => c == 32 || c == 9).reverse.dropWhile fun c => c == 32 || c == 9).reverse

/-- client half at one visible place: the value list the server sees there (`seen`) against what the
parameters had put there (`preset`) -/
def specPlace (eff : List Atom) (p : Place) (preset seen : List Bytes) : Bool :=
  match lastAt p eff with
  | none => seen == preset                                    -- nothing is added or removed
  | some (.basic u p) => u.contains 58 || carriedBasic (get1 seen) == some (u, p)
  | some (.bearer t) => t.isEmpty || !fieldValue t || carriedBearer (get1 seen) == some t
  | some (.apiKey _ true v) => seen == [v]
  | some (.apiKey _ false v) => seen == [stripOWS v]
  | some _ => true

def specClient (i : Input) (v : View) : Bool :=
  let eff := specEffective i
  let n := i.srv.keyName
  specPlace eff (.hdr sAuthorization) ((values i.pre.header sAuthorization).map stripOWS) v.auth &&
  specPlace eff (.qry sAccessToken) (values i.pre.query sAccessToken) v.tokQuery &&
  (match i.srv with
   | .apiKey _ _ _ =>
     specPlace eff (.hdr (canon n)) ((values i.pre.header (canon n)).map stripOWS) v.keyHdr &&
     specPlace eff (.qry n) (values i.pre.query n) v.keyQuery
   | _ => true)

def Atom.isFail : Atom → Bool
  | .fail => true
  | _ => false

/-- a writer in effect returned an error: no request may be sent -/
def specFails (i : Input) : Bool := (specEffective i).any Atom.isFail

/-- stdlib invariant of a view (what `PostForm` can hold given the Content-Type) -/
def View.wf (v : View) : Bool :=
  v.tokBody.isEmpty || v.ctype == sUrlencoded || v.ctype == sMultipart

def specOk (i : Input) (cb : Callback) : Outcome → Bool
  | .createErr => specFails i
  | .done v (.out o) => !specFails i && specClient i v && specServer i.srv i.pk cb v o
  | .done v .panic => !specFails i && specClient i v && (specScopes i.srv i.pk).isNone

/-! ## Driver entry -/

def tagOf (s : String) : Bytes := ofStr s

def parseAtomsAux : Nat → List Bytes → Option (List (Option Atom))
  | 0, _ => none
  | _, [] => some []
  | fuel + 1, t :: r =>
    if t == tagOf "nil" then (parseAtomsAux fuel r).map (none :: ·)
    else if t == tagOf "pass" then (parseAtomsAux fuel r).map (some .pass :: ·)
    else if t == tagOf "fail" then (parseAtomsAux fuel r).map (some .fail :: ·)
    else if t == tagOf "bearer" then
      match r with
      | tok :: r' => (parseAtomsAux fuel r').map (some (.bearer tok) :: ·)
      | _ => none
    else if t == tagOf "basic" then
      match r with
      | u :: p :: r' => (parseAtomsAux fuel r').map (some (.basic u p) :: ·)
      | _ => none
    else if t == tagOf "apikey" then
      match r with
      | n :: i :: v :: r' => (parseAtomsAux fuel r').map (apiKeyAuth n i v :: ·)
      | _ => none
    else none

def parseAtoms (l : List Bytes) : Option (List (Option Atom)) := parseAtomsAux (l.length + 1) l

/-- `.` = nil writer; `compose,…` = `Compose(…)`; otherwise a single writer (an `apikey` with an
unknown location is the nil writer, as in Go) -/
def parseWriter (l : List Bytes) : Option (Option Writer) :=
  match l with
  | [] => some none
  | t :: r =>
    if t == tagOf "compose" then (parseAtoms r).map fun as => some (.compose as)
    else
      match parseAtoms l with
      | some [some a] => some (some (.atom a))
      | some [none] => some none
      | _ => none

def parseServer (l : List Bytes) : Option Server :=
  match l with
  | [k, ctx] => if k == tagOf "basic" then some (.basic none (ctx == tagOf "ctx")) else none
  | [k, a, ctx] =>
    if k == tagOf "basicrealm" then some (.basic (some a) (ctx == tagOf "ctx"))
    else if k == tagOf "bearer" then some (.bearer a (ctx == tagOf "ctx"))
    else none
  | [k, a, b, ctx] => if k == tagOf "apikey" then some (.apiKey a b (ctx == tagOf "ctx")) else none
  | _ => none

def zipPairs (ks vs : List Bytes) : Pairs := ks.zip vs

def mkInput (method : Bytes) (mtype : Nat) (hk hv qk qv fk fv : List Bytes) (op dflt : Option Writer)
    (srv : Server) (pk : ParamKind) : Input :=
  { pre := { method := method, mtype := mtype, header := (zipPairs hk hv).map fun e => (canon e.1, e.2),
             query := zipPairs qk qv, form := zipPairs fk fv },
    op := op, dflt := dflt, srv := srv, pk := pk }

def renderView (v : View) : List String :=
  [encList v.auth, encList v.keyHdr, encList v.keyQuery, encList v.tokQuery, encList v.tokBody, encField v.ctype]

def bit (b : Bool) : String := if b then "1" else "0"

def renderOut (o : SOut) : List String :=
  [bit o.applies, encField o.principal, bit o.err] ++
  (match o.called with
   | none => ["0", ".", "."]
   | some (a, s) => ["1", encList a, encList s]) ++
  [encField o.failedBasic, encField o.oauthName]

def renderOutcome : Outcome → List String
  | .createErr => ["CREATEERR"]
  | .done v .panic => renderView v ++ ["SRVPANIC"]
  | .done v (.out o) => renderView v ++ renderOut o

def parseView : List String → Option View
  | [a, kh, kq, tq, tb, ct] => do
    pure { auth := ← decList a, keyHdr := ← decList kh, keyQuery := ← decList kq, tokQuery := ← decList tq,
           tokBody := ← decList tb, ctype := ← decField ct }
  | _ => none

def parseBit (s : String) : Option Bool := if s == "1" then some true else if s == "0" then some false else none

def parseOut : List String → Option SOut
  | [ap, pr, er, cl, args, scopes, fb, oa] => do
    let called ← parseBit cl
    let a ← decList args
    let s ← decList scopes
    pure { applies := ← parseBit ap, principal := ← decField pr, err := ← parseBit er,
           called := if called then some (a, s) else none, failedBasic := ← decField fb, oauthName := ← decField oa }
  | _ => none

def parseOutcome (outs : List String) : Option Outcome :=
  match outs with
  | ["CREATEERR"] => some .createErr
  | _ =>
    match parseView (outs.take 6) with
    | none => none
    | some v =>
      if outs.drop 6 == ["SRVPANIC"] then some (.done v .panic)
      else (parseOut (outs.drop 6)).map fun o => .done v (.out o)

def srvTag : Server → String
  | .basic none c => if c then "basicCtx" else "basic"
  | .basic (some _) c => if c then "basicRealmCtx" else "basicRealm"
  | .apiKey _ i c => "apikey-" ++ (if toLower i == sHeader then "hdr" else if toLower i == sQuery then "qry" else "bad") ++ (if c then "Ctx" else "")
  | .bearer _ c => if c then "bearerCtx" else "bearer"

/-- which placement the bearer model took the token from -/
def bearerSource (ctx : Bool) (v : View) : String :=
  let h := !(bearerFromHeader ctx (get1 v.auth)).isEmpty
  let q := !(get1 v.tokQuery).isEmpty
  let f := !(get1 v.tokBody).isEmpty
  let other := !(get1 v.auth).isEmpty && !h
  let src := if h then "hdr" else if q then "query" else if f then (if v.ctype == Facts.c14MultipartMime then "mpform" else "urlform") else "none"
  let extra := (if h && q then "+q" else "") ++ (if (h || q) && f then "+f" else "") ++ (if other then "+otherscheme" else "")
  src ++ extra

def effTag (i : Input) : String :=
  match i.op, i.dflt with
  | some _, some _ => "own>dflt"
  | some _, none => "own"
  | none, some _ => if get1 (values i.pre.header authKey) != [] then "dflt-skipped" else "dflt-applied"
  | none, none => "noauth"

def branchTag (i : Input) (o : Outcome) : String :=
  match o with
  | .createErr => "createErr"
  | .done _ .panic => "srvpanic"
  | .done v (.out so) =>
    let app := if so.applies then (if so.err then "cberr" else "ok") else "na"
    let detail := match i.srv with
      | .bearer _ c => ":" ++ bearerSource c v
      | _ => ""
    let pk := match i.pk with | .plain => "" | .scopedReq _ => "" | .other => ":otherparam"
    -- the default rule's branch is part of the tag only where a default is configured
    let eff := if i.dflt.isSome then ":" ++ effTag i else ""
    s!"{srvTag i.srv}:{app}{detail}{pk}{eff}"

def parseNat (s : String) : Option Nat := s.toNat?

def runR (ins outs : List String) : Verdict :=
  match ins with
  | [method, mtype, hk, hv, qk, qv, fk, fv, op, dflt, srv, pk, scopes, pid, cberr] =>
    let parsed : Option (Input × Callback) := do
      let m ← decField method
      let mt ← parseNat mtype
      let hk ← decList hk; let hv ← decList hv; let qk ← decList qk; let qv ← decList qv
      let fk ← decList fk; let fv ← decList fv
      let opw ← parseWriter (← decList op)
      let dw ← parseWriter (← decList dflt)
      let s ← parseServer (← decList srv)
      let sc ← decList scopes
      let k ← (if pk == "0" then some ParamKind.plain else if pk == "1" then some (ParamKind.scopedReq sc)
               else if pk == "2" then some ParamKind.other else none)
      let p ← decField pid
      let e ← parseBit cberr
      pure (mkInput m mt hk hv qk qv fk fv opw dw s k, fun _ _ => (p, e))
    match parsed with
    | none =>
      -- not an input the generator can produce (only the shrinker gets here): nothing to judge
      { agree := true, specOk := true, tag := "~unparsable-input", model := "" }
    | some (i, cb) =>
      let m := pipeline i cb
      match parseOutcome outs with
      | none =>
        (match outs with
         | ["PANIC", msg] => { agree := false, specOk := false, tag := "panic", model := "no panic expected; impl: " ++ msg }
         | _ => .bad "R output fields")
      | some impl =>
        let wfOk := match impl with | .done v _ => v.wf | _ => true
        let trivial := match m with
          | .done _ (.out so) => !so.applies && i.op.isNone && i.dflt.isNone && i.pre.header.isEmpty && i.pre.query.isEmpty && i.pre.form.isEmpty
          | _ => false
        { agree := m == impl && wfOk, specOk := specOk i cb impl,
          tag := (if trivial then "~" else "") ++ branchTag i m, model := " ".intercalate (renderOutcome m) }
  | _ => { agree := true, specOk := true, tag := "~unparsable-input", model := "" }

def runB (ins outs : List String) : Verdict :=
  match ins, outs with
  | [url, "E", data], [enc] =>
    match decField data, decField enc with
    | some d, some e =>
      let u := url == "1"
      let m := Base64.encode u d
      -- the library's own law, judged on what Go produced: decoding Go's encoding gives the input back
      { agree := m == e, specOk := Base64.decode u e == some d,
        tag := s!"B:enc:{if u then "url" else "std"}:len%3={d.length % 3}", model := encField m }
    | _, _ => .bad "B fields"
  | [url, "D", data], [ok, dec] =>
    match decField data, decField dec with
    | some d, some e =>
      let u := url == "1"
      let m := Base64.decode u d
      let rendered := match m with | some x => "1 " ++ encField x | none => "0 -"
      { agree := rendered == ok ++ " " ++ encField e, specOk := true,
        tag := s!"B:dec:{if u then "url" else "std"}:{match m with | some _ => "ok" | none => "corrupt"}", model := rendered }
    | _, _ => .bad "B fields"
  | _, _ => .bad "B arity"

def runK (ins outs : List String) : Verdict :=
  match ins, outs with
  | [name], [c] =>
    match decField name, decField c with
    | some n, some e =>
      { agree := canon n == e, specOk := true,
        tag := (if n.all isTokenByte then "K:token" else "K:invalid"), model := encField (canon n) }
    | _, _ => .bad "K fields"
  | _, _ => .bad "K arity"

def run (ins outs : List String) : Verdict :=
  match ins with
  | "R" :: rest => runR rest outs
  | "B" :: rest => runB rest outs
  | "K" :: rest => runK rest outs
  | _ => .bad "C14 stream"

end RtVerif.C14
